// Command c09: correspondence / property harness for C09 — coin.Transaction.Verify,
// VerifyUnsigned, VerifyInputSignatures and DeserializeTransaction.
package main

import (
	"os"
	"encoding/json"
	"bytes"
	"encoding/binary"
	"fmt"
	"math/big"
	"strings"

	. "verif/harness/kit"

	"github.com/skycoin/skycoin/src/cipher"
	"github.com/skycoin/skycoin/src/cipher/encoder"
	"github.com/skycoin/skycoin/src/coin"
)

func main() { Main(run) }

// ---- replay support: `-extra replay=<file>` regenerates the stored run (same seed / tier / budget,
// passed by the driver) and keeps only the stored case of the stored group
type replaySel struct {
	group string
	idx   int
}

func parseReplay(extra string) (*replaySel, error) {
	if !strings.HasPrefix(extra, "replay=") {
		return nil, nil
	}
	raw, err := os.ReadFile(strings.TrimPrefix(extra, "replay="))
	if err != nil {
		return nil, err
	}
	var r struct {
		Group string                 `json:"group"`
		Case  map[string]interface{} `json:"case"`
	}
	if err := json.Unmarshal(raw, &r); err != nil {
		return nil, err
	}
	idx, ok := r.Case["idx"].(float64)
	if !ok {
		return nil, fmt.Errorf("replay file has no case index")
	}
	return &replaySel{r.Group, int(idx)}, nil
}

// keep returns the items of one group as they go to the cases file
func (s *replaySel) keep(group string, items []string) []string {
	if s == nil {
		return items
	}
	if group == s.group && s.idx < len(items) {
		return items[s.idx : s.idx+1]
	}
	return nil
}
func (s *replaySel) keepJSON(m map[string][]map[string]interface{}) map[string][]map[string]interface{} {
	if s == nil {
		return m
	}
	out := map[string][]map[string]interface{}{}
	if cs := m[s.group]; s.idx < len(cs) {
		out[s.group] = cs[s.idx : s.idx+1]
	}
	return out
}


type key struct {
	sec  cipher.SecKey
	addr cipher.Address
}

type gen struct {
	r      *Rng
	keys   []key
	addrs  []cipher.Address // destination pool (key addresses + foreign ones)
	addrID map[cipher.Address]int
}

func (g *gen) aid(a cipher.Address) int {
	if id, ok := g.addrID[a]; ok {
		return id
	}
	id := len(g.addrID) + 1
	g.addrID[a] = id
	return id
}


func errText(err error) string {
	if err == nil {
		return ""
	}
	if err == encoder.ErrMaxLenExceeded {
		return "ErrMaxLenExceeded"
	}
	return err.Error()
}

// names of the error texts defined in Model/TxVerify.v; an unknown text is printed as a literal
var errConst = map[string]string{
	"No inputs": "E_no_inputs", "No outputs": "E_no_outputs", "Invalid number of signatures": "E_sig_count",
	"Too many signatures and inputs": "E_too_many_sigs", "Too many ouptuts": "E_too_many_outs",
	"Duplicate spend": "E_dup_spend", "transaction type invalid": "E_type", "Zero coin output": "E_zero_coin",
	"Output coins overflow": "E_coins_overflow", "ErrMaxLenExceeded": "E_maxlen", "Incorrect transaction length": "E_length",
	"Duplicate output in transaction": "E_dup_output", "InnerHash does not match computed hash": "E_inner",
	"Unsigned input in transaction": "E_unsigned_input", "Unsigned transaction must contain a null signature": "E_no_null",
	"Signature not valid for output being spent": "E_sig_owner",
	"Failed to recover pubkey from signature": "E_sig_recover", "Signature not valid for hash": "E_sig_hash",
}

func errTerm(msg string) string {
	if msg == "" {
		return "None"
	}
	if c, ok := errConst[msg]; ok {
		return "(Some " + c + ")"
	}
	return OptErr(msg)
}

func resErr(panicked bool, err error) string {
	if panicked {
		return "Panic"
	}
	return "(Val " + errTerm(errText(err)) + ")"
}

// per-case id table for 32-byte values (injective by construction): the model
// only compares them for equality
type idtab map[cipher.SHA256]int

func (m idtab) id(h cipher.SHA256) string {
	v, ok := m[h]
	if !ok {
		v = len(m) + 1
		m[h] = v
	}
	return fmt.Sprint(v)
}

// a generated transaction together with the unspent outputs its inputs refer to
type tcase struct {
	txn    coin.Transaction
	ux     []coin.UxOut // parallel to txn.In when the generator built them (may be shorter/longer after mutation)
	owner  []int        // key index owning ux[i]
	labels []string
}

func (g *gen) newUx(owner int) coin.UxOut {
	r := g.r
	var src cipher.SHA256
	copy(src[:], r.Bytes(32))
	return coin.UxOut{
		Head: coin.UxHead{Time: r.U64() % 2000000000, BkSeq: r.U64() % 100000},
		Body: coin.UxBody{SrcTransaction: src, Address: g.keys[owner].addr, Coins: 1 + r.U64()%1000000000, Hours: r.U64() % 1000000},
	}
}

func (g *gen) base() *tcase {
	r := g.r
	nin := []int{1, 1, 2, 2, 3, 4, 6, 8}[r.Intn(8)]
	nout := []int{1, 2, 2, 3, 4, 5}[r.Intn(6)]
	c := &tcase{}
	for i := 0; i < nin; i++ {
		o := r.Intn(len(g.keys))
		if i > 0 && r.Chance(30) { // several inputs of one owner
			o = c.owner[0]
		}
		ux := g.newUx(o)
		c.ux = append(c.ux, ux)
		c.owner = append(c.owner, o)
		c.txn.In = append(c.txn.In, ux.Hash())
	}
	for i := 0; i < nout; i++ {
		coins := 1 + r.U64()%1000000000000
		if r.Chance(15) {
			coins = r.U64Edge()>>uint(2+r.Intn(8)) + 1
		}
		hours := r.U64Edge()
		if r.Chance(50) {
			hours = r.U64() % 100000
		}
		c.txn.Out = append(c.txn.Out, coin.TransactionOutput{Address: g.addrs[r.Intn(len(g.addrs))], Coins: coins, Hours: hours})
	}
	return c
}

// header sets Length/Type/InnerHash from the content when that is possible
func header(t *coin.Transaction) {
	Guard(func() {
		if err := t.UpdateHeader(); err != nil {
			t.Type = 0
		}
	})
}

// sign (re)creates the signature array: mode 0 full, 1 none (all null), 2 partial
func (g *gen) sign(c *tcase, mode int) {
	t := &c.txn
	t.Sigs = make([]cipher.Sig, len(t.In))
	for i := range t.In {
		if mode == 1 || (mode == 2 && g.r.Bool()) {
			continue
		}
		k := g.keys[0]
		if i < len(c.owner) {
			k = g.keys[c.owner[i]]
		}
		h := cipher.AddSHA256(t.InnerHash, t.In[i])
		Guard(func() { t.Sigs[i] = cipher.MustSignHash(h, k.sec) })
	}
	if mode == 2 && len(t.Sigs) > 0 && g.r.Chance(60) { // make sure at least one is null in most partial cases
		t.Sigs[g.r.Intn(len(t.Sigs))] = cipher.Sig{}
	}
}

var contentMut = []string{"noin", "noout", "sigcount", "dupin", "dupout", "zero", "overflow", "nearout", "none"}
var headerMut = []string{"type", "len", "inner"}
var sigMut = []string{"sigcorrupt", "signull", "sigswap", "sigrand", "sighigh", "wrongkey", "sigcopy"}

func (g *gen) mutate(c *tcase, m string) {
	r := g.r
	t := &c.txn
	c.labels = append(c.labels, m)
	switch m {
	case "noin":
		t.In = nil
		c.ux, c.owner = nil, nil
		if r.Bool() {
			t.Sigs = nil
		}
	case "noout":
		t.Out = nil
	case "sigcount":
		if len(t.Sigs) > 0 && r.Bool() {
			t.Sigs = t.Sigs[:len(t.Sigs)-1]
		} else {
			var s cipher.Sig
			if r.Bool() {
				copy(s[:], r.Bytes(65))
			}
			t.Sigs = append(t.Sigs, s)
		}
	case "dupin":
		if len(t.In) == 0 {
			return
		}
		i := r.Intn(len(t.In))
		if len(t.In) >= 2 && r.Bool() {
			j := (i + 1 + r.Intn(len(t.In)-1)) % len(t.In)
			t.In[j] = t.In[i]
			if j < len(c.ux) && i < len(c.ux) {
				c.ux[j], c.owner[j] = c.ux[i], c.owner[i]
			}
		} else {
			t.In = append(t.In, t.In[i])
			if i < len(c.ux) {
				c.ux = append(c.ux, c.ux[i])
				c.owner = append(c.owner, c.owner[i])
			}
			t.Sigs = append(t.Sigs, cipher.Sig{})
		}
	case "dupout":
		if len(t.Out) == 0 {
			return
		}
		i := r.Intn(len(t.Out))
		if len(t.Out) >= 2 && r.Bool() {
			j := (i + 1 + r.Intn(len(t.Out)-1)) % len(t.Out)
			t.Out[j] = t.Out[i]
		} else {
			t.Out = append(t.Out, t.Out[i])
		}
	case "nearout": // same address and coins, hours differ by one / same hours, other address: not a duplicate
		if len(t.Out) == 0 {
			return
		}
		o := t.Out[r.Intn(len(t.Out))]
		switch r.Intn(3) {
		case 0:
			o.Hours++
		case 1:
			o.Coins++
		default:
			o.Address = g.addrs[r.Intn(len(g.addrs))]
		}
		t.Out = append(t.Out, o)
	case "zero":
		if len(t.Out) == 0 {
			return
		}
		t.Out[r.Intn(len(t.Out))].Coins = 0
	case "overflow":
		if len(t.Out) < 2 {
			t.Out = append(t.Out, coin.TransactionOutput{Address: g.addrs[r.Intn(len(g.addrs))], Coins: 1, Hours: 1})
			if len(t.Out) < 2 {
				t.Out = append(t.Out, coin.TransactionOutput{Address: g.addrs[r.Intn(len(g.addrs))], Coins: 2, Hours: 2})
			}
		}
		i := r.Intn(len(t.Out))
		var others uint64
		for j := range t.Out {
			if j != i {
				others += t.Out[j].Coins
			}
		}
		// sum = 2^64 - 2 + d, d in 0..3  (2^64-1 fits, 2^64 and above do not)
		t.Out[i].Coins = ^uint64(0) - others - 1 + uint64(r.Intn(4))
	case "type":
		t.Type = []uint8{1, 1, 1, 2, 255, 128, uint8(1 + r.Intn(255))}[r.Intn(7)]
	case "len":
		switch r.Intn(4) {
		case 0:
			t.Length++
		case 1:
			t.Length--
		case 2:
			t.Length = uint32(r.U64Edge())
		default:
			t.Length = 0
		}
	case "inner":
		if r.Chance(80) {
			t.InnerHash[r.Intn(32)] ^= byte(1 << uint(r.Intn(8)))
		} else {
			t.InnerHash = cipher.SHA256{}
		}
	case "sigcorrupt":
		if len(t.Sigs) == 0 {
			return
		}
		i := r.Intn(len(t.Sigs))
		pos := []int{r.Intn(32), 32 + r.Intn(32), 64}[r.Intn(3)]
		t.Sigs[i][pos] ^= byte(1 << uint(r.Intn(8)))
	case "signull":
		if len(t.Sigs) == 0 {
			return
		}
		t.Sigs[r.Intn(len(t.Sigs))] = cipher.Sig{}
	case "sigswap":
		if len(t.Sigs) < 2 {
			return
		}
		i := r.Intn(len(t.Sigs))
		j := (i + 1 + r.Intn(len(t.Sigs)-1)) % len(t.Sigs)
		t.Sigs[i], t.Sigs[j] = t.Sigs[j], t.Sigs[i]
	case "sigcopy":
		if len(t.Sigs) < 2 {
			return
		}
		i := r.Intn(len(t.Sigs))
		j := (i + 1 + r.Intn(len(t.Sigs)-1)) % len(t.Sigs)
		t.Sigs[j] = t.Sigs[i]
	case "sigrand":
		if len(t.Sigs) == 0 {
			return
		}
		i := r.Intn(len(t.Sigs))
		copy(t.Sigs[i][:], r.Bytes(65))
		if r.Bool() {
			t.Sigs[i][64] = byte(r.Intn(4))
			t.Sigs[i][32] &= 0x7f
		}
	case "sighigh":
		if len(t.Sigs) == 0 {
			return
		}
		i := r.Intn(len(t.Sigs))
		if r.Bool() {
			t.Sigs[i][32] |= 0x80
		} else {
			t.Sigs[i][64] = byte(4 + r.Intn(252))
		}
	case "wrongkey":
		if len(t.Sigs) == 0 || len(t.In) < len(t.Sigs) {
			return
		}
		i := r.Intn(len(t.Sigs))
		k := g.keys[r.Intn(len(g.keys))]
		h := cipher.AddSHA256(t.InnerHash, t.In[i])
		Guard(func() { t.Sigs[i] = cipher.MustSignHash(h, k.sec) })
	}
}

func (g *gen) txnCase() *tcase {
	r := g.r
	c := g.base()
	c.txn.Sigs = make([]cipher.Sig, len(c.txn.In)) // the length field counts the signature array
	header(&c.txn)
	mode := []int{0, 0, 0, 1, 2, 2}[r.Intn(6)]
	g.sign(c, mode)
	c.labels = append(c.labels, []string{"signed", "unsigned", "partial"}[mode])
	k := []int{0, 0, 0, 1, 1, 1, 1, 2, 2, 3}[r.Intn(10)]
	for n := 0; n < k; n++ {
		switch cls := r.Intn(10); {
		case cls < 5:
			m := contentMut[r.Intn(len(contentMut))]
			g.mutate(c, m)
			if r.Chance(75) { // recompute the header so that later rules are reached
				resign := r.Chance(70)
				if resign {
					c.txn.Sigs = make([]cipher.Sig, len(c.txn.In))
				}
				header(&c.txn)
				if resign {
					g.sign(c, mode)
				}
			}
		case cls < 7:
			g.mutate(c, headerMut[r.Intn(len(headerMut))])
		default:
			g.mutate(c, sigMut[r.Intn(len(sigMut))])
		}
	}
	return c
}

// ---- facts and printing

type facts struct {
	length, typ   uint64
	inner         string
	innerActual   string // "" = None
	size          string // "" = None
	sigs          []string
	ins           []string
	outs          []string // printed records
	outA, outC, outH []uint64
	outIDs        []uint64
}

func opt(s string) string {
	if s == "" {
		return "None"
	}
	return "(Some " + s + ")"
}

func (g *gen) collect(t *coin.Transaction, tab idtab) *facts {
	hashZ := tab.id
	f := &facts{length: uint64(t.Length), typ: uint64(t.Type)}
	for _, in := range t.In { // inputs first: consecutive ids for distinct inputs
		f.ins = append(f.ins, hashZ(in))
	}
	f.inner = hashZ(t.InnerHash)
	var b []byte
	var err error
	if !Guard(func() { b, err = t.Serialize() }) && err == nil {
		f.size = fmt.Sprint(len(b))
	}
	var ih cipher.SHA256
	if !Guard(func() { ih = t.HashInner() }) {
		f.innerActual = hashZ(ih)
	}
	var txid cipher.SHA256
	if b != nil {
		txid = cipher.SumSHA256(b)
	}
	idTab := map[cipher.SHA256]uint64{}
	for _, o := range t.Out {
		h := o.UxID(txid)
		id, ok := idTab[h]
		if !ok {
			id = uint64(len(idTab))
			idTab[h] = id
		}
		f.outIDs = append(f.outIDs, id)
		a := uint64(g.aid(o.Address))
		f.outA, f.outC, f.outH = append(f.outA, a), append(f.outC, o.Coins), append(f.outH, o.Hours)
	}
	for i, s := range t.Sigs {
		null := s.Null()
		verr, addr := "", 0
		if i < len(t.In) {
			h := cipher.AddSHA256(t.InnerHash, t.In[i])
			var e error
			if Guard(func() { e = cipher.VerifySignatureRecoverPubKey(s, h) }) {
				verr = "PANIC in VerifySignatureRecoverPubKey"
			} else {
				verr = errText(e)
			}
			var pk cipher.PubKey
			var e2 error
			// the recovered address matters only when recovery works (null signatures never recover)
			if e != cipher.ErrInvalidSigPubKeyRecovery && !Guard(func() { pk, e2 = cipher.PubKeyFromSig(s, h) }) && e2 == nil {
				addr = g.aid(cipher.AddressFromPubKey(pk))
			}
		} else {
			verr = "no input for this signature"
		}
		f.sigs = append(f.sigs, fmt.Sprintf("mk_sig %s %s %d", B(null), errTerm(verr), addr))
	}
	return f
}

// run-length / arithmetic-run compression so that very large cases stay small
func compressZ(items []string) string {
	if len(items) < 64 {
		return List(items)
	}
	var parts []string
	var lit []string
	flush := func() {
		if len(lit) > 0 {
			parts = append(parts, List(lit))
			lit = nil
		}
	}
	vals := make([]*big.Int, len(items))
	for i, s := range items {
		vals[i], _ = new(big.Int).SetString(s, 10)
	}
	one := big.NewInt(1)
	for i := 0; i < len(items); {
		j := i + 1
		for j < len(items) && new(big.Int).Sub(vals[j], vals[j-1]).Cmp(one) == 0 {
			j++
		}
		if j-i >= 16 {
			flush()
			parts = append(parts, fmt.Sprintf("zrange %s %d", items[i], j-i))
		} else {
			lit = append(lit, items[i:j]...)
		}
		i = j
	}
	flush()
	return "(" + strings.Join(parts, " ++ ") + ")"
}

func compressRep(items []string) string {
	if len(items) < 64 {
		for i := range items {
			items[i] = "(" + items[i] + ")"
		}
		return List(items)
	}
	var parts []string
	var lit []string
	flush := func() {
		if len(lit) > 0 {
			parts = append(parts, List(lit))
			lit = nil
		}
	}
	for i := 0; i < len(items); {
		j := i + 1
		for j < len(items) && items[j] == items[i] {
			j++
		}
		if j-i >= 16 {
			flush()
			parts = append(parts, fmt.Sprintf("rep (%s) %d", items[i], j-i))
		} else {
			for k := i; k < j; k++ {
				lit = append(lit, "("+items[k]+")")
			}
		}
		i = j
	}
	flush()
	return "(" + strings.Join(parts, " ++ ") + ")"
}

func compressOuts(a, c, h []uint64) string {
	one := func(i int) string { return fmt.Sprintf("mk_out %d %d %d", a[i], c[i], h[i]) }
	if len(a) < 64 {
		it := make([]string, len(a))
		for i := range a {
			it[i] = one(i)
		}
		return List(it)
	}
	var parts []string
	var lit []string
	flush := func() {
		if len(lit) > 0 {
			parts = append(parts, List(lit))
			lit = nil
		}
	}
	for i := 0; i < len(a); {
		j := i + 1
		for j < len(a) && a[j] == a[i] && c[j] == c[i] && h[j] == h[j-1]+1 {
			j++
		}
		if j-i >= 16 {
			flush()
			parts = append(parts, fmt.Sprintf("gen_outs %d %d %d %d", a[i], c[i], h[i], j-i))
		} else {
			for k := i; k < j; k++ {
				lit = append(lit, one(k))
			}
		}
		i = j
	}
	flush()
	return "(" + strings.Join(parts, " ++ ") + ")"
}

func (f *facts) term() string {
	ids := make([]string, len(f.outIDs))
	for i, x := range f.outIDs {
		ids[i] = fmt.Sprint(x)
	}
	return fmt.Sprintf("(mk_txn %d %d %s %s %s %s %s %s %s)", f.length, f.typ, f.inner, opt(f.innerActual), opt(f.size),
		compressRep(append([]string{}, f.sigs...)), compressZ(f.ins), compressOuts(f.outA, f.outC, f.outH), compressZ(ids))
}

// observe runs a HISTORY of verifier calls on the same value and on a re-deserialised copy
// (the model is a pure function: every call must give the model's verdict for that call alone,
// whatever was verified before). Returns the Coq list of (signed?, result), a printable trace,
// and the last verdict of Verify / VerifyUnsigned.
var histories = [][]string{
	{"V", "U"}, {"U", "V"}, {"U", "V"}, {"U", "V"}, {"U", "V", "U"}, {"U", "Vc"}, {"Uc", "V"}, {"Vc", "U"}, {"V", "V"}, {"U", "U", "V"}, {"V", "Uc", "V"},
}

func observe(t *coin.Transaction, pattern []string) (string, string, string, string) {
	cp := t
	if b, err := t.Serialize(); err == nil {
		if d, err := coin.DeserializeTransaction(b); err == nil {
			cp = &d
		}
	}
	cls := func(p bool, e error) string {
		if p {
			return "PANIC"
		}
		if e == nil {
			return "ok"
		}
		return errText(e)
	}
	var items, trace []string
	lastV, lastU := "", ""
	for _, c := range pattern {
		x := t
		if strings.HasSuffix(c, "c") {
			x = cp
		}
		signed := c[0] == 'V'
		var e error
		p := Guard(func() {
			if signed {
				e = x.Verify()
			} else {
				e = x.VerifyUnsigned()
			}
		})
		items = append(items, Tuple(B(signed), resErr(p, e)))
		trace = append(trace, c+":"+cls(p, e))
		if signed {
			lastV = cls(p, e)
		} else {
			lastU = cls(p, e)
		}
	}
	return List(items), strings.Join(trace, " "), lastV, lastU
}

// ---- big transactions (boundary sizes of the three arrays)

func cnt(i int) cipher.SHA256 {
	var h cipher.SHA256
	binary.BigEndian.PutUint64(h[24:], uint64(i))
	return h
}

// bigShape describes a transaction at a count threshold of Transaction.verify
// (math.MaxUint16 for signatures+inputs and for outputs; signatures vs inputs):
// the arrays follow a rule (input i = 32-byte big-endian i+1; output i = (addr, 3
// coins, i hours); null signatures) so that the cases file carries a compact
// descriptor (zrange / gen_outs / rep in Model/TxVerify.v), never the literals
type bigShape struct {
	nin, nsigs, nout int
	dupIn, dupOut    bool
	oneSig           bool // one real signature, the rest null
}

func (b bigShape) label() string {
	l := fmt.Sprintf("in=%d,sigs=%d,out=%d", b.nin, b.nsigs, b.nout)
	if b.dupIn {
		l += ",dup-in"
	}
	if b.dupOut {
		l += ",dup-out"
	}
	return l
}

// every count constant verify compares against, at constant-1 / constant / constant+1
func thresholdFamily(thorough bool) []bigShape {
	const M = 65535
	fam := []bigShape{
		{nin: M - 1, nsigs: M - 1, nout: 1}, {nin: M, nsigs: M, nout: 1, oneSig: true}, {nin: M + 1, nsigs: M + 1, nout: 1},
		{nin: 1, nsigs: 1, nout: M - 1, oneSig: true}, {nin: 1, nsigs: 1, nout: M, oneSig: true}, {nin: 1, nsigs: 1, nout: M + 1},
		{nin: M, nsigs: M - 1, nout: 1}, {nin: M, nsigs: M + 1, nout: 1}, {nin: M - 1, nsigs: M, nout: 1},
		{nin: M, nsigs: M, nout: 1, dupIn: true},
	}
	if thorough {
		fam = append(fam,
			bigShape{nin: 1, nsigs: 1, nout: M, dupOut: true},
			bigShape{nin: M, nsigs: M, nout: M},
			bigShape{nin: M + 1, nsigs: M + 1, nout: M + 1},
			bigShape{nin: M, nsigs: M, nout: M + 1},
			bigShape{nin: M + 1, nsigs: M, nout: 1},
			bigShape{nin: 2, nsigs: 2, nout: M, dupIn: true})
	}
	return fam
}

func (g *gen) bigCase(b bigShape) (*coin.Transaction, string) {
	t := &coin.Transaction{}
	a := g.addrs[0]
	for i := 0; i < b.nin; i++ {
		t.In = append(t.In, cnt(i+1))
	}
	for i := 0; i < b.nout; i++ {
		t.Out = append(t.Out, coin.TransactionOutput{Address: a, Coins: 3, Hours: uint64(i)})
	}
	if b.dupIn {
		t.In[b.nin-1] = cnt(1)
		if b.nin > 7 {
			t.In[b.nin-1] = cnt(7)
		}
	}
	if b.dupOut {
		t.Out[b.nout-1] = t.Out[9]
	}
	t.Sigs = make([]cipher.Sig, b.nsigs)
	if err := t.UpdateHeader(); err != nil {
		// over the encoder's limit: set what can be set
		t.Length = uint32(49 + 65*len(t.Sigs) + 32*len(t.In) + 37*len(t.Out))
		Guard(func() { t.InnerHash = t.HashInner() })
	}
	if b.oneSig && len(g.keys) > 0 && b.nsigs > 0 {
		h := cipher.AddSHA256(t.InnerHash, t.In[0])
		t.Sigs[0] = cipher.MustSignHash(h, g.keys[0].sec)
	}
	return t, b.label()
}

// ---- byte strings for DeserializeTransaction

type dcase struct {
	bs    []byte
	label string
}

func u32at(b []byte, off int, v uint32) []byte {
	c := append([]byte{}, b...)
	if off+4 <= len(c) {
		binary.LittleEndian.PutUint32(c[off:], v)
	}
	return c
}

func (g *gen) decodeCases(n int, thorough bool) []dcase {
	r := g.r
	var out []dcase
	add := func(b []byte, l string) { out = append(out, dcase{b, l}) }
	rounds := 0
	for len(out) < n {
		rounds++
		// a random struct value (any field values; lists of 0..3 elements) or a generated transaction
		var t coin.Transaction
		if r.Bool() {
			t = g.txnCase().txn
			if len(t.Sigs) > 65535 || len(t.In) > 65535 || len(t.Out) > 65535 {
				continue
			}
		} else {
			t.Length = uint32(r.U64Edge())
			t.Type = uint8(r.U64())
			copy(t.InnerHash[:], r.Bytes(32))
			for i, k := 0, r.Intn(4); i < k; i++ {
				var s cipher.Sig
				copy(s[:], r.Bytes(65))
				t.Sigs = append(t.Sigs, s)
			}
			for i, k := 0, r.Intn(4); i < k; i++ {
				var h cipher.SHA256
				copy(h[:], r.Bytes(32))
				t.In = append(t.In, h)
			}
			for i, k := 0, r.Intn(4); i < k; i++ {
				var a cipher.Address
				a.Version = byte(r.U64())
				copy(a.Key[:], r.Bytes(20))
				t.Out = append(t.Out, coin.TransactionOutput{Address: a, Coins: r.U64Edge(), Hours: r.U64Edge()})
			}
		}
		b, err := t.Serialize()
		if err != nil {
			continue
		}
		add(b, "valid")
		offS := 37
		offI := offS + 4 + 65*len(t.Sigs)
		offO := offI + 4 + 32*len(t.In)
		// truncation: every offset for the first few values (all of them in thorough), else sampled
		if rounds <= 2 || (thorough && rounds <= 12) {
			for k := 0; k < len(b); k++ {
				add(b[:k], "truncated")
			}
		} else {
			for k := 0; k < 6; k++ {
				add(b[:r.Intn(len(b))], "truncated")
			}
			for _, off := range []int{offS, offS + 4, offI, offI + 4, offO, offO + 4, len(b) - 1} {
				if off >= 0 && off < len(b) {
					add(b[:off], "truncated-at-boundary")
				}
			}
		}
		// appended bytes
		for k := 0; k < 2; k++ {
			add(append(append([]byte{}, b...), r.Bytes(1+r.Intn(8))...), "appended")
		}
		add(append(append([]byte{}, b...), 0, 0, 0, 0), "appended-zero-prefix")
		// length-prefix surgery
		for _, off := range []int{offS, offI, offO} {
			cur := binary.LittleEndian.Uint32(b[off:])
			vals := []uint32{cur + 1, cur - 1, 0, 65535, 65536, 0xFFFFFFFF, 0x80000000, uint32(len(b)), uint32(r.U64Edge())}
			for k := 0; k < 3; k++ {
				add(u32at(b, off, vals[r.Intn(len(vals))]), "prefix-surgery")
			}
		}
		// move a boundary: one element less in one array, one more in the next (same total for In/Sigs is impossible: sizes differ)
		if len(t.Sigs) > 0 {
			c := u32at(b, offS, uint32(len(t.Sigs)-1))
			add(c, "prefix-shift")
		}
		// body byte flips keep the structure: still decodes
		for k := 0; k < 3; k++ {
			c := append([]byte{}, b...)
			pos := r.Intn(len(c))
			c[pos] ^= byte(1 << uint(r.Intn(8)))
			add(c, "byteflip")
		}
		// random strings
		for k := 0; k < 4; k++ {
			add(r.Bytes(r.Intn(200)), "random")
		}
		hdr := append(r.Bytes(37), 0, 0, 0, 0, 0, 0, 0, 0, 0, 0, 0, 0)
		add(hdr, "empty-arrays")
		add(hdr[:len(hdr)-1], "truncated")
	}
	return out[:n]
}

func run(args []string) error {
	f := ParseFlags("c09", args)
	sel, err := parseReplay(f.Extra)
	if err != nil {
		return err
	}
	r := NewRng(f.Seed)
	n := f.Budget(600, 20000)
	thorough := f.Tier == "thorough" || f.Tier == "search"
	o := NewOut()
	hist := Hist{}
	caseJSON := map[string][]map[string]interface{}{}
	var samples []map[string]interface{}

	g := &gen{r: r, addrID: map[cipher.Address]int{}}
	for i := 0; i < 5; i++ {
		pk, sk := cipher.MustGenerateDeterministicKeyPair([]byte(fmt.Sprintf("c09-key-%d-%d", f.Seed, i)))
		k := key{sk, cipher.AddressFromPubKey(pk)}
		g.keys = append(g.keys, k)
		g.addrs = append(g.addrs, k.addr)
	}
	for i := 0; i < 4; i++ {
		var a cipher.Address
		a.Version = byte(r.Intn(3))
		copy(a.Key[:], r.Bytes(20))
		g.addrs = append(g.addrs, a)
	}
	if !coin.DebugLevel2 {
		return fmt.Errorf("coin.DebugLevel2 is false; the VerifyInputSignatures model assumes log.Panic on a failed prelude")
	}

	// ---- group txn (+ vis)
	var txns, vis []string
	var pending *tcase
	for i := 0; i < n; i++ {
		c := pending
		pending = nil
		if c == nil {
			c = g.txnCase()
		}
		t := &c.txn
		before, _ := t.Serialize()
		tab := idtab{}
		fa := g.collect(t, tab)
		calls, trace, cs, cu := observe(t, histories[r.Intn(len(histories))])
		after, _ := t.Serialize()
		if !bytes.Equal(before, after) {
			return fmt.Errorf("Verify modified the transaction")
		}
		txns = append(txns, Tuple(fa.term(), calls))
		// follow-up: the next case is this transaction with one signature nulled / one signature byte
		// changed / nothing changed, verified right after it
		if (cs == "ok" || cu == "ok") && len(t.Sigs) > 0 && len(c.labels) < 8 && r.Chance(25) {
			f := &tcase{ux: c.ux, owner: c.owner}
			f.txn = *t
			f.txn.Sigs = append([]cipher.Sig{}, t.Sigs...)
			f.txn.In = append([]cipher.SHA256{}, t.In...)
			f.txn.Out = append([]coin.TransactionOutput{}, t.Out...)
			k := r.Intn(len(f.txn.Sigs))
			switch r.Intn(3) {
			case 0:
				f.txn.Sigs[k] = cipher.Sig{}
				f.labels = append(append([]string{}, c.labels...), "then-signull")
			case 1:
				f.txn.Sigs[k][r.Intn(65)] ^= byte(1 << uint(r.Intn(8)))
				f.labels = append(append([]string{}, c.labels...), "then-sigflip")
			default:
				f.labels = append(append([]string{}, c.labels...), "then-same")
			}
			pending = f
		}
		lab := strings.Join(c.labels, "+")
		hex := ""
		if before != nil {
			hex = fmt.Sprintf("%x", before)
		}
		caseJSON["txn"] = append(caseJSON["txn"], map[string]interface{}{"idx": i, "n": n, "mutations": lab, "calls": trace, "verify": cs, "verify_unsigned": cu,
			"n_in": len(t.In), "n_out": len(t.Out), "n_sigs": len(t.Sigs), "txn_hex": hex})
		o.Count(fmt.Sprint("txn", lab, cs, cu, len(t.In), len(t.Out)), true)
		hist.Add("Verify:" + cs)
		hist.Add("VerifyUnsigned:" + cu)
		for _, l := range c.labels {
			hist.Add("mutation:" + l)
		}
		if len(samples) < 12 && r.Intn(n/10+1) == 0 {
			samples = append(samples, map[string]interface{}{"group": "txn", "mutations": lab, "verify": cs, "verify_unsigned": cu, "n_in": len(t.In), "n_out": len(t.Out), "n_sigs": len(t.Sigs)})
		}
		// VerifyInputSignatures on the same transaction (sometimes with a disturbed uxIn: the prelude must panic)
		if r.Chance(60) {
			ux := append(coin.UxArray{}, c.ux...)
			vl := "aligned"
			if r.Chance(12) && len(ux) > 0 {
				switch r.Intn(3) {
				case 0:
					ux = ux[:len(ux)-1]
					vl = "ux-short"
				case 1:
					ux[r.Intn(len(ux))].Body.Coins++
					vl = "ux-other"
				default:
					ux = append(ux, g.newUx(0))
					vl = "ux-long"
				}
			}
			var ev, ev2 error
			pv := Guard(func() { ev = t.VerifyInputSignatures(ux) })
			pv2 := Guard(func() { ev2 = t.VerifyInputSignatures(ux) }) // and again: same answer
			if pv2 != pv || errText(ev2) != errText(ev) {
				return fmt.Errorf("VerifyInputSignatures gave two different answers on the same arguments")
			}
			uxs := make([]string, len(ux))
			for k := range ux {
				uxs[k] = Tuple(tab.id(ux[k].Hash()), fmt.Sprint(g.aid(ux[k].Body.Address)))
			}
			vis = append(vis, Tuple(fmt.Sprint(i), List(uxs), resErr(pv, ev)))
			cv := "ok"
			if pv {
				cv = "PANIC"
			} else if ev != nil {
				cv = errText(ev)
			}
			caseJSON["vis"] = append(caseJSON["vis"], map[string]interface{}{"idx": len(vis) - 1, "n": n, "mutations": lab, "ux": vl, "result": cv, "txn_hex": hex})
			o.Count(fmt.Sprint("vis", lab, vl, cv), true)
			hist.Add("VerifyInputSignatures:" + cv)
		}
	}
	// ---- group big
	var bigs []string
	for _, k := range thresholdFamily(thorough) {
		t, label := g.bigCase(k)
		fa := g.collect(t, idtab{})
		calls, _, cs, cu := observe(t, []string{"U", "V", "V", "U"})
		bigs = append(bigs, Tuple(fa.term(), calls))
		caseJSON["big"] = append(caseJSON["big"], map[string]interface{}{"idx": len(bigs) - 1, "n": n, "shape": label, "verify": cs, "verify_unsigned": cu})
		o.Count(fmt.Sprint("big", label), true)
		hist.Add("big:" + label + ":" + cs + "/" + cu)
	}
	// ---- group dec
	nd := 3 * n
	if nd > 40000 {
		nd = 40000
	}
	var decs []string
	nbytes := 0
	for _, d := range g.decodeCases(nd, thorough) {
		var t coin.Transaction
		var err error
		p := Guard(func() { t, err = coin.DeserializeTransaction(d.bs) })
		decoded := !p && err == nil
		canon := false
		var re []byte
		if decoded {
			var e2 error
			if !Guard(func() { re, e2 = t.Serialize() }) && e2 == nil {
				canon = bytes.Equal(re, d.bs)
			}
		}
		inb, reb := "[]", "[]"
		withBytes := decoded && len(d.bs) <= 260 && nbytes < 60 // byte-level comparison repeated inside Coq for a sample
		if withBytes {
			nbytes++
			inb, reb = Bytes(d.bs), Bytes(re)
		}
		decs = append(decs, Tuple(fmt.Sprint(len(d.bs)), B(decoded), B(p), B(canon), B(withBytes), fmt.Sprint(len(t.Sigs)), fmt.Sprint(len(t.In)), fmt.Sprint(len(t.Out)), inb, reb))
		res := "error"
		if p {
			res = "PANIC"
		} else if decoded {
			res = "decoded"
		}
		caseJSON["dec"] = append(caseJSON["dec"], map[string]interface{}{"idx": len(decs) - 1, "n": n, "kind": d.label, "result": res, "canonical": canon, "bytes_hex": fmt.Sprintf("%x", d.bs)})
		o.Count(fmt.Sprintf("dec %x", d.bs), true)
		hist.Add("decode:" + d.label + ":" + res)
	}

	if sel != nil && sel.group == "vis" {
		// a VerifyInputSignatures case refers to its transaction by index: keep them all
		o.Def("cases_txn", "txn * list (bool * res error)", txns)
	} else {
		o.Def("cases_txn", "txn * list (bool * res error)", sel.keep("txn", txns))
	}
	o.Def("cases_big", "txn * list (bool * res error)", sel.keep("big", bigs))
	o.Def("cases_vis", "Z * list (Z * Z) * res error", sel.keep("vis", vis))
	o.Def("cases_dec", "Z * bool * bool * bool * bool * Z * Z * Z * list Z * list Z", sel.keep("dec", decs))
	o.Side["rule"] = "verification histories (each verifier called several times in varying order on the same value and on a re-deserialised copy; a quarter of the accepted transactions are followed by the same transaction with one signature nulled / one signature byte flipped / unchanged; every single call must give the verdict of the pure model) over generated transactions: a valid signed / unsigned / partially signed transaction spending generated unspent outputs, then 0-3 mutations (no inputs, no outputs, signature count, duplicate input, duplicate / near-duplicate output, zero-coin output, coin sum around 2^64, type, length field, inner hash, corrupted / null / swapped / copied / random / high-s / wrong-key signatures), header recomputed after most content mutations so that later rules are reached; boundary array sizes 65535/65536; byte strings: valid encodings, every truncation, appended bytes, length-prefix surgery, byte flips, random. Every case counts (distinct by mutation labels + verdicts / by byte string)."
	o.Side["distribution"] = hist.Sorted()
	o.Side["samples"] = samples
	o.Side["cases"] = sel.keepJSON(caseJSON)
	return o.Write(f.Out, f.JSON)
}
