package kit

import "fmt"

// Interner hash-conses Coq terms written to a cases file: every distinct term
// is emitted once as `Definition <prefix><n> : ty := term.` and referred to by
// that name afterwards. Coq's front end costs ~20us per term node, so printing
// a repeated sub-term (a dumped state, an operation, an error class) by name
// instead of in full is what keeps large cases files within the time budget.
type Interner struct {
	o     *Out
	names map[string]string
	count map[string]int
}

func NewInterner(o *Out) *Interner {
	return &Interner{o: o, names: map[string]string{}, count: map[string]int{}}
}

// Ref returns the name of the definition holding `term` (of Coq type `ty`),
// emitting the definition on first use. `term` may mention earlier names.
func (in *Interner) Ref(prefix, ty, term string) string {
	k := ty + "\x00" + term
	if n, ok := in.names[k]; ok {
		return n
	}
	name := fmt.Sprintf("%s%d", prefix, in.count[prefix])
	in.count[prefix]++
	in.names[k] = name
	fmt.Fprintf(&in.o.coq, "Definition %s : %s := %s.\n", name, ty, term)
	return name
}

// Size is the number of definitions emitted so far.
func (in *Interner) Size() int { return len(in.names) }
