package kit

import (
	"crypto/sha256"
	"encoding/hex"
	"encoding/json"
	"flag"
	"fmt"
	"io/ioutil"
	"log"
	"math/big"
	"os"
	"sort"
	"strings"
)

// ---- deterministic PRNG (splitmix64); every random choice derives from it

type Rng struct{ s uint64 }

// NewRng: seed 1 keeps its historical start state (all recorded replays and
// most of the validation were made with it). Every other seed is scrambled
// first: with the plain `seed*gamma + c` start state, seed s+1 produced seed s's
// stream shifted by one draw, so "three seeds" were nearly one.
func NewRng(seed uint64) *Rng {
	s := seed*0x9E3779B97F4A7C15 + 0x1234567
	if seed != 1 {
		z := s
		z = (z ^ (z >> 33)) * 0xFF51AFD7ED558CCD
		z = (z ^ (z >> 33)) * 0xC4CEB9FE1A85EC53
		s = z ^ (z >> 33) ^ (seed << 17)
	}
	return &Rng{s: s}
}
func (r *Rng) U64() uint64 {
	r.s += 0x9E3779B97F4A7C15
	z := r.s
	z = (z ^ (z >> 30)) * 0xBF58476D1CE4E5B9
	z = (z ^ (z >> 27)) * 0x94D049BB133111EB
	return z ^ (z >> 31)
}
func (r *Rng) Intn(n int) int {
	if n <= 0 {
		return 0
	}
	return int(r.U64() % uint64(n))
}
func (r *Rng) Bool() bool        { return r.U64()&1 == 1 }
func (r *Rng) Chance(p int) bool { return r.Intn(100) < p } // p percent
func (r *Rng) Bytes(n int) []byte {
	b := make([]byte, n)
	for i := range b {
		b[i] = byte(r.U64())
	}
	return b
}
func (r *Rng) Pick64(vals []uint64) uint64 { return vals[r.Intn(len(vals))] }

// U64Edge returns a 64-bit value biased to boundaries: small numbers, powers of
// two ±1, values near 2^32 / 2^63 / 2^64, otherwise uniform in a random width.
func (r *Rng) U64Edge() uint64 {
	switch r.Intn(10) {
	case 0:
		return uint64(r.Intn(4))
	case 1:
		return ^uint64(0) - uint64(r.Intn(4))
	case 2:
		k := uint(r.Intn(64))
		return (uint64(1) << k) + uint64(r.Intn(3)) - 1
	case 3:
		return (uint64(1) << 63) + uint64(r.Intn(5)) - 2
	case 4:
		return (uint64(1) << 32) + uint64(r.Intn(5)) - 2
	case 5, 6:
		return r.U64() >> uint(r.Intn(64))
	default:
		return r.U64()
	}
}

// ---- Coq term printing

func Z(u uint64) string { return fmt.Sprintf("%d", u) }
func ZI(i int64) string {
	if i < 0 {
		return fmt.Sprintf("(%d)", i)
	}
	return fmt.Sprintf("%d", i)
}
func ZBig(b *big.Int) string {
	if b.Sign() < 0 {
		return "(" + b.String() + ")"
	}
	return b.String()
}
func B(b bool) string {
	if b {
		return "true"
	}
	return "false"
}
func Str(s string) string {
	// Coq string literal; bytes outside printable ASCII are not representable in
	// a literal portably, callers use Bytes for binary data.
	return "\"" + strings.ReplaceAll(s, "\"", "\"\"") + "\"%string"
}
func List(items []string) string   { return "[" + strings.Join(items, "; ") + "]" }
func Tuple(items ...string) string { return "(" + strings.Join(items, ", ") + ")" }
func Bytes(b []byte) string {
	it := make([]string, len(b))
	for i, x := range b {
		it[i] = fmt.Sprintf("%d", x)
	}
	return List(it)
}
func OptErr(class string) string {
	if class == "" {
		return "None"
	}
	return "(Some " + Str(class) + ")"
}
func Some(s string) string { return "(Some " + s + ")" }

// ---- case files

type Out struct {
	coq   strings.Builder
	Side  map[string]interface{}
	seen  map[string]bool
	Evals int
	Nontr int
}

func NewOut() *Out {
	return &Out{Side: map[string]interface{}{}, seen: map[string]bool{}}
}

// Def writes `Definition name : ty := [items].` splitting long lists in chunks
// so that Coq's parser is not handed one enormous term.
func (o *Out) Def(name, ty string, items []string) {
	const chunk = 400
	if len(items) <= chunk {
		fmt.Fprintf(&o.coq, "Definition %s : list (%s) :=\n  [%s].\n", name, ty, strings.Join(items, ";\n   "))
		return
	}
	parts := []string{}
	for i := 0; i < len(items); i += chunk {
		j := i + chunk
		if j > len(items) {
			j = len(items)
		}
		pn := fmt.Sprintf("%s_part%d", name, i/chunk)
		fmt.Fprintf(&o.coq, "Definition %s : list (%s) :=\n  [%s].\n", pn, ty, strings.Join(items[i:j], ";\n   "))
		parts = append(parts, pn)
	}
	fmt.Fprintf(&o.coq, "Definition %s : list (%s) := %s.\n", name, ty, strings.Join(parts, " ++ "))
}
func (o *Out) Raw(s string) { o.coq.WriteString(s) }

// Count registers one evaluation; key identifies the case for distinctness,
// nontrivial says whether it is non-trivial by the property's rule.
func (o *Out) Count(key string, nontrivial bool) {
	o.Evals++
	if nontrivial {
		h := sha256.Sum256([]byte(key))
		k := hex.EncodeToString(h[:8])
		if !o.seen[k] {
			o.seen[k] = true
			o.Nontr++
		}
	}
}

func (o *Out) Write(coqPath, jsonPath string) error {
	if err := os.WriteFile(coqPath, []byte(o.coq.String()), 0o644); err != nil {
		return err
	}
	o.Side["evaluations"] = o.Evals
	o.Side["distinct_nontrivial"] = o.Nontr
	data, err := json.MarshalIndent(o.Side, "", " ")
	if err != nil {
		return err
	}
	return os.WriteFile(jsonPath, data, 0o644)
}

// Hist is a histogram for the input distribution printed into the evidence.
type Hist map[string]int

func (h Hist) Add(k string) { h[k]++ }
func (h Hist) Sorted() []string {
	ks := []string{}
	for k := range h {
		ks = append(ks, k)
	}
	sort.Strings(ks)
	out := []string{}
	for _, k := range ks {
		out = append(out, fmt.Sprintf("%s=%d", k, h[k]))
	}
	return out
}

// ---- flags shared by all sub-commands

type Flags struct {
	Seed  uint64
	Tier  string
	N     int
	Out   string
	JSON  string
	Extra string
}

func ParseFlags(name string, args []string) *Flags {
	fs := flag.NewFlagSet(name, flag.ExitOnError)
	f := &Flags{}
	fs.Uint64Var(&f.Seed, "seed", 1, "PRNG seed")
	fs.StringVar(&f.Tier, "tier", "quick", "quick|thorough|search")
	fs.IntVar(&f.N, "n", 0, "case budget (0 = tier default)")
	fs.StringVar(&f.Out, "out", "", "Coq data file to write")
	fs.StringVar(&f.JSON, "json", "", "JSON side file to write")
	fs.StringVar(&f.Extra, "extra", "", "sub-command specific")
	fs.Parse(args)
	return f
}

func (f *Flags) Budget(quick, thorough int) int {
	if f.N > 0 {
		return f.N
	}
	if f.Tier == "thorough" || f.Tier == "search" {
		return thorough
	}
	return quick
}

// ErrClass maps a Go error to the name the Coq model uses: the sentinel's
// identifier when it is one, else the message text. "" = nil.
func ErrClass(err error, sentinels map[error]string) string {
	if err == nil {
		return ""
	}
	if n, ok := sentinels[err]; ok {
		return n
	}
	return err.Error()
}

// Guard runs f and reports a runtime panic as an observable.
func Guard(f func()) (panicked bool) {
	defer func() {
		if r := recover(); r != nil {
			panicked = true
		}
	}()
	f()
	return false
}

// ResZE prints a `res (Z * error)` value.
func ResZE(panicked bool, v string, e string) string {
	if panicked {
		return "Panic"
	}
	return "(Val (" + v + ", " + OptErr(e) + "))"
}

// Main is the entry point shared by the per-property commands
// (harness/cNN/main.go: `func main() { kit.Main(run) }`): it silences the
// implementation's logging and maps an error to exit status 1.
func Main(run func(args []string) error) {
	log.SetOutput(ioutil.Discard)
	if err := run(os.Args[1:]); err != nil {
		fmt.Fprintln(os.Stderr, "harness error:", err)
		os.Exit(1)
	}
}

// words16 prints b as little-endian 16-byte words.
func words16(b []byte) string {
	var it []string
	for i := 0; i < len(b); i += 16 {
		j := i + 16
		if j > len(b) {
			j = len(b)
		}
		z := new(big.Int)
		for k := j - 1; k >= i; k-- {
			z.Lsh(z, 8)
			z.Or(z, big.NewInt(int64(b[k])))
		}
		it = append(it, z.String())
	}
	return List(it)
}

// BytesZ prints a byte string as the compact Coq literal `(bytesz n words)`
// (Model/Codec.v: n bytes as little-endian 16-byte words) — far cheaper to
// parse than a list of bytes.
func BytesZ(b []byte) string { return fmt.Sprintf("(bytesz %d %s)", len(b), words16(b)) }

// VBytes prints a byte array/slice/string inside a model value as `(vbytes n words)`.
func VBytes(b []byte) string { return fmt.Sprintf("(vbytes %d %s)", len(b), words16(b)) }
