// Command harness runs the real skycoin implementation (built from /repo with
// -tags verif) on generated inputs and writes (a) Coq data files holding the
// inputs and the observed outputs, (b) a JSON side file describing what was
// generated. One sub-command per property: harness <cNN> [flags].
package main

import (
	"fmt"
	"io/ioutil"
	"log"
	"os"
	"sort"

	"verif/harness/kit"
)

var cmds = kit.Cmds

func main() {
	log.SetOutput(ioutil.Discard)
	if len(os.Args) < 2 || cmds[os.Args[1]] == nil {
		names := []string{}
		for k := range cmds {
			names = append(names, k)
		}
		sort.Strings(names)
		fmt.Fprintln(os.Stderr, "usage: harness <cmd> [flags]; commands:", names)
		os.Exit(2)
	}
	if err := cmds[os.Args[1]](os.Args[2:]); err != nil {
		fmt.Fprintln(os.Stderr, "harness error:", err)
		os.Exit(1)
	}
}
