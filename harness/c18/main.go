// Command c18: wallet encryption (property C18).
//
// Groups written to the cases file:
//
//	sha     Sha256Xor.Decrypt on valid / truncated / mutated ciphertexts, with the hash
//	        and keystream values the model needs (true facts computed with the
//	        implementation's own SHA256 and keystream block function)
//	scrypt  ScryptChacha20poly1305.Decrypt likewise (JSON metadata parse as oracle,
//	        AEAD result taken from the call); hostile cost parameters run in a child
//	        process under an address-space limit and a watchdog
//	wallet  lock / unlock / generate op sequences on deterministic, bip44 and
//	        collection wallets; observable = the serialised wallet's secret fields,
//	        error class, and whether any secret occurs in the serialised bytes
//	xpub    xpub wallets refuse Lock / Unlock and serialise no secret
package main

import (
	"bytes"
	"encoding/base64"
	"encoding/binary"
	"encoding/hex"
	"encoding/json"
	"fmt"
	"io"
	"math/big"
	"os"
	"os/exec"
	"path/filepath"
	"strings"
	"syscall"
	"time"

	. "verif/harness/kit"

	"github.com/skycoin/skycoin/src/cipher"
	"github.com/skycoin/skycoin/src/cipher/bip39"
	"github.com/skycoin/skycoin/src/cipher/bip44"
	"github.com/skycoin/skycoin/src/cipher/crypto"
	"github.com/skycoin/skycoin/src/cipher/encrypt"
	secp256k1 "github.com/skycoin/skycoin/src/cipher/secp256k1-go"
	"github.com/skycoin/skycoin/src/util/logging"
	"github.com/skycoin/skycoin/src/wallet"
	"github.com/skycoin/skycoin/src/wallet/bip44wallet"
	"github.com/skycoin/skycoin/src/wallet/collection"
	"github.com/skycoin/skycoin/src/wallet/deterministic"
	"github.com/skycoin/skycoin/src/wallet/xpubwallet"
)

func main() { Main(run) }

// ---------------------------------------------------------------- printing

// BZ prints a byte string as the compact literal `(B len [w0; w1; ...]%uint63)` of
// Base/BytesPack.v (7 little-endian bytes per primitive integer): a `list Z`
// literal is about ten times slower to type-check.
func BZ(b []byte) string {
	ws := []string{}
	for i := 0; i < len(b); i += 7 {
		var w uint64
		for k := 6; k >= 0; k-- {
			w <<= 8
			if i+k < len(b) {
				w |= uint64(b[i+k])
			}
		}
		ws = append(ws, fmt.Sprint(w))
	}
	return fmt.Sprintf("(B %d [%s]%%uint63)", len(b), strings.Join(ws, "; "))
}

func optBytes(ok bool, b []byte) string {
	if !ok {
		return "None"
	}
	return Some(BZ(b))
}

func clean(s string) string {
	var sb strings.Builder
	for _, c := range s {
		if c >= 32 && c < 127 {
			sb.WriteRune(c)
		} else {
			sb.WriteByte('?')
		}
	}
	return sb.String()
}

// defChunked writes a list definition in small chunks: Coq's type-checking time of
// a literal list grows faster than linearly with its size.
func defChunked(o *Out, name, ty string, items []string) {
	const chunk = 20
	parts := []string{}
	for i := 0; i < len(items); i += chunk {
		j := i + chunk
		if j > len(items) {
			j = len(items)
		}
		pn := fmt.Sprintf("%s_c%d", name, i/chunk)
		o.Raw(fmt.Sprintf("Definition %s : list (%s) :=\n  [%s].\n", pn, ty, strings.Join(items[i:j], ";\n   ")))
		parts = append(parts, pn)
	}
	if len(parts) == 0 {
		parts = []string{"[]"}
	}
	o.Raw(fmt.Sprintf("Definition %s : list (%s) := %s.\n", name, ty, strings.Join(parts, " ++ ")))
}

// resDres prints a `res dres`.
func resDres(panicked bool, out []byte, class string) string {
	if panicked {
		return "Panic"
	}
	if class == "" {
		return "(Val (DOk " + BZ(out) + "))"
	}
	return "(Val (DErr " + Str(clean(class)) + "))"
}

// ---------------------------------------------------------------- sha256xor

var shaSentinels = map[error]string{
	encrypt.ErrMissingPassword:       "ErrMissingPassword",
	encrypt.ErrDataTooLarge:          "ErrDataTooLarge",
	encrypt.ErrInvalidChecksumLength: "ErrInvalidChecksumLength",
	encrypt.ErrInvalidChecksum:       "ErrInvalidChecksum",
	encrypt.ErrInvalidNonceLength:    "ErrInvalidNonceLength",
	encrypt.ErrInvalidBlockSize:      "ErrInvalidBlockSize",
	encrypt.ErrReadDataHashFailed:    "ErrReadDataHashFailed",
	encrypt.ErrInvalidPassword:       "ErrInvalidPassword",
	encrypt.ErrReadDataLengthFailed:  "ErrReadDataLengthFailed",
	encrypt.ErrInvalidDataLength:     "ErrInvalidDataLength",
	io.EOF:                           "EOF",
}

func shaClass(err error) string {
	if err == nil {
		return ""
	}
	if n, ok := shaSentinels[err]; ok {
		return n
	}
	if _, ok := err.(base64.CorruptInputError); ok {
		return "Base64"
	}
	if strings.HasPrefix(err.Error(), "read data hash failed") {
		return "read data hash failed"
	}
	return err.Error()
}

func b64(raw []byte) []byte { return []byte(base64.StdEncoding.EncodeToString(raw)) }

func b64dec(data []byte) ([]byte, bool) {
	enc := base64.StdEncoding
	buf := make([]byte, enc.DecodedLen(len(data)))
	n, err := enc.Decode(buf, data)
	if err != nil {
		return nil, false
	}
	return buf[:n], true
}

func shaKS(pw []byte, nonce []byte, i int) []byte {
	key := secp256k1.Secp256k1Hash(pw)
	h := encrypt.VerifHashKeyIndexNonce(key, int64(i), cipher.SumSHA256(nonce))
	return h[:]
}

// shaBuild assembles a sha256xor ciphertext (before base64) from explicit parts:
// the plaintext blocks `ldata` (length prefix, data, padding as given), the data
// hash (nil = the correct one) and the nonce.
func shaBuild(pw, nonce, ldata, dataHash []byte) []byte {
	if dataHash == nil {
		h := cipher.SumSHA256(ldata)
		dataHash = h[:]
	}
	body := append(append([]byte{}, dataHash...), ldata...)
	var encd []byte
	for i := 0; i*32 < len(body); i++ {
		end := (i + 1) * 32
		if end > len(body) {
			end = len(body)
		}
		ks := shaKS(pw, nonce, i)
		for j, b := range body[i*32 : end] {
			encd = append(encd, b^ks[j])
		}
	}
	nd := append(append([]byte{}, nonce...), encd...)
	cs := cipher.SumSHA256(nd)
	return append(cs[:], nd...)
}

type shaCase struct {
	kind string
	data []byte // the (base64) input handed to Decrypt
	pw   []byte
	exp  int    // 0 no expectation, 1 must return expPlain, 2 must return an error
	expP []byte // expected plaintext
}

func genSha(r *Rng, n int, hist Hist) []shaCase {
	var cs []shaCase
	add := func(kind string, data, pw []byte, exp int, expP []byte) {
		cs = append(cs, shaCase{kind, data, pw, exp, expP})
		hist.Add("sha:" + strings.SplitN(kind, ":", 2)[0])
	}
	for round := 0; len(cs) < n; round++ {
		pw := []byte(fmt.Sprintf("pw%x", r.U64()))
		plain := r.Bytes(r.Intn(45))
		switch r.Intn(6) {
		case 0:
			plain = nil
		case 1:
			plain = r.Bytes(28) // exactly one block with the length prefix
		case 2:
			plain = r.Bytes(29 + 32*r.Intn(2))
		}
		ct, err := encrypt.Sha256Xor{}.Encrypt(plain, pw)
		if err != nil {
			continue
		}
		raw, _ := b64dec(ct)
		add("valid", ct, pw, 1, plain)
		add("wrongpw", ct, append([]byte("x"), pw...), 2, nil)
		add("nopw", ct, nil, 2, nil)
		// truncations of the decoded bytes to every length 0..40 and around the block boundaries
		lens := []int{}
		for l := 0; l <= 40; l++ {
			lens = append(lens, l)
		}
		for _, l := range []int{63, 64, 65, 95, 96, 97, 127, 128, 129, len(raw) - 33, len(raw) - 32, len(raw) - 31, len(raw) - 1} {
			lens = append(lens, l)
		}
		for _, l := range lens {
			if l < 0 || l >= len(raw) {
				continue
			}
			if round > 0 && l <= 40 && !r.Chance(15) {
				continue
			}
			add(fmt.Sprintf("trunc:%d", l), b64(raw[:l]), pw, 2, nil)
		}
		// truncations of the base64 text itself
		for l := 0; l <= 40 && l < len(ct); l++ {
			if round > 0 && !r.Chance(10) {
				continue
			}
			add(fmt.Sprintf("trunc64:%d", l), ct[:l], pw, 2, nil)
		}
		// truncated after the checksum, with the checksum recomputed (passes the checksum test)
		for _, l := range []int{32, 33, 63, 64, 65, 95, 96, 97, 100, 128} {
			if l >= len(raw) {
				continue
			}
			nd := raw[32:l]
			c := cipher.SumSHA256(nd)
			add(fmt.Sprintf("trunc-rechecksum:%d", l), b64(append(c[:], nd...)), pw, 2, nil)
		}
		// flipped bytes
		for k := 0; k < 6; k++ {
			m := append([]byte{}, raw...)
			i := r.Intn(len(m))
			m[i] ^= byte(1 << uint(r.Intn(8)))
			add(fmt.Sprintf("flip:%d", i), b64(m), pw, 2, nil)
		}
		// flipped block byte with the checksum recomputed
		for k := 0; k < 4; k++ {
			m := append([]byte{}, raw...)
			i := 64 + r.Intn(len(m)-64)
			m[i] ^= byte(1 << uint(r.Intn(8)))
			c := cipher.SumSHA256(m[32:])
			copy(m[:32], c[:])
			add(fmt.Sprintf("flip-rechecksum:%d", i), b64(m), pw, 2, nil)
		}
		// hand-built ciphertexts: length field / padding / block structure
		nonce := r.Bytes(32)
		mk := func(l uint32, payload []byte) []byte {
			lb := make([]byte, 4)
			binary.LittleEndian.PutUint32(lb, l)
			return append(lb, payload...)
		}
		pay := r.Bytes(28 + 32*r.Intn(2))
		for _, l := range []uint32{0, 1, uint32(len(pay)) - 1, uint32(len(pay)), uint32(len(pay)) + 1, 1 << 16, 1<<32 - 1} {
			exp, expP := 2, []byte(nil)
			if int(l) <= len(pay) {
				exp, expP = 1, pay[:l]
			}
			add(fmt.Sprintf("lenfield:%d/%d", l, len(pay)), b64(shaBuild(pw, nonce, mk(l, pay), nil)), pw, exp, expP)
		}
		add("noblocks", b64(shaBuild(pw, nonce, nil, []byte{})), pw, 2, nil)
		add("hashblock-only", b64(shaBuild(pw, nonce, nil, nil)), pw, 2, nil)
		add("hashblock-wrong", b64(shaBuild(pw, nonce, nil, r.Bytes(32))), pw, 2, nil)
		add("shortblock", b64(shaBuild(pw, nonce, mk(3, r.Bytes(10)), nil)), pw, 2, nil)
		add("shortnonce", b64(shaBuild(pw, nonce[:r.Intn(32)], mk(3, r.Bytes(28)), nil)), pw, 0, nil)
		add("wrong-datahash", b64(shaBuild(pw, nonce, mk(3, r.Bytes(28)), r.Bytes(32))), pw, 2, nil)
		// not base64 / whitespace
		add("garbage", r.Bytes(r.Intn(60)), pw, 0, nil)
		add("notb64", []byte("!!!!"+string(ct[4:])), pw, 2, nil)
		add("newlines", []byte(strings.Repeat("\n", r.Intn(6))), pw, 2, nil)
		add("newline-in-valid", append(append(append([]byte{}, ct[:8]...), '\n'), ct[8:]...), pw, 1, plain)
	}
	return cs
}

func runSha(o *Out, cs []shaCase, caseJSON map[string][]map[string]interface{}) {
	var items []string
	for _, c := range cs {
		var out []byte
		var err error
		p := Guard(func() { out, err = encrypt.Sha256Xor{}.Decrypt(c.data, c.pw) })
		class := shaClass(err)
		// oracle values: true facts about SHA256 and the keystream. csh = SHA256 of the
		// bytes after the checksum; htab = (decoded blocks after the hash block, their
		// SHA256); ksl = keystream blocks for the nonce at bytes 32..64
		raw, ok := b64dec(c.data)
		var htab, ksl []string
		csh := []byte{}
		if ok && len(raw) >= 32 {
			rest := raw[32:]
			h := cipher.SumSHA256(rest)
			csh = h[:]
			if len(rest) >= 32 && len(c.pw) > 0 {
				nonce := rest[:32]
				blocks := rest[32:]
				var dd []byte
				for i := 0; i*32 < len(blocks); i++ {
					ks := shaKS(c.pw, nonce, i)
					ksl = append(ksl, BZ(ks))
					end := (i + 1) * 32
					if end > len(blocks) {
						end = len(blocks)
					}
					for j, b := range blocks[i*32 : end] {
						dd = append(dd, b^ks[j])
					}
				}
				if len(dd) >= 32 {
					h2 := cipher.SumSHA256(dd[32:])
					htab = append(htab, Tuple(BZ(dd[32:]), BZ(h2[:])))
				}
			}
		}
		items = append(items, Tuple(B(len(c.pw) == 0), optBytes(ok, raw), BZ(csh), List(htab), List(ksl),
			Tuple(fmt.Sprint(c.exp), BZ(c.expP)), resDres(p, out, class)))
		obs := class
		if p {
			obs = "PANIC"
		} else if err == nil {
			obs = "ok"
		}
		caseJSON["sha"] = append(caseJSON["sha"], map[string]interface{}{
			"kind": c.kind, "input_hex": hex.EncodeToString(c.data), "password": string(c.pw), "observed": obs})
		o.Count("sha"+string(c.data)+"|"+string(c.pw), true)
	}
	defChunked(o, "cases_sha", "bool * option (list Z) * list Z * list (list Z * list Z) * list (list Z) * (Z * list Z) * res dres", items)
}

// ---------------------------------------------------------------- scrypt-chacha20poly1305

const memLimit = int64(1) << 36 // the model's mem_limit in the cases file

type scCase struct {
	kind  string
	data  []byte
	pw    []byte
	exp   int
	expP  []byte
	child bool // run in a child process (hostile cost parameters)
	n, r, p int64
}

func scryptClass(err error, data []byte, jerr error) string {
	if err == nil {
		return ""
	}
	msg := err.Error()
	switch msg {
	case "missing password", "invalid metadata length", "invalid data length", "invalid nonce length",
		"invalid scrypt parameters", "scrypt: N must be > 1 and a power of 2", "scrypt: parameters are too large",
		"chacha20poly1305: message authentication failed", "chacha20poly1305: bad key length":
		return msg
	}
	if _, ok := b64dec(data); !ok {
		if _, ok := err.(base64.CorruptInputError); ok {
			return "Base64"
		}
	}
	if jerr != nil && jerr.Error() == msg {
		return "Json"
	}
	return msg
}

// scryptAccepts replicates the parameter checks at the head of scrypt.Key for
// r, p > 0 (used only to label cases whose cost is hostile).
func scryptAccepts(N, r, p int) bool {
	const maxInt = int(^uint(0) >> 1)
	if N <= 1 || N&(N-1) != 0 {
		return false
	}
	if uint64(r)*uint64(p) >= 1<<30 || r > maxInt/128/p || r > maxInt/256 || N > maxInt/128/r {
		return false
	}
	return true
}

func scBuild(ms []byte, lenField int, tail []byte) []byte {
	l := make([]byte, 2)
	binary.LittleEndian.PutUint16(l, uint16(lenField))
	return append(append(l, ms...), tail...)
}

func genScrypt(r *Rng, n int, hist Hist) []scCase {
	var cs []scCase
	add := func(c scCase) {
		cs = append(cs, c)
		hist.Add("scrypt:" + strings.SplitN(c.kind, ":", 2)[0])
	}
	small := []encrypt.ScryptChacha20poly1305{{N: 16, R: 8, P: 1, KeyLen: 32}, {N: 32, R: 1, P: 2, KeyLen: 32}, {N: 2, R: 1, P: 1, KeyLen: 32}, {N: 1 << 10, R: 2, P: 1, KeyLen: 32}}
	for round := 0; len(cs) < n; round++ {
		pw := []byte(fmt.Sprintf("pw%x", r.U64()))
		plain := r.Bytes(r.Intn(40))
		if r.Chance(15) {
			plain = nil
		}
		s := small[r.Intn(len(small))]
		ct, err := s.Encrypt(plain, pw)
		if err != nil {
			continue
		}
		raw, _ := b64dec(ct)
		ml := int(binary.LittleEndian.Uint16(raw[:2]))
		ms, tail := raw[2:2+ml], raw[2+ml:]
		gm, _ := encrypt.VerifParseScryptMeta(ms)
		gm.Salt = gm.Salt[:4] // rebuilt metadata carries a short salt (smaller cases file)
		add(scCase{kind: "valid", data: ct, pw: pw, exp: 1, expP: plain})
		add(scCase{kind: "wrongpw", data: ct, pw: append([]byte("x"), pw...), exp: 2})
		add(scCase{kind: "nopw", data: ct, pw: nil, exp: 2})
		for l := 0; l < len(raw); l++ {
			if l > 40 && l != 2+ml-1 && l != 2+ml && l != 2+ml+1 && l != 2+ml+15 && l != 2+ml+16 && l != len(raw)-1 {
				continue
			}
			if round > 0 && l <= 40 && !r.Chance(15) {
				continue
			}
			add(scCase{kind: fmt.Sprintf("trunc:%d", l), data: b64(raw[:l]), pw: pw, exp: 2})
		}
		for l := 0; l <= 40 && l < len(ct); l++ {
			if round > 0 && !r.Chance(10) {
				continue
			}
			add(scCase{kind: fmt.Sprintf("trunc64:%d", l), data: ct[:l], pw: pw, exp: 2})
		}
		for _, lf := range []int{0, 1, 2, ml - 1, ml + 1, len(raw) - 2, len(raw) - 1, len(raw), 65533, 65534, 65535} {
			add(scCase{kind: fmt.Sprintf("metalen:%d", lf), data: b64(scBuild(ms, lf, tail)), pw: pw, exp: 2})
		}
		// short inputs whose length field wraps the 16-bit addition
		add(scCase{kind: "metalen-wrap-short:65535", data: b64([]byte{0xff, 0xff}), pw: pw, exp: 2})
		add(scCase{kind: "metalen-wrap-short:65534", data: b64([]byte{0xfe, 0xff, 7}), pw: pw, exp: 2})
		// rebuilt metadata
		rebuild := func(kind string, m encrypt.VerifScryptMeta) {
			b, err := encrypt.VerifMarshalScryptMeta(m)
			if err != nil {
				return
			}
			add(scCase{kind: kind, data: b64(scBuild(b, len(b), tail[len(tail)-16:])), pw: pw, exp: 2})
		}
		for nl := 0; nl <= 32; nl++ {
			if nl == 12 || (round > 0 && !r.Chance(20)) {
				continue
			}
			m := gm
			m.Nonce = r.Bytes(nl)
			rebuild(fmt.Sprintf("nonce:%d", nl), m)
		}
		{
			m := gm
			m.Salt = nil
			rebuild("salt-empty", m)
			m = gm
			m.Nonce = nil
			rebuild("nonce-null", m)
		}
		for _, v := range []int{0, 1, 3, -16, 6, 1 << 14, -1 << 63, 1<<63 - 1} {
			m := gm
			m.N = v
			rebuild(fmt.Sprintf("N:%d", v), m)
		}
		for _, v := range []int{0, -1, -8, 1 << 29, 1 << 30, 1 << 40, 1<<63 - 1, -1 << 63} {
			m := gm
			m.R = v
			rebuild(fmt.Sprintf("R:%d", v), m)
			m = gm
			m.P = v
			rebuild(fmt.Sprintf("P:%d", v), m)
		}
		{
			m := gm
			m.R, m.P = -1, -1
			rebuild("R,P:-1", m)
			m.R, m.P = -8, -1
			rebuild("R,P:-8,-1", m)
			m.R, m.P = 0, 0
			rebuild("R,P:0", m)
			m.R, m.P = 1<<31, 1<<33
			rebuild("R,P:wrap", m)
		}
		for _, v := range []int{-100, -1, 0, 1, 31, 33, 64, 1 << 40, 1 << 62} {
			m := gm
			m.KeyLen = v
			rebuild(fmt.Sprintf("keyLen:%d", v), m)
		}
		// metadata that is not the expected JSON
		for i, js := range []string{"", "{", "null", "[]", "{}", `{"n":"x"}`, `{"n":1e30}`, `{"n":1.5,"r":8,"p":1}`,
			`{"n":16,"r":8,"p":1,"keyLen":32,"salt":"!!","nonce":"AAAA"}`, `{"n":16,"r":8,"p":1,"keyLen":32,"salt":"","nonce":null}`,
			`{"n":16,"r":8,"p":1,"keyLen":32,"salt":"AAAA","nonce":"AAAAAAAAAAAAAAAA"} x`} {
			add(scCase{kind: fmt.Sprintf("json:%d", i), data: b64(scBuild([]byte(js), len(js), tail[len(tail)-16:])), pw: pw, exp: 2})
		}
		// flipped bytes: in the tail only in-process (a flipped metadata digit can ask for any cost)
		for k := 0; k < 4 && len(tail) > 0; k++ {
			m := append([]byte{}, raw...)
			i := 2 + ml + r.Intn(len(tail))
			m[i] ^= byte(1 << uint(r.Intn(8)))
			add(scCase{kind: fmt.Sprintf("flip-tail:%d", i), data: b64(m), pw: pw, exp: 2})
		}
		for k := 0; k < 3; k++ {
			m := append([]byte{}, raw...)
			i := r.Intn(2 + ml)
			m[i] ^= byte(1 << uint(r.Intn(8)))
			add(scCase{kind: fmt.Sprintf("flip-meta:%d", i), data: b64(m), pw: pw, exp: 2, child: true})
		}
		add(scCase{kind: "garbage", data: r.Bytes(r.Intn(60)), pw: pw, exp: 0, child: true})
		add(scCase{kind: "notb64", data: []byte("!!!!" + string(ct[4:])), pw: pw, exp: 2})
		add(scCase{kind: "newlines", data: []byte(strings.Repeat("\n", r.Intn(6))), pw: pw, exp: 2})
		add(scCase{kind: "newline-in-valid", data: append(append(append([]byte{}, ct[:8]...), '\n'), ct[8:]...), pw: pw, exp: 1, expP: plain})
		if round == 0 {
			// hostile but well-formed cost parameters: the known finding's witnesses
			for _, c := range [][3]int{{1 << 40, 1, 1}, {1 << 50, 1, 1}} {
				m := gm
				m.N, m.R, m.P = c[0], c[1], c[2]
				b, _ := encrypt.VerifMarshalScryptMeta(m)
				add(scCase{kind: "hostile-cost", data: b64(scBuild(b, len(b), tail)), pw: pw, exp: 2, child: true,
					n: int64(c[0]), r: int64(c[1]), p: int64(c[2])})
			}
		}
	}
	return cs
}

// decryptChild runs one Decrypt in a child process under an address-space limit
// and a watchdog; a crash or a hang is reported as a panic.
func decryptChild(data, pw []byte) (panicked bool, out []byte, errMsg string, isErr bool) {
	exe, err := os.Executable()
	if err != nil {
		return true, nil, "", false
	}
	cmd := exec.Command(exe, "-extra", "child")
	cmd.Stdin = strings.NewReader(hex.EncodeToString(data) + "\n" + hex.EncodeToString(pw) + "\n")
	var so bytes.Buffer
	cmd.Stdout = &so
	if err := cmd.Start(); err != nil {
		return true, nil, "", false
	}
	done := make(chan error, 1)
	go func() { done <- cmd.Wait() }()
	select {
	case <-done:
	case <-time.After(60 * time.Second):
		cmd.Process.Kill() //nolint:errcheck
		<-done
		return true, nil, "", false
	}
	line := strings.TrimSpace(so.String())
	switch {
	case strings.HasPrefix(line, "OK "):
		b, _ := hex.DecodeString(line[3:])
		return false, b, "", false
	case strings.HasPrefix(line, "ERR "):
		b, _ := hex.DecodeString(line[4:])
		return false, nil, string(b), true
	}
	return true, nil, "", false // PANIC line, crash, or killed
}

func child() error {
	var dh, ph string
	fmt.Fscan(os.Stdin, &dh) //nolint:errcheck
	fmt.Fscan(os.Stdin, &ph) //nolint:errcheck
	data, _ := hex.DecodeString(dh)
	pw, _ := hex.DecodeString(ph)
	lim := syscall.Rlimit{Cur: 3 << 30, Max: 3 << 30}
	syscall.Setrlimit(syscall.RLIMIT_AS, &lim) //nolint:errcheck
	var out []byte
	var err error
	if Guard(func() { out, err = encrypt.ScryptChacha20poly1305{}.Decrypt(data, pw) }) {
		fmt.Println("PANIC")
		return nil
	}
	if err != nil {
		fmt.Println("ERR " + hex.EncodeToString([]byte(err.Error())))
		return nil
	}
	fmt.Println("OK " + hex.EncodeToString(out))
	return nil
}

type strErr string

func (e strErr) Error() string { return string(e) }

func runScrypt(o *Out, cs []scCase, caseJSON map[string][]map[string]interface{}) {
	var items []string
	for _, c := range cs {
		raw, ok := b64dec(c.data)
		// JSON oracle for the segment the length field designates
		var jtab []string
		var jerr error
		costly, ambiguous, hostile := false, false, ""
		if ok && len(raw) >= 2 {
			l := int(binary.LittleEndian.Uint16(raw[:2]))
			if 2+l <= len(raw) {
				seg := raw[2 : 2+l]
				m, err := encrypt.VerifParseScryptMeta(seg)
				jerr = err
				if err != nil {
					jtab = append(jtab, Tuple(fmt.Sprint(len(seg)), "None"))
				} else {
					jtab = append(jtab, Tuple(fmt.Sprint(len(seg)), Some(fmt.Sprintf("(Build_smeta %s %s %s %s %s %s)",
						ZI(int64(m.N)), ZI(int64(m.R)), ZI(int64(m.P)), ZI(int64(m.KeyLen)), BZ(m.Salt), BZ(m.Nonce)))))
					abs := func(x int) int {
						if x < 0 {
							return -x
						}
						return x
					}
					if abs(m.N) > 1<<16 || abs(m.R) > 64 || abs(m.P) > 16 || abs(m.KeyLen) > 1<<20 {
						costly = true
					}
					// memory the parameters ask for; the zone between what surely fits and what
					// surely does not is machine dependent and not generated
					if m.R > 0 && m.P > 0 && scryptAccepts(m.N, m.R, m.P) {
						mem := new(big.Int).Mul(big.NewInt(128), big.NewInt(int64(m.R)))
						mem.Mul(mem, new(big.Int).Add(big.NewInt(int64(m.N)), big.NewInt(int64(m.P)+2)))
						if mem.Cmp(big.NewInt(1<<28)) > 0 {
							costly = true
							if mem.Cmp(big.NewInt(1<<40)) < 0 {
								ambiguous = true
							} else if len(m.Nonce) == 12 && m.KeyLen == 32 {
								hostile = fmt.Sprintf("n=%d r=%d p=%d", m.N, m.R, m.P)
							}
						}
					}
				}
			}
		}
		if ambiguous {
			continue
		}
		var out []byte
		var err error
		var p bool
		if costly || c.kind == "hostile-cost" {
			var msg string
			var isErr bool
			p, out, msg, isErr = decryptChild(c.data, c.pw)
			if isErr {
				err = strErr(msg)
			}
		} else {
			p = Guard(func() { out, err = encrypt.ScryptChacha20poly1305{}.Decrypt(c.data, c.pw) })
		}
		class := scryptClass(err, c.data, jerr)
		if !ok && err != nil && strings.HasPrefix(err.Error(), "illegal base64 data") {
			class = "Base64"
		}
		aead := "None"
		if !p && err == nil {
			aead = Some(BZ(out))
		}
		capv := base64.StdEncoding.DecodedLen(len(c.data))
		items = append(items, Tuple(B(len(c.pw) == 0), optBytes(ok, raw), fmt.Sprint(capv), List(jtab), aead,
			Tuple(fmt.Sprint(c.exp), BZ(c.expP)), resDres(p, out, class)))
		obs := class
		if p {
			obs = "PANIC"
		} else if err == nil {
			obs = "ok"
		}
		cj := map[string]interface{}{"kind": c.kind, "input_hex": hex.EncodeToString(c.data), "password": string(c.pw), "observed": obs}
		if hostile != "" {
			// well-formed metadata, accepted by scrypt.Key's own checks, asking for >= 1 TiB
			cj["cost_class"] = "accepted-by-scrypt.Key-and-at-least-1TiB"
			cj["scrypt_params"] = hostile
		}
		caseJSON["scrypt"] = append(caseJSON["scrypt"], cj)
		o.Count("scrypt"+string(c.data)+"|"+string(c.pw), true)
	}
	o.Raw(fmt.Sprintf("Definition c18_mem_limit : Z := %d.\n", memLimit))
	defChunked(o, "cases_scrypt", "bool * option (list Z) * Z * list (Z * option smeta) * option (list Z) * (Z * list Z) * res dres", items)
}

// ---------------------------------------------------------------- wallets

var walletSentinels = map[error]string{
	wallet.ErrEncryptTempWallet:  "ErrEncryptTempWallet",
	wallet.ErrMissingPassword:    "ErrMissingPassword",
	wallet.ErrWalletEncrypted:    "ErrWalletEncrypted",
	wallet.ErrWalletNotEncrypted: "ErrWalletNotEncrypted",
	wallet.ErrInvalidPassword:    "ErrInvalidPassword",
}

func walletClass(err error) string {
	if err == nil {
		return ""
	}
	if n, ok := walletSentinels[err]; ok {
		return n
	}
	return "other"
}

type snapEntry struct{ addr, sec string }
type snap struct {
	enc                  bool
	seed, lastSeed, pass string
	xprv                 []string
	chains               [][]snapEntry
	raw                  []byte
}

// Secrets, addresses and seeds are opaque strings for the model; the cases file
// carries a prefix (suffix for the account keys, which share their prefix) of
// each, the same projection everywhere. Empty stays empty.
func abPre(s string, n int) string {
	if len(s) > n {
		return s[:n]
	}
	return s
}
func abSuf(s string, n int) string {
	if len(s) > n {
		return s[len(s)-n:]
	}
	return s
}

func snapshot(w wallet.Wallet) (snap, error) {
	b, err := w.Serialize()
	if err != nil {
		return snap{}, err
	}
	var top struct {
		Meta    map[string]string `json:"meta"`
		Entries []struct {
			Address string `json:"address"`
			Secret  string `json:"secret_key"`
		} `json:"entries"`
		Accounts []struct {
			PrivateKey string `json:"private_key"`
			Chains     []struct {
				Entries []struct {
					Address string `json:"address"`
					Secret  string `json:"secret"`
				} `json:"entries"`
			} `json:"chains"`
		} `json:"accounts"`
	}
	if err := json.Unmarshal(b, &top); err != nil {
		return snap{}, err
	}
	s := snap{enc: top.Meta["encrypted"] == "true", seed: top.Meta["seed"], lastSeed: top.Meta["lastSeed"],
		pass: top.Meta["seedPassphrase"], raw: b}
	if w.Type() == wallet.WalletTypeBip44 {
		for _, a := range top.Accounts {
			s.xprv = append(s.xprv, a.PrivateKey)
			for _, c := range a.Chains {
				ch := []snapEntry{}
				for _, e := range c.Entries {
					ch = append(ch, snapEntry{e.Address, e.Secret})
				}
				s.chains = append(s.chains, ch)
			}
		}
	} else {
		ch := []snapEntry{}
		for _, e := range top.Entries {
			ch = append(ch, snapEntry{e.Address, e.Secret})
		}
		s.chains = [][]snapEntry{ch}
	}
	return s, nil
}

func (s snap) secretsList() []string {
	l := []string{s.seed, s.lastSeed, s.pass}
	l = append(l, s.xprv...)
	for _, c := range s.chains {
		for _, e := range c {
			l = append(l, e.sec)
		}
	}
	return l
}

func (s snap) coq(leak bool, errClass string) string {
	xs := []string{}
	for _, x := range s.xprv {
		xs = append(xs, Str(abSuf(x, 16)))
	}
	cs := []string{}
	for _, c := range s.chains {
		es := []string{}
		for _, e := range c {
			es = append(es, Tuple(Str(abPre(e.addr, 12)), Str(abPre(e.sec, 16))))
		}
		cs = append(cs, List(es))
	}
	return Tuple(OptErr(errClass), B(s.enc), Str(abPre(s.seed, 20)), Str(abPre(s.lastSeed, 16)), Str(s.pass), List(xs), List(cs), B(leak))
}

func asciiWord(r *Rng, n int) string {
	const al = "abcdefghijklmnopqrstuvwxyzABCDEFGHIJKLMNOPQRSTUVWXYZ0123456789"
	b := make([]byte, n)
	for i := range b {
		b[i] = al[r.Intn(len(al))]
	}
	return string(b)
}

func runWallets(o *Out, r *Rng, n int, thorough bool, hist Hist, caseJSON map[string][]map[string]interface{}) error {
	var items []string
	ctypes := []crypto.CryptoType{crypto.CryptoTypeSha256Xor, crypto.CryptoTypeScryptChacha20poly1305Insecure}
	// drive runs one wallet through an op sequence (random, or the given script) and
	// records the case. label names the cipher / origin of the wallet.
	drive := func(cur wallet.Wallet, kind string, temp bool, label string, script []string) error {
		var err error
		shadow := cur.Clone() // never locked: tells the true secrets
		s0, err := snapshot(cur)
		if err != nil {
			return err
		}
		xs := []string{}
		for k, x := range s0.xprv {
			xs = append(xs, Tuple(Str(fmt.Sprintf("bip44AccountPrivateKey-%d", k)), Str(abSuf(x, 16))))
		}
		chs := []string{}
		for _, c := range s0.chains {
			es := []string{}
			for _, e := range c {
				es = append(es, fmt.Sprintf("(Build_entry %s %s %s)", Str(abPre(e.addr, 12)), Str(abPre(e.sec, 16)), Str(abPre(e.sec, 16))))
			}
			chs = append(chs, List(es))
		}
		w0 := fmt.Sprintf("(Build_wallet ideal_C %s %s %s %s %s %s %s false None)", kind, B(temp), Str(abPre(s0.seed, 20)), Str(abPre(s0.lastSeed, 16)), Str(s0.pass), List(xs), List(chs))

		pws := []string{"pwA-" + asciiWord(r, 6), "pwB-" + asciiWord(r, 6), ""}
		nops := 3 + r.Intn(6)
		if script != nil {
			nops = len(script)
		}
		locked, lockPw := false, ""
		var ops, obs []string
		var opNames []string
		for k := 0; k < nops; k++ {
			var class string
			var panicked bool
			var e error
			choice := r.Intn(100)
			// state-aware choice: mostly Lock when unlocked, mostly Unlock / Gen when locked
			lockLim, unlockLim := 65, 80
			if locked {
				lockLim, unlockLim = 15, 70
			}
			pw := pws[0]
			if locked && lockPw != "" {
				pw = lockPw
			}
			switch x := r.Intn(100); {
			case x < 25:
				pw = pws[r.Intn(2)]
			case x < 35:
				pw = ""
			}
			reload := script == nil && r.Chance(12)
			if script != nil { // "lock:<pw>", "unlock:<pw>", "reload"
				f := strings.SplitN(script[k], ":", 2)
				switch f[0] {
				case "lock":
					choice, pw = 0, f[1]
				case "unlock":
					choice, pw = lockLim, f[1]
				default:
					reload = true
				}
			}
			switch {
			case reload: // serialise and load again (the wallet file round trip)
				var nw wallet.Wallet
				panicked = Guard(func() {
					var b []byte
					if b, e = cur.Serialize(); e == nil {
						nw, e = loadWallet(b)
					}
				})
				if !panicked && e == nil {
					cur = nw
				}
				ops = append(ops, "OReload")
				opNames = append(opNames, "Reload")
			case choice < lockLim:
				panicked = Guard(func() { e = cur.Lock([]byte(pw)) })
				if !panicked && e == nil {
					lockPw = pw
				}
				ops = append(ops, fmt.Sprintf("(OLock %s %d)", Str(pw), r.Intn(1000)))
				opNames = append(opNames, "Lock")
			case choice < unlockLim || kind != "KBip44":
				keep := script == nil && r.Chance(30)
				var u wallet.Wallet
				panicked = Guard(func() { u, e = cur.Unlock([]byte(pw)) })
				if !panicked && e == nil && !keep {
					cur = u
				}
				ops = append(ops, fmt.Sprintf("(OUnlock %s %d %s)", Str(pw), r.Intn(1000), B(keep)))
				opNames = append(opNames, "Unlock")
			default:
				nAcc := len(s0.xprv)
				acct := r.Intn(nAcc)
				change := r.Bool()
				num := uint64(1 + r.Intn(3))
				gopts := []wallet.Option{wallet.OptionGenerateN(num), wallet.OptionAccount(uint32(acct))}
				if change {
					gopts = append(gopts, wallet.OptionChange())
				}
				var addrs []cipher.Addresser
				panicked = Guard(func() { addrs, e = cur.GenerateAddresses(gopts...) })
				// the same on the never-locked shadow gives the true secret keys
				if _, e2 := shadow.GenerateAddresses(gopts...); e2 != nil {
					return e2
				}
				es := []string{}
				for _, a := range addrs {
					se, e3 := shadow.GetEntry(a, wallet.OptionAccount(uint32(acct)))
					if e3 != nil {
						return e3
					}
					es = append(es, fmt.Sprintf("(Build_entry %s %s %s)", Str(abPre(a.String(), 12)), Str(""), Str(abPre(se.Secret.Hex(), 16))))
				}
				c := 2 * acct
				if change {
					c++
				}
				ops = append(ops, fmt.Sprintf("(OGen %d %s)", c, List(es)))
				opNames = append(opNames, "Gen")
			}
			class = walletClass(e)
			if panicked {
				class = "PANIC"
			}
			s, err := snapshot(cur)
			if err != nil {
				return err
			}
			leak := false
			locked = s.enc
			if s.enc {
				ss, err := snapshot(shadow)
				if err != nil {
					return err
				}
				for _, sec := range ss.secretsList() {
					if len(sec) >= 8 && bytes.Contains(s.raw, []byte(sec)) {
						leak = true
					}
				}
			}
			obs = append(obs, s.coq(leak, class))
			hist.Add("wallet:" + kind + ":" + opNames[len(opNames)-1] + ":" + map[bool]string{true: "ok", false: class}[class == ""])
		}
		items = append(items, Tuple(w0, List(ops), List(obs)))
		caseJSON["wallet"] = append(caseJSON["wallet"], map[string]interface{}{
			"kind": kind, "crypto": label, "temp": temp, "seed": s0.seed, "passphrase": s0.pass, "ops": strings.Join(ops, " ")})
		o.Count("wallet"+w0+strings.Join(ops, ""), true)
		return nil
	}
	for i := 0; i < n; i++ {
		ct := ctypes[i%2]
		if i%7 == 3 {
			ct = crypto.CryptoTypeSha256Xor
		}
		temp := r.Chance(8)
		opts := []wallet.Option{wallet.OptionCryptoType(ct)}
		if temp {
			opts = append(opts, wallet.OptionTemp(true))
		}
		var cur wallet.Wallet
		var kind string
		var err error
		switch i % 3 {
		case 0:
			kind = "KDet"
			cur, err = deterministic.NewWallet("c18.wlt", "c18", "seed-"+asciiWord(r, 20), append(opts, wallet.OptionGenerateN(uint64(r.Intn(4))))...)
		case 1:
			kind = "KBip44"
			var mn string
			mn, err = bip39.NewMnemonic(r.Bytes(16))
			if err != nil {
				return err
			}
			pass := ""
			if r.Bool() {
				pass = "pp-" + asciiWord(r, 12)
			}
			var bw *bip44wallet.Wallet
			bw, err = bip44wallet.NewWallet("c18.wlt", "c18", mn, pass, append(opts, wallet.OptionGenerateN(uint64(1+r.Intn(3))))...)
			if err == nil && r.Chance(35) {
				if _, err = bw.NewAccount("second"); err == nil && r.Bool() {
					_, err = bw.GenerateAddresses(wallet.OptionGenerateN(uint64(1+r.Intn(2))), wallet.OptionAccount(1))
				}
			}
			cur = bw
		default:
			kind = "KColl"
			var keys []cipher.SecKey
			for k := r.Intn(4); k > 0; k-- {
				_, sk, e := cipher.GenerateDeterministicKeyPair(r.Bytes(32))
				if e != nil {
					return e
				}
				keys = append(keys, sk)
			}
			// the same key may be given more than once (only AddEntry rejects duplicates):
			// entries with the same address share one slot of the secrets container
			if len(keys) > 0 && r.Chance(45) {
				keys = append(keys, keys[r.Intn(len(keys))])
				if r.Bool() {
					keys = append(keys, keys[0])
				}
			}
			cur, err = collection.NewWallet("c18.wlt", "c18", append(opts, wallet.OptionCollectionPrivateKeys(keys))...)
			if err == nil && len(keys) > 0 && r.Chance(35) { // a key the wallet already holds, added later
				_, err = cur.GenerateAddresses(wallet.OptionCollectionPrivateKeys([]cipher.SecKey{keys[r.Intn(len(keys))]}))
			}
		}
		if err != nil {
			return fmt.Errorf("wallet construction failed: %v", err)
		}
		if err := drive(cur, kind, temp, string(ct), nil); err != nil {
			return err
		}
	}
	if err := loadedWallets(r, hist, drive, thorough); err != nil {
		return err
	}
	defChunked(o, "cases_wallet", "wallet ideal_C * list wop * list (error * bool * string * string * string * list string * list (list (string * string)) * bool)", items)
	return nil
}


// loadWallet loads a serialised wallet with the loader of its meta type.
func loadWallet(b []byte) (wallet.Wallet, error) {
	var top struct {
		Meta map[string]string `json:"meta"`
	}
	if err := json.Unmarshal(b, &top); err != nil {
		return nil, err
	}
	switch top.Meta["type"] {
	case wallet.WalletTypeDeterministic:
		return deterministic.Loader{}.Load(b)
	case wallet.WalletTypeBip44:
		return bip44wallet.Loader{}.Load(b)
	case wallet.WalletTypeCollection:
		return collection.Loader{}.Load(b)
	}
	return nil, fmt.Errorf("no loader for wallet type %q", top.Meta["type"])
}

// editMeta rewrites the meta object of a serialised wallet: keys mapped to nil are
// removed, others set.
func editMeta(b []byte, edits map[string]interface{}) ([]byte, bool, error) {
	var top map[string]interface{}
	if err := json.Unmarshal(b, &top); err != nil {
		return nil, false, err
	}
	m, ok := top["meta"].(map[string]interface{})
	if !ok {
		return nil, false, fmt.Errorf("no meta object")
	}
	_, hadCrypto := m["cryptoType"]
	for k, v := range edits {
		if v == nil {
			delete(m, k)
		} else {
			m[k] = v
		}
	}
	out, err := json.Marshal(top)
	return out, hadCrypto, err
}

func kindOf(w wallet.Wallet) string {
	switch w.Type() {
	case wallet.WalletTypeDeterministic:
		return "KDet"
	case wallet.WalletTypeBip44:
		return "KBip44"
	case wallet.WalletTypeCollection:
		return "KColl"
	}
	return ""
}

// loadedWallets drives wallets obtained by LOADING serialised wallets: the repo's
// testdata files and freshly serialised wallets with optional meta keys removed
// (legacy shapes). Wallets without a cryptoType are locked with the default
// cipher (scrypt N = 2^20, about 3 s and 1 GiB per call), so they run a short
// script; the quick tier does this for the legacy deterministic file only.
func loadedWallets(r *Rng, hist Hist, drive func(wallet.Wallet, string, bool, string, []string) error, thorough bool) error {
	repo := os.Getenv("VERIF_REPO")
	if repo == "" {
		repo = "/repo"
	}
	var sources []struct {
		name string
		data []byte
	}
	for _, f := range []string{"testdata/test1.wlt", "testdata/test2.wlt", "testdata/test3.wlt", "testdata/test4-collection.wlt",
		"testdata/test5-bip44.wlt", "testdata/test6-bip44.wlt", "testdata/test6-passphrase-bip44.wlt", "testdata/v2_no_encrypt.wlt",
		"deterministic/testdata/test1.wlt", "deterministic/testdata/wallet_serialize.wlt",
		"collection/testdata/test-collection.wlt", "collection/testdata/wallet_serialize.wlt"} {
		b, err := os.ReadFile(filepath.Join(repo, "src/wallet", f))
		if err != nil {
			hist.Add("loaded:missing-file")
			continue
		}
		sources = append(sources, struct {
			name string
			data []byte
		}{f, b})
	}
	// freshly serialised wallets of each type
	mn, err := bip39.NewMnemonic(r.Bytes(16))
	if err != nil {
		return err
	}
	_, sk, err := cipher.GenerateDeterministicKeyPair(r.Bytes(32))
	if err != nil {
		return err
	}
	dw, err := deterministic.NewWallet("c18l.wlt", "c18", "seed-"+asciiWord(r, 20), wallet.OptionGenerateN(2))
	if err != nil {
		return err
	}
	bw, err := bip44wallet.NewWallet("c18l.wlt", "c18", mn, "pp-"+asciiWord(r, 8), wallet.OptionGenerateN(2))
	if err != nil {
		return err
	}
	cw, err := collection.NewWallet("c18l.wlt", "c18", wallet.OptionCollectionPrivateKeys([]cipher.SecKey{sk}))
	if err != nil {
		return err
	}
	for _, w := range []wallet.Wallet{dw, bw, cw} {
		b, err := w.Serialize()
		if err != nil {
			return err
		}
		sources = append(sources, struct {
			name string
			data []byte
		}{"fresh-" + w.Type(), b})
	}
	shapes := []struct {
		name  string
		edits map[string]interface{}
	}{
		{"as-is", map[string]interface{}{}},
		{"no-version", map[string]interface{}{"version": nil}},
		{"version-0.1", map[string]interface{}{"version": "0.1"}},
		{"no-tm-no-encrypted", map[string]interface{}{"tm": nil, "encrypted": nil}},
		{"no-lastSeed", map[string]interface{}{"lastSeed": nil}},
		{"no-label-no-seedPassphrase", map[string]interface{}{"label": nil, "seedPassphrase": nil}},
	}
	slow := 0
	for si, src := range sources {
		for hi, sh := range shapes {
			if !thorough && hi > 0 && (si+hi)%3 != int(r.U64()%3) {
				continue // the quick tier samples the shapes
			}
			// fast variant: the cipher is set to sha256-xor, random ops
			ed := map[string]interface{}{"cryptoType": string(crypto.CryptoTypeSha256Xor)}
			for k, v := range sh.edits {
				ed[k] = v
			}
			b, _, err := editMeta(src.data, ed)
			if err != nil {
				return err
			}
			w, err := loadWallet(b)
			if err != nil || w == nil || w.IsEncrypted() || kindOf(w) == "" {
				hist.Add("loaded:rejected-by-loader")
				continue
			}
			hist.Add("loaded:" + kindOf(w) + ":" + sh.name)
			if err := drive(w, kindOf(w), false, "loaded "+src.name+" "+sh.name+" sha256-xor", nil); err != nil {
				return err
			}
		}
		// legacy variant: no cryptoType key at all, Lock falls back to the default cipher
		legacy := src.name == "deterministic/testdata/test1.wlt"
		if !legacy && !thorough {
			continue // quick tier: the default cipher (2 scrypt calls at N = 2^20) only for the legacy file
		}
		b, _, err := editMeta(src.data, map[string]interface{}{"cryptoType": nil})
		if err != nil {
			return err
		}
		w, err := loadWallet(b)
		if err != nil || w == nil || w.IsEncrypted() || kindOf(w) == "" {
			hist.Add("loaded:rejected-by-loader")
			continue
		}
		if !legacy {
			slow++
		}
		script := []string{"lock:pw-legacy", "reload", "unlock:pw-legacy"}
		if legacy && thorough {
			script = []string{"lock:pw-legacy", "reload", "unlock:wrong-pw", "unlock:pw-legacy", "reload"}
		}
		hist.Add("loaded:" + kindOf(w) + ":no-cryptoType(default cipher)")
		if err := drive(w, kindOf(w), false, "loaded "+src.name+" without cryptoType (default cipher)", script); err != nil {
			return err
		}
	}
	return nil
}

func runXpub(o *Out, r *Rng, n int, caseJSON map[string][]map[string]interface{}) error {
	var items []string
	for i := 0; i < n; i++ {
		mn, err := bip39.NewMnemonic(r.Bytes(16))
		if err != nil {
			return err
		}
		bw, err := bip44wallet.NewWallet("c18.wlt", "c18", mn, "")
		if err != nil {
			return err
		}
		bs, err := bw.Serialize()
		if err != nil {
			return err
		}
		var top struct {
			Accounts []struct {
				Chains []struct {
					PubKey string `json:"public_key"`
				} `json:"chains"`
			} `json:"accounts"`
		}
		if err := json.Unmarshal(bs, &top); err != nil {
			return err
		}
		xw, err := xpubwallet.NewWallet("c18x.wlt", "c18x", top.Accounts[0].Chains[0].PubKey, wallet.OptionGenerateN(uint64(1+r.Intn(3))))
		if err != nil {
			return err
		}
		var e1, e2 error
		p := Guard(func() { e1 = xw.Lock([]byte("pw")); _, e2 = xw.Unlock([]byte("pw")) })
		s, err := snapshot(xw)
		if err != nil {
			return err
		}
		sb, err := snapshot(bw)
		if err != nil {
			return err
		}
		leak := false
		for _, sec := range sb.secretsList() {
			if len(sec) >= 8 && bytes.Contains(s.raw, []byte(sec)) {
				leak = true
			}
		}
		items = append(items, Tuple(B(p), B(e1 != nil), B(e2 != nil), B(s.enc), B(leak)))
		caseJSON["xpub"] = append(caseJSON["xpub"], map[string]interface{}{"mnemonic": mn})
		o.Count("xpub"+mn, true)
	}
	o.Def("cases_xpub", "bool * bool * bool * bool * bool", items)
	return nil
}


// ---------------------------------------------------------------- wallet.Service

// runService drives a real wallet.Service on a temporary wallet directory with
// ENCRYPTED wallets of every type that can be encrypted, through the service calls
// that modify or open wallets (NewAddresses, ScanAddresses, UpdateSecrets,
// UpdateWalletLabel, GetWalletSeed, ViewSecrets; right and wrong passwords), and
// checks after every call: (a) the in-memory locked wallet's serialisation and
// the wallet file contain no secret and every secret field is blank, (b) Unlock
// with the right password restores a secret for every entry (new ones included)
// and every entry verifies, (c) a wrong password is refused and changes nothing.
func runService(o *Out, r *Rng, n int, hist Hist, caseJSON map[string][]map[string]interface{}) error {
	dir, err := os.MkdirTemp("", "c18svc")
	if err != nil {
		return err
	}
	defer os.RemoveAll(dir)
	bc := bip44.CoinTypeSkycoin
	serv, err := wallet.NewService(wallet.Config{WalletDir: dir, CryptoType: crypto.CryptoTypeSha256Xor,
		EnableWalletAPI: true, EnableSeedAPI: true, Bip44Coin: &bc})
	if err != nil {
		return err
	}
	var items []string
	for i := 0; i < n; i++ {
		typ := []string{wallet.WalletTypeCollection, wallet.WalletTypeDeterministic, wallet.WalletTypeBip44}[i%3]
		ct := crypto.CryptoTypeSha256Xor
		if i%4 == 3 {
			ct = crypto.CryptoTypeScryptChacha20poly1305Insecure
		}
		pw := []byte("pw-" + asciiWord(r, 8))
		wrong := []byte("no-" + asciiWord(r, 8))
		opt := wallet.Options{Type: typ, Label: "c18svc", Encrypt: true, Password: pw, CryptoType: ct}
		known := map[string]bool{} // secrets the harness itself supplied
		var held []cipher.SecKey // keys given to the collection wallet so far
		newKeys := func(k int) []cipher.SecKey {
			var ks []cipher.SecKey
			for ; k > 0; k-- {
				_, sk, _ := cipher.GenerateDeterministicKeyPair(r.Bytes(32))
				if len(held) > 0 && r.Chance(35) {
					sk = held[r.Intn(len(held))] // a key the wallet already holds
				}
				ks = append(ks, sk)
				held = append(held, sk)
				known[sk.Hex()] = true
			}
			return ks
		}
		switch typ {
		case wallet.WalletTypeDeterministic:
			opt.Seed = "seed-" + asciiWord(r, 20)
			opt.GenerateN = uint64(1 + r.Intn(3))
			known[opt.Seed] = true
		case wallet.WalletTypeBip44:
			mn, err := bip39.NewMnemonic(r.Bytes(16))
			if err != nil {
				return err
			}
			opt.Seed = mn
			opt.GenerateN = uint64(1 + r.Intn(3))
			known[mn] = true
			if r.Bool() {
				opt.SeedPassphrase = "pp-" + asciiWord(r, 12)
				known[opt.SeedPassphrase] = true
			}
		default:
			opt.CollectionPrivateKeys = newKeys(1 + r.Intn(3))
		}
		id := fmt.Sprintf("c18svc%d.wlt", i)
		if _, err := serv.CreateWallet(id, opt); err != nil {
			return fmt.Errorf("service CreateWallet(%s): %v", typ, err)
		}
		leakMem, leakFile, restoreOK, wrongRefused, panicked := false, false, true, true, false
		firstBad := ""
		var opsDone []string
		entriesLen := func() int {
			w, err := serv.GetWallet(id)
			if err != nil {
				return -1
			}
			l, _ := w.EntriesLen()
			return l
		}
		check := func(op string) error {
			w, err := serv.GetWallet(id)
			if err != nil {
				return err
			}
			bad := func(what string) {
				if firstBad == "" {
					firstBad = op + ": " + what
				}
			}
			if !w.IsEncrypted() {
				restoreOK = false
				bad("wallet no longer encrypted")
				return nil
			}
			// (b) unlock restores every secret
			secrets := []string{}
			for k := range known {
				secrets = append(secrets, k)
			}
			u, err := w.Unlock(pw)
			if err != nil {
				restoreOK = false
				bad("Unlock with the right password failed: " + err.Error())
			} else {
				us, err := snapshot(u)
				if err != nil {
					return err
				}
				secrets = append(secrets, us.secretsList()...)
				es, _ := u.GetEntries()
				if typ == wallet.WalletTypeBip44 {
					es, _ = u.GetEntries(wallet.OptionExternal())
					ces, _ := u.GetEntries(wallet.OptionChange())
					es = append(es, ces...)
				}
				ll, _ := w.EntriesLen()
				if len(es) != ll {
					restoreOK = false
					bad("entry count differs after Unlock")
				}
				for _, e := range es {
					e := e
					if e.Secret.Null() || e.Verify() != nil {
						restoreOK = false
						bad("entry without a valid secret after Unlock")
					}
				}
			}
			// (a) no secret in the locked wallet, in memory and on disk
			ls, err := snapshot(w)
			if err != nil {
				return err
			}
			for _, f := range ls.secretsList() {
				if f != "" {
					leakMem = true
					bad("secret field not blank in the locked wallet")
				}
			}
			fileBytes, err := os.ReadFile(filepath.Join(dir, id))
			if err != nil {
				return err
			}
			for _, sec := range secrets {
				if len(sec) < 8 {
					continue
				}
				if bytes.Contains(ls.raw, []byte(sec)) {
					leakMem = true
					bad("secret in the serialised locked wallet")
				}
				if bytes.Contains(fileBytes, []byte(sec)) {
					leakFile = true
					bad("secret in the wallet file")
				}
			}
			return nil
		}
		if err := check("CreateWallet"); err != nil {
			return err
		}
		for k := 3 + r.Intn(4); k > 0; k-- {
			usePw, isWrong := pw, r.Chance(30)
			if isWrong {
				usePw = wrong
			}
			before := entriesLen()
			var e error
			op := ""
			mustRefuse := isWrong
			p := Guard(func() {
				switch x := r.Intn(10); {
				case x < 5:
					op = "NewAddresses"
					if typ == wallet.WalletTypeCollection {
						_, e = serv.NewAddresses(id, usePw, wallet.OptionCollectionPrivateKeys(newKeys(1+r.Intn(2))))
					} else {
						_, e = serv.NewAddresses(id, usePw, wallet.OptionGenerateN(uint64(1+r.Intn(3))))
						if typ == wallet.WalletTypeBip44 {
							mustRefuse = false // bip44 derives publicly, the password is not used
						}
					}
				case x < 7:
					op = "ScanAddresses"
					switch typ {
					case wallet.WalletTypeBip44:
						_, e = serv.ScanAddresses(id, nil, uint64(1+r.Intn(3)), svcFinder{})
						mustRefuse, isWrong = false, false
					case wallet.WalletTypeCollection:
						_, e = serv.ScanAddresses(id, usePw, 2, svcFinder{})
						e, mustRefuse = nil, false // not supported for collection wallets: an error either way
					default:
						_, e = serv.ScanAddresses(id, usePw, uint64(1+r.Intn(3)), svcFinder{})
					}
				case x < 8:
					op = "UpdateSecrets"
					e = serv.UpdateSecrets(id, usePw, func(w wallet.Wallet) error { return nil })
				case x < 9:
					op = "GetWalletSeed+ViewSecrets"
					if typ != wallet.WalletTypeCollection {
						_, _, e = serv.GetWalletSeed(id, usePw)
					}
					if e == nil {
						e = serv.ViewSecrets(id, usePw, func(w wallet.Wallet) error { return nil })
					}
				default:
					op = "UpdateWalletLabel"
					e = serv.UpdateWalletLabel(id, "label-"+asciiWord(r, 5))
					mustRefuse, isWrong = false, false
				}
			})
			tag := op
			if isWrong {
				tag += "(wrong password)"
			}
			opsDone = append(opsDone, tag)
			hist.Add("service:" + typ + ":" + tag)
			if p {
				panicked = true
			}
			if mustRefuse && (e == nil || entriesLen() != before) {
				wrongRefused = false
				if firstBad == "" {
					firstBad = tag + ": wrong password accepted"
				}
			}
			if !mustRefuse && !isWrong && e != nil && op != "ScanAddresses" {
				restoreOK = false
				if firstBad == "" {
					firstBad = tag + ": failed with the right password: " + e.Error()
				}
			}
			if err := check(tag); err != nil {
				return err
			}
		}
		items = append(items, Tuple(B(panicked), B(leakMem), B(leakFile), B(restoreOK), B(wrongRefused)))
		caseJSON["service"] = append(caseJSON["service"], map[string]interface{}{
			"type": typ, "crypto": string(ct), "ops": strings.Join(opsDone, ", "), "first_failure": firstBad})
		o.Count("service"+typ+strings.Join(opsDone, ",")+fmt.Sprint(i), true)
	}
	o.Def("cases_service", "bool * bool * bool * bool * bool", items)
	return nil
}

type svcFinder struct{}

func (svcFinder) AddressesActivity(addrs []cipher.Addresser) ([]bool, error) {
	out := make([]bool, len(addrs))
	if len(out) > 0 {
		out[0] = true
	}
	return out, nil
}

// ---------------------------------------------------------------- main

func run(args []string) error {
	logging.Disable()
	f := ParseFlags("c18", args)
	if f.Extra == "child" {
		return child()
	}
	r := NewRng(f.Seed)
	n := f.Budget(300, 6000)
	o := NewOut()
	hist := Hist{}
	caseJSON := map[string][]map[string]interface{}{}

	sha := genSha(r, n, hist)
	runSha(o, sha, caseJSON)
	sc := genScrypt(r, n, hist)
	runScrypt(o, sc, caseJSON)
	nw := n / 8
	if nw < 24 {
		nw = 24
	}
	if err := runWallets(o, r, nw, f.Tier == "thorough" || f.Tier == "search", hist, caseJSON); err != nil {
		return err
	}
	if err := runXpub(o, r, 4, caseJSON); err != nil {
		return err
	}
	ns := nw / 2
	if ns < 12 {
		ns = 12
	}
	if err := runService(o, r, ns, hist, caseJSON); err != nil {
		return err
	}

	o.Side["cases"] = caseJSON
	o.Side["distribution"] = hist.Sorted()
	o.Side["rule"] = "a case is one Decrypt call (distinct by input bytes and password) or one wallet with its lock/unlock/generate op sequence (distinct by initial wallet and ops); every case reaches a decision of the code under test (plaintext, a distinct error class, or a wallet state)"
	var samples []map[string]interface{}
	for _, g := range []string{"sha", "scrypt", "wallet"} {
		for i, c := range caseJSON[g] {
			if i%(len(caseJSON[g])/4+1) == 0 && len(samples) < 12 {
				m := map[string]interface{}{"group": g}
				for k, v := range c {
					if s, ok := v.(string); ok && len(s) > 160 {
						v = s[:160] + "..."
					}
					m[k] = v
				}
				samples = append(samples, m)
			}
		}
	}
	o.Side["samples"] = samples
	return o.Write(f.Out, f.JSON)
}
