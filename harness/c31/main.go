// Command c31: translation validation / correspondence for mathutil, fee, CoinHours (property C31).
package main

// C31: translation validation / correspondence for mathutil, fee, CoinHours.

import (
	"fmt"

	. "verif/harness/kit"

	"github.com/skycoin/skycoin/src/coin"
	"github.com/skycoin/skycoin/src/util/fee"
	"github.com/skycoin/skycoin/src/util/mathutil"
)

var c31Sentinels = map[error]string{
	mathutil.ErrUint64MultOverflow:             "ErrUint64MultOverflow",
	mathutil.ErrUint64AddOverflow:              "ErrUint64AddOverflow",
	mathutil.ErrUint32AddOverflow:              "ErrUint32AddOverflow",
	mathutil.ErrUint64OverflowsInt64:           "ErrUint64OverflowsInt64",
	mathutil.ErrInt64UnderflowsUint64:          "ErrInt64UnderflowsUint64",
	mathutil.ErrIntUnderflowsUint32:            "ErrIntUnderflowsUint32",
	mathutil.ErrIntOverflowsUint32:             "ErrIntOverflowsUint32",
	fee.ErrTxnNoFee:                            "ErrTxnNoFee",
	fee.ErrTxnInsufficientFee:                  "ErrTxnInsufficientFee",
	fee.ErrTxnInsufficientCoinHours:            "ErrTxnInsufficientCoinHours",
	coin.ErrAddEarnedCoinHoursAdditionOverflow: "ErrAddEarnedCoinHoursAdditionOverflow",
}

func main() { Main(run) }

func run(args []string) error {
	f := ParseFlags("c31", args)
	r := NewRng(f.Seed)
	n := f.Budget(400, 20000)
	o := NewOut()
	hist := Hist{}
	var samples []map[string]interface{}
	caseJSON := map[string][]map[string]interface{}{}
	rec := func(group string, m map[string]interface{}) {
		caseJSON[group] = append(caseJSON[group], m)
		if len(samples) < 12 && r.Intn(n/4+1) == 0 {
			mm := map[string]interface{}{"fn": group}
			for k, v := range m {
				mm[k] = v
			}
			samples = append(samples, mm)
		}
	}
	u := func(x uint64) string { return fmt.Sprintf("%d", x) }

	var add64, mul64, add32, u2i, i2u, int2u32, reqfee, remaining, vfee, ch []string
	for i := 0; i < n; i++ {
		a, b := r.U64Edge(), r.U64Edge()
		if r.Chance(20) { // sums / products straddling 2^64
			b = ^a + uint64(r.Intn(3)) - 1
		}
		{
			var v uint64
			var err error
			p := Guard(func() { v, err = mathutil.AddUint64(a, b) })
			add64 = append(add64, Tuple(Z(a), Z(b), ResZE(p, Z(v), ErrClass(err, c31Sentinels))))
			rec("add64", map[string]interface{}{"a": u(a), "b": u(b), "ret": u(v), "err": ErrClass(err, c31Sentinels)})
			o.Count(fmt.Sprint("add64", a, b), true)
			hist.Add("add64:" + okErr(err))
		}
		{
			ma, mb := a, b
			if r.Chance(40) && ma != 0 { // products straddling 2^64
				mb = ^uint64(0)/ma + uint64(r.Intn(3)) - 1
			}
			var v uint64
			var err error
			p := Guard(func() { v, err = mathutil.MultUint64(ma, mb) })
			mul64 = append(mul64, Tuple(Z(ma), Z(mb), ResZE(p, Z(v), ErrClass(err, c31Sentinels))))
			rec("mul64", map[string]interface{}{"a": u(ma), "b": u(mb), "ret": u(v), "err": ErrClass(err, c31Sentinels)})
			o.Count(fmt.Sprint("mul64", ma, mb), true)
			hist.Add("mul64:" + okErr(err))
		}
		{
			a32, b32 := uint32(r.U64Edge()), uint32(r.U64Edge())
			if r.Chance(30) {
				b32 = ^a32 + uint32(r.Intn(3)) - 1
			}
			var v uint32
			var err error
			p := Guard(func() { v, err = mathutil.AddUint32(a32, b32) })
			add32 = append(add32, Tuple(Z(uint64(a32)), Z(uint64(b32)), ResZE(p, Z(uint64(v)), ErrClass(err, c31Sentinels))))
			rec("add32", map[string]interface{}{"a": a32, "b": b32, "ret": v, "err": ErrClass(err, c31Sentinels)})
			o.Count(fmt.Sprint("add32", a32, b32), true)
			hist.Add("add32:" + okErr(err))
		}
		{
			var v int64
			var err error
			p := Guard(func() { v, err = mathutil.Uint64ToInt64(a) })
			u2i = append(u2i, Tuple(Z(a), ResZE(p, ZI(v), ErrClass(err, c31Sentinels))))
			rec("u2i", map[string]interface{}{"a": u(a), "ret": v, "err": ErrClass(err, c31Sentinels)})
			o.Count(fmt.Sprint("u2i", a), true)
			hist.Add("u2i:" + okErr(err))
		}
		{
			var v uint64
			var err error
			ia := int64(a)
			p := Guard(func() { v, err = mathutil.Int64ToUint64(ia) })
			i2u = append(i2u, Tuple(ZI(ia), ResZE(p, Z(v), ErrClass(err, c31Sentinels))))
			rec("i2u", map[string]interface{}{"a": ia, "ret": u(v), "err": ErrClass(err, c31Sentinels)})
			o.Count(fmt.Sprint("i2u", ia), true)
			hist.Add("i2u:" + okErr(err))
		}
		{
			var v uint32
			var err error
			ia := int(int64(a))
			if r.Chance(40) {
				ia = int(int64(r.U64Edge() >> 31))
			}
			p := Guard(func() { v, err = mathutil.IntToUint32(ia) })
			int2u32 = append(int2u32, Tuple(ZI(int64(ia)), ResZE(p, Z(uint64(v)), ErrClass(err, c31Sentinels))))
			rec("int2u32", map[string]interface{}{"a": ia, "ret": v, "err": ErrClass(err, c31Sentinels)})
			o.Count(fmt.Sprint("int2u32", ia), true)
			hist.Add("int2u32:" + okErr(err))
		}
		// fee arithmetic
		bf := uint32(r.U64Edge())
		switch r.Intn(4) {
		case 0:
			bf = uint32(1 + r.Intn(20))
		case 1:
			bf = 10
		}
		hrs := a
		if r.Chance(40) && bf != 0 { // multiples of the burn factor ±1
			hrs = (r.U64Edge()/uint64(bf))*uint64(bf) + uint64(r.Intn(3)) - 1
		}
		{
			var v uint64
			p := Guard(func() { v = fee.RequiredFee(hrs, bf) })
			s := "(Val " + Z(v) + ")"
			if p {
				s = "Panic"
			}
			reqfee = append(reqfee, Tuple(Z(hrs), Z(uint64(bf)), s))
			rec("reqfee", map[string]interface{}{"hours": u(hrs), "burn": bf, "ret": u(v), "panic": p})
			o.Count(fmt.Sprint("reqfee", hrs, bf), bf != 0)
			var w uint64
			p = Guard(func() { w = fee.RemainingHours(hrs, bf) })
			s = "(Val " + Z(w) + ")"
			if p {
				s = "Panic"
			}
			remaining = append(remaining, Tuple(Z(hrs), Z(uint64(bf)), s))
			rec("remaining", map[string]interface{}{"hours": u(hrs), "burn": bf, "ret": u(w), "panic": p})
			o.Count(fmt.Sprint("remaining", hrs, bf), bf != 0)
			hist.Add(fmt.Sprintf("fee:burn0=%v", bf == 0))
		}
		{
			fe := b
			switch r.Intn(5) {
			case 0:
				fe = 0
			case 1, 2: // around the required fee for hours+fee
				if bf > 1 {
					// fee >= ceil((h+fee)/b)  <=>  fee*(b-1) >= h (roughly); choose near h/(b-1)
					fe = hrs/uint64(bf-1) + uint64(r.Intn(5)) - 2
				}
			}
			var err error
			p := Guard(func() { err = fee.VerifyTransactionFeeForHours(hrs, fe, bf) })
			s := "(Val " + OptErr(ErrClass(err, c31Sentinels)) + ")"
			if p {
				s = "Panic"
			}
			vfee = append(vfee, Tuple(Z(hrs), Z(fe), Z(uint64(bf)), s))
			rec("vfee", map[string]interface{}{"hours": u(hrs), "fee": u(fe), "burn": bf, "err": ErrClass(err, c31Sentinels), "panic": p})
			o.Count(fmt.Sprint("vfee", hrs, fe, bf), true)
			hist.Add("vfee:" + ErrClass(err, c31Sentinels))
		}
		// CoinHours
		{
			tm, coins, hours, t := r.U64Edge(), r.U64Edge(), r.U64Edge(), r.U64Edge()
			switch r.Intn(6) {
			case 0: // realistic
				tm = 1426562704 + uint64(r.Intn(1e8))
				t = tm + uint64(r.Intn(1e9))
				coins = uint64(r.Intn(1e9)) * uint64(1+r.Intn(1e6))
				hours = uint64(r.Intn(1e9))
			case 1: // whole-coin product near 2^64
				coins = (1+uint64(r.Intn(1e6)))*1e6 + uint64(r.Intn(1e6))
				tm = uint64(r.Intn(10))
				d := ^uint64(0)/(coins/1e6) + uint64(r.Intn(5)) - 2
				t = tm + d
				hours = uint64(r.Intn(3))
			case 2: // droplet remainder with huge elapsed time (sum overflow region)
				coins = uint64(1+r.Intn(3))*1e6 + uint64(r.Intn(1e6))
				tm = uint64(r.Intn(3))
				t = ^uint64(0) - uint64(r.Intn(1e6))
				hours = uint64(r.Intn(3))
			case 3: // final addition near 2^64
				coins = uint64(r.Intn(1e7)) * 1e6
				tm = uint64(r.Intn(1e6))
				t = tm + uint64(r.Intn(1e9))
				hours = ^uint64(0) - uint64(r.Intn(1e9))
			}
			ux := coin.UxOut{Head: coin.UxHead{Time: tm}, Body: coin.UxBody{Coins: coins, Hours: hours}}
			var v uint64
			var err error
			p := Guard(func() { v, err = ux.CoinHours(t) })
			ch = append(ch, Tuple(Z(tm), Z(coins), Z(hours), Z(t), ResZE(p, Z(v), ErrClass(err, c31Sentinels))))
			cls := ErrClass(err, c31Sentinels)
			if len(cls) > 50 {
				cls = cls[:50]
			}
			rec("coinhours", map[string]interface{}{"time": u(tm), "coins": u(coins), "hours": u(hours), "t": u(t), "ret": u(v), "err": ErrClass(err, c31Sentinels)})
			o.Count(fmt.Sprint("ch", tm, coins, hours, t), t >= tm)
			hist.Add("coinhours:" + cls)
		}
	}
	// loops over slices (Gen/CoinLoops.v, Gen/FeeTxn.v): see loops.go
	nl := n * 3 / 10
	if nl > 1200 { // thorough / search tiers: keeps the case file below ~1 MB extra
		nl = 1200
	}
	if nl < 1 {
		nl = 1
	}
	runLoops(r, nl, o, hist, caseJSON)
	runTruncate(r, nl, o, hist, caseJSON)
	zze := "Z * Z * res (Z * error)"
	o.Def("cases_add64", zze, add64)
	o.Def("cases_mul64", zze, mul64)
	o.Def("cases_add32", zze, add32)
	o.Def("cases_u2i", "Z * res (Z * error)", u2i)
	o.Def("cases_i2u", "Z * res (Z * error)", i2u)
	o.Def("cases_int2u32", "Z * res (Z * error)", int2u32)
	o.Def("cases_reqfee", "Z * Z * res Z", reqfee)
	o.Def("cases_remaining", "Z * Z * res Z", remaining)
	o.Def("cases_vfee", "Z * Z * Z * res error", vfee)
	o.Def("cases_coinhours", "Z * Z * Z * Z * res (Z * error)", ch)
	o.Side["rule"] = "boundary-biased 64/32-bit operands (small, 2^k±1, near 2^32/2^63/2^64, sums and products straddling the width, multiples of the burn factor ±1, CoinHours points in each overflow region; for the loop functions 0-6 inputs / outputs with realistic, legacy-overflow, intermediate-overflow and future outputs, output coins / hours aimed at the inputs' totals +-1 and at sums crossing 2^64); a case is non-trivial when its inputs are in the function's domain (burn factor >= 1, t >= creation time); distinct by input tuple"
	o.Side["distribution"] = hist.Sorted()
	o.Side["samples"] = samples
	o.Side["cases"] = caseJSON
	return o.Write(f.Out, f.JSON)
}

func okErr(err error) string {
	if err == nil {
		return "ok"
	}
	return "err"
}
