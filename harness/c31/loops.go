package main

// Translation validation of the loop functions (Gen/CoinLoops.v, Gen/FeeTxn.v):
// coin.(*Transaction).OutputHours, coin.UxArray.Coins / CoinHours,
// coin.VerifyTransactionCoinsSpending / VerifyTransactionHoursSpending and
// fee.TransactionFee / fee.VerifyTransactionFee are run on generated (head time, inputs, outputs) and the
// observed results are written next to the inputs; Corr/C31_corr.v evaluates
// the regenerated Gallina on the projections named in the translator's
// manifest (inputs: (Head.Time, Body.Coins, Body.Hours); outputs: Coins / Hours).

import (
	"fmt"
	"math/big"
	"strings"

	. "verif/harness/kit"

	"github.com/skycoin/skycoin/src/cipher"
	"github.com/skycoin/skycoin/src/coin"
	"github.com/skycoin/skycoin/src/util/fee"
)

type lpIn struct{ time, coins, hours uint64 }
type lpOut struct{ coins, hours uint64 }

var two64 = new(big.Int).Lsh(big.NewInt(1), 64)

// split total (clamped to 64 bits per part) into m parts; the parts add up to
// total when it fits, otherwise they are what they are (overflow cases)
func lpSplit(r *Rng, total *big.Int, m int) []uint64 {
	out := make([]uint64, m)
	if m == 0 {
		return out
	}
	rest := new(big.Int).Set(total)
	max64 := new(big.Int).Sub(two64, big.NewInt(1))
	for i := 0; i < m-1; i++ {
		var part *big.Int
		switch r.Intn(3) {
		case 0:
			part = big.NewInt(0)
		case 1:
			part = new(big.Int).Rsh(rest, uint(1+r.Intn(3)))
		default:
			part = new(big.Int).SetUint64(r.U64Edge())
			if part.Cmp(rest) > 0 {
				part = new(big.Int).Set(rest)
			}
		}
		if part.Cmp(max64) > 0 {
			part = new(big.Int).Set(max64)
		}
		out[i] = part.Uint64()
		rest.Sub(rest, part)
	}
	if rest.Cmp(max64) > 0 {
		rest = max64
	}
	out[m-1] = rest.Uint64()
	return out
}

func lpInput(r *Rng, T uint64) lpIn {
	switch r.Intn(9) {
	case 0, 1, 2: // realistic: created before the head, moderate balance
		tm := T - uint64(r.Intn(1e8))
		if tm > T {
			tm = 0
		}
		return lpIn{tm, uint64(r.Intn(1e9)) * uint64(1+r.Intn(1e6)), uint64(r.Intn(1e9))}
	case 3: // legacy case: hours + earned does not fit (ErrAddEarnedCoinHoursAdditionOverflow)
		tm := T - uint64(3600*(1+r.Intn(1000)))
		if tm > T {
			tm = 0
		}
		return lpIn{tm, uint64(1+r.Intn(1e6)) * 1e6, ^uint64(0) - uint64(r.Intn(1000))}
	case 4: // whole-coin product near 2^64
		coins := (1+uint64(r.Intn(1e6)))*1e6 + uint64(r.Intn(1e6))
		d := ^uint64(0)/(coins/1e6) + uint64(r.Intn(5)) - 2
		tm := T - d
		if d > T {
			tm = 0
		}
		return lpIn{tm, coins, uint64(r.Intn(3))}
	case 5: // created after the head time
		return lpIn{T + uint64(r.Intn(1000)), r.U64Edge(), r.U64Edge()}
	case 6: // large hours, no accrual: sums crossing 2^64
		return lpIn{T, uint64(r.Intn(1e6)) * 1e6, (uint64(1) << 63) + uint64(r.Intn(5)) - 2}
	default:
		return lpIn{r.U64Edge(), r.U64Edge(), r.U64Edge()}
	}
}

func runLoops(r *Rng, n int, o *Out, hist Hist, caseJSON map[string][]map[string]interface{}) {
	var cases []string
	u := func(x uint64) string { return fmt.Sprintf("%d", x) }
	for ci := 0; ci < n; ci++ {
		var T uint64
		switch r.Intn(4) {
		case 0:
			T = r.U64Edge()
		case 1:
			T = ^uint64(0) - uint64(r.Intn(1e6))
		default:
			T = 1426562704 + uint64(r.Intn(1e9))
		}
		k := r.Intn(7)
		ins := make([]lpIn, k)
		for i := range ins {
			ins[i] = lpInput(r, T)
		}
		uxIn := make(coin.UxArray, k)
		for i, x := range ins {
			uxIn[i] = coin.UxOut{Head: coin.UxHead{Time: x.time, BkSeq: uint64(i)}, Body: coin.UxBody{Coins: x.coins, Hours: x.hours}}
		}
		// what the inputs are worth, to aim the outputs at the comparison boundaries
		coinsIn := new(big.Int)
		for _, x := range ins {
			coinsIn.Add(coinsIn, new(big.Int).SetUint64(x.coins))
		}
		hoursIn := new(big.Int)
		legacyIn := new(big.Int) // as VerifyTransactionHoursSpending counts them
		for i := range uxIn {
			h, err := uxIn[i].CoinHours(T)
			if err == nil {
				hoursIn.Add(hoursIn, new(big.Int).SetUint64(h))
				legacyIn.Add(legacyIn, new(big.Int).SetUint64(h))
			}
		}
		m := r.Intn(7)
		outs := make([]lpOut, m)
		mode := r.Intn(8)
		switch {
		case m == 0:
		case mode <= 3: // coins balanced (+-1 sometimes), hours at the boundary (+-1)
			ct := new(big.Int).Set(coinsIn)
			switch r.Intn(6) {
			case 0:
				ct.Add(ct, big.NewInt(1))
			case 1:
				if ct.Sign() > 0 {
					ct.Sub(ct, big.NewInt(1))
				}
			}
			ht := new(big.Int).Set(hoursIn)
			if r.Chance(30) {
				ht.Set(legacyIn)
			}
			switch r.Intn(4) {
			case 0:
				ht.Add(ht, big.NewInt(1))
			case 1:
				if ht.Sign() > 0 {
					ht.Sub(ht, big.NewInt(int64(1+r.Intn(3))))
					if ht.Sign() < 0 {
						ht.SetInt64(0)
					}
				}
			case 2:
				ht.Rsh(ht, uint(r.Intn(4)))
			}
			cs, hs := lpSplit(r, ct, m), lpSplit(r, ht, m)
			for i := range outs {
				outs[i] = lpOut{cs[i], hs[i]}
			}
		case mode == 4: // sums crossing 2^64 (wrapping hours, overflowing coins)
			for i := range outs {
				outs[i] = lpOut{(uint64(1) << 63) + uint64(r.Intn(5)) - 2, (uint64(1) << 63) + uint64(r.Intn(8)) - 2}
			}
		case mode == 5: // sum of hours exactly around 2^64
			hs := lpSplit(r, new(big.Int).Add(two64, big.NewInt(int64(r.Intn(5)-2))), m)
			cs := lpSplit(r, coinsIn, m)
			for i := range outs {
				outs[i] = lpOut{cs[i], hs[i]}
			}
		default:
			for i := range outs {
				outs[i] = lpOut{r.U64Edge(), r.U64Edge()}
			}
		}
		txn := coin.Transaction{}
		uxOut := make(coin.UxArray, m)
		for i, x := range outs {
			txn.Out = append(txn.Out, coin.TransactionOutput{Coins: x.coins, Hours: x.hours})
			uxOut[i] = coin.UxOut{Body: coin.UxBody{Coins: x.coins, Hours: x.hours}}
		}

		var oh, uxc, uxh, fe uint64
		var ohE, uxcE, uxhE, vcsE, vhsE, feE error
		pOh := Guard(func() { oh, ohE = txn.OutputHours() })
		pUxc := Guard(func() { uxc, uxcE = uxIn.Coins() })
		pUxh := Guard(func() { uxh, uxhE = uxIn.CoinHours(T) })
		pVcs := Guard(func() { vcsE = coin.VerifyTransactionCoinsSpending(uxIn, uxOut) })
		pVhs := Guard(func() { vhsE = coin.VerifyTransactionHoursSpending(T, uxIn, uxOut) })
		pFe := Guard(func() { fe, feE = fee.TransactionFee(&txn, T, uxIn) })
		// fee.VerifyTransactionFee(txn, fee, burn): the fee just computed (+-1), or an edge value
		vf := fe
		switch r.Intn(5) {
		case 0:
			vf = r.U64Edge()
		case 1:
			vf = fe + uint64(r.Intn(3)) - 1
		case 2: // around the required fee for these output hours
			vf = oh/9 + uint64(r.Intn(5)) - 2
		}
		burn := uint32(10)
		switch r.Intn(5) {
		case 0:
			burn = uint32(r.Intn(4)) // includes 0: division by zero panics
		case 1:
			burn = uint32(r.U64Edge())
		case 2:
			burn = uint32(2 + r.Intn(20))
		}
		var vtfE error
		pVtf := Guard(func() { vtfE = fee.VerifyTransactionFee(&txn, vf, burn) })
		resE := func(p bool, err error) string {
			if p {
				return "Panic"
			}
			return "(Val " + OptErr(ErrClass(err, c31Sentinels)) + ")"
		}
		insS := make([]string, k)
		insJ := make([]string, k)
		for i, x := range ins {
			insS[i] = Tuple(Z(x.time), Z(x.coins), Z(x.hours))
			insJ[i] = u(x.time) + ":" + u(x.coins) + ":" + u(x.hours)
		}
		outsS := make([]string, m)
		outsJ := make([]string, m)
		for i, x := range outs {
			outsS[i] = Tuple(Z(x.coins), Z(x.hours))
			outsJ[i] = u(x.coins) + ":" + u(x.hours)
		}
		cases = append(cases, Tuple(Z(T), List(insS), List(outsS),
			ResZE(pOh, Z(oh), ErrClass(ohE, c31Sentinels)),
			ResZE(pUxc, Z(uxc), ErrClass(uxcE, c31Sentinels)),
			ResZE(pUxh, Z(uxh), ErrClass(uxhE, c31Sentinels)),
			resE(pVcs, vcsE), resE(pVhs, vhsE),
			ResZE(pFe, Z(fe), ErrClass(feE, c31Sentinels)),
			Z(vf), Z(uint64(burn)), resE(pVtf, vtfE)))
		short := func(err error) string {
			s := ErrClass(err, c31Sentinels)
			if len(s) > 44 {
				s = s[:44]
			}
			if s == "" {
				s = "ok"
			}
			return s
		}
		flat := map[string]interface{}{
			"head_time": u(T), "ins(time:coins:hours)": strings.Join(insJ, " "), "outs(coins:hours)": strings.Join(outsJ, " "),
			"OutputHours": u(oh) + "/" + short(ohE), "UxArray.Coins": u(uxc) + "/" + short(uxcE), "UxArray.CoinHours": u(uxh) + "/" + short(uxhE),
			"VerifyTransactionCoinsSpending": short(vcsE), "VerifyTransactionHoursSpending": short(vhsE), "TransactionFee": u(fe) + "/" + short(feE),
			"VerifyTransactionFee(fee,burn)": fmt.Sprintf("%d,%d/%s panic=%v", vf, burn, short(vtfE), pVtf),
		}
		for _, g := range []string{"l_oh", "l_uxcoins", "l_uxhours", "l_vcs", "l_vhs", "l_txfee", "l_vtf"} {
			caseJSON[g] = append(caseJSON[g], flat)
		}
		o.Count(fmt.Sprint("loops", T, ins, outs), vcsE == nil || vhsE == nil || feE == nil || k+m >= 2)
		hist.Add(fmt.Sprintf("loops:ins=%d", k))
		hist.Add(fmt.Sprintf("loops:outs=%d", m))
		hist.Add("loops:OutputHours:" + short(ohE))
		hist.Add("loops:UxArray.Coins:" + short(uxcE))
		hist.Add("loops:UxArray.CoinHours:" + short(uxhE))
		hist.Add("loops:CoinsSpending:" + short(vcsE))
		hist.Add("loops:HoursSpending:" + short(vhsE))
		hist.Add("loops:TransactionFee:" + short(feE))
		hist.Add(fmt.Sprintf("loops:VerifyTransactionFee:%s panic=%v", short(vtfE), pVtf))
	}
	o.Def("cases_loops", "Z * list (Z * Z * Z) * list (Z * Z) * res (Z * error) * res (Z * error) * res (Z * error) * res error * res error * res (Z * error) * Z * Z * res error", cases)
}

// runTruncate: coin.Transactions.TruncateBytesTo (Gen/CoinTruncate.v). The
// projection of a transaction is what txns[i].Size() returns (value, error) —
// computed here by calling Size() on each element; the observable is how many
// transactions are kept and the error.
func runTruncate(r *Rng, n int, o *Out, hist Hist, caseJSON map[string][]map[string]interface{}) {
	var cases []string
	big := coin.Transaction{In: make([]cipher.SHA256, 65536)} // Size() fails: maxlen exceeded
	for ci := 0; ci < n; ci++ {
		k := 1 + r.Intn(6)
		if r.Chance(5) {
			k = 0
		}
		txns := make(coin.Transactions, k)
		for i := range txns {
			ni := 1 + r.Intn(6)
			txns[i] = coin.Transaction{Sigs: make([]cipher.Sig, ni), In: make([]cipher.SHA256, ni), Out: make([]coin.TransactionOutput, 1+r.Intn(6))}
		}
		if k > 0 && r.Chance(6) {
			txns[r.Intn(k)] = big
		}
		sizes := make([]string, k)
		sizesJ := make([]string, k)
		var cum []uint64
		tot := uint64(0)
		for i := range txns {
			s, err := txns[i].Size()
			cls := ErrClass(err, c31Sentinels)
			sizes[i] = Tuple(Z(uint64(s)), OptErr(cls))
			sizesJ[i] = fmt.Sprintf("%d/%s", s, cls)
			tot += uint64(s)
			cum = append(cum, tot)
		}
		var limit uint32
		switch r.Intn(6) {
		case 0:
			limit = uint32(r.U64Edge())
		case 1:
			limit = uint32(r.Intn(4))
		default: // a cumulative size +-1
			if k > 0 {
				limit = uint32(cum[r.Intn(k)] + uint64(r.Intn(3)) - 1)
			}
		}
		var kept coin.Transactions
		var err error
		p := Guard(func() { kept, err = txns.TruncateBytesTo(limit) })
		cls := ErrClass(err, c31Sentinels)
		cases = append(cases, Tuple(List(sizes), Z(uint64(limit)), ResZE(p, Z(uint64(len(kept))), cls)))
		caseJSON["l_trunc"] = append(caseJSON["l_trunc"], map[string]interface{}{
			"sizes(size/err)": strings.Join(sizesJ, " "), "limit": limit, "kept": len(kept), "err": cls, "panic": p})
		o.Count(fmt.Sprint("trunc", sizesJ, limit), k > 0)
		hist.Add(fmt.Sprintf("trunc:txns=%d kept=%d err=%v", k, len(kept), err != nil))
	}
	o.Def("cases_trunc", "list (Z * error) * Z * res (Z * error)", cases)
}
