// Command c12: correspondence / property harness for C12 — transaction.Create,
// ChooseSpends*, DistributeCoinHoursProportional.
package main

import (
	"os"
	"encoding/json"
	"bytes"
	"fmt"
	"math/big"
	"sort"
	"strings"

	"github.com/shopspring/decimal"

	. "verif/harness/kit"

	"github.com/skycoin/skycoin/src/cipher"
	"github.com/skycoin/skycoin/src/coin"
	"github.com/skycoin/skycoin/src/params"
	"github.com/skycoin/skycoin/src/transaction"
	"github.com/skycoin/skycoin/src/util/fee"
	"github.com/skycoin/skycoin/src/util/logging"
	"github.com/skycoin/skycoin/src/util/mathutil"
)

func main() { Main(run) }

// ---- replay support: `-extra replay=<file>` regenerates the stored run (same seed / tier / budget,
// passed by the driver) and keeps only the stored case of the stored group
type replaySel struct {
	group string
	idx   int
}

func parseReplay(extra string) (*replaySel, error) {
	if !strings.HasPrefix(extra, "replay=") {
		return nil, nil
	}
	raw, err := os.ReadFile(strings.TrimPrefix(extra, "replay="))
	if err != nil {
		return nil, err
	}
	var r struct {
		Group string                 `json:"group"`
		Case  map[string]interface{} `json:"case"`
	}
	if err := json.Unmarshal(raw, &r); err != nil {
		return nil, err
	}
	idx, ok := r.Case["idx"].(float64)
	if !ok {
		return nil, fmt.Errorf("replay file has no case index")
	}
	return &replaySel{r.Group, int(idx)}, nil
}

// keep returns the items of one group as they go to the cases file
func (s *replaySel) keep(group string, items []string) []string {
	if s == nil {
		return items
	}
	if group == s.group && s.idx < len(items) {
		return items[s.idx : s.idx+1]
	}
	return nil
}
func (s *replaySel) keepJSON(m map[string][]map[string]interface{}) map[string][]map[string]interface{} {
	if s == nil {
		return m
	}
	out := map[string][]map[string]interface{}{}
	if cs := m[s.group]; s.idx < len(cs) {
		out[s.group] = cs[s.idx : s.idx+1]
	}
	return out
}


var sentinels = map[error]string{
	transaction.ErrNullChangeAddress:               "ErrNullChangeAddress",
	transaction.ErrMissingReceivers:                "ErrMissingReceivers",
	transaction.ErrZeroCoinsReceiver:               "ErrZeroCoinsReceiver",
	transaction.ErrNullAddressReceiver:             "ErrNullAddressReceiver",
	transaction.ErrDuplicateReceiver:               "ErrDuplicateReceiver",
	transaction.ErrReceiverZeroHoursAuto:           "ErrReceiverZeroHoursAuto",
	transaction.ErrMissingHoursSelectionModeAuto:   "ErrMissingHoursSelectionModeAuto",
	transaction.ErrInvalidHoursSelelectionMode:     "ErrInvalidHoursSelelectionMode",
	transaction.ErrInvalidHoursSelectionModeManual: "ErrInvalidHoursSelectionModeManual",
	transaction.ErrInvalidHoursSelectionType:       "ErrInvalidHoursSelectionType",
	transaction.ErrMissingShareFactor:              "ErrMissingShareFactor",
	transaction.ErrInvalidShareFactor:              "ErrInvalidShareFactor",
	transaction.ErrShareFactorOutOfRange:           "ErrShareFactorOutOfRange",
	transaction.ErrInsufficientBalance:             "ErrInsufficientBalance",
	transaction.ErrInsufficientHours:               "ErrInsufficientHours",
	transaction.ErrZeroSpend:                       "ErrZeroSpend",
	transaction.ErrNoUnspents:                      "ErrNoUnspents",
	fee.ErrTxnNoFee:                                "ErrTxnNoFee",
	fee.ErrTxnInsufficientCoinHours:                "ErrTxnInsufficientCoinHours",
	mathutil.ErrUint64AddOverflow:                  "ErrUint64AddOverflow",
	mathutil.ErrUint64OverflowsInt64:               "ErrUint64OverflowsInt64",
	mathutil.ErrInt64UnderflowsUint64:              "ErrInt64UnderflowsUint64",
}

// names of error texts defined in Model/Create.v (printed instead of a literal to keep the cases file small)
var modelConst = map[string]string{}

func init() {
	for _, n := range []string{"ErrNullChangeAddress", "ErrMissingReceivers", "ErrZeroCoinsReceiver", "ErrNullAddressReceiver",
		"ErrDuplicateReceiver", "ErrReceiverZeroHoursAuto", "ErrMissingHoursSelectionModeAuto", "ErrInvalidHoursSelelectionMode",
		"ErrInvalidHoursSelectionModeManual", "ErrInvalidHoursSelectionType", "ErrMissingShareFactor", "ErrInvalidShareFactor",
		"ErrShareFactorOutOfRange", "ErrInsufficientBalance", "ErrInsufficientHours", "ErrZeroSpend", "ErrNoUnspents", "ErrTxnNoFee",
		"ErrTxnInsufficientCoinHours", "ErrUint64AddOverflow", "ErrUint64OverflowsInt64", "ErrChangeDuplicatesReceiver"} {
		modelConst[n] = n
	}
}

func errName(err error) string {
	if err == nil {
		return ""
	}
	if n, ok := sentinels[err]; ok {
		return n
	}
	// the sentinel added by the F3 repair is recognised by its text, so that the
	// harness also builds against a tree without it
	if strings.HasPrefix(err.Error(), "change output duplicates") {
		return "ErrChangeDuplicatesReceiver"
	}
	return err.Error()
}

func strTerm(s string) string {
	if c, ok := modelConst[s]; ok {
		return c
	}
	if len(s) > 120 {
		s = s[:120]
	}
	return Str(s)
}

// ---- id tables preserving byte order

type ranker struct {
	hashes map[cipher.SHA256]bool
	addrs  map[cipher.Address]bool
	hid    map[cipher.SHA256]int
	aid    map[cipher.Address]int
}

func newRanker() *ranker {
	return &ranker{hashes: map[cipher.SHA256]bool{}, addrs: map[cipher.Address]bool{}}
}
func (k *ranker) seal() {
	var hs []cipher.SHA256
	for h := range k.hashes {
		if !h.Null() {
			hs = append(hs, h)
		}
	}
	sort.Slice(hs, func(i, j int) bool { return bytes.Compare(hs[i][:], hs[j][:]) < 0 })
	k.hid = map[cipher.SHA256]int{cipher.SHA256{}: 0}
	for i, h := range hs {
		k.hid[h] = i + 1
	}
	var as []cipher.Address
	for a := range k.addrs {
		if !a.Null() {
			as = append(as, a)
		}
	}
	sort.Slice(as, func(i, j int) bool { return bytes.Compare(as[i].Bytes(), as[j].Bytes()) < 0 })
	k.aid = map[cipher.Address]int{cipher.Address{}: 0}
	for i, a := range as {
		k.aid[a] = i + 1
	}
}

func (k *ranker) ux(b transaction.UxBalance) string {
	return fmt.Sprintf("mk_ux %d %d %d %d %d %d %s", k.hid[b.Hash], b.BkSeq, k.aid[b.Address], b.Coins, b.Hours, b.InitialHours, B(b.SrcTransaction.Null()))
}
func (k *ranker) out(o coin.TransactionOutput) string {
	return fmt.Sprintf("mk_out %d %d %d", k.aid[o.Address], o.Coins, o.Hours)
}

// ---- generators

type gen struct {
	r     *Rng
	addrs []cipher.Address
}

func (g *gen) addr() cipher.Address { return g.addrs[g.r.Intn(len(g.addrs))] }

func (g *gen) wallet(headTime uint64) coin.UxArray {
	r := g.r
	n := []int{0, 1, 1, 2, 2, 3, 3, 4, 5, 6, 8, 12}[r.Intn(12)]
	var uxa coin.UxArray
	coinsPool := []uint64{1e6, 2e6, 2e6, 5e6, 1e7, 1, 999, 123456789}
	hoursPool := []uint64{0, 0, 0, 1, 2, 9, 10, 11, 100, 100, 1000, 12345}
	for i := 0; i < n; i++ {
		var ux coin.UxOut
		ux.Body.Address = g.addrs[r.Intn(4)] // owners: the first four addresses
		switch r.Intn(4) {
		case 0:
			ux.Body.Coins = coinsPool[r.Intn(len(coinsPool))]
		case 1:
			ux.Body.Coins = uint64(1+r.Intn(50)) * 1e6
		case 2:
			ux.Body.Coins = 1 + r.U64()%1000000000
		default:
			ux.Body.Coins = uint64(1+r.Intn(5)) * 1e6
		}
		if r.Chance(2) {
			ux.Body.Coins = r.U64Edge() | 1
		}
		switch r.Intn(3) {
		case 0:
			ux.Body.Hours = hoursPool[r.Intn(len(hoursPool))]
		case 1:
			ux.Body.Hours = r.U64() % 5000
		default:
			ux.Body.Hours = 0
		}
		if r.Chance(2) {
			ux.Body.Hours = r.U64Edge() >> 1
		}
		ux.Head.BkSeq = 1 + r.U64()%1000
		if r.Chance(30) {
			ux.Head.BkSeq = uint64(1 + r.Intn(3)) // ties on the block sequence
		}
		copy(ux.Body.SrcTransaction[:], r.Bytes(32))
		if r.Chance(3) { // genesis-like
			ux.Head.BkSeq = 0
			ux.Body.SrcTransaction = cipher.SHA256{}
		}
		if r.Chance(2) { // inconsistent source (the invariants check must refuse it if chosen)
			if r.Bool() {
				ux.Head.BkSeq = 0
			} else {
				ux.Body.SrcTransaction = cipher.SHA256{}
			}
		}
		// age: most outputs are as old as the head (hours = initial hours), some have earned hours
		ux.Head.Time = headTime
		if r.Chance(35) {
			ux.Head.Time = headTime - uint64(r.Intn(4000000))
		}
		if r.Chance(3) {
			ux.Head.Time = headTime + uint64(r.Intn(10)) // created "after" the head: hours = initial
		}
		uxa = append(uxa, ux)
	}
	if len(uxa) > 0 && r.Chance(3) { // the same output offered twice
		uxa = append(uxa, uxa[r.Intn(len(uxa))])
	}
	return uxa
}

type request struct {
	p     transaction.Params
	label string
}

var shareFactors = []string{"0", "0.5", "1", "0.25", "0.1", "0.333333333", "0.9999999", "0.000001", "0.75", "1.0", "0.50", "0.123456789012345678", "1e-1", "5e-1"}

func (g *gen) request(uxb []transaction.UxBalance, burn uint32) request {
	r := g.r
	var totalCoins, totalHours uint64
	for _, u := range uxb {
		totalCoins += u.Coins
		totalHours += u.Hours
	}
	rem := fee.RemainingHours(totalHours, burn)
	k := []int{1, 1, 1, 2, 2, 3, 5}[r.Intn(7)]
	var p transaction.Params
	labels := []string{}
	auto := r.Chance(50)
	// coins to request in total
	want := totalCoins
	switch r.Intn(8) {
	case 0: // everything: no change
		labels = append(labels, "coins=all")
	case 1:
		want = totalCoins + 1 + uint64(r.Intn(3))
		labels = append(labels, "coins>all")
	case 2:
		if totalCoins > 1 {
			want = totalCoins - 1
		}
		labels = append(labels, "coins=all-1")
	case 3:
		if len(uxb) > 0 { // exactly one output's amount
			want = uxb[r.Intn(len(uxb))].Coins
		}
		labels = append(labels, "coins=one-ux")
	default:
		if totalCoins > 0 {
			want = 1 + r.U64()%totalCoins
		}
		if r.Bool() {
			want = want / 1e6 * 1e6
			if want == 0 {
				want = 1e6
			}
		}
		labels = append(labels, "coins<all")
	}
	if want == 0 {
		want = 1
	}
	// split amongst k destinations
	parts := make([]uint64, k)
	left := want
	for i := 0; i < k; i++ {
		if i == k-1 {
			parts[i] = left
		} else {
			share := left / uint64(k-i)
			if share > 1 && r.Bool() {
				share = 1 + r.U64()%share
			}
			parts[i] = share
			left -= share
		}
	}
	for i := 0; i < k; i++ {
		a := g.addr()
		var hours uint64
		if !auto {
			switch r.Intn(6) {
			case 0, 1:
				hours = 0
			case 2:
				hours = rem/uint64(k) + uint64(r.Intn(3)) - 1
			case 3:
				hours = uint64(r.Intn(20))
			case 4:
				if rem > 0 {
					hours = r.U64() % (rem + 1) / uint64(k)
				}
			default:
				hours = rem/2/uint64(k) + uint64(r.Intn(2))
			}
			if r.Chance(2) {
				hours = r.U64Edge()
			}
		}
		p.To = append(p.To, coin.TransactionOutput{Address: a, Coins: parts[i], Hours: hours})
	}
	if r.Chance(3) && k >= 2 {
		p.To[1] = p.To[0]
		labels = append(labels, "dup-to")
	}
	if r.Chance(2) {
		p.To[r.Intn(k)].Coins = 0
		labels = append(labels, "zero-to")
	}
	if r.Chance(2) {
		p.To[r.Intn(k)].Address = cipher.Address{}
		labels = append(labels, "null-to")
	}
	if r.Chance(1) {
		p.To = nil
		labels = append(labels, "no-to")
	}
	if auto {
		p.HoursSelection.Type = transaction.HoursSelectionTypeAuto
		p.HoursSelection.Mode = transaction.HoursSelectionModeShare
		s := shareFactors[r.Intn(len(shareFactors))]
		if r.Chance(15) {
			s = fmt.Sprintf("0.%d", r.U64()%1000000000)
		}
		if r.Chance(3) {
			s = []string{"1.5", "-0.1", "1.000000001", "2"}[r.Intn(4)]
		}
		d, err := decimal.NewFromString(s)
		if err != nil {
			d = decimal.New(1, 0)
		}
		p.HoursSelection.ShareFactor = &d
		labels = append(labels, "auto:"+s)
		if r.Chance(2) {
			p.HoursSelection.ShareFactor = nil
			labels = append(labels, "nil-share")
		}
		if r.Chance(2) {
			p.HoursSelection.Mode = []string{"", "bogus"}[r.Intn(2)]
			labels = append(labels, "bad-mode")
		}
		if r.Chance(2) && len(p.To) > 0 {
			p.To[0].Hours = 5
			labels = append(labels, "auto-with-hours")
		}
	} else {
		p.HoursSelection.Type = transaction.HoursSelectionTypeManual
		labels = append(labels, "manual")
		if r.Chance(2) {
			p.HoursSelection.Mode = transaction.HoursSelectionModeShare
			labels = append(labels, "manual-with-mode")
		}
		if r.Chance(2) {
			d := decimal.New(5, -1)
			p.HoursSelection.ShareFactor = &d
			labels = append(labels, "manual-with-share")
		}
	}
	if r.Chance(2) {
		p.HoursSelection.Type = "bogus"
		labels = append(labels, "bad-type")
	}
	switch r.Intn(5) {
	case 0:
		labels = append(labels, "change=auto")
	case 1: // equal to a destination
		if len(p.To) > 0 {
			a := p.To[r.Intn(len(p.To))].Address
			p.ChangeAddress = &a
			labels = append(labels, "change=dest")
		}
	default:
		a := g.addr()
		p.ChangeAddress = &a
		labels = append(labels, "change=given")
	}
	if r.Chance(1) {
		p.ChangeAddress = &cipher.Address{}
		labels = append(labels, "change=null")
	}
	return request{p, strings.Join(labels, ",")}
}

// the F3 shape: the change output would equal a requested output
func (g *gen) collision(headTime uint64, burn uint32) (coin.UxArray, request) {
	r := g.r
	var ux coin.UxOut
	ux.Body.Address = g.addrs[0]
	half := uint64(1+r.Intn(20)) * 1e6
	ux.Body.Coins = 2 * half
	inHours := uint64(10 + r.Intn(500))
	ux.Body.Hours = inHours
	ux.Head.Time = headTime
	ux.Head.BkSeq = 1 + r.U64()%100
	copy(ux.Body.SrcTransaction[:], r.Bytes(32))
	rem := fee.RemainingHours(inHours, burn)
	b := g.addrs[5]
	var p transaction.Params
	label := "collision"
	if rem%2 == 0 && r.Bool() {
		p.HoursSelection.Type = transaction.HoursSelectionTypeManual
		p.To = []coin.TransactionOutput{{Address: b, Coins: half, Hours: rem / 2}}
		label += ",manual"
	} else {
		p.HoursSelection.Type = transaction.HoursSelectionTypeAuto
		p.HoursSelection.Mode = transaction.HoursSelectionModeShare
		d := decimal.New(5, -1)
		p.HoursSelection.ShareFactor = &d
		p.To = []coin.TransactionOutput{{Address: b, Coins: half}}
		label += ",auto:0.5"
	}
	p.ChangeAddress = &b
	if r.Chance(25) { // near miss: different change address / amount
		if r.Bool() {
			p.ChangeAddress = &g.addrs[6]
		} else {
			p.To[0].Coins--
		}
		label += ",near-miss"
	}
	return coin.UxArray{ux}, request{p, label}
}

// the boundary of the extra-input rule: no change coins, change hours around the
// additional fee the cheapest remaining output would cost
func (g *gen) extraBoundary(headTime uint64, burn uint32) (coin.UxArray, request) {
	r := g.r
	mk := func(coins, hours uint64, owner int) coin.UxOut {
		var ux coin.UxOut
		ux.Body.Address = g.addrs[owner]
		ux.Body.Coins = coins
		ux.Body.Hours = hours
		ux.Head.Time = headTime
		ux.Head.BkSeq = 1 + r.U64()%100
		copy(ux.Body.SrcTransaction[:], r.Bytes(32))
		return ux
	}
	h1 := uint64(50 + r.Intn(450))
	h2 := uint64(1 + r.Intn(60))
	a := mk(uint64(5+r.Intn(5))*1e6, h1, 0)
	b := mk(uint64(1+r.Intn(3))*1e6, h2, 1)
	uxa := coin.UxArray{a, b}
	if r.Bool() { // a third output with more hours than b: not the one chosen as extra
		uxa = append(uxa, mk(1e6, h2+1+uint64(r.Intn(50)), 2))
	}
	add := fee.RequiredFee(h1+h2, burn) - fee.RequiredFee(h1, burn)
	rem := fee.RemainingHours(h1, burn)
	ch := int64(add) + int64(r.Intn(3)) - 1
	if ch < 0 {
		ch = 0
	}
	if uint64(ch) > rem {
		ch = int64(rem)
	}
	var p transaction.Params
	p.HoursSelection.Type = transaction.HoursSelectionTypeManual
	p.To = []coin.TransactionOutput{{Address: g.addrs[5], Coins: a.Body.Coins, Hours: rem - uint64(ch)}}
	if r.Bool() {
		p.ChangeAddress = &g.addrs[6]
	}
	return uxa, request{p, fmt.Sprintf("extra-boundary,d=%d", ch-int64(add))}
}

func shareND(d *decimal.Decimal) (string, string) {
	coef := d.Coefficient()
	exp := d.Exponent()
	ten := big.NewInt(10)
	if exp >= 0 {
		m := new(big.Int).Exp(ten, big.NewInt(int64(exp)), nil)
		return ZBig(new(big.Int).Mul(coef, m)), "1"
	}
	return ZBig(coef), new(big.Int).Exp(ten, big.NewInt(int64(-exp)), nil).String()
}

func paramsTerm(k *ranker, p transaction.Params) string {
	ty := "TBad"
	switch p.HoursSelection.Type {
	case transaction.HoursSelectionTypeManual:
		ty = "TManual"
	case transaction.HoursSelectionTypeAuto:
		ty = "TAuto"
	}
	mo := "MBad"
	switch p.HoursSelection.Mode {
	case transaction.HoursSelectionModeShare:
		mo = "MShare"
	case "":
		mo = "MEmpty"
	}
	sh := "None"
	if p.HoursSelection.ShareFactor != nil {
		n, d := shareND(p.HoursSelection.ShareFactor)
		sh = "(Some (" + n + ", " + d + "))"
	}
	to := make([]string, len(p.To))
	for i, o := range p.To {
		to[i] = k.out(o)
	}
	ch := "None"
	if p.ChangeAddress != nil {
		ch = fmt.Sprintf("(Some %d)", k.aid[*p.ChangeAddress])
	}
	return fmt.Sprintf("(mk_params %s %s %s %s %s)", ty, mo, sh, List(to), ch)
}

func run(args []string) error {
	f := ParseFlags("c12", args)
	sel, err := parseReplay(f.Extra)
	if err != nil {
		return err
	}
	logging.Disable()
	r := NewRng(f.Seed)
	n := f.Budget(400, 20000)
	o := NewOut()
	hist := Hist{}
	caseJSON := map[string][]map[string]interface{}{}
	var samples []map[string]interface{}
	burn := params.UserVerifyTxn.BurnFactor

	g := &gen{r: r}
	for i := 0; i < 8; i++ {
		pk, _ := cipher.MustGenerateDeterministicKeyPair([]byte(fmt.Sprintf("c12-addr-%d-%d", f.Seed, i)))
		g.addrs = append(g.addrs, cipher.AddressFromPubKey(pk))
	}
	headTime := uint64(1600000000)

	// ---- group create
	var creates []string
	for i := 0; i < n; i++ {
		var uxa coin.UxArray
		var rq request
		if c := r.Intn(100); c < 6 {
			uxa, rq = g.collision(headTime, burn)
		} else if c < 11 {
			uxa, rq = g.extraBoundary(headTime, burn)
		} else {
			uxa = g.wallet(headTime)
			uxb0, err := transaction.NewUxBalances(uxa, headTime)
			if err != nil { // CoinHours overflow: not a case of this model (C31 covers CoinHours)
				hist.Add("create:skipped-coinhours-error")
				i--
				continue
			}
			rq = g.request(uxb0, burn)
		}
		uxb, err := transaction.NewUxBalances(uxa, headTime)
		if err != nil {
			i--
			continue
		}
		k := newRanker()
		for _, u := range uxb {
			k.hashes[u.Hash] = true
			k.addrs[u.Address] = true
		}
		for _, t := range rq.p.To {
			k.addrs[t.Address] = true
		}
		if rq.p.ChangeAddress != nil {
			k.addrs[*rq.p.ChangeAddress] = true
		}
		k.seal()
		// canonical order of the offered outputs (the implementation flattens a map)
		sort.Slice(uxb, func(a, b int) bool { return bytes.Compare(uxb[a].Hash[:], uxb[b].Hash[:]) < 0 })
		auxs := coin.NewAddressUxOuts(uxa)
		dupOffered := len(auxs.Flatten()) != len(uxa)
		if dupOffered {
			// AddressUxOuts keeps both copies only if they are distinct entries of the slice; build it by hand
			auxs = coin.AddressUxOuts{}
			for _, ux := range uxa {
				auxs[ux.Body.Address] = append(auxs[ux.Body.Address], ux)
			}
		}
		var txn *coin.Transaction
		var ins []transaction.UxBalance
		var cerr error
		pan := Guard(func() { txn, ins, cerr = transaction.Create(rq.p, auxs, headTime) })
		obs := "Panic"
		cls := "PANIC"
		vu := ""
		if !pan {
			if cerr != nil {
				cls = errName(cerr)
				obs = "(Val (inl " + strTerm(cls) + "))"
			} else {
				cls = "ok"
				it := make([]string, len(ins))
				for j, u := range ins {
					it[j] = k.ux(u)
				}
				ot := make([]string, len(txn.Out))
				for j, x := range txn.Out {
					if _, known := k.aid[x.Address]; !known {
						return fmt.Errorf("created output pays an address that is neither offered nor requested")
					}
					ot[j] = k.out(x)
				}
				obs = "(Val (inr (mk_created " + List(it) + " " + List(ot) + ")))"
				// the returned transaction: inputs in the same order as the returned balances, and VerifyUnsigned
				for j := range txn.In {
					if j >= len(ins) || txn.In[j] != ins[j].Hash {
						cls = "ok-but-inputs-differ"
					}
				}
				var ve error
				if Guard(func() { ve = txn.VerifyUnsigned() }) {
					vu = "PANIC"
				} else if ve != nil {
					vu = ve.Error()
				}
			}
		}
		uxs := make([]string, len(uxb))
		for j, u := range uxb {
			uxs[j] = k.ux(u)
		}
		creates = append(creates, Tuple(fmt.Sprint(burn), paramsTerm(k, rq.p), List(uxs), obs, OptErr(vu)))
		short := cls
		if len(short) > 60 {
			short = short[:60]
		}
		cj := map[string]interface{}{"idx": i, "n": n, "request": rq.label, "n_offered": len(uxb), "n_to": len(rq.p.To), "result": short, "verify_unsigned": vu}
		// inputs as model terms: mk_ux hash-rank bkseq address-rank coins hours initial-hours src-null;
		// mk_params type mode share(num, den) [mk_out address-rank coins hours] change-address
		cj["offered"] = fmt.Sprint(uxs)
		cj["params"] = paramsTerm(k, rq.p)
		cj["burn_factor"] = burn
		if len(uxb) == 1 && len(rq.p.To) == 1 && rq.p.ChangeAddress != nil && *rq.p.ChangeAddress == rq.p.To[0].Address {
			cj["shape"] = "change-equals-only-destination"
		}
		caseJSON["create"] = append(caseJSON["create"], cj)
		o.Count(fmt.Sprint("create", uxs, paramsTerm(k, rq.p)), true)
		hist.Add("create:" + short)
		for _, l := range strings.Split(rq.label, ",") {
			if strings.HasPrefix(l, "auto:") {
				l = "auto"
			}
			hist.Add("request:" + l)
		}
		if len(samples) < 12 && r.Intn(n/10+1) == 0 {
			samples = append(samples, cj)
		}
	}

	// ---- group choose: ChooseSpendsMinimizeUxOuts / MaximizeUxOuts on raw balances
	var chooses []string
	for i := 0; i < n; i++ {
		uxa := g.wallet(headTime)
		uxb, err := transaction.NewUxBalances(uxa, headTime)
		if err != nil {
			i--
			continue
		}
		k := newRanker()
		for _, u := range uxb {
			k.hashes[u.Hash] = true
			k.addrs[u.Address] = true
		}
		k.seal()
		sort.Slice(uxb, func(a, b int) bool { return bytes.Compare(uxb[a].Hash[:], uxb[b].Hash[:]) < 0 })
		var totalCoins, totalHours uint64
		for _, u := range uxb {
			totalCoins += u.Coins
			totalHours += u.Hours
		}
		coins := totalCoins
		switch r.Intn(6) {
		case 0:
			coins = totalCoins + 1
		case 1:
		case 2:
			coins = 0
		default:
			if totalCoins > 0 {
				coins = 1 + r.U64()%totalCoins
			}
		}
		rem := fee.RemainingHours(totalHours, burn)
		hours := uint64(0)
		switch r.Intn(5) {
		case 0:
			hours = rem
		case 1:
			hours = rem + 1
		case 2:
			if rem > 0 {
				hours = r.U64() % (rem + 1)
			}
		}
		maximize := r.Bool()
		in := append([]transaction.UxBalance{}, uxb...)
		// the implementation sorts sub-slices it builds itself; the argument order is irrelevant (shuffled here)
		for a := len(in) - 1; a > 0; a-- {
			b := r.Intn(a + 1)
			in[a], in[b] = in[b], in[a]
		}
		var sp []transaction.UxBalance
		var cerr error
		pan := Guard(func() {
			if maximize {
				sp, cerr = transaction.ChooseSpendsMaximizeUxOuts(in, coins, hours)
			} else {
				sp, cerr = transaction.ChooseSpendsMinimizeUxOuts(in, coins, hours)
			}
		})
		obs, cls := "Panic", "PANIC"
		if !pan {
			if cerr != nil {
				cls = errName(cerr)
				obs = "(Val (inl " + strTerm(cls) + "))"
			} else {
				cls = "ok"
				it := make([]string, len(sp))
				for j, u := range sp {
					it[j] = k.ux(u)
				}
				obs = "(Val (inr " + List(it) + "))"
			}
		}
		uxs := make([]string, len(uxb))
		for j, u := range uxb {
			uxs[j] = k.ux(u)
		}
		chooses = append(chooses, Tuple(B(maximize), fmt.Sprint(burn), List(uxs), fmt.Sprint(coins), fmt.Sprint(hours), obs))
		caseJSON["choose"] = append(caseJSON["choose"], map[string]interface{}{"idx": i, "n": n, "maximize": maximize, "offered": fmt.Sprint(uxs), "coins": fmt.Sprint(coins), "hours": fmt.Sprint(hours), "result": cls})
		o.Count(fmt.Sprint("choose", maximize, uxs, coins, hours), true)
		hist.Add("choose:" + cls)
	}

	// ---- group dist: DistributeCoinHoursProportional
	var dists []string
	for i := 0; i < n; i++ {
		k := []int{0, 1, 1, 2, 2, 3, 4, 5, 8}[r.Intn(9)]
		coins := make([]uint64, k)
		for j := range coins {
			switch r.Intn(5) {
			case 0:
				coins[j] = 1 + uint64(r.Intn(5))
			case 1:
				coins[j] = uint64(1+r.Intn(100)) * 1e6
			case 2:
				coins[j] = r.U64Edge()
			default:
				coins[j] = 1 + r.U64()%1000000000
			}
		}
		hours := r.U64() % 100000
		switch r.Intn(6) {
		case 0:
			hours = uint64(r.Intn(2 * (k + 1)))
		case 1:
			hours = r.U64Edge()
		case 2:
			hours = r.U64() >> uint(1+r.Intn(63))
		}
		var hs []uint64
		var derr error
		pan := Guard(func() { hs, derr = transaction.DistributeCoinHoursProportional(coins, hours) })
		obs, cls := "Panic", "PANIC"
		if !pan {
			if derr != nil {
				cls = errName(derr)
				obs = "(Val (inl " + strTerm(cls) + "))"
			} else {
				cls = "ok"
				it := make([]string, len(hs))
				for j, h := range hs {
					it[j] = fmt.Sprint(h)
				}
				obs = "(Val (inr " + List(it) + "))"
			}
		}
		cs := make([]string, k)
		for j, c := range coins {
			cs[j] = fmt.Sprint(c)
		}
		dists = append(dists, Tuple(List(cs), fmt.Sprint(hours), obs))
		short := cls
		if len(short) > 60 {
			short = short[:60]
		}
		caseJSON["dist"] = append(caseJSON["dist"], map[string]interface{}{"idx": i, "n": n, "coins": fmt.Sprint(cs), "hours": fmt.Sprint(hours), "result": short})
		o.Count(fmt.Sprint("dist", cs, hours), true)
		hist.Add("dist:" + short)
	}

	o.Def("cases_create", "Z * params * list ux * R created * error", sel.keep("create", creates))
	o.Def("cases_choose", "bool * Z * list ux * Z * Z * R (list ux)", sel.keep("choose", chooses))
	o.Def("cases_dist", "list Z * Z * R (list Z)", sel.keep("dist", dists))
	o.Side["rule"] = "random wallets of 0-12 unspent outputs (amounts with ties, zero / small / large hours, ages, four owners, duplicates, genesis-like and inconsistent sources) and requests (1-5 destinations, all / more than / part of the balance, manual hours around the spendable amount or auto share with factors 0, 0.5, 1, many decimals, out of range; change address given / equal to a destination / automatic / null; invalid parameter combinations), plus the shape where the change output equals a requested output; ChooseSpends* and DistributeCoinHoursProportional called directly on random arguments. Every case counts, distinct by its inputs."
	o.Side["distribution"] = hist.Sorted()
	o.Side["samples"] = samples
	o.Side["cases"] = sel.keepJSON(caseJSON)
	return o.Write(f.Out, f.JSON)
}
