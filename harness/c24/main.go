// Command c24: correspondence of Model/Conns.v with daemon.Connections and the
// decidable bookkeeping invariant on dumps of the real maps (property C24).
package main

import (
	"fmt"
	"sort"
	"strconv"
	"strings"

	. "verif/harness/kit"

	"github.com/skycoin/skycoin/src/daemon"
	"github.com/skycoin/skycoin/src/util/logging"
)

var sentinels = map[error]string{
	daemon.ErrConnectionNotExist:          "ENotExist",
	daemon.ErrConnectionExists:            "EExists",
	daemon.ErrConnectionIPMirrorExists:    "EIPMirrorExists",
	daemon.ErrConnectionStateNotConnected: "EStateNotConnected",
	daemon.ErrConnectionGnetIDMismatch:    "EGnetIDMismatch",
	daemon.ErrConnectionAlreadyIntroduced: "EAlreadyIntroduced",
	daemon.ErrConnectionAlreadyConnected:  "EAlreadyConnected",
	daemon.ErrInvalidGnetID:               "EInvalidGnetID",
}

// an address text and its model pair (ip, variant*65536 + port)
type addr struct {
	text string
	ip   int64
	p    int64
}

var byText = map[string]addr{}

// mkAddr registers the text; variant tells texts with the same host and port apart
// (0 = the canonical rendering ListenAddr() produces)
func mkAddr(text string, variant int64) addr {
	i := strings.LastIndex(text, ":")
	host := strings.Trim(text[:i], "[]")
	port, err := strconv.Atoi(text[i+1:])
	if err != nil {
		panic("c24: bad address text " + text)
	}
	a := addr{text: text, ip: hostZ(host), p: variant*65536 + int64(port)}
	byText[text] = a
	return a
}

// the host part as the model's ip: IPv4 as a number, known IPv6 hosts beyond 2^32
func hostZ(h string) int64 {
	if h == "::1" {
		return 1<<32 + 1
	}
	return parseIP(h)
}

func (a addr) String() string { return a.text }
func (a addr) coq() string    { return in.Ref("a_", "addr", fmt.Sprintf("(%d, %d)", a.ip, a.p)) }

var in *Interner

func zref(v int64) string { return in.Ref("z_", "Z", ZI(v)) }

const (
	kPending = iota
	kConnected
	kIntroduced
	kRemove
	kSetHeight
)

type op struct {
	kind   int
	a      addr
	id     uint64
	mirror uint32
	lport  uint16
	h      uint64
}

func (o op) coq() string {
	var t string
	switch o.kind {
	case kPending:
		t = "Pending " + o.a.coq()
	case kConnected:
		t = fmt.Sprintf("Connected %s %d", o.a.coq(), o.id)
	case kIntroduced:
		t = fmt.Sprintf("Introduced %s %d %d %d", o.a.coq(), o.id, o.mirror, o.lport)
	case kRemove:
		t = fmt.Sprintf("Remove %s %d", o.a.coq(), o.id)
	default:
		t = fmt.Sprintf("SetHeight %s %d %d", o.a.coq(), o.id, o.h)
	}
	return in.Ref("o_", "op", t)
}
func (o op) String() string {
	switch o.kind {
	case kPending:
		return "pending(" + o.a.String() + ")"
	case kConnected:
		return fmt.Sprintf("connected(%s,%d)", o.a, o.id)
	case kIntroduced:
		return fmt.Sprintf("introduced(%s,%d,mirror=%d,listenPort=%d)", o.a, o.id, o.mirror, o.lport)
	case kRemove:
		return fmt.Sprintf("remove(%s,%d)", o.a, o.id)
	default:
		return fmt.Sprintf("SetHeight(%s,%d,%d)", o.a, o.id, o.h)
	}
}

// apply runs one operation on the real Connections; returns the Coq `res err`.
func apply(c *daemon.Connections, o op) (string, bool) {
	var err error
	p := Guard(func() {
		switch o.kind {
		case kPending:
			err = c.VerifC24Pending(o.a.String())
		case kConnected:
			err = c.VerifC24Connected(o.a.String(), o.id)
		case kIntroduced:
			err = c.VerifC24Introduced(o.a.String(), o.id, o.mirror, o.lport)
		case kRemove:
			err = c.VerifC24Remove(o.a.String(), o.id)
		case kSetHeight:
			err = c.SetHeight(o.a.String(), o.id, o.h)
		}
	})
	if p {
		return "Panic", false
	}
	if err == nil {
		return "(Val OK)", true
	}
	n, ok := sentinels[err]
	if !ok {
		panic("c24: unexpected error value: " + err.Error())
	}
	return "(Val " + n + ")", false
}

func parseIP(s string) int64 {
	parts := strings.Split(s, ".")
	if len(parts) != 4 {
		return -1
	}
	var v int64
	for _, p := range parts {
		n, err := strconv.Atoi(p)
		if err != nil || n < 0 || n > 255 {
			return -1
		}
		v = v*256 + int64(n)
	}
	return v
}

// an address string of the implementation as a Coq pair: a known address text
// is its model pair; otherwise (a listenAddrs key) "host:port" is the canonical
// pair (ip, port); anything else (e.g. the empty listen address key "") is (-1, -1)
func addrCoq(s string) string {
	bad := in.Ref("a_", "addr", "(-1, -1)")
	if a, ok := byText[s]; ok {
		return a.coq()
	}
	i := strings.LastIndex(s, ":")
	if i < 0 {
		return bad
	}
	ip := hostZ(s[:i])
	port, err := strconv.Atoi(s[i+1:])
	if ip < 0 || err != nil || fmt.Sprint(port) != s[i+1:] {
		return bad
	}
	return in.Ref("a_", "addr", fmt.Sprintf("(%d, %d)", ip, port))
}

func stateCoq(s string) string {
	switch s {
	case "pending":
		return "SPending"
	case "connected":
		return "SConnected"
	case "introduced":
		return "SIntroduced"
	}
	panic("c24: unexpected connection state " + s)
}

func connCoq(x daemon.VerifC24Conn) string {
	return in.Ref("k_", "conn", fmt.Sprintf("mkConn %s %s %d %d %d %d", stateCoq(x.State), B(x.Outgoing), x.Mirror, x.ListenPort, x.GnetID, x.Height))
}

func dumpCoq(d daemon.VerifC24Dump) string {
	var cs, ms, ic, gs, ls []string
	for _, x := range d.Conns {
		cs = append(cs, in.Ref("e_", "addr * conn", Tuple(addrCoq(x.Addr), connCoq(x))))
	}
	for _, m := range d.MirrorKeys {
		var inner []string
		for _, e := range d.Mirrors {
			if e.Mirror == m {
				inner = append(inner, in.Ref("zz_", "Z * Z", fmt.Sprintf("(%d, %d)", hostZ(e.IP), e.Port)))
			}
		}
		ms = append(ms, in.Ref("me_", "Z * list (Z * Z)", Tuple(zref(int64(m)), in.Ref("mi_", "list (Z * Z)", List(inner)))))
	}
	for _, e := range d.IPCounts {
		ic = append(ic, in.Ref("zz_", "Z * Z", fmt.Sprintf("(%d, %s)", hostZ(e.IP), ZI(int64(e.N)))))
	}
	for _, e := range d.GnetIDs {
		gs = append(gs, in.Ref("ge_", "Z * addr", Tuple(zref(int64(e.ID)), addrCoq(e.Addr))))
	}
	for _, e := range d.ListenAddrs {
		var inner []string
		for _, a := range e.Addrs {
			inner = append(inner, addrCoq(a))
		}
		ls = append(ls, in.Ref("le_", "addr * list addr", Tuple(addrCoq(e.Key), in.Ref("al_", "list addr", List(inner)))))
	}
	return in.Ref("S_", "st", "mkSt "+
		in.Ref("C_", "list (addr * conn)", List(cs))+" "+
		in.Ref("M_", "list (Z * list (Z * Z))", List(ms))+" "+
		in.Ref("I_", "list (Z * Z)", List(ic))+" "+
		in.Ref("G_", "list (Z * addr)", List(gs))+" "+
		in.Ref("L_", "list (addr * list addr)", List(ls)))
}

// freshness as gnet provides it: the id handed to connected is not the id of a
// connection currently held (id 0 is rejected before anything happens)
func fresh(d daemon.VerifC24Dump, o op) bool {
	if o.kind != kConnected || o.id == 0 {
		return true
	}
	for _, x := range d.Conns {
		if x.GnetID == o.id {
			return false
		}
	}
	return true
}

func replay(path []op) *daemon.Connections {
	c := daemon.NewConnections()
	for _, o := range path {
		apply(c, o)
	}
	return c
}

func opsCoq(path []op) string {
	it := make([]string, len(path))
	for i, o := range path {
		it[i] = o.coq()
	}
	return in.Ref("P_", "list op", List(it))
}
func opsStr(path []op) string {
	it := make([]string, len(path))
	for i, o := range path {
		it[i] = o.String()
	}
	return strings.Join(it, "; ")
}

func main() { Main(run) }

func run(args []string) error {
	f := ParseFlags("c24", args)
	logging.Disable()
	r := NewRng(f.Seed)
	o := NewOut()
	in = NewInterner(o)
	hist := Hist{}
	caseJSON := map[string][]map[string]interface{}{}
	var samples []map[string]interface{}

	// ---------------- universe of the bounded-exhaustive part
	// two IPv4 hosts with ports 0 / 6000, plus address texts that differ from the
	// canonical rendering of their ip and port: a zero-padded port (same host and
	// listen address as 1.0.0.1:6000) and a bracketed IPv6 host
	addrs := []addr{
		mkAddr("1.0.0.1:0", 0), mkAddr("1.0.0.1:6000", 0), mkAddr("1.0.0.1:06000", 1),
		mkAddr("1.0.0.2:6000", 0), mkAddr("[::1]:6060", 2),
	}
	ids := []uint64{0, 1, 2, 3}
	var universe []op
	for _, a := range addrs {
		universe = append(universe, op{kind: kPending, a: a})
		for _, id := range ids {
			universe = append(universe, op{kind: kConnected, a: a, id: id})
			universe = append(universe, op{kind: kRemove, a: a, id: id})
			universe = append(universe, op{kind: kSetHeight, a: a, id: id, h: 7})
			for _, m := range []uint32{0, 1} {
				for _, lp := range []uint16{0, 7000} {
					universe = append(universe, op{kind: kIntroduced, a: a, id: id, mirror: m, lport: lp})
				}
			}
		}
	}

	depth := 4
	maxExpand := 600
	if f.Tier == "thorough" || f.Tier == "search" {
		depth = 6
		maxExpand = 9000
	}
	// breadth-first over the distinct states of the implementation: every
	// operation of the universe is applied in every distinct state reachable by
	// at most depth-1 operations whose connected() ids are fresh (gnet's
	// guarantee). Sequences that differ only in the order in which they reach
	// the same five maps are explored once.
	type node struct {
		path []op
		d    int
	}
	seen := map[string]bool{}
	key := func(d daemon.VerifC24Dump) string { return fmt.Sprintf("%v", d) }
	queue := []node{{nil, 0}}
	seen[key(daemon.NewConnections().VerifC24Dump())] = true
	var bfs []string
	var bfsStates []map[string]interface{}
	expanded, maxDepthDone := 0, 0
	truncated := false
	perDepth := map[int]int{}
	uni := make([]string, len(universe))
	for i, oper := range universe {
		uni[i] = oper.coq()
	}
	o.Def("universe", "op", uni)
	for len(queue) > 0 {
		n := queue[0]
		queue = queue[1:]
		if n.d >= depth {
			continue
		}
		if expanded >= maxExpand {
			truncated = true
			break
		}
		expanded++
		perDepth[n.d]++
		if n.d+1 > maxDepthDone {
			maxDepthDone = n.d + 1
		}
		pre := replay(n.path).VerifC24Dump()
		preKey := key(pre)
		var trans, results, changes []string
		for _, oper := range universe {
			c := replay(n.path)
			e, ok := apply(c, oper)
			post := c.VerifC24Dump()
			postKey := key(post)
			fr := fresh(pre, oper)
			postS := "None"
			if postKey != preKey {
				postS = Some(dumpCoq(post))
			}
			// per state: the (error class, fresh) vector of all operations, shared between
			// states by name, and the few operations that changed the maps with the new maps
			trans = append(trans, in.Ref("T_", "res err * bool", Tuple(e, B(fr))))
			if postS != "None" {
				changes = append(changes, Tuple(fmt.Sprint(len(trans)-1), dumpCoq(post)))
			}
			cj := map[string]interface{}{"path": opsStr(n.path), "op": oper.String(), "result": e, "fresh": fr}
			results = append(results, e)
			o.Count(preKey+"|"+oper.String(), ok || postKey != preKey)
			hist.Add(fmt.Sprintf("bfs:d%d:%s:%s", n.d+1, []string{"pending", "connected", "introduced", "remove", "setheight"}[oper.kind], e))
			if len(samples) < 6 && ok && n.d >= 2 && r.Intn(200) == 0 {
				samples = append(samples, cj)
			}
			// expand new states reached by a fresh, map-changing operation
			if fr && oper.kind != kSetHeight && !seen[postKey] {
				seen[postKey] = true
				np := append(append([]op{}, n.path...), oper)
				queue = append(queue, node{np, n.d + 1})
			}
		}
		bfs = append(bfs, Tuple(opsCoq(n.path), dumpCoq(pre), in.Ref("E_", "list (res err * bool)", List(trans)), List(changes)))
		bfsStates = append(bfsStates, map[string]interface{}{"path": opsStr(n.path), "results": strings.Join(results, "|")})
	}
	if f.Extra == "count" {
		fmt.Println("states expanded per depth:", perDepth, "truncated:", truncated)
	}
	o.Def("cases_bfs", "list op * st * list (res err * bool) * list (Z * st)", bfs)

	// ---------------- random sequences (length 40, then every connection removed)
	nseq := f.Budget(60, 1500)
	var raddrs []addr
	for _, h := range []string{"1.0.0.1", "1.0.0.2", "10.0.0.3"} {
		for _, p := range []string{"0", "6000", "6001"} {
			raddrs = append(raddrs, mkAddr(h+":"+p, 0))
		}
	}
	raddrs = append(raddrs, mkAddr("1.0.0.1:06000", 1), mkAddr("10.0.0.3:006001", 1), mkAddr("1.0.0.2:00", 1),
		mkAddr("[::1]:6060", 2), mkAddr("[::1]:06060", 3), mkAddr("[::1]:0", 2))
	var rnd []string
	for i := 0; i < nseq; i++ {
		c := daemon.NewConnections()
		next := uint64(1) // gnet's id counter
		allFresh := true
		wantStale := r.Chance(15) // a minority of sequences reuse live ids (correspondence only)
		var steps []string
		var trace []string
		pick := func() addr { return raddrs[r.Intn(len(raddrs))] }
		do := func(oper op) {
			pre := c.VerifC24Dump()
			if !fresh(pre, oper) {
				allFresh = false
			}
			e, ok := apply(c, oper)
			post := c.VerifC24Dump()
			steps = append(steps, in.Ref("R_", "op * res err * st", Tuple(oper.coq(), e, dumpCoq(post))))
			trace = append(trace, oper.String()+"="+e)
			hist.Add(fmt.Sprintf("rand:%s:%s", []string{"pending", "connected", "introduced", "remove", "setheight"}[oper.kind], e))
			o.Count(key(pre)+"|"+oper.String(), ok)
		}
		for j := 0; j < 40; j++ {
			d := c.VerifC24Dump()
			var oper op
			// mostly sensible events on existing connections, some arbitrary ones
			if len(d.Conns) > 0 && r.Chance(70) {
				x := d.Conns[r.Intn(len(d.Conns))]
				a := byText[x.Addr]
				id := x.GnetID
				if r.Chance(10) {
					id = uint64(r.Intn(4))
				}
				switch {
				case x.State == "pending" && r.Chance(60):
					oper = op{kind: kConnected, a: a, id: next}
					next++
				case x.State == "connected" && r.Chance(60):
					oper = op{kind: kIntroduced, a: a, id: id, mirror: uint32(r.Intn(3)), lport: []uint16{0, 6000, 7000}[r.Intn(3)]}
				case r.Chance(50):
					oper = op{kind: kRemove, a: a, id: id}
				case r.Chance(50):
					oper = op{kind: kSetHeight, a: a, id: id, h: uint64(r.Intn(100))}
				default:
					oper = op{kind: kIntroduced, a: a, id: id, mirror: uint32(r.Intn(3)), lport: []uint16{0, 6000, 7000}[r.Intn(3)]}
				}
			} else {
				a := pick()
				switch r.Intn(6) {
				case 0, 1:
					oper = op{kind: kPending, a: a}
				case 2, 3:
					oper = op{kind: kConnected, a: a, id: next}
					next++
				case 4:
					oper = op{kind: kRemove, a: a, id: uint64(r.Intn(int(next) + 1))}
				default:
					oper = op{kind: kIntroduced, a: a, id: uint64(r.Intn(int(next) + 1)), mirror: uint32(r.Intn(3)), lport: []uint16{0, 6000, 7000}[r.Intn(3)]}
				}
			}
			if wantStale && oper.kind == kConnected && r.Chance(30) && next > 2 {
				oper.id = uint64(1 + r.Intn(int(next)-1))
			}
			do(oper)
		}
		// remove every connection that is left
		d := c.VerifC24Dump()
		sort.Slice(d.Conns, func(i, j int) bool { return d.Conns[i].Addr < d.Conns[j].Addr })
		for _, x := range d.Conns {
			do(op{kind: kRemove, a: byText[x.Addr], id: x.GnetID})
		}
		rnd = append(rnd, Tuple(B(allFresh), List(steps)))
		caseJSON["rand"] = append(caseJSON["rand"], map[string]interface{}{"fresh": allFresh, "ops": strings.Join(trace, "; ")})
		hist.Add(fmt.Sprintf("rand:fresh=%v", allFresh))
	}
	o.Def("cases_rand", "bool * list (op * res err * st)", rnd)

	o.Side["rule"] = fmt.Sprintf("bounded-exhaustive: every operation of a universe of %d operations (addresses 1.0.0.1:0, 1.0.0.1:6000, 1.0.0.1:06000 (zero-padded port), 1.0.0.2:6000, [::1]:6060 (bracketed host), gnet ids {0..3}, mirrors {0,1}, intro listen ports {0,7000}, SetHeight) applied in every distinct state of the real maps reachable by < %d fresh operations (%d states expanded, depth reached %d, truncated=%v); plus %d random sequences of 40 events over 3 IPv4 hosts x 3 ports plus zero-padded and bracketed IPv6 address texts, followed by removing every connection, maps dumped after every event. Non-trivial = the operation succeeded or changed the maps; distinct by (state, operation)", len(universe), depth, expanded, maxDepthDone, truncated, nseq)
	o.Side["distribution"] = hist.Sorted()
	o.Side["samples"] = samples
	o.Side["cases"] = caseJSON
	uniS := make([]string, len(universe))
	for i, oper := range universe {
		uniS[i] = oper.String()
	}
	o.Side["universe"] = uniS
	o.Side["bfs_states"] = bfsStates
	o.Side["bfs_states_expanded"] = expanded
	o.Side["bfs_depth"] = maxDepthDone
	o.Side["bfs_truncated"] = truncated
	return o.Write(f.Out, f.JSON)
}
