// Command c27: correspondence / property harness for C27 (HTTP API access control).
//
// The real mux (api.newServerMux through the verif export) is built for a set
// of configurations with a gateway stub whose every method panics: access
// control is decided before the gateway is used, so the observable is the HTTP
// status (0 = the handler ran into the stub, i.e. the endpoint's logic was
// reached).  Every route of the regenerated table (Gen/Routes.json, written by
// the translator from the same source) x methods x configurations is requested
// with a baseline request and with header variants (token, Host, Origin,
// Referer, credentials, content type, preflight).
package main

import (
	"crypto/hmac"
	"crypto/sha256"
	"encoding/base64"
	"encoding/json"
	"fmt"
	"io/ioutil"
	"math/big"
	"net/http"
	"net/http/httptest"
	"net/url"
	"reflect"
	"sort"
	"strings"
	"time"

	. "verif/harness/kit"

	"github.com/skycoin/skycoin/src/api"
	"github.com/skycoin/skycoin/src/util/iputil"
	"github.com/skycoin/skycoin/src/util/logging"
)

type stubGateway struct{ api.Gatewayer } // nil interface inside: every call panics

type methodSets struct {
	Method string   `json:"method"`
	Sets   []string `json:"sets"`
}
type route struct {
	Path    string       `json:"path"`
	Version string       `json:"version"`
	CSRF    bool         `json:"csrf"`
	Headers string       `json:"headers"`
	HasSets bool         `json:"has_sets"`
	Sets    []methodSets `json:"sets"`
	Dynamic bool         `json:"dynamic"`
}
type routesFile struct {
	Routes []route  `json:"routes"`
	Errors []string `json:"errors"`
}

var allSets = []string{"READ", "STATUS", "TXN", "WALLET", "INSECURE_WALLET_SEED", "NET_CTRL", "STORAGE"}

type config struct {
	name        string
	sets        []string
	disableCSRF bool
	disableHdr  bool
	host        string
	whitelist   []string
	user, pass  string
	// derived the way the code derives them (oracle data for the model)
	local bool
	port  string
	mux   *http.ServeMux
}

func (c *config) derive() error {
	addr := c.host
	var port uint16
	if strings.Contains(c.host, ":") {
		var err error
		addr, port, err = iputil.SplitAddr(c.host)
		if err != nil {
			return err
		}
	}
	c.local = iputil.IsLocalhost(addr)
	c.port = fmt.Sprintf("%d", port)
	return nil
}

func (c *config) coq() string {
	s := []string{}
	for _, x := range c.sets {
		s = append(s, Str(x))
	}
	w := []string{}
	for _, x := range c.whitelist {
		w = append(w, Str(x))
	}
	return fmt.Sprintf("(Build_config %s %s %s %s %s %s %s %s %s)", B(c.disableCSRF), B(c.disableHdr), List(s), Str(c.host), B(c.local), Str(c.port), List(w), Str(c.user), Str(c.pass))
}

func (c *config) build() (err error) {
	defer func() {
		if r := recover(); r != nil {
			err = fmt.Errorf("newServerMux panicked for config %s: %v", c.name, r)
		}
	}()
	en := map[string]struct{}{}
	for _, s := range c.sets {
		en[s] = struct{}{}
	}
	c.mux = api.VerifNewServerMux(api.VerifMuxConfig{
		Host: c.host, DisableCSRF: c.disableCSRF, DisableHeaderCheck: c.disableHdr, DisableCSP: true,
		EnabledAPISets: en, HostWhitelist: c.whitelist, Username: c.user, Password: c.pass,
	}, stubGateway{})
	return nil
}

// ---- token view (the harness's own reading of a token string)

type tokView struct {
	kind    string // "malformed" | "badenc" | "parsed"
	macOK   bool
	jsonOK  bool
	expires time.Time
}

// The MAC bit is the PROVENANCE of the token, not a recomputation with the
// node's key: macByNode says whether the signature was produced with the key of
// this node (by the node itself, or through the verif export that signs with
// the package key).  A token the harness signs on its own under a guessed key
// (forgedToken) is not issued by the node: mac_ok = false whatever the node's
// key happens to be.
func viewToken(tok string, macByNode bool) tokView {
	parts := strings.Split(tok, ".")
	if len(parts) != 2 {
		return tokView{kind: "malformed"}
	}
	payload, err := base64.RawURLEncoding.DecodeString(parts[0])
	if err != nil {
		return tokView{kind: "badenc"}
	}
	v := tokView{kind: "parsed"}
	v.macOK = macByNode
	var t api.CSRFToken
	if err := json.Unmarshal(payload, &t); err == nil {
		v.jsonOK = true
		v.expires = t.ExpiresAt
	}
	return v
}

// coq prints the view with the expiry relative to ref (= the model's time 0), in
// nanoseconds rounded to a millisecond so that the cases file is reproducible.
func (v tokView) coq(ref time.Time) string {
	switch v.kind {
	case "malformed":
		return "TokMalformed"
	case "badenc":
		return "TokBadEncoding"
	}
	d := new(big.Int)
	if v.jsonOK && v.expires.IsZero() {
		d.SetString("-100000000000000000000", 10) // no ExpiresAt in the payload: year 1, "long ago"
	} else if v.jsonOK {
		// (expires - ref) in ns without int64 overflow
		sec := new(big.Int).SetInt64(v.expires.Unix() - ref.Unix())
		d.Mul(sec, big.NewInt(1000000000))
		d.Add(d, big.NewInt(int64(v.expires.Nanosecond()-ref.Nanosecond())))
		ms := big.NewInt(1000000)
		half := big.NewInt(500000)
		q := new(big.Int).Add(d, half)
		q.Div(q, ms) // floor division (Euclidean for positive modulus)
		d.Mul(q, ms)
	}
	return fmt.Sprintf("(TokParsed %s %s %s)", B(v.macOK), B(v.jsonOK), ZBig(d))
}

func signPayload(payload []byte) string {
	return base64.RawURLEncoding.EncodeToString(payload) + "." + api.VerifCSRFSign(payload)
}

// ---- request variants

type variant struct {
	token, host, origin, referer, creds, ctype, acrm string
}

var (
	tokenVariants   = []string{"valid", "none", "valid_1h", "valid_2s", "expired_2s", "expired_1h", "badmac", "threeparts", "badb64", "badjson", "noexpiry", "empty_sig", "forged_emptykey", "forged_zero32", "forged_zero64", "forged_const"}
	hostVariants    = []string{"ok_ip", "ok_localhost", "configured", "whitelisted", "foreign", "foreign_port", "empty", "ok_upper", "suffix_attack", "prefix_attack", "noport", "otherport", "mutated"}
	originVariants  = []string{"none", "ok_ip", "ok_localhost", "configured", "whitelisted", "foreign", "foreign_sameport", "unparsable", "schemeless", "https_ok", "null", "userinfo_attack", "suffix_attack", "path_attack", "mutated"}
	refererVariants = []string{"none", "ok", "foreign", "unparsable"}
	credsVariants   = []string{"right", "none", "wrongpass", "wronguser", "resplit", "alluser", "allpass", "emptyhdr", "swapped", "malformed_b64", "bearer", "other", "mutated", "uppercase"}
	ctypeVariants   = []string{"json", "json_charset", "form", "none", "jsonx", "text"}
	acrmVariants    = []string{"none", "POST", "GET"}
)

var baseline = variant{token: "valid", host: "ok_ip", origin: "none", referer: "none", creds: "right", ctype: "json", acrm: "none"}

type single struct{ dim, val string }

func singles() []single {
	var out []single
	add := func(dim string, vals []string) {
		for _, v := range vals[1:] {
			out = append(out, single{dim, v})
		}
	}
	add("token", tokenVariants)
	add("host", hostVariants)
	add("origin", originVariants)
	add("referer", refererVariants)
	add("creds", credsVariants)
	add("ctype", ctypeVariants)
	add("acrm", acrmVariants)
	return out
}

func (v variant) with(s single) variant {
	switch s.dim {
	case "token":
		v.token = s.val
	case "host":
		v.host = s.val
	case "origin":
		v.origin = s.val
	case "referer":
		v.referer = s.val
	case "creds":
		v.creds = s.val
	case "ctype":
		v.ctype = s.val
	case "acrm":
		v.acrm = s.val
	}
	return v
}

func randomVariant(r *Rng) variant {
	v := baseline
	pick := func(cur *string, vals []string, p int) {
		if r.Chance(p) {
			*cur = vals[r.Intn(len(vals))]
		}
	}
	pick(&v.token, tokenVariants, 35)
	pick(&v.host, hostVariants, 30)
	pick(&v.origin, originVariants, 30)
	pick(&v.referer, refererVariants, 25)
	pick(&v.creds, credsVariants, 30)
	pick(&v.ctype, ctypeVariants, 25)
	pick(&v.acrm, acrmVariants, 20)
	return v
}

// forgedKeys are keys an outsider can guess; a token signed under one of them
// offline, with a well-formed payload and a far-future expiry, must be refused.
var forgedKeys = map[string][]byte{
	"forged_emptykey": {},
	"forged_zero32":   make([]byte, 32),
	"forged_zero64":   make([]byte, 64),
	"forged_const":    []byte(api.CSRFHeaderName),
}

func forgedToken(kind string, now time.Time) string {
	nonce := make([]byte, 64)
	for i := range nonce {
		nonce[i] = byte(i*7 + 3)
	}
	payload, err := json.Marshal(api.CSRFToken{Nonce: nonce, ExpiresAt: now.Add(24 * time.Hour)})
	if err != nil {
		panic(err)
	}
	h := hmac.New(sha256.New, forgedKeys[kind])
	h.Write(payload) //nolint:errcheck
	return base64.RawURLEncoding.EncodeToString(payload) + "." + base64.RawURLEncoding.EncodeToString(h.Sum(nil))
}

// tokenByNode says whether a token of this kind carries a signature made with the node's key.
func tokenByNode(kind string) bool {
	if _, forged := forgedKeys[kind]; forged {
		return false
	}
	switch kind {
	case "badmac", "empty_sig", "none", "threeparts", "badb64":
		return false
	}
	return true
}

func makeToken(kind string, now time.Time) string {
	if _, forged := forgedKeys[kind]; forged {
		return forgedToken(kind, now)
	}
	mk := func(d time.Duration) string {
		t, err := api.VerifNewCSRFTokenWithTime(now.Add(d))
		if err != nil {
			panic(err)
		}
		return t
	}
	switch kind {
	case "none":
		return ""
	case "valid":
		return mk(30 * time.Second)
	case "valid_1h":
		return mk(time.Hour)
	case "valid_2s":
		return mk(2 * time.Second)
	case "expired_2s":
		return mk(-2 * time.Second)
	case "expired_1h":
		return mk(-time.Hour)
	case "badmac":
		t := mk(30 * time.Second)
		last := t[len(t)-1]
		repl := byte('A')
		if last == 'A' {
			repl = 'B'
		}
		// change a character in the middle of the signature (the last one carries padding bits)
		i := len(t) - 10
		if t[i] == repl {
			repl = 'C'
		}
		return t[:i] + string(repl) + t[i+1:]
	case "threeparts":
		return mk(30*time.Second) + ".x"
	case "badb64":
		return "!!!." + api.VerifCSRFSign([]byte("x"))
	case "badjson":
		return signPayload([]byte("not json"))
	case "noexpiry":
		return signPayload([]byte(`{"Nonce":"AAAA"}`))
	case "empty_sig":
		t := mk(30 * time.Second)
		return t[:strings.Index(t, ".")+1]
	}
	panic("token kind " + kind)
}

type builtReq struct {
	req   *http.Request
	coq   string // the request as indices into the pools: m, host, origin, referer, chk, ctype, auth, token, acrm
	token string
}

// pools of distinct values: a Coq string literal costs ~150 constructors, so
// cases refer to strings / option values / token views by index.
type pool struct {
	idx   map[string]int
	items []string
}

func (p *pool) id(term string) string {
	if p.idx == nil {
		p.idx = map[string]int{}
	}
	i, ok := p.idx[term]
	if !ok {
		i = len(p.items)
		p.idx[term] = i
		p.items = append(p.items, term)
	}
	return fmt.Sprint(i)
}

var poolS, poolAuth, poolChk, poolTok pool

// mutate makes a one-character edit (replace / insert / delete) of s.
func mutate(r *Rng, s string) string {
	const alphabet = "abcdefghijklmnopqrstuvwxyz0123456789.:-_@/ "
	ch := string(alphabet[r.Intn(len(alphabet))])
	if len(s) == 0 {
		return ch
	}
	i := r.Intn(len(s))
	switch r.Intn(3) {
	case 0:
		if string(s[i]) == ch {
			ch = "#"
		}
		return s[:i] + ch + s[i+1:]
	case 1:
		return s[:i] + ch + s[i:]
	default:
		return s[:i] + s[i+1:]
	}
}

func buildRequest(r *Rng, c *config, path, method string, v variant, tokenOverride *string, tokenRef time.Time) builtReq {
	return buildRequestBy(r, c, path, method, v, tokenOverride, tokenRef, tokenOverride != nil || tokenByNode(v.token))
}

// buildRequestBy: macByNode says whether the token's signature was made with the node's key.
func buildRequestBy(r *Rng, c *config, path, method string, v variant, tokenOverride *string, tokenRef time.Time, macByNode bool) builtReq {
	var body *strings.Reader
	if method == "POST" || method == "PUT" {
		body = strings.NewReader("{}")
	} else {
		body = strings.NewReader("")
	}
	req := httptest.NewRequest(method, "http://placeholder"+path, body)
	okPort := c.port
	// Host
	switch v.host {
	case "ok_ip":
		req.Host = "127.0.0.1:" + okPort
	case "ok_localhost":
		req.Host = "localhost:" + okPort
	case "configured":
		req.Host = c.host
	case "whitelisted":
		if len(c.whitelist) > 0 {
			req.Host = c.whitelist[0]
		} else {
			req.Host = "wl.example.com:6420"
		}
	case "foreign":
		req.Host = "evil.example.org"
	case "foreign_port":
		req.Host = "evil.example.org:" + okPort
	case "empty":
		req.Host = ""
	case "ok_upper":
		req.Host = "LOCALHOST:" + okPort
	case "suffix_attack":
		req.Host = "127.0.0.1:" + okPort + ".evil.example.org"
	case "prefix_attack":
		req.Host = "localhost.evil.example.org:" + okPort
	case "noport":
		req.Host = []string{"127.0.0.1", "localhost"}[r.Intn(2)]
	case "otherport":
		req.Host = []string{"127.0.0.1:", "localhost:"}[r.Intn(2)] + okPort + "0"
	case "mutated":
		req.Host = mutate(r, []string{"127.0.0.1:" + okPort, "localhost:" + okPort}[r.Intn(2)])
	}
	hdr := func(kind string) string {
		switch kind {
		case "ok_ip", "ok":
			return "http://127.0.0.1:" + okPort
		case "ok_localhost":
			return "http://localhost:" + okPort + "/some/page"
		case "configured":
			return "http://" + c.host
		case "whitelisted":
			if len(c.whitelist) > 0 {
				return "http://" + c.whitelist[0]
			}
			return "http://wl.example.com:6420"
		case "foreign":
			return "http://evil.example.org"
		case "foreign_sameport":
			return "http://evil.example.org:" + okPort + "/x"
		case "unparsable":
			return "http://[::1"
		case "schemeless":
			return "127.0.0.1:" + okPort
		case "https_ok":
			return "https://127.0.0.1:" + okPort
		case "null":
			return "null"
		case "userinfo_attack":
			return "http://127.0.0.1:" + okPort + "@evil.example.org"
		case "suffix_attack":
			return "http://localhost:" + okPort + ".evil.example.org"
		case "path_attack":
			return "http://evil.example.org/127.0.0.1:" + okPort
		case "mutated":
			return "http://" + mutate(r, []string{"127.0.0.1:" + okPort, "localhost:" + okPort}[r.Intn(2)])
		}
		return ""
	}
	origin, referer := hdr(v.origin), hdr(v.referer)
	if origin != "" {
		req.Header.Set("Origin", origin)
	}
	if referer != "" {
		req.Header.Set("Referer", referer)
	}
	// credentials
	u, p := c.user, c.pass
	configured := u != "" || p != ""
	set := func(a, b string) { req.SetBasicAuth(a, b) }
	switch v.creds {
	case "right":
		if configured {
			set(u, p)
		}
	case "none":
	case "wrongpass":
		set(u, p+"x")
	case "wronguser":
		set(u+"x", p)
	case "resplit":
		if len(p) > 0 {
			set(u+p[:1], p[1:])
		} else if len(u) > 0 {
			set(u[:len(u)-1], u[len(u)-1:])
		} else {
			set("a", "")
		}
	case "alluser":
		set(u+p, "")
	case "allpass":
		set("", u+p)
	case "emptyhdr":
		set("", "")
	case "swapped":
		set(p, u)
	case "malformed_b64":
		req.Header.Set("Authorization", "Basic !!!notbase64")
	case "bearer":
		req.Header.Set("Authorization", "Bearer "+base64.StdEncoding.EncodeToString([]byte(u+":"+p)))
	case "other":
		set("someone", "else")
	case "mutated":
		if r.Bool() {
			set(mutate(r, u), p)
		} else {
			set(u, mutate(r, p))
		}
	case "uppercase":
		set(strings.ToUpper(u), strings.ToUpper(p))
	}
	// content type
	ct := map[string]string{"json": "application/json", "json_charset": "application/json; charset=utf-8", "form": "application/x-www-form-urlencoded", "none": "", "jsonx": "application/jsonx", "text": "text/plain"}[v.ctype]
	if ct != "" {
		req.Header.Set("Content-Type", ct)
	}
	if v.acrm != "none" {
		req.Header.Set("Access-Control-Request-Method", v.acrm)
	}
	// token
	var tok string
	ref := time.Now()
	if tokenOverride != nil {
		tok = *tokenOverride
		ref = tokenRef
	} else {
		tok = makeToken(v.token, ref)
	}
	if tok != "" {
		req.Header.Set(api.CSRFHeaderName, tok)
	}

	// ---- the model's view of this request, from the same library calls the code makes
	au := "None"
	if a, b, ok := req.BasicAuth(); ok {
		au = Some(Tuple(Str(a), Str(b)))
	}
	chk := origin
	if chk == "" {
		chk = referer
	}
	chkHost := "None"
	if chk != "" {
		if pu, err := url.Parse(chk); err == nil {
			chkHost = Some(Str(pu.Host))
		}
	}
	acrm := ""
	if v.acrm != "none" {
		acrm = v.acrm
	}
	coq := strings.Join([]string{poolS.id(Str(method)), poolS.id(Str(req.Host)), poolS.id(Str(origin)), poolS.id(Str(referer)), poolChk.id(chkHost),
		poolS.id(Str(ct)), poolAuth.id(au), poolTok.id(viewToken(tok, macByNode).coq(ref)), poolS.id(Str(acrm))}, "; ")
	return builtReq{req: req, coq: coq, token: tok}
}

func serve(c *config, req *http.Request) (status int, reason string) {
	rec := httptest.NewRecorder()
	if Guard(func() { c.mux.ServeHTTP(rec, req) }) {
		return 0, "handler reached (gateway stub invoked)"
	}
	body := strings.TrimSpace(rec.Body.String())
	if len(body) > 80 {
		body = body[:80]
	}
	return rec.Code, body
}

// registeredPatterns reads the patterns of the ServeMux by reflection.
func registeredPatterns(mux *http.ServeMux) ([]string, bool) {
	defer func() { recover() }() //nolint:errcheck
	v := reflect.ValueOf(mux).Elem()
	f := v.FieldByName("patterns")
	if !f.IsValid() || f.Kind() != reflect.Slice {
		return nil, false
	}
	var out []string
	for i := 0; i < f.Len(); i++ {
		p := f.Index(i).Elem().FieldByName("str")
		if !p.IsValid() || p.Kind() != reflect.String {
			return nil, false
		}
		out = append(out, p.String())
	}
	if len(out) == 0 {
		// a main module with go < 1.22 in go.mod runs the pre-1.22 mux (GODEBUG httpmuxgo121=1)
		m := v.FieldByName("mux121")
		if !m.IsValid() {
			return nil, false
		}
		mm := m.FieldByName("m")
		if !mm.IsValid() || mm.Kind() != reflect.Map {
			return nil, false
		}
		for _, k := range mm.MapKeys() {
			out = append(out, k.String())
		}
	}
	if len(out) == 0 {
		return nil, false
	}
	sort.Strings(out)
	return out, true
}

func main() { Main(run) }

func run(args []string) error {
	f := ParseFlags("c27", args)
	logging.Disable()
	r := NewRng(f.Seed)
	o := NewOut()
	hist := Hist{}

	var rf routesFile
	data, err := ioutil.ReadFile(f.Extra)
	if err != nil {
		return fmt.Errorf("route table (-extra Gen/Routes.json): %v", err)
	}
	if err := json.Unmarshal(data, &rf); err != nil {
		return err
	}
	var routes []route
	for _, rt := range rf.Routes {
		if !rt.Dynamic {
			routes = append(routes, rt)
		}
	}
	rootRoute := route{Path: "/", Version: "v1", CSRF: true}
	for _, rt := range routes {
		if rt.Path == "/" {
			rootRoute = rt
		}
	}
	// paths that are not registered fall to the "/" entry of the mux
	type target struct {
		path string
		rt   route
	}
	var targets []target
	for _, rt := range routes {
		targets = append(targets, target{rt.Path, rt})
	}
	for _, p := range []string{"/api/v1/nonexistent", "/api/v2/nonexistent", "/api/v1/wallet/", "/index.html"} {
		targets = append(targets, target{p, rootRoute})
	}

	thorough := f.Tier == "thorough" || f.Tier == "search"
	methods := []string{"GET", "POST", "PUT", "DELETE", "OPTIONS"}
	if thorough {
		methods = append(methods, "HEAD", "PATCH")
	}

	// ---- configurations
	subset := func() []string {
		var s []string
		for _, x := range allSets {
			if r.Bool() {
				s = append(s, x)
			}
		}
		return s
	}
	hosts := []string{"127.0.0.1:6420", "localhost:6420", "[::1]:6420", "192.168.1.9:6420", "node.example.com:8080", "node.example.com", "127.0.0.1:1"}
	wls := [][]string{nil, {"wl.example.com:6420"}, {"wl.example.com", "other.example.com:99"}}
	creds := [][2]string{{"", ""}, {"a", "bc"}, {"user", "pass"}, {"", "pw"}, {"u", ""}}
	cfgs := []*config{
		{name: "all-sets", sets: allSets, host: hosts[0]},
		{name: "no-sets+auth", sets: nil, host: hosts[0], user: "a", pass: "bc"},
		{name: "subset+nocsrf+public", sets: subset(), disableCSRF: true, host: hosts[3], whitelist: wls[1]},
		{name: "single-set+nohdr+auth", sets: []string{allSets[int(f.Seed)%len(allSets)]}, disableHdr: true, host: hosts[1], user: "user", pass: "pass"},
		{name: "subset+ipv6+whitelist", sets: subset(), host: hosts[2], whitelist: wls[2]},
	}
	ncfg := 6
	if thorough {
		ncfg = 24
	}
	for _, s := range allSets { // thorough: each single set
		if len(cfgs) < ncfg-1 && thorough {
			cfgs = append(cfgs, &config{name: "only-" + s, sets: []string{s}, host: hosts[r.Intn(len(hosts))], disableCSRF: r.Chance(30), disableHdr: r.Chance(30)})
		}
	}
	for len(cfgs) < ncfg {
		cr := creds[r.Intn(len(creds))]
		cfgs = append(cfgs, &config{name: fmt.Sprintf("random-%d", len(cfgs)), sets: subset(), disableCSRF: r.Chance(30), disableHdr: r.Chance(30),
			host: hosts[r.Intn(len(hosts))], whitelist: wls[r.Intn(len(wls))], user: cr[0], pass: cr[1]})
	}
	var cfgTerms []string
	for _, c := range cfgs {
		if err := c.derive(); err != nil {
			return err
		}
		if err := c.build(); err != nil {
			return err
		}
		cfgTerms = append(cfgTerms, c.coq())
	}
	o.Def("cfgs", "config", cfgTerms)

	// ---- registered patterns against the translated table
	pats, ok := registeredPatterns(cfgs[0].mux)
	note := ""
	if !ok {
		note = "ServeMux internals not readable by reflection in this Go version: registered patterns taken from the table itself"
		for _, rt := range routes {
			pats = append(pats, rt.Path)
		}
	}
	var patTerms []string
	for _, p := range pats {
		patTerms = append(patTerms, Str(p))
	}
	o.Def("cases_patterns", "string", patTerms)

	caseJSON := map[string][]map[string]interface{}{}
	var samples []map[string]interface{}
	sing := singles()
	total := len(targets) * len(methods) * len(cfgs)
	budget := f.Budget(12000, 150000)
	per := budget / total
	if per < 3 {
		per = 3
	}
	nsingles := per * 2 / 3
	var accessTerms []string
	record := func(group string, c *config, ci int, tg target, method string, v variant, br builtReq, status int, reason string) string {
		m := map[string]interface{}{"path": tg.path, "method": method, "cfg": ci, "cfg_name": c.name, "enabled_sets": strings.Join(c.sets, ","),
			"disable_csrf": c.disableCSRF, "disable_header_check": c.disableHdr, "cfg_host": c.host, "whitelist": strings.Join(c.whitelist, ","),
			"username": c.user, "password": c.pass,
			"token": v.token, "host": v.host, "host_header": br.req.Host, "origin": v.origin, "origin_header": br.req.Header.Get("Origin"),
			"referer": v.referer, "referer_header": br.req.Header.Get("Referer"), "creds": v.creds, "authorization": br.req.Header.Get("Authorization"),
			"ctype": v.ctype, "acrm": v.acrm, "status": status, "response": reason}
		if strings.HasPrefix(v.token, "forged") {
			m["csrf_token_header"] = br.token // signed by the harness itself under the guessed key
		}
		caseJSON[group] = append(caseJSON[group], m)
		if len(samples) < 12 && r.Intn(400) == 0 {
			samples = append(samples, m)
		}
		key := fmt.Sprint(group, tg.path, method, ci, v)
		o.Count(key, true)
		hist.Add(fmt.Sprintf("status:%d", status))
		return "[" + poolS.id(Str(tg.path)) + "; " + fmt.Sprint(ci) + "; " + br.coq + "; " + fmt.Sprint(status) + "]"
	}
	for ti, tg := range targets {
		for mi, method := range methods {
			for ci, c := range cfgs {
				var vs []variant
				vs = append(vs, baseline)
				for j := 0; j < nsingles; j++ {
					idx := (ti*7 + mi*3 + ci*11 + j*13 + int(f.Seed%1000)) % len(sing)
					vs = append(vs, baseline.with(sing[idx]))
				}
				for len(vs) < per {
					vs = append(vs, randomVariant(r))
				}
				for _, v := range vs {
					br := buildRequest(r, c, tg.path, method, v, nil, time.Time{})
					status, reason := serve(c, br.req)
					accessTerms = append(accessTerms, record("access", c, ci, tg, method, v, br, status, reason))
					hist.Add("token:" + v.token)
					hist.Add("creds:" + v.creds)
					hist.Add("host:" + v.host)
					hist.Add("origin:" + v.origin)
				}
			}
		}
	}
	// forged tokens, systematically: every configuration with the CSRF check on x every
	// endpoint that lists a state-changing method x every guessable key
	forgedKinds := []string{"forged_emptykey", "forged_zero32", "forged_zero64", "forged_const"}
	for ci, c := range cfgs {
		if c.disableCSRF {
			continue
		}
		for ti, tg := range targets {
			for _, ms := range tg.rt.Sets {
				if ms.Method != "POST" && ms.Method != "PUT" && ms.Method != "DELETE" {
					continue
				}
				for ki, kind := range forgedKinds {
					if !thorough && (ti+ci+ki)%2 != 0 {
						continue
					}
					v := baseline
					v.token = kind
					br := buildRequest(r, c, tg.path, ms.Method, v, nil, time.Time{})
					status, reason := serve(c, br.req)
					accessTerms = append(accessTerms, record("access", c, ci, tg, ms.Method, v, br, status, reason))
					hist.Add("token:" + kind)
				}
			}
		}
	}
	o.Def("cases_access", "list Z", accessTerms)

	// ---- F8b scenario: a token, then a newer one from GET /api/v1/csrf, then the older one is used
	var oldTerms []string
	getToken := func(c *config) (string, time.Time, bool) {
		ref := time.Now()
		br := buildRequest(r, c, "/api/v1/csrf", "GET", baseline, nil, time.Time{})
		rec := httptest.NewRecorder()
		if Guard(func() { c.mux.ServeHTTP(rec, br.req) }) || rec.Code != 200 {
			return "", ref, false
		}
		var m map[string]string
		if err := json.Unmarshal(rec.Body.Bytes(), &m); err != nil {
			return "", ref, false
		}
		return m["csrf_token"], ref, m["csrf_token"] != ""
	}
	oldTargets := []target{}
	for _, tg := range targets {
		for _, ms := range tg.rt.Sets {
			if ms.Method == "POST" || ms.Method == "DELETE" || ms.Method == "PUT" {
				oldTargets = append(oldTargets, tg)
				break
			}
		}
	}
	nOld := 0
	for ci, c := range cfgs {
		if c.disableCSRF {
			continue
		}
		for ti, tg := range oldTargets {
			if !thorough && (ti+ci)%4 != 0 {
				continue
			}
			for _, method := range []string{"POST", "DELETE"} {
				// old but unexpired token
				t1, ref1, ok1 := getToken(c)
				_, _, ok2 := getToken(c)
				if !ok1 || !ok2 {
					hist.Add("old_token:issuance_failed")
					continue
				}
				v := baseline
				v.token = "old_unexpired"
				br := buildRequest(r, c, tg.path, method, v, &t1, ref1)
				status, reason := serve(c, br.req)
				oldTerms = append(oldTerms, record("csrf_old_token", c, ci, tg, method, v, br, status, reason))
				// old and expired token: refused in any case
				ref3 := time.Now()
				t3 := makeToken("expired_2s", ref3)
				getToken(c)
				v.token = "old_expired"
				br = buildRequest(r, c, tg.path, method, v, &t3, ref3)
				status, reason = serve(c, br.req)
				oldTerms = append(oldTerms, record("csrf_old_token", c, ci, tg, method, v, br, status, reason))
				nOld += 2
			}
		}
	}
	o.Def("cases_csrf_old_token", "list Z", oldTerms)

	// ---- request HISTORIES: token validity is a pure function of token, key and clock,
	// so every request of a sequence must get the verdict the model gives that request
	// alone at that time.  Tokens are minted with an explicit, near expiry
	// (newCSRFTokenWithTime) and used before and after it; valid after invalid and
	// vice versa; A, B, A.  All muxes of the process share the token code.
	var histTerms []string
	{
		var hc *config
		hci := 0
		for ci, c := range cfgs {
			if !c.disableCSRF && len(c.sets) == len(allSets) && c.user == "" && c.pass == "" {
				hc, hci = c, ci
				break
			}
		}
		var hts []target
		for _, want := range []string{"/api/v1/wallet/update", "/api/v2/address/verify", "/api/v2/data", "/api/v1/blocks"} {
			for _, tg := range targets {
				if tg.path == want {
					hts = append(hts, tg)
				}
			}
		}
		mint := func(d time.Duration) string {
			t, err := api.VerifNewCSRFTokenWithTime(time.Now().Add(d))
			if err != nil {
				panic(err)
			}
			return t
		}
		badmacOf := func(t string) string {
			i := len(t) - 10
			repl := byte('A')
			if t[i] == repl {
				repl = 'B'
			}
			return t[:i] + string(repl) + t[i+1:]
		}
		step := 0
		use := func(history, what string, tok string, byNode bool, k int) {
			if hc == nil || len(hts) == 0 {
				return
			}
			tg := hts[k%len(hts)]
			method := "POST"
			if tg.path == "/api/v2/data" {
				method = "DELETE"
			}
			// the model's clock is the time of this request; a token whose expiry is
			// closer than 150 ms to it is not a case (the comparison inside the node
			// happens a little later)
			ref := time.Now()
			vw := viewToken(tok, byNode)
			if vw.kind == "parsed" && vw.jsonOK {
				d := vw.expires.Sub(ref)
				if d > -150*time.Millisecond && d < 150*time.Millisecond {
					hist.Add("history:skipped_near_expiry")
					return
				}
			}
			v := baseline
			v.token = what
			br := buildRequestBy(r, hc, tg.path, method, v, &tok, ref, byNode)
			status, reason := serve(hc, br.req)
			step++
			term := record("token_history", hc, hci, tg, method, v, br, status, reason)
			last := caseJSON["token_history"][len(caseJSON["token_history"])-1]
			last["history"] = history
			last["step"] = step
			last["token_expires_in_ms"] = vw.expires.Sub(ref).Milliseconds()
			histTerms = append(histTerms, term)
			hist.Add("history:" + history)
		}
		if hc != nil && len(hts) > 0 {
			life := 1200 * time.Millisecond
			a, c2 := mint(life), mint(life)
			long1, long2 := mint(time.Hour), mint(time.Hour)
			dead := mint(-2 * time.Second)
			// valid after invalid and vice versa; A, B, A
			use("invalid then valid", "badmac", badmacOf(long1), false, 0)
			use("invalid then valid", "valid_1h", long1, true, 0)
			use("valid then invalid", "badmac", badmacOf(long1), false, 1)
			use("valid then expired", "expired_2s", dead, true, 1)
			use("A B A", "valid_1h", long1, true, 2)
			use("A B A", "valid_1h_B", long2, true, 2)
			use("A B A", "valid_1h", long1, true, 2)
			use("expired twice", "expired_2s", dead, true, 3)
			use("expired twice", "expired_2s", dead, true, 3)
			// the same genuine tokens used while valid ... (c2 first, then a: a is the last one accepted)
			use("used valid, then again after its expiry (another token accepted in between)", "short_lived", c2, true, 0)
			use("used valid, then again after its expiry", "short_lived", a, true, 0)
			use("used valid, then again after its expiry", "short_lived", a, true, 1)
			// ... and again after their own expiry
			time.Sleep(life + 400*time.Millisecond)
			use("used valid, then again after its expiry", "short_lived_expired", a, true, 0)
			use("used valid, then again after its expiry", "short_lived_expired", a, true, 1)
			use("used valid, then again after its expiry", "short_lived_expired", a, true, 2)
			use("used valid, then again after its expiry (another token accepted in between)", "short_lived_expired", c2, true, 0)
			use("valid after the expired one", "valid_1h", long2, true, 3)
			use("expired after a valid one", "short_lived_expired", a, true, 3)
		}
	}
	o.Def("cases_token_history", "list Z", histTerms)
	// a case is [path; cfg; method; host; origin; referer; chk; ctype; auth; token; acrm; status],
	// every field but cfg and status an index into one of these pools
	o.Def("pool_s", "string", poolS.items)
	o.Def("pool_auth", "option (string * string)", poolAuth.items)
	o.Def("pool_chk", "option string", poolChk.items)
	o.Def("pool_tok", "token_view", poolTok.items)

	o.Side["cases"] = caseJSON
	o.Side["samples"] = samples
	o.Side["distribution"] = hist.Sorted()
	o.Side["rule"] = "one evaluation = one HTTP request served by the real mux (api.newServerMux) for a (route or unregistered path, method, configuration, header variant); non-trivial = distinct such combination; observable = status (0 = handler reached the panicking gateway stub)"
	o.Side["routes"] = len(routes)
	o.Side["configs"] = len(cfgs)
	o.Side["methods"] = methods
	o.Side["per_combination"] = per
	o.Side["old_token_cases"] = nOld
	if note != "" {
		o.Side["note"] = note
	}
	return o.Write(f.Out, f.JSON)
}
