// Command c20: wallet and key-value files survive a crash during a save (property C20).
//
// For each scenario the real service operation (wallet.Service.CreateWallet /
// UpdateWalletLabel / NewAddresses / ScanAddresses / EncryptWallet /
// DecryptWallet, kvstorage.Manager NewManager / AddStorageValue /
// RemoveStorageValue) is executed once in a child process under strace; the
// traced system calls on the directory are (a) printed as a Coq `list op` so
// that the cases file compares them with the model's op list, (b) replayed on
// copies of the old directory up to every crash point (every prefix, the
// interrupted write cut at sampled / all byte positions). Each crash directory
// is snapshotted and the REAL wallet.NewService / kvstorage.NewManager is
// started on it; what it loads is the observable.
package main

import (
	"bufio"
	"bytes"
	"crypto/sha256"
	"encoding/hex"
	"encoding/json"
	"errors"
	"fmt"
	"io/ioutil"
	"os"
	"os/exec"
	"path/filepath"
	"regexp"
	"sort"
	"strconv"
	"strings"

	. "verif/harness/kit"

	"github.com/skycoin/skycoin/src/cipher"
	"github.com/skycoin/skycoin/src/cipher/bip39"
	"github.com/skycoin/skycoin/src/cipher/bip44"
	"github.com/skycoin/skycoin/src/cipher/crypto"
	"github.com/skycoin/skycoin/src/kvstorage"
	"github.com/skycoin/skycoin/src/util/logging"
	"github.com/skycoin/skycoin/src/wallet"
	_ "github.com/skycoin/skycoin/src/wallet/bip44wallet"
	_ "github.com/skycoin/skycoin/src/wallet/collection"
	_ "github.com/skycoin/skycoin/src/wallet/deterministic"
	_ "github.com/skycoin/skycoin/src/wallet/xpubwallet"
)

func main() {
	if len(os.Args) > 2 && os.Args[1] == "child" {
		logging.Disable()
		if err := child(os.Args[2]); err != nil {
			fmt.Fprintln(os.Stderr, "child error:", err)
			os.Exit(3)
		}
		return
	}
	Main(run)
}

// ------------------------------------------------------------------ service operations

// Step is one service-level operation (used both to prepare the old directory
// in-process and, for the last one, in the traced child).
type Step struct {
	Op       string `json:"op"` // wallet: create label newaddr scan encrypt decrypt ; kv: init add remove
	Name     string `json:"name"`
	Type     string `json:"type,omitempty"` // wallet type / kv storage type
	Seed     string `json:"seed,omitempty"`
	Label    string `json:"label,omitempty"`
	Password string `json:"password,omitempty"`
	Encrypt  bool   `json:"encrypt,omitempty"`
	N        uint64 `json:"n,omitempty"`
	Key      string `json:"key,omitempty"`
	Val      string `json:"val,omitempty"`
	// RenameFrom: before the traced operation the file RenameFrom of the prepared
	// directory is renamed to Name (a wallet file copied in under a long name)
	RenameFrom string `json:"rename_from,omitempty"`
	// AllowFail: the operation may return an error (save refused); the error is an observable
	AllowFail bool `json:"allow_fail,omitempty"`
}

type ChildSpec struct {
	Kind    string `json:"kind"` // wallet | kv
	Dir     string `json:"dir"`
	MarkDir string `json:"markdir"`
	Step    Step   `json:"step"`
}

func walletCfg(dir string) wallet.Config {
	bc := bip44.CoinTypeSkycoin
	return wallet.Config{WalletDir: dir, CryptoType: crypto.CryptoTypeSha256Xor, EnableWalletAPI: true, Bip44Coin: &bc}
}

func kvCfg(dir, typ string) kvstorage.Config {
	return kvstorage.Config{StorageDir: dir, EnabledStorages: []kvstorage.Type{kvstorage.Type(typ)}, EnableStorageAPI: true}
}

type noActivity struct{}

func (noActivity) AddressesActivity(addrs []cipher.Addresser) ([]bool, error) {
	return make([]bool, len(addrs)), nil
}

func walletStep(s *wallet.Service, st Step) error {
	var pw []byte
	if st.Password != "" {
		pw = []byte(st.Password)
	}
	switch st.Op {
	case "create":
		_, err := s.CreateWallet(st.Name, wallet.Options{Label: st.Label, Seed: st.Seed, Type: st.Type,
			Encrypt: st.Encrypt, Password: pw, CryptoType: crypto.CryptoTypeSha256Xor, GenerateN: st.N})
		return err
	case "label":
		return s.UpdateWalletLabel(st.Name, st.Label)
	case "newaddr":
		_, err := s.NewAddresses(st.Name, pw, wallet.OptionGenerateN(st.N))
		return err
	case "scan":
		_, err := s.ScanAddresses(st.Name, pw, st.N, noActivity{})
		return err
	case "encrypt":
		_, err := s.EncryptWallet(st.Name, pw)
		return err
	case "decrypt":
		_, err := s.DecryptWallet(st.Name, pw)
		return err
	}
	return fmt.Errorf("unknown wallet op %q", st.Op)
}

func kvStep(m *kvstorage.Manager, st Step) error {
	switch st.Op {
	case "add":
		return m.AddStorageValue(kvstorage.Type(st.Type), st.Key, st.Val)
	case "remove":
		return m.RemoveStorageValue(kvstorage.Type(st.Type), st.Key)
	}
	return fmt.Errorf("unknown kv op %q", st.Op)
}

func mark(dir, name string) error {
	return ioutil.WriteFile(filepath.Join(dir, name), nil, 0600)
}

func child(specPath string) error {
	b, err := ioutil.ReadFile(specPath)
	if err != nil {
		return err
	}
	var sp ChildSpec
	if err := json.Unmarshal(b, &sp); err != nil {
		return err
	}
	switch sp.Kind {
	case "wallet":
		s, err := wallet.NewService(walletCfg(sp.Dir))
		if err != nil {
			return err
		}
		if err := mark(sp.MarkDir, "MARK_BEGIN"); err != nil {
			return err
		}
		if err := walletStep(s, sp.Step); err != nil {
			if !sp.Step.AllowFail {
				return err
			}
			if werr := ioutil.WriteFile(filepath.Join(sp.MarkDir, "op_error"), []byte(err.Error()), 0600); werr != nil {
				return werr
			}
		}
		return mark(sp.MarkDir, "MARK_END")
	case "kv":
		if sp.Step.Op == "init" { // the save happens inside NewManager (initEmptyStorage)
			if err := mark(sp.MarkDir, "MARK_BEGIN"); err != nil {
				return err
			}
			if _, err := kvstorage.NewManager(kvCfg(sp.Dir, sp.Step.Type)); err != nil {
				return err
			}
			return mark(sp.MarkDir, "MARK_END")
		}
		m, err := kvstorage.NewManager(kvCfg(sp.Dir, sp.Step.Type))
		if err != nil {
			return err
		}
		if err := mark(sp.MarkDir, "MARK_BEGIN"); err != nil {
			return err
		}
		if err := kvStep(m, sp.Step); err != nil {
			return err
		}
		return mark(sp.MarkDir, "MARK_END")
	}
	return fmt.Errorf("unknown kind %q", sp.Kind)
}

// ------------------------------------------------------------------ strace

// TOp is one traced system call on the directory, in the model's vocabulary.
type TOp struct {
	Kind string // create openw write fsync rename unlink unknown
	A, B string // file names relative to the directory
	Off  int    // write: offset within the bytes written through this descriptor
	N    int    // write: number of bytes
	Text string // unknown: the raw line
}

var (
	reLine    = regexp.MustCompile(`^(\d+)\s+(.*)$`)
	reOpenat  = regexp.MustCompile(`^openat\(AT_FDCWD, "([^"]*)", ([A-Z_|0-9a-zx]+)(?:, [0-7]+)?\)\s+= (-?\d+)`)
	reWrite   = regexp.MustCompile(`^write\((\d+), .*, (\d+)\)\s+= (-?\d+)`)
	reFsync   = regexp.MustCompile(`^(fsync|fdatasync)\((\d+)\)\s+= (-?\d+)`)
	reFtrunc  = regexp.MustCompile(`^ftruncate\((\d+), (\d+)\)\s+= (-?\d+)`)
	reClose   = regexp.MustCompile(`^close\((\d+)\)\s+= (-?\d+)`)
	reRename  = regexp.MustCompile(`^rename(?:at|at2)?\((?:AT_FDCWD, )?"([^"]*)", (?:AT_FDCWD, )?"([^"]*)"(?:, [A-Z_0-9|]+)?\)\s+= (-?\d+)`)
	reUnlink  = regexp.MustCompile(`^unlink(?:at)?\((?:AT_FDCWD, )?"([^"]*)"(?:, [A-Z_0-9|]+)?\)\s+= (-?\d+)`)
	reResumed = regexp.MustCompile(`^<\.\.\. \w+ resumed>(.*)$`)
)

// parseTrace turns the strace output into the op skeleton between the two
// markers, restricted to paths inside dir.
func parseTrace(path, dir, markDir string) ([]TOp, error) {
	f, err := os.Open(path)
	if err != nil {
		return nil, err
	}
	defer f.Close()
	pending := map[string]string{}
	var lines []string
	sc := bufio.NewScanner(f)
	sc.Buffer(make([]byte, 1<<20), 1<<26)
	for sc.Scan() {
		m := reLine.FindStringSubmatch(sc.Text())
		if m == nil {
			continue
		}
		pid, rest := m[1], m[2]
		if strings.HasSuffix(rest, "<unfinished ...>") {
			pending[pid] = strings.TrimRight(strings.TrimSuffix(rest, "<unfinished ...>"), " ")
			continue
		}
		if r := reResumed.FindStringSubmatch(rest); r != nil {
			rest = pending[pid] + strings.TrimLeft(r[1], " ")
			delete(pending, pid)
		}
		lines = append(lines, rest)
	}
	if err := sc.Err(); err != nil {
		return nil, err
	}
	prefix := dir + "/"
	rel := func(p string) (string, bool) {
		if strings.HasPrefix(p, prefix) {
			return strings.TrimPrefix(p, prefix), true
		}
		return "", false
	}
	fds := map[string]string{} // fd -> relative name
	offs := map[string]int{}
	var ops []TOp
	in := false
	seenEnd := false
	for _, l := range lines {
		if m := reOpenat.FindStringSubmatch(l); m != nil {
			p, flags, ret := m[1], m[2], m[3]
			if p == filepath.Join(markDir, "MARK_BEGIN") {
				in = true
				continue
			}
			if p == filepath.Join(markDir, "MARK_END") {
				in = false
				seenEnd = true
				continue
			}
			if ret == "-1" || strings.HasPrefix(ret, "-") {
				continue
			}
			n, ok := rel(p)
			if !ok {
				delete(fds, ret)
				continue
			}
			if !in {
				delete(fds, ret)
				continue
			}
			if strings.Contains(flags, "O_DIRECTORY") {
				delete(fds, ret)
				continue
			}
			fl := map[string]bool{}
			for _, x := range strings.Split(flags, "|") {
				fl[x] = true
			}
			delete(fl, "O_CLOEXEC")
			delete(fl, "O_LARGEFILE")
			switch {
			case fl["O_RDONLY"]:
				delete(fds, ret) // reads are not part of the skeleton
				continue
			case fl["O_WRONLY"] && fl["O_CREAT"] && fl["O_TRUNC"] && len(fl) == 3:
				ops = append(ops, TOp{Kind: "create", A: n})
			case fl["O_WRONLY"] && len(fl) == 1:
				ops = append(ops, TOp{Kind: "openw", A: n})
			// other ways of opening a file for writing: not in the model's op list, but their
			// effect on the directory is materialised when the crash directories are built
			case fl["O_CREAT"] && fl["O_EXCL"] && !fl["O_APPEND"]:
				ops = append(ops, TOp{Kind: "createx", A: n, Text: flags}) // succeeded: the file did not exist, now it is empty
			case fl["O_TRUNC"] && !fl["O_APPEND"]:
				ops = append(ops, TOp{Kind: "create", A: n, Text: flags})
			case fl["O_CREAT"] && !fl["O_APPEND"]:
				ops = append(ops, TOp{Kind: "touch", A: n, Text: flags}) // created empty if absent, else untouched
			default:
				ops = append(ops, TOp{Kind: "unknown", Text: "openat " + n + " " + flags})
			}
			fds[ret] = n
			offs[ret] = 0
			continue
		}
		if m := reClose.FindStringSubmatch(l); m != nil {
			delete(fds, m[1])
			continue
		}
		if !in {
			continue
		}
		if m := reWrite.FindStringSubmatch(l); m != nil {
			n, ok := fds[m[1]]
			if !ok {
				continue
			}
			cnt, _ := strconv.Atoi(m[3])
			if cnt < 0 {
				ops = append(ops, TOp{Kind: "unknown", Text: "failed write " + n})
				continue
			}
			ops = append(ops, TOp{Kind: "write", A: n, Off: offs[m[1]], N: cnt})
			offs[m[1]] += cnt
			continue
		}
		if m := reFsync.FindStringSubmatch(l); m != nil {
			if n, ok := fds[m[2]]; ok {
				ops = append(ops, TOp{Kind: "fsync", A: n})
			}
			continue
		}
		if m := reFtrunc.FindStringSubmatch(l); m != nil {
			if n, ok := fds[m[1]]; ok {
				ln, _ := strconv.Atoi(m[2])
				ops = append(ops, TOp{Kind: "trunc", A: n, N: ln})
			}
			continue
		}
		if m := reRename.FindStringSubmatch(l); m != nil {
			a, oka := rel(m[1])
			b, okb := rel(m[2])
			if !oka && !okb {
				continue
			}
			if m[3] != "0" {
				continue
			}
			if !oka || !okb {
				ops = append(ops, TOp{Kind: "unknown", Text: "rename across directories " + m[1] + " " + m[2]})
				continue
			}
			ops = append(ops, TOp{Kind: "rename", A: a, B: b})
			for fd, n := range fds { // an open descriptor follows its file
				if n == a {
					fds[fd] = b
				} else if n == b {
					delete(fds, fd)
				}
			}
			continue
		}
		if m := reUnlink.FindStringSubmatch(l); m != nil {
			if a, ok := rel(m[1]); ok && m[2] == "0" {
				ops = append(ops, TOp{Kind: "unlink", A: a})
			}
			continue
		}
	}
	if !seenEnd {
		return nil, errors.New("trace has no end marker (child failed?)")
	}
	return ops, nil
}

// ------------------------------------------------------------------ directories

type Dir map[string][]byte

func readDir(dir string) (Dir, error) {
	es, err := ioutil.ReadDir(dir)
	if err != nil {
		return nil, err
	}
	d := Dir{}
	for _, e := range es {
		if !e.Mode().IsRegular() {
			continue
		}
		b, err := ioutil.ReadFile(filepath.Join(dir, e.Name()))
		if err != nil {
			return nil, err
		}
		d[e.Name()] = b
	}
	return d, nil
}

func writeDir(dir string, d Dir) error {
	if err := os.MkdirAll(dir, 0700); err != nil {
		return err
	}
	for n, b := range d {
		if err := ioutil.WriteFile(filepath.Join(dir, n), b, 0600); err != nil {
			return err
		}
	}
	return nil
}

func (d Dir) names() []string {
	ns := []string{}
	for n := range d {
		ns = append(ns, n)
	}
	sort.Strings(ns)
	return ns
}

func (d Dir) clone() Dir {
	c := Dir{}
	for n, b := range d {
		c[n] = append([]byte{}, b...)
	}
	return c
}

// applyOp performs one traced op on the real file system (cut < 0: in full).
func applyOp(dir string, o TOp, data []byte, cut int) error {
	p := filepath.Join(dir, o.A)
	switch o.Kind {
	case "create":
		f, err := os.OpenFile(p, os.O_WRONLY|os.O_CREATE|os.O_TRUNC, 0600)
		if err != nil {
			return err
		}
		return f.Close()
	case "createx", "touch":
		f, err := os.OpenFile(p, os.O_WRONLY|os.O_CREATE, 0600)
		if err != nil {
			return err
		}
		return f.Close()
	case "trunc":
		err := os.Truncate(p, int64(o.N))
		if os.IsNotExist(err) {
			return nil
		}
		return err
	case "openw", "fsync", "unknown":
		return nil
	case "write":
		if o.Off+o.N > len(data) {
			return fmt.Errorf("traced write beyond the new content (%d+%d > %d)", o.Off, o.N, len(data))
		}
		seg := data[o.Off : o.Off+o.N]
		if cut >= 0 && cut < len(seg) {
			seg = seg[:cut]
		}
		f, err := os.OpenFile(p, os.O_WRONLY|os.O_APPEND, 0600)
		if err != nil {
			if os.IsNotExist(err) {
				return nil
			}
			return err
		}
		if _, err := f.Write(seg); err != nil {
			f.Close()
			return err
		}
		return f.Close()
	case "rename":
		err := os.Rename(p, filepath.Join(dir, o.B))
		if os.IsNotExist(err) {
			return nil
		}
		return err
	case "unlink":
		err := os.Remove(p)
		if os.IsNotExist(err) {
			return nil
		}
		return err
	}
	return fmt.Errorf("bad op kind %q", o.Kind)
}

// ------------------------------------------------------------------ observables

type idTable struct {
	ids map[string]int
}

func (t *idTable) id(digest string) int {
	if v, ok := t.ids[digest]; ok {
		return v
	}
	v := len(t.ids)
	t.ids[digest] = v
	return v
}

// Obs is what the real service shows after a start on a directory.
type Obs struct {
	Abort   bool
	Panic   bool
	Kv      bool
	KvID    int // -1 reset as corrupt
	Wallets []WObs
}
type WObs struct {
	Name string
	ID   int
}

func (o Obs) Coq() string {
	if o.Abort {
		return "ObsAbort"
	}
	if o.Kv {
		return "(ObsKv " + ZI(int64(o.KvID)) + ")"
	}
	it := []string{}
	for _, w := range o.Wallets {
		it = append(it, Tuple(Str(w.Name), ZI(int64(w.ID))))
	}
	return "(ObsWallets " + List(it) + ")"
}

func (o Obs) String() string {
	if o.Panic {
		return "panic"
	}
	if o.Abort {
		return "abort"
	}
	if o.Kv {
		if o.KvID == -1 {
			return "kv:reset-as-corrupt"
		}
		return fmt.Sprintf("kv:%d", o.KvID)
	}
	it := []string{}
	for _, w := range o.Wallets {
		it = append(it, fmt.Sprintf("%s=%d", w.Name, w.ID))
	}
	return "wallets:" + strings.Join(it, ",")
}

func (o Obs) eq(p Obs) bool { return o.Coq() == p.Coq() }

var scratchRoot string
var scratchN int

func freshDir() string {
	scratchN++
	d := filepath.Join(scratchRoot, fmt.Sprintf("d%06d", scratchN))
	if err := os.MkdirAll(d, 0700); err != nil {
		panic(err)
	}
	return d
}

// walletObs starts the real wallet service on the directory (which it may modify).
func walletObs(dir string, t *idTable) Obs {
	var o Obs
	p := Guard(func() {
		s, err := wallet.NewService(walletCfg(dir))
		if err != nil {
			o.Abort = true
			return
		}
		ws, err := s.GetWallets()
		if err != nil {
			o.Abort = true
			return
		}
		for name, w := range ws {
			b, err := w.Serialize()
			if err != nil {
				o.Abort = true
				return
			}
			h := sha256.Sum256(b)
			o.Wallets = append(o.Wallets, WObs{Name: name, ID: t.id(hex.EncodeToString(h[:]))})
		}
		sort.Slice(o.Wallets, func(i, j int) bool { return o.Wallets[i].Name < o.Wallets[j].Name })
	})
	if p {
		return Obs{Abort: true, Panic: true}
	}
	return o
}

// kvObs starts the real storage manager on the directory and reads storage typ.
func kvObs(dir string, typ string, t *idTable) Obs {
	o := Obs{Kv: true}
	corruptBefore := map[string]bool{}
	if es, err := ioutil.ReadDir(dir); err == nil {
		for _, e := range es {
			corruptBefore[e.Name()] = true
		}
	}
	p := Guard(func() {
		m, err := kvstorage.NewManager(kvCfg(dir, typ))
		if err != nil {
			o = Obs{Abort: true}
			return
		}
		all, err := m.GetAllStorageValues(kvstorage.Type(typ))
		if err != nil {
			o = Obs{Abort: true}
			return
		}
		es, _ := ioutil.ReadDir(dir)
		for _, e := range es {
			if strings.HasPrefix(e.Name(), typ+".json.corrupt.") && !corruptBefore[e.Name()] {
				o.KvID = -1
				return
			}
		}
		b, _ := json.Marshal(all) // keys sorted
		o.KvID = t.id(string(b))
	})
	if p {
		return Obs{Abort: true, Panic: true}
	}
	return o
}

// ------------------------------------------------------------------ scenarios

type Scen struct {
	ID     int
	Kind   string
	Desc   string
	W      bool
	Name   string // target file
	Typ    string // kv storage type
	Hash   string
	Old    Dir
	New    []byte
	Final  Dir
	Traced []TOp
	Valid  map[string]int // content -> id (wallet: -1 skip)
	ObsOld Obs
	ObsNew Obs
	Step   Step
	// OpError: the traced operation returned this error (only for scenarios that allow it)
	OpError string
}

type gen struct {
	r      *Rng
	wt, kt *idTable
	strace string
	broken []map[string]interface{} // scenarios whose real operation failed on a healthy directory
}

// opFailed: the real service refused to start / to perform the operation on a
// directory that holds only valid files and harmless leftovers. That is an
// observable of the property (the node must still start), not a harness error.
type opFailed struct{ msg string }

func (e *opFailed) Error() string { return e.msg }

func (g *gen) observe(kind, typ string, d Dir) Obs {
	dir := freshDir()
	if err := writeDir(dir, d); err != nil {
		panic(err)
	}
	defer os.RemoveAll(dir)
	if kind == "kv" {
		return kvObs(dir, typ, g.kt)
	}
	return walletObs(dir, g.wt)
}

// oracle: what the real loader makes of one content on its own.
func (g *gen) oracle(sc *Scen, name string, c []byte) {
	if _, ok := sc.Valid[string(c)]; ok {
		return
	}
	if sc.Kind == "kv" {
		o := g.observe("kv", sc.Typ, Dir{sc.Name: c})
		if !o.Abort && o.KvID >= 0 {
			sc.Valid[string(c)] = o.KvID
		}
		return
	}
	o := g.observe("wallet", "", Dir{name: c})
	if o.Abort {
		return
	}
	if len(o.Wallets) == 0 {
		sc.Valid[string(c)] = -1
		return
	}
	sc.Valid[string(c)] = o.Wallets[0].ID
}

func (g *gen) word(n int) string {
	const al = "abcdefghijklmnopqrstuvwxyz0123456789 -_"
	b := make([]byte, n)
	for i := range b {
		b[i] = al[g.r.Intn(len(al))]
	}
	return string(b)
}

func (g *gen) mnemonic() string {
	m, err := bip39.NewMnemonic(g.r.Bytes(16))
	if err != nil {
		panic(err)
	}
	return m
}

// build prepares the old directory with the setup steps (in-process, real
// services), then runs the last step in a traced child on a copy.
func (g *gen) build(id int, kind, desc string, extra Dir, setup []Step, last Step, target string, w bool) (*Scen, error) {
	prep := freshDir()
	defer os.RemoveAll(prep)
	if kind == "wallet" {
		if len(setup) > 0 {
			s, err := wallet.NewService(walletCfg(prep))
			if err != nil {
				return nil, err
			}
			for _, st := range setup {
				if err := walletStep(s, st); err != nil {
					return nil, fmt.Errorf("setup %s %s: %v", st.Op, st.Name, err)
				}
			}
		}
	} else if len(setup) > 0 {
		m, err := kvstorage.NewManager(kvCfg(prep, last.Type))
		if err != nil {
			return nil, err
		}
		for _, st := range setup {
			if st.Op == "init" {
				continue
			}
			if err := kvStep(m, st); err != nil {
				return nil, fmt.Errorf("setup %s: %v", st.Op, err)
			}
		}
	}
	if err := writeDir(prep, extra); err != nil {
		return nil, err
	}
	if last.RenameFrom != "" {
		if err := os.Rename(filepath.Join(prep, last.RenameFrom), filepath.Join(prep, last.Name)); err != nil {
			return nil, err
		}
	}
	old, err := readDir(prep)
	if err != nil {
		return nil, err
	}
	// traced child
	cdir := freshDir()
	defer os.RemoveAll(cdir)
	if err := writeDir(cdir, old); err != nil {
		return nil, err
	}
	mdir := freshDir()
	defer os.RemoveAll(mdir)
	spec := ChildSpec{Kind: kind, Dir: cdir, MarkDir: mdir, Step: last}
	sb, _ := json.Marshal(spec)
	specPath := filepath.Join(mdir, "spec.json")
	if err := ioutil.WriteFile(specPath, sb, 0600); err != nil {
		return nil, err
	}
	tracePath := filepath.Join(mdir, "trace.txt")
	self, err := os.Executable()
	if err != nil {
		return nil, err
	}
	cmd := exec.Command(g.strace, "-f", "-s", "0", "-o", tracePath,
		"-e", "trace=openat,write,close,unlinkat,unlink,renameat,renameat2,rename,ftruncate,fsync,fdatasync",
		self, "child", specPath)
	var eb bytes.Buffer
	cmd.Stderr = &eb
	if err := cmd.Run(); err != nil {
		if ee, ok := err.(*exec.ExitError); ok && ee.ExitCode() == 3 {
			return nil, &opFailed{strings.TrimSpace(eb.String())}
		}
		return nil, fmt.Errorf("traced child failed: %v: %s", err, eb.String())
	}
	traced, err := parseTrace(tracePath, cdir, mdir)
	if err != nil {
		return nil, err
	}
	final, err := readDir(cdir)
	if err != nil {
		return nil, err
	}
	opError := ""
	if b, err := ioutil.ReadFile(filepath.Join(mdir, "op_error")); err == nil {
		opError = string(b)
	}
	if opError != "" && len(target)+13 <= 255 {
		return nil, &opFailed{opError} // only a name too long for its tmp file may make the save fail
	}
	nw, ok := final[target]
	if !ok {
		return nil, fmt.Errorf("scenario %s: target %s missing after the operation", desc, target)
	}
	sc := &Scen{ID: id, Kind: kind, Desc: desc, W: w, Name: target, Old: old, New: nw, Final: final, Traced: traced,
		Valid: map[string]int{}, Step: last, Hash: cipher.SumSHA256(nw).Hex()[:8], OpError: opError}
	if kind == "kv" {
		sc.Typ = strings.TrimSuffix(target, ".json")
	}
	sc.ObsOld = g.observe(kind, sc.Typ, old)
	sc.ObsNew = g.observe(kind, sc.Typ, final)
	for n, c := range old {
		if kind == "kv" && n != target {
			continue
		}
		if kind == "wallet" && !strings.HasSuffix(n, "wlt") {
			continue
		}
		g.oracle(sc, n, c)
	}
	g.oracle(sc, target, nw)
	return sc, nil
}

func (g *gen) scenarios(tier string) ([]*Scen, error) {
	var out []*Scen
	add := func(kind, desc string, extra Dir, setup []Step, last Step, target string, w bool) error {
		sc, err := g.build(len(out), kind, desc, extra, setup, last, target, w)
		if of, ok := err.(*opFailed); ok {
			names := []string{}
			for n := range extra {
				names = append(names, n)
			}
			sort.Strings(names)
			g.broken = append(g.broken, map[string]interface{}{"kind": kind, "what": desc, "op": last.Op, "target": target,
				"leftover_files": strings.Join(names, ","), "error": of.msg})
			return nil
		}
		if err != nil {
			return fmt.Errorf("%s: %v", desc, err)
		}
		out = append(out, sc)
		return nil
	}
	det := wallet.WalletTypeDeterministic
	rounds := 1
	if tier == "thorough" || tier == "search" {
		rounds = 4
	}
	for round := 0; round < rounds; round++ {
		seedA, seedB := "seed-a-"+g.word(6), "seed-b-"+g.word(6)
		lab := g.word(3 + g.r.Intn(10))
		mkA := Step{Op: "create", Name: "a.wlt", Type: det, Seed: seedA, Label: lab, N: uint64(1 + g.r.Intn(3))}
		mkB := Step{Op: "create", Name: "b.wlt", Type: wallet.WalletTypeCollection, Label: "coll " + g.word(4)}
		mkC := Step{Op: "create", Name: "c.wlt", Type: wallet.WalletTypeBip44, Seed: g.mnemonic(), Label: "bip " + g.word(4)}
		mkE := Step{Op: "create", Name: "e.wlt", Type: det, Seed: seedB, Label: "enc", Encrypt: true, Password: "pw" + g.word(3)}
		junk := Dir{
			"a.wlt.tmp.deadbeef": []byte("{\n    \"meta\": {\n  "), // leftover of an earlier crash
			"notes.txt":          []byte("not a wallet"),
			"old.wlt.bak":        []byte("{}"),
		}
		type w = struct {
			desc   string
			extra  Dir
			setup  []Step
			last   Step
			target string
			isw    bool
		}
		ws := []w{
			{"wallet create in an empty directory (no previous file)", nil, nil, mkA, "a.wlt", false},
			{"wallet create beside other wallets and leftovers (no previous file)", junk, []Step{mkB, mkC}, mkA, "a.wlt", false},
			{"wallet label -> longer", nil, []Step{mkA, mkB}, Step{Op: "label", Name: "a.wlt", Label: lab + g.word(5+g.r.Intn(40))}, "a.wlt", false},
			{"wallet label -> shorter", junk, []Step{mkA}, Step{Op: "label", Name: "a.wlt", Label: lab[:1+g.r.Intn(2)]}, "a.wlt", false},
			{"wallet label unchanged (old = new)", nil, []Step{mkA}, Step{Op: "label", Name: "a.wlt", Label: lab}, "a.wlt", false},
			{"wallet new addresses (IsWritable + save)", nil, []Step{mkA, mkC}, Step{Op: "newaddr", Name: "a.wlt", N: uint64(1 + g.r.Intn(4))}, "a.wlt", true},
			{"wallet scan addresses (IsWritable + save)", nil, []Step{mkA}, Step{Op: "scan", Name: "a.wlt", N: uint64(1 + g.r.Intn(3))}, "a.wlt", true},
			{"wallet encrypt", nil, []Step{mkA, mkB}, Step{Op: "encrypt", Name: "a.wlt", Password: "pw" + g.word(4)}, "a.wlt", false},
			{"wallet decrypt", nil, []Step{mkE, mkB}, Step{Op: "decrypt", Name: "e.wlt", Password: mkE.Password}, "e.wlt", false},
			{"encrypted wallet new addresses", nil, []Step{mkE}, Step{Op: "newaddr", Name: "e.wlt", N: 2, Password: mkE.Password}, "e.wlt", true},
			{"bip44 wallet new addresses", nil, []Step{mkC, mkA}, Step{Op: "newaddr", Name: "c.wlt", N: uint64(1 + g.r.Intn(3))}, "c.wlt", true},
			{"collection wallet label", nil, []Step{mkB}, Step{Op: "label", Name: "b.wlt", Label: g.word(12)}, "b.wlt", false},
		}
		for _, x := range ws {
			if err := add("wallet", x.desc, x.extra, x.setup, x.last, x.target, x.isw); err != nil {
				return nil, err
			}
		}
		// the longest legal file names: up to 242 bytes the tmp file "<name>.tmp.<8 hex>" still fits
		// NAME_MAX = 255 and the save is the usual one; from 243 on the tmp file cannot be created
		// and the save must be refused with nothing written
		for _, ln := range []struct {
			l   int
			op  string
			isw bool
		}{{240, "label", false}, {242, "newaddr", true}, {243, "label", false}, {243, "newaddr", true}, {250, "encrypt", false}, {255, "label", false}} {
			long := strings.Repeat("n", ln.l-4) + ".wlt"
			st := Step{Op: ln.op, Name: long, Label: lab + g.word(6), N: 2, RenameFrom: "a.wlt", AllowFail: true}
			if ln.op == "encrypt" {
				st.Password = "pw" + g.word(3)
			}
			desc := fmt.Sprintf("wallet %s on a file name of %d bytes", ln.op, ln.l)
			if err := add("wallet", desc, nil, []Step{mkA, mkB}, st, long, ln.isw); err != nil {
				return nil, err
			}
		}
		// key-value storage
		cl, tx := string(kvstorage.TypeGeneral), string(kvstorage.TypeTxIDNotes)
		k1, v1 := "k"+g.word(4), g.word(1+g.r.Intn(30))
		k2, v2 := "j"+g.word(5), g.word(1+g.r.Intn(60))
		init := Step{Op: "init", Type: cl}
		a1 := Step{Op: "add", Type: cl, Key: k1, Val: v1}
		a2 := Step{Op: "add", Type: cl, Key: k2, Val: v2}
		kjunk := Dir{"client.json.tmp.0badc0de": []byte("{\n  \"x"), "client.json.corrupt.AAAA": []byte("zz")}
		type k = struct {
			desc   string
			extra  Dir
			setup  []Step
			last   Step
			target string
		}
		ks := []k{
			{"kv first start (no previous file, initEmptyStorage)", nil, nil, init, "client.json"},
			{"kv empty map -> one key", nil, []Step{init}, a1, "client.json"},
			{"kv add a key (longer)", kjunk, []Step{init, a1}, a2, "client.json"},
			{"kv remove a key (shorter)", nil, []Step{init, a1, a2}, Step{Op: "remove", Type: cl, Key: k1}, "client.json"},
			{"kv same value again (old = new)", nil, []Step{init, a1}, a1, "client.json"},
			{"kv replace a value", nil, []Step{init, a1, a2}, Step{Op: "add", Type: cl, Key: k1, Val: g.word(1 + g.r.Intn(50))}, "client.json"},
			{"kv txid notes add", nil, []Step{{Op: "init", Type: tx}, {Op: "add", Type: tx, Key: k1, Val: v1}}, Step{Op: "add", Type: tx, Key: "tx" + g.word(8), Val: g.word(20)}, "txid.json"},
		}
		for _, x := range ks {
			if err := add("kv", x.desc, x.extra, x.setup, x.last, x.target, false); err != nil {
				return nil, err
			}
		}
	}
	return out, nil
}

// descFile describes a file content compactly (see cdesc in Model/SaveFile.v).
func (s *Scen) descFile(n string, c []byte) string {
	if old, ok := s.Old[n]; ok && bytes.Equal(old, c) {
		return "(COld " + Str(n) + ")"
	}
	if len(c) <= len(s.New) && bytes.Equal(s.New[:len(c)], c) {
		return fmt.Sprintf("(CNew %d)", len(c))
	}
	return "(CRaw " + Content(c) + ")"
}

func (s *Scen) listing(d Dir) string {
	it := []string{}
	for _, n := range d.names() {
		it = append(it, Tuple(Str(n), s.descFile(n, d[n])))
	}
	return List(it)
}

// Content prints a file content as a Coq `content`: printable text as a string
// literal (fast to type-check), anything else as a list of bytes.
func Content(b []byte) string {
	for _, x := range b {
		if x != 10 && (x < 32 || x > 126) {
			return Bytes(b)
		}
	}
	return "(bytes_of_string \"" + strings.ReplaceAll(string(b), "\"", "\"\"") + "\")"
}

func dirCoq(d Dir) string {
	it := []string{}
	for _, n := range d.names() {
		it = append(it, Tuple(Str(n), Content(d[n])))
	}
	return List(it)
}

func (s *Scen) opCoq(o TOp, newName string) string {
	switch o.Kind {
	case "create", "createx": // createx succeeded, so the file was absent: same effect as create
		return "(OCreate " + Str(o.A) + ")"
	case "trunc":
		if o.N == 0 {
			return "(OCreate " + Str(o.A) + ")"
		}
	case "openw":
		return "(OOpenW " + Str(o.A) + ")"
	case "write":
		return fmt.Sprintf("(OWrite %s (seg %d %d %s))", Str(o.A), o.Off, o.N, newName)
	case "fsync":
		return "(OFsync " + Str(o.A) + ")"
	case "rename":
		return "(ORename " + Str(o.A) + " " + Str(o.B) + ")"
	case "unlink":
		return "(OUnlink " + Str(o.A) + ")"
	}
	// a system call the model has no counterpart for: never equal to a model op
	return "(OUnlink " + Str("?unknown: "+o.Kind+" "+o.A+" "+o.Text) + ")"
}

func opsText(ops []TOp) string {
	it := []string{}
	for _, o := range ops {
		switch o.Kind {
		case "write":
			it = append(it, fmt.Sprintf("write(%s,%d bytes)", o.A, o.N))
		case "rename":
			it = append(it, fmt.Sprintf("rename(%s,%s)", o.A, o.B))
		case "unknown":
			it = append(it, "?"+o.Text)
		default:
			it = append(it, o.Kind+"("+o.A+")")
		}
	}
	return strings.Join(it, "; ")
}

// ------------------------------------------------------------------ run

func run(args []string) error {
	f := ParseFlags("c20", args)
	logging.Disable()
	r := NewRng(f.Seed)
	cuts := f.Budget(10, 400) // cut points per interrupted write (all of them when the write is shorter)
	strace, err := exec.LookPath("strace")
	if err != nil {
		return fmt.Errorf("strace is required to trace the save's system calls: %v", err)
	}
	base := "" // a memory file system when there is one: fsync on a disk dominates the run time
	if st, e := os.Stat("/dev/shm"); e == nil && st.IsDir() {
		base = "/dev/shm"
	}
	scratchRoot, err = ioutil.TempDir(base, "verif_c20_")
	if err != nil && base != "" {
		scratchRoot, err = ioutil.TempDir("", "verif_c20_")
	}
	if err != nil {
		return err
	}
	defer os.RemoveAll(scratchRoot)
	g := &gen{r: r, wt: &idTable{ids: map[string]int{}}, kt: &idTable{ids: map[string]int{}}, strace: strace}
	g.kt.id("{}") // the empty map is id 0 (KvInitEmpty)

	scens, err := g.scenarios(f.Tier)
	if err != nil {
		return err
	}
	o := NewOut()
	hist := Hist{}
	cases := map[string][]map[string]interface{}{}
	var samples []map[string]interface{}
	var crashItems, loaderItems, scenItems []string

	for _, sc := range scens {
		// loader / malformed stream first: it may add oracle entries to sc.Valid
		type lc struct {
			what string
			d    Dir
		}
		var lcs []lc
		mut := func(what string, base Dir, f func(d Dir)) {
			d := base.clone()
			f(d)
			lcs = append(lcs, lc{what, d})
		}
		tmpn := sc.Name + ".tmp." + sc.Hash
		for _, cut := range []int{0, 1, len(sc.New) / 2, len(sc.New) - 1} {
			c := cut
			if c < 0 || c > len(sc.New) {
				continue
			}
			mut(fmt.Sprintf("target holds the new content cut at %d, tmp complete", c), sc.Old, func(d Dir) {
				d[sc.Name] = sc.New[:c]
				d[tmpn] = sc.New
			})
		}
		mut("target missing, tmp complete", sc.Old, func(d Dir) { delete(d, sc.Name); d[tmpn] = sc.New })
		mut("target new, partial tmp left", sc.Final, func(d Dir) { d[tmpn] = sc.New[:len(sc.New)/3] })
		mut("random bytes in a tmp-named file", sc.Old, func(d Dir) { d[sc.Name+".tmp."+hex.EncodeToString(r.Bytes(4))] = r.Bytes(20) })
		if sc.Kind == "wallet" {
			mut("backup file beside the target", sc.Final, func(d Dir) { d[sc.Name+".bak"] = sc.New })
			mut("backup file without target", sc.Old, func(d Dir) { delete(d, sc.Name); d[sc.Name+".bak"] = sc.New })
			mut("wallet file of an unknown type", sc.Old, func(d Dir) {
				d["zz.wlt"] = []byte("{\"meta\":{\"type\":\"nosuchtype\",\"version\":\"0.4\"}}")
			})
			mut("empty wallet file of another name", sc.Old, func(d Dir) { d["zz.wlt"] = []byte{} })
			mut("non-wallet suffixes", sc.Old, func(d Dir) {
				d["a.wlt.old"] = sc.New[:len(sc.New)/2]
				d["wlt"] = []byte("x")
				d["b.wltx"] = []byte("y")
			})
		} else {
			mut("garbage in the storage file", sc.Old, func(d Dir) { d[sc.Name] = r.Bytes(12) })
			mut("json of the wrong shape", sc.Old, func(d Dir) { d[sc.Name] = []byte("[1,2]") })
		}
		type lres struct {
			what string
			d    Dir
			obs  Obs
		}
		var lrs []lres
		for _, x := range lcs {
			tooLong := false
			for n := range x.d {
				if len(n) > 255 {
					tooLong = true
				}
			}
			if tooLong {
				continue
			}
			for n, c := range x.d {
				if sc.Kind == "kv" && n != sc.Name {
					continue
				}
				if sc.Kind == "wallet" && !strings.HasSuffix(n, "wlt") {
					continue
				}
				g.oracle(sc, n, c)
			}
			lrs = append(lrs, lres{x.what, x.d, g.observe(sc.Kind, sc.Typ, x.d)})
		}

		// crash states: replay the traced ops on copies of the old directory
		type cres struct {
			k, cut int
			d      Dir
			obs    Obs
		}
		var crs []cres
		for k := 0; k <= len(sc.Traced); k++ {
			cutList := []int{-1}
			if k < len(sc.Traced) && sc.Traced[k].Kind == "write" {
				n := sc.Traced[k].N
				set := map[int]bool{}
				if n+1 <= cuts {
					for c := 0; c <= n; c++ {
						set[c] = true
					}
				} else {
					for _, c := range []int{0, 1, 2, n / 2, n - 2, n - 1, n} {
						if c >= 0 && c <= n {
							set[c] = true
						}
					}
					for len(set) < cuts {
						set[r.Intn(n+1)] = true
					}
				}
				cutList = cutList[:0]
				for c := range set {
					cutList = append(cutList, c)
				}
				sort.Ints(cutList)
			}
			for _, cut := range cutList {
				dir := freshDir()
				if err := writeDir(dir, sc.Old); err != nil {
					return err
				}
				for i := 0; i < k; i++ {
					if err := applyOp(dir, sc.Traced[i], sc.New, -1); err != nil {
						return err
					}
				}
				if cut >= 0 {
					if err := applyOp(dir, sc.Traced[k], sc.New, cut); err != nil {
						return err
					}
				}
				d, err := readDir(dir)
				if err != nil {
					return err
				}
				var ob Obs
				if sc.Kind == "kv" {
					ob = kvObs(dir, sc.Typ, g.kt)
				} else {
					ob = walletObs(dir, g.wt)
				}
				os.RemoveAll(dir)
				c := cut
				if c < 0 {
					c = 0
				}
				crs = append(crs, cres{k, c, d, ob})
			}
		}

		// ---- print the scenario
		sn := fmt.Sprintf("sc%d", sc.ID)
		o.Raw(fmt.Sprintf("Definition %s_new : content := %s.\n", sn, Content(sc.New)))
		o.Raw(fmt.Sprintf("Definition %s_old : dir := %s.\n", sn, dirCoq(sc.Old)))
		vi := []string{}
		vkeys := []string{}
		for c := range sc.Valid {
			vkeys = append(vkeys, c)
		}
		sort.Strings(vkeys)
		for _, c := range vkeys {
			cs := Content([]byte(c))
			if c == string(sc.New) {
				cs = sn + "_new"
			}
			vi = append(vi, Tuple(cs, ZI(int64(sc.Valid[c]))))
		}
		ti := []string{}
		for _, t := range sc.Traced {
			ti = append(ti, sc.opCoq(t, sn+"_new"))
		}
		o.Raw(fmt.Sprintf("Definition %s : scen := mk_scen %s %s %s %s %s_old %s_new\n  %s\n  %s\n  %s %s.\n",
			sn, B(sc.Kind == "kv"), B(sc.W), Str(sc.Name), Str(sc.Hash), sn, sn,
			List(vi), List(ti), sc.ObsOld.Coq(), sc.ObsNew.Coq()))
		scenItems = append(scenItems, sn)
		_, hadOld := sc.Old[sc.Name]
		cases["scen"] = append(cases["scen"], map[string]interface{}{
			"scenario": sc.ID, "kind": sc.Kind, "what": sc.Desc, "op": sc.Step.Op, "target": sc.Name,
			"previous_file": hadOld, "old_len": len(sc.Old[sc.Name]), "new_len": len(sc.New),
			"traced_ops": opsText(sc.Traced), "obs_old": sc.ObsOld.String(), "obs_new": sc.ObsNew.String(), "op_error": sc.OpError})
		o.Count(fmt.Sprintf("scen %s %s", sc.Kind, opsText(sc.Traced)), true)
		hist.Add("scenario:" + sc.Kind + ":" + sc.Step.Op)

		for _, c := range crs {
			crashItems = append(crashItems, Tuple(sn, fmt.Sprintf("%d", c.k), fmt.Sprintf("%d", c.cut), sc.listing(c.d), c.obs.Coq()))
			opn := "complete"
			if c.k < len(sc.Traced) {
				opn = sc.Traced[c.k].Kind + "(" + sc.Traced[c.k].A + ")"
			}
			m := map[string]interface{}{"scenario": sc.ID, "kind": sc.Kind, "what": sc.Desc, "op": sc.Step.Op, "target": sc.Name,
				"k": c.k, "cut": c.cut, "interrupted": opn, "files": strings.Join(c.d.names(), ","),
				"target_len": len(c.d[sc.Name]), "observed": c.obs.String(),
				"obs_old": sc.ObsOld.String(), "obs_new": sc.ObsNew.String()}
			cases["crash"] = append(cases["crash"], m)
			cls := "neither"
			if c.obs.eq(sc.ObsNew) {
				cls = "new"
			} else if c.obs.eq(sc.ObsOld) {
				cls = "old"
			}
			hist.Add("crash:" + sc.Kind + ":" + cls)
			o.Count(fmt.Sprintf("crash %d %d %d", sc.ID, c.k, c.cut), true)
			if len(samples) < 12 && r.Intn(40) == 0 {
				samples = append(samples, m)
			}
		}
		for _, l := range lrs {
			loaderItems = append(loaderItems, Tuple(sn, sc.listing(l.d), l.obs.Coq()))
			cases["loader"] = append(cases["loader"], map[string]interface{}{"scenario": sc.ID, "kind": sc.Kind, "what": l.what,
				"files": strings.Join(l.d.names(), ","), "observed": l.obs.String()})
			hist.Add("loader:" + sc.Kind + ":" + strings.SplitN(l.obs.String(), ":", 2)[0])
			o.Count(fmt.Sprintf("loader %d %s", sc.ID, l.what), true)
		}
	}
	// scenarios in which the real service failed on a healthy directory
	setupItems := []string{}
	for _, b := range g.broken {
		setupItems = append(setupItems, "false")
		cases["setup"] = append(cases["setup"], b)
		hist.Add("setup-failed:" + fmt.Sprint(b["kind"]))
		o.Count(fmt.Sprint("setup ", b["what"]), true)
	}
	for range scens {
		setupItems = append(setupItems, "true")
	}
	o.Def("cases_setup", "bool", setupItems)
	o.Def("cases_scen", "scen", scenItems)
	o.Def("cases_crash", "scen * Z * Z * list (string * cdesc) * obs", crashItems)
	o.Def("cases_loader", "scen * list (string * cdesc) * obs", loaderItems)
	o.Side["cases"] = cases
	o.Side["samples"] = samples
	o.Side["distribution"] = hist.Sorted()
	o.Side["rule"] = "a case is one crash directory (scenario, completed system calls k, cut of the interrupted write) on which the real wallet.NewService / kvstorage.NewManager was started, one malformed directory, or one traced save; all are non-trivial; distinct = distinct (scenario,k,cut) / distinct traced skeletons"
	return o.Write(f.Out, f.JSON)
}
