package main

import (
	"verif/harness/c31"
	"verif/harness/kit"
)

func init() { kit.Cmds["c31"] = c31.Run }
