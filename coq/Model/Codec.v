(* Model/Codec.v — a generic model of skycoin's binary encoding
   (src/cipher/encoder/encoder.go and the skyencoder-generated *_skyencoder.go
   files): a universe of schemas, an untyped value tree, and encode / size /
   decode functions that mirror the Go code's checks and their ORDER
   (underflow test "count > remaining bytes" before the maxlen test).
   Definitions only; proofs are in Proofs/CodecProofs.v. The 29 concrete
   schemas are regenerated from /repo into Gen/Schemas.v. *)
From Coq Require Import ZArith List Bool.
Import ListNotations.
Open Scope Z_scope.

Inductive schema :=
| SUInt (w : nat)                  (* w-byte little-endian unsigned integer *)
| SSInt (w : nat)                  (* w-byte little-endian two's complement *)
| SBool
| SArray (n : nat) (s : schema)    (* fixed length, no prefix *)
| SSlice (maxlen : Z) (s : schema) (* 4-byte count prefix; maxlen 0 = unlimited; strings are SSlice _ (SUInt 1) *)
| SStruct (fields : list schema).

Inductive val := VInt (z : Z) | VBool (b : bool) | VList (l : list val).

Inductive cerr := EUnderflow | EMaxLen | EInvalidBool | ERemaining | EType | ELen32
  | EPanic | EOther.   (* EPanic/EOther: observed only, never produced by the model *)
Inductive cres (A : Type) := COk (a : A) | CErr (e : cerr).
Arguments COk {A} a.
Arguments CErr {A} e.
Definition cbind {A B} (r : cres A) (f : A -> cres B) : cres B :=
  match r with COk a => f a | CErr e => CErr e end.

Definition cerr_eqb (a b : cerr) : bool :=
  match a, b with
  | EUnderflow, EUnderflow | EMaxLen, EMaxLen | EInvalidBool, EInvalidBool
  | ERemaining, ERemaining | EType, EType | ELen32, ELen32 | EOther, EOther => true
  | _, _ => false
  end.

(* ---------------------------------------------------------------- bytes *)

Fixpoint le_bytes (w : nat) (z : Z) : list Z :=
  match w with O => [] | S k => z mod 256 :: le_bytes k (z / 256) end.
Fixpoint le_val (bs : list Z) : Z :=
  match bs with [] => 0 | b :: r => b + 256 * le_val r end.

Fixpoint take_bytes (w : nat) (bs : list Z) : option (list Z * list Z) :=
  match w with
  | O => Some ([], bs)
  | S k => match bs with
           | [] => None
           | b :: r => match take_bytes k r with
                       | Some (x, y) => Some (b :: x, y)
                       | None => None
                       end
           end
  end.

(* compact literals used by generated cases files: n bytes, little-endian, as one number *)
(* n bytes given as little-endian 16-byte words (the last one holds the remaining n mod 16 bytes) *)
Fixpoint bytesw (n : nat) (ws : list Z) : list Z :=
  match ws with
  | [] => []
  | w :: r => le_bytes (Nat.min n 16) w ++ bytesw (n - 16) r
  end.
Definition bytesz (n : Z) (ws : list Z) : list Z := bytesw (Z.to_nat n) ws.

(* compact literal for byte arrays / byte slices / strings inside values *)
Definition vbytes (n : Z) (ws : list Z) : val := VList (map VInt (bytesz n ws)).

Definition is_byte (b : Z) : bool := (0 <=? b) && (b <? 256).
Definition bytes_ok (bs : list Z) : bool := forallb is_byte bs.

Definition pow256 (w : nat) : Z := 256 ^ Z.of_nat w.
(* signed interpretation of an unsigned w-byte value *)
Definition to_signed (w : nat) (u : Z) : Z :=
  if u <? pow256 w / 2 then u else u - pow256 w.
Definition of_signed (w : nat) (z : Z) : Z := z mod pow256 w.

(* ---------------------------------------------------------------- encode *)

Fixpoint enc_all (e : val -> cres (list Z)) (vs : list val) : cres (list Z) :=
  match vs with
  | [] => COk []
  | v :: r => cbind (e v) (fun a => cbind (enc_all e r) (fun b => COk (a ++ b)))
  end.

Fixpoint enc_seq (es : list (val -> cres (list Z))) (vs : list val) : cres (list Z) :=
  match es, vs with
  | [], [] => COk []
  | e :: es', v :: vs' => cbind (e v) (fun a => cbind (enc_seq es' vs') (fun b => COk (a ++ b)))
  | _, _ => CErr EType
  end.

Definition maxlen_ok (m n : Z) : bool := (m =? 0) || (n <=? m).

Fixpoint encode (s : schema) (v : val) {struct s} : cres (list Z) :=
  match s, v with
  | SUInt w, VInt z =>
      if (0 <=? z) && (z <? pow256 w) then COk (le_bytes w z) else CErr EType
  | SSInt w, VInt z =>
      if (- (pow256 w / 2) <=? z) && (z <? pow256 w / 2) then COk (le_bytes w (of_signed w z)) else CErr EType
  | SBool, VBool b => COk [if b then 1 else 0]
  | SArray n s', VList vs =>
      if Nat.eqb (length vs) n then enc_all (encode s') vs else CErr EType
  | SSlice m s', VList vs =>
      let n := Z.of_nat (length vs) in
      if negb (maxlen_ok m n) then CErr EMaxLen
      else if 2 ^ 32 <=? n then CErr ELen32
      else cbind (enc_all (encode s') vs) (fun b => COk (le_bytes 4 n ++ b))
  | SStruct ss, VList vs => enc_seq (map encode ss) vs
  | _, _ => CErr EType
  end.

(* encoded size, computed without encoding (mirrors encodeSizeX) *)
Fixpoint size_all (f : val -> Z) (vs : list val) : Z :=
  match vs with [] => 0 | v :: r => f v + size_all f r end.
Fixpoint size_seq (fs : list (val -> Z)) (vs : list val) : Z :=
  match fs, vs with
  | f :: fs', v :: vs' => f v + size_seq fs' vs'
  | _, _ => 0
  end.
Fixpoint csize (s : schema) (v : val) {struct s} : Z :=
  match s, v with
  | SUInt w, _ => Z.of_nat w
  | SSInt w, _ => Z.of_nat w
  | SBool, _ => 1
  | SArray n s', VList vs => size_all (csize s') vs
  | SSlice m s', VList vs => 4 + size_all (csize s') vs
  | SStruct ss, VList vs => size_seq (map csize ss) vs
  | _, _ => 0
  end.

(* ---------------------------------------------------------------- decode *)

Definition decoder := list Z -> cres (val * list Z).

Fixpoint dec_n (d : decoder) (n : nat) (bs : list Z) : cres (list val * list Z) :=
  match n with
  | O => COk ([], bs)
  | S k => cbind (d bs) (fun p => cbind (dec_n d k (snd p)) (fun q => COk (fst p :: fst q, snd q)))
  end.

Fixpoint dec_seq (ds : list decoder) (bs : list Z) : cres (list val * list Z) :=
  match ds with
  | [] => COk ([], bs)
  | d :: ds' => cbind (d bs) (fun p => cbind (dec_seq ds' (snd p)) (fun q => COk (fst p :: fst q, snd q)))
  end.

Definition take (w : nat) (bs : list Z) : cres (list Z * list Z) :=
  match take_bytes w bs with Some p => COk p | None => CErr EUnderflow end.

Fixpoint decode (s : schema) (bs : list Z) {struct s} : cres (val * list Z) :=
  match s with
  | SUInt w => cbind (take w bs) (fun p => COk (VInt (le_val (fst p)), snd p))
  | SSInt w => cbind (take w bs) (fun p => COk (VInt (to_signed w (le_val (fst p))), snd p))
  | SBool =>
      match bs with
      | [] => CErr EUnderflow
      | b :: r => if b =? 0 then COk (VBool false, r)
                  else if b =? 1 then COk (VBool true, r)
                  else CErr EInvalidBool
      end
  | SArray n s' => cbind (dec_n (decode s') n bs) (fun p => COk (VList (fst p), snd p))
  | SSlice m s' =>
      cbind (take 4 bs) (fun p =>
        let n := le_val (fst p) in
        if Z.of_nat (length (snd p)) <? n then CErr EUnderflow   (* count > remaining BYTES *)
        else if negb (maxlen_ok m n) then CErr EMaxLen
        else cbind (dec_n (decode s') (Z.to_nat n) (snd p)) (fun q => COk (VList (fst q), snd q)))
  | SStruct ss => cbind (dec_seq (map decode ss) bs) (fun p => COk (VList (fst p), snd p))
  end.

(* ---------------------------------------------------------------- messages
   A top-level object: a struct whose LAST field may be an `omitempty` slice:
   when empty nothing is written; when no byte remains it decodes as empty. *)

Record msg_schema := { m_fields : list schema; m_omit : option (Z * schema) }.

Definition split_last (vs : list val) : option (list val * val) :=
  match rev vs with
  | [] => None
  | x :: r => Some (rev r, x)
  end.

Definition encode_msg (m : msg_schema) (v : val) : cres (list Z) :=
  match v with
  | VList vs =>
      match m_omit m with
      | None => encode (SStruct (m_fields m)) v
      | Some (mx, s) =>
          match split_last vs with
          | None => CErr EType
          | Some (front, lastv) =>
              cbind (encode (SStruct (m_fields m)) (VList front)) (fun a =>
                match lastv with
                | VList [] => COk a
                | VList _ => cbind (encode (SSlice mx s) lastv) (fun b => COk (a ++ b))
                | _ => CErr EType
                end)
          end
      end
  | _ => CErr EType
  end.

Definition csize_msg (m : msg_schema) (v : val) : Z :=
  match v with
  | VList vs =>
      match m_omit m with
      | None => csize (SStruct (m_fields m)) v
      | Some (mx, s) =>
          match split_last vs with
          | None => 0
          | Some (front, lastv) =>
              csize (SStruct (m_fields m)) (VList front) +
              match lastv with VList [] => 0 | _ => csize (SSlice mx s) lastv end
          end
      end
  | _ => 0
  end.

(* decodeX: returns the value and the unread rest *)
Definition decode_msg (m : msg_schema) (bs : list Z) : cres (val * list Z) :=
  cbind (decode (SStruct (m_fields m)) bs) (fun p =>
    match m_omit m with
    | None => COk p
    | Some (mx, s) =>
        match fst p with
        | VList front =>
            match snd p with
            | [] => COk (VList (front ++ [VList []]), [])
            | rest => cbind (decode (SSlice mx s) rest) (fun q => COk (VList (front ++ [fst q]), snd q))
            end
        | _ => CErr EType
        end
    end).

(* decodeXExact *)
Definition decode_msg_exact (m : msg_schema) (bs : list Z) : cres val :=
  cbind (decode_msg m bs) (fun p => match snd p with [] => COk (fst p) | _ => CErr ERemaining end).

(* ---------------------------------------------------------------- well-formedness
   Forced by the round-trip proof: the decoders reject a slice whose element
   COUNT exceeds the remaining BYTES, so every slice element must occupy at
   least one byte. Checked by computation on every regenerated schema. *)

Fixpoint minsize (s : schema) : nat :=
  match s with
  | SUInt w => w
  | SSInt w => w
  | SBool => 1
  | SArray n s' => n * minsize s'
  | SSlice _ _ => 4
  | SStruct l => list_sum (map minsize l)
  end.

Fixpoint wfb (s : schema) : bool :=
  match s with
  | SUInt _ | SBool => true
  | SSInt w => Nat.leb 1 w
  | SArray _ s' => wfb s'
  | SSlice m s' => wfb s' && Nat.leb 1 (minsize s') && (0 <=? m)
  | SStruct l => forallb wfb l
  end.

Definition wf_msg (m : msg_schema) : bool :=
  forallb wfb (m_fields m) &&
  match m_omit m with None => true | Some (mx, s) => wfb (SSlice mx s) end.

(* ---------------------------------------------------------------- equality helpers for cases files *)

Fixpoint val_eqb (a b : val) {struct a} : bool :=
  match a, b with
  | VInt x, VInt y => x =? y
  | VBool x, VBool y => Bool.eqb x y
  | VList x, VList y =>
      (fix go (x y : list val) : bool :=
         match x, y with
         | [], [] => true
         | a :: x', b :: y' => val_eqb a b && go x' y'
         | _, _ => false
         end) x y
  | _, _ => false
  end.

Fixpoint zlist_eqb (x y : list Z) : bool :=
  match x, y with
  | [], [] => true
  | a :: x', b :: y' => (a =? b) && zlist_eqb x' y'
  | _, _ => false
  end.

Definition cres_bytes_eqb (a b : cres (list Z)) : bool :=
  match a, b with
  | COk x, COk y => zlist_eqb x y
  | CErr e, CErr f => cerr_eqb e f
  | _, _ => false
  end.
Definition cres_val_eqb (a b : cres val) : bool :=
  match a, b with
  | COk x, COk y => val_eqb x y
  | CErr e, CErr f => cerr_eqb e f
  | _, _ => false
  end.

(* ---------------------------------------------------------------- struct flattening
   The generated encoders write the fields of nested structs in place; a schema
   recovered from their code is therefore flat. `flat` inlines nested structs
   (and single-field structs), which does not change the byte format. *)
Fixpoint flat (s : schema) : schema :=
  match s with
  | SArray n s' => SArray n (flat s')
  | SSlice m s' => SSlice m (flat s')
  | SStruct l =>
      let l' := flat_map (fun f => match flat f with SStruct x => x | y => [y] end) l in
      match l' with [x] => x | _ => SStruct l' end
  | _ => s
  end.
Definition flat_fields (l : list schema) : list schema :=
  flat_map (fun f => match flat f with SStruct x => x | y => [y] end) l.

Fixpoint schema_eqb (a b : schema) {struct a} : bool :=
  match a, b with
  | SUInt x, SUInt y => Nat.eqb x y
  | SSInt x, SSInt y => Nat.eqb x y
  | SBool, SBool => true
  | SArray n x, SArray m y => Nat.eqb n m && schema_eqb x y
  | SSlice n x, SSlice m y => (n =? m) && schema_eqb x y
  | SStruct x, SStruct y =>
      (fix go (x y : list schema) : bool :=
         match x, y with
         | [], [] => true
         | a :: x', b :: y' => schema_eqb a b && go x' y'
         | _, _ => false
         end) x y
  | _, _ => false
  end.
Fixpoint schemas_eqb (x y : list schema) : bool :=
  match x, y with
  | [], [] => true
  | a :: x', b :: y' => schema_eqb a b && schemas_eqb x' y'
  | _, _ => false
  end.
Definition msg_flat_eqb (a b : msg_schema) : bool :=
  schemas_eqb (flat_fields (m_fields a)) (flat_fields (m_fields b)) &&
  match m_omit a, m_omit b with
  | None, None => true
  | Some (m, s), Some (m', s') => (m =? m') && schema_eqb (flat s) (flat s')
  | _, _ => false
  end.
