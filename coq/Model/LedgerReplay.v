(* Model/LedgerReplay.v — replays a recorded history through the model
   (Model/Ledger.v) and compares, after every op, the model's verdict and
   projected state with what the implementation did. Definitions only. *)
From Sky Require Import Base.Uint Model.Ledger Model.LedgerObs.
Open Scope Z_scope.

Definition eqb_err (a b : err) : bool :=
  match a, b with
  | ESig, ESig | EGenesis, EGenesis | EBkSeq, EBkSeq | ETime, ETime | EPrevHash, EPrevHash
  | EBodyHash, EBodyHash | ENoTxns, ENoTxns | EUnspentMissing, EUnspentMissing | ENoInputs, ENoInputs
  | ENoOutputs, ENoOutputs | ESigCount, ESigCount | ETooMany, ETooMany | EDupSpend, EDupSpend
  | EType, EType | EZeroCoin, EZeroCoin | EOutOverflow, EOutOverflow | ELength, ELength
  | EDupOut, EDupOut | EInner, EInner | EUnsigned, EUnsigned | ESigRecover, ESigRecover
  | ESigAddr, ESigAddr | EInOverflow, EInOverflow | EOutOverflow2, EOutOverflow2
  | EInsufficientCoins, EInsufficientCoins | EDestroyCoins, EDestroyCoins | ECoinHours, ECoinHours
  | EInHoursOverflow, EInHoursOverflow | EInsufficientHours, EInsufficientHours | ECollide, ECollide
  | EDupOutAcross, EDupOutAcross | EOutInPool, EOutInPool | EDupTxn, EDupTxn | EDoubleSpend, EDoubleSpend
  | EUxHash, EUxHash | EStore, EStore | EInsertTwice, EInsertTwice | EHistory, EHistory | EOther, EOther => true
  | _, _ => false
  end.
Definition eqb_outcome (a b : outcome) : bool :=
  match a, b with
  | Accepted, Accepted => true
  | Rejected x, Rejected y => eqb_err x y
  | Crashed, Crashed => true
  | _, _ => false
  end.

Fixpoint insert_trip (x : Z * Z * Z) (l : list (Z * Z * Z)) : list (Z * Z * Z) :=
  match l with
  | [] => [x]
  | y :: r => if fst (fst x) <=? fst (fst y) then x :: l else y :: insert_trip x r
  end.
Definition sorted_utxo (s : state) : list (Z * Z * Z) :=
  fold_right insert_trip [] (map (fun u => (u_id u, u_coins u, u_hours u)) (utxo s)).

(* the model state projected as the harness projects the node *)
Definition state_matches (s : state) (d : dump) : bool :=
  match chain s with
  | [] => false
  | hd :: _ =>
      (h_seq (b_head hd) =? d_seq d) && (b_hash hd =? d_head d) && (h_time (b_head hd) =? d_time d) &&
      (xorsum s =? d_xor d) &&
      (b_hash hd =? d_stored d) && Bool.eqb (b_sig_ok hd) (d_sig_ok d) &&
      eqb_list eqb_trip (sorted_utxo s) (d_utxo d)
  end.

(* index of the first op where model and implementation differ (then stop);
   EHistory (the node's HistoryDB.ParseBlock refused the block; the history db is
   not modelled) is taken as a no-op without comparing the verdict *)
Definition is_history (o : outcome) : bool := match o with Rejected EHistory => true | _ => false end.
Fixpoint replay (arb : bool) (i : Z) (s : state) (l : list (block * outcome * dump * list txn)) : list Z :=
  match l with
  | [] => []
  | (b, o, d, _) :: r =>
      let '(s', o') := (if arb then step_arb else step) s (ExecBlock b) in
      if is_history o then (if state_matches s d then replay arb (i + 1) s r else [i])
      else if eqb_outcome o o' && state_matches s' d then replay arb (i + 1) s' r else [i]
  end.
Definition replay_mism (h : history) : list Z :=
  let s0 := init_state (hi_genesis h) in
  if state_matches s0 (hi_d0 h) && (genesis_volume (hi_genesis h) =? hi_volume h)
  then replay (hi_arb h) 1 s0 (hi_steps h) else [0].

(* ------------------------------------------------------------------
   Per-property projections of the correspondence. exec_block is the sequence
     hdr_pre ;; process_txns ;; hdr_post ;; (ProcessBlock: get_array, insert_ok) ;; apply_block
   (lemma exec_block_pieces in Proofs/LedgerAppend.v). C04 is about the
   header-level pieces, C01/C02 about the transaction-level pieces and the
   unspent-set update. In the projected replays the model state FOLLOWS the
   implementation (an accepted block is applied with apply_block), so a
   deviation in the other property's pieces does not cascade. *)
Definition hdr_pre (s : state) (head b : block) : chk :=
  guard (b_sig_ok b) ESig ;;
  guard (negb (eqb_option Z.eqb (option_map b_hash (genesis_of (chain s))) (Some (b_hash b)))) EGenesis ;;
  verify_header head b.
Definition hdr_post (s : state) (b : block) : chk :=
  guard (h_uxhash (b_head b) =? xorsum s) EUxHash ;;
  guard (negb (memZ (b_hash b) (map b_hash (chain s)))) EStore.
Definition insert_okb (s : state) (b : block) : bool :=
  forallb (fun u => negb (memZ (u_id u) (ids (remove_ids (all_ins (b_txns b)) (utxo s))))) (created b).

Definition pre_err (e : err) : bool :=
  match e with ESig | EGenesis | EBkSeq | ETime | EPrevHash | EBodyHash => true | _ => false end.
Definition post_err (e : err) : bool := match e with EUxHash | EStore => true | _ => false end.
Definition eqb_chk (a b : chk) : bool :=
  match a, b with
  | Pass, Pass => true | Boom, Boom => true | Fail x, Fail y => eqb_err x y | _, _ => false
  end.

(* transaction level (C01, C02): verdict of processTransactions / ProcessBlock and
   the unspent set. `rel` selects the error classes of the checks the property's
   proof rests on: C02 = inputs unspent / not spent twice / created ids new;
   C01 = those plus the coin sums. Signature, format and coin-hour checks are
   other properties' business: a difference there is not reported here (the
   model then follows the implementation). *)
Definition rel_c02 (e : err) : bool :=
  match e with
  | EUnspentMissing | ENoInputs | EDupSpend | EDupOut | EDupOutAcross | EOutInPool | ECollide
  | EDupTxn | EDoubleSpend | EInsertTwice => true
  | _ => false
  end.
Definition rel_c01 (e : err) : bool :=
  rel_c02 e ||
  match e with
  | EOutOverflow | EInOverflow | EOutOverflow2 | EInsufficientCoins | EDestroyCoins => true
  | _ => false
  end.
Definition utxo_matches (s : state) (d : dump) : bool := eqb_list eqb_trip (sorted_utxo s) (d_utxo d).
Section ReplayTxn.
  Variable rel : err -> bool.
  (* the model may accept, or refuse for a reason that is not this property's *)
  Definition tolerated (tx : chk) : bool :=
    match tx with Pass => true | Fail e => negb (rel e) | Boom => false end.
  Definition hashes (ts : list txn) : list Z := map t_hash ts.
  Fixpoint replay_txn (arb : bool) (i : Z) (s : state) (l : list (block * outcome * dump * list txn)) : list Z :=
    match l with
    | [] => []
    | (b, o, d, st) :: r =>
        match chain s with
        | [] => [i]
        | head :: _ =>
            if arb then
              (* arbitrating node: the model's kept transactions (in order) are what the node stored *)
              let ar := process_txns_arb (utxo s) head (b_txns b) in
              match o with
              | Accepted =>
                  match ar with
                  | ArbOk kept =>
                      let nb := set_txns b kept in
                      match get_array (all_ins kept) (utxo s) with
                      | Some spent =>
                          let s' := apply_block s nb spent in
                          if eqb_list Z.eqb (hashes kept) (hashes st) && insert_okb s nb && utxo_matches s' d
                          then replay_txn arb (i + 1) s' r else [i]
                      | None => [i]
                      end
                  | _ => [i]
                  end
              | Rejected e =>
                  let ok :=
                    if pre_err e then true
                    else match e with
                         | EHistory => true                     (* history db: not modelled, a no-op *)
                         | _ =>
                           if post_err e then match ar with ArbOk _ => true | _ => false end
                           else match ar with
                                | ArbErr e' => eqb_err e e'
                                | ArbOk kept =>
                                    match get_array (all_ins kept) (utxo s) with
                                    | None => eqb_err e EUnspentMissing
                                    | Some _ => eqb_err e EInsertTwice && negb (insert_okb s (set_txns b kept))
                                    end
                                | ArbBoom => false
                                end
                         end in
                  if ok && utxo_matches s d then replay_txn arb (i + 1) s r else [i]
              | Crashed => match ar with ArbBoom => replay_txn arb (i + 1) s r | _ => [i] end
              end
            else
            let tx := process_txns (utxo s) head (b_txns b) in
            match o with
            | Accepted =>
                match get_array (all_ins (b_txns b)) (utxo s) with
                | Some spent =>
                    let s' := apply_block s b spent in
                    if tolerated tx && insert_okb s b && utxo_matches s' d then replay_txn arb (i + 1) s' r else [i]
                | None => [i]
                end
            | Rejected e =>
                let ok :=
                  if pre_err e then true                       (* refused before the transactions were looked at *)
                  else if post_err e then tolerated tx         (* the transactions had passed *)
                  else match e with
                       | EHistory => true
                       | _ =>
                       match tx with
                       | Fail e' =>
                           (* a failing check of this property must be reported as such;
                              a failure of another property's check is not compared *)
                           if rel e' then eqb_err e e' else true
                       | Pass =>
                           if rel e then                       (* only Unspents.ProcessBlock is left *)
                             match get_array (all_ins (b_txns b)) (utxo s) with
                             | None => eqb_err e EUnspentMissing
                             | Some _ => eqb_err e EInsertTwice && negb (insert_okb s b)
                             end
                           else true
                       | Boom => false
                       end
                       end in
                if ok && utxo_matches s d then replay_txn arb (i + 1) s r else [i]
            | Crashed => if eqb_chk tx Boom then replay_txn arb (i + 1) s r else [i]
            end
        end
    end.
  Definition replay_txn_mism (h : history) : list Z :=
    let s0 := init_state (hi_genesis h) in
    if utxo_matches s0 (hi_d0 h) && (genesis_volume (hi_genesis h) =? hi_volume h)
    then replay_txn (hi_arb h) 1 s0 (hi_steps h) else [0].
End ReplayTxn.

(* header level (C04): signature, genesis, header and checksum checks, the
   stored head. The model's checksum and unspent set are not used to predict
   the node's: the checksum is taken from the node's dump after every op. *)
Definition head_matches (s : state) (d : dump) : bool :=
  match chain s with
  | [] => false
  | hd :: _ =>
      (h_seq (b_head hd) =? d_seq d) && (b_hash hd =? d_head d) && (h_time (b_head hd) =? d_time d) &&
      (b_hash hd =? d_stored d) && Bool.eqb (b_sig_ok hd) (d_sig_ok d)
  end.
Definition with_xor (s : state) (x : Z) : state := mkState (chain s) (utxo s) x.
Fixpoint replay_hdr (i : Z) (s : state) (l : list (block * outcome * dump * list txn)) : list Z :=
  match l with
  | [] => []
  | (b, o, d, _) :: r =>
      match chain s with
      | [] => [i]
      | head :: _ =>
          let pre := hdr_pre s head b in
          let post := hdr_post s b in
          match o with
          | Accepted =>
              let s' := with_xor (apply_block s b []) (d_xor d) in
              if eqb_chk pre Pass && eqb_chk post Pass && head_matches s' d then replay_hdr (i + 1) s' r else [i]
          | Rejected e =>
              let ok :=
                if pre_err e then eqb_chk pre (Fail e)
                else if post_err e then eqb_chk pre Pass && eqb_chk post (Fail e)
                else eqb_chk pre Pass in                       (* refused by a transaction-level check or the history db *)
              if ok && head_matches s d && (xorsum s =? d_xor d) then replay_hdr (i + 1) s r else [i]
          | Crashed => [i]
          end
      end
  end.
Definition is_some {A} (o : option A) : bool := match o with Some _ => true | None => false end.
(* start-up: the model's start_node succeeds exactly when the node's Init did *)
Definition start_matches (g : block) (a : bool * bool * bool) : bool :=
  let '(sigok, started, _) := a in
  Bool.eqb started
    (is_some (start_node (mkBlock (b_head g) (b_hash g) (b_body_actual g) sigok (b_txns g)))).
Definition replay_hdr_mism (h : history) : list Z :=
  let s0 := with_xor (init_state (hi_genesis h)) (d_xor (hi_d0 h)) in
  if head_matches s0 (hi_d0 h) && forallb (start_matches (hi_genesis h)) (hi_starts h) &&
     is_some (start_node (hi_genesis h))
  then replay_hdr 1 s0 (hi_steps h) else [0].

