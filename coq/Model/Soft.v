(* Model/Soft.v — executable model of the soft rules (property C11):
   transaction.VerifySingleTxnSoftConstraints / verifyTxnSoftConstraints
   (src/transaction/verify.go), fee.TransactionFee / fee.VerifyTransactionFee
   (src/util/fee/fee.go), transaction.TransactionIsLocked
   (src/transaction/distribution.go), in the order of the Go statements.
   The scalar arithmetic is the Gallina REGENERATED from /repo on every run:
   Gen.Fee.VerifyTransactionFeeForHours (with RequiredFee), Gen.Droplet.DropletPrecisionCheck,
   Gen.CoinHours.UxOut_CoinHours and Gen.Mathutil.AddUint64 through Model/Hours.v.
   Definitions only. *)
From Sky Require Import Base.Uint Model.ArithSpec Model.HoursSpec Model.Hours Model.SoftSpec
  Gen.Mathutil Gen.Fee Gen.Droplet.
Open Scope Z_scope.

(* fee.TransactionFee *)
Definition TransactionFee (T : Z) (ins : list uxin) (outs : list txout) : res (Z * error) :=
  bind (UxArray_CoinHours T ins) (fun '(inHours, e) =>
  if is_err e then Val (0, e) else
  bind (Transaction_OutputHours outs) (fun '(outHours, e) =>
  if is_err e then Val (0, e)
  else if inHours <? outHours then Val (0, Some "ErrTxnInsufficientCoinHours"%string)
  else Val (wrap 64 (inHours - outHours), None))).

(* fee.VerifyTransactionFee *)
Definition VerifyTransactionFee (outs : list txout) (f burn : Z) : res error :=
  bind (Transaction_OutputHours outs) (fun '(hours, e) =>
  if is_err e then Val e else VerifyTransactionFeeForHours hours f burn).

(* Distribution.LockedAddresses: numLocked panics when there are fewer
   addresses than InitialUnlockedCount *)
Definition LockedAddresses (d : dist) : res (list Z) :=
  if Z.of_nat (List.length (d_addrs d)) <? d_unlocked d then Panic
  else Val (skipn (Z.to_nat (d_unlocked d)) (d_addrs d)).

(* transaction.TransactionIsLocked: membership of each input's address in the locked list *)
Definition TransactionIsLocked (d : dist) (ins : list uxin) : res bool :=
  bind (LockedAddresses d) (fun locked =>
  Val (existsb (fun i => memZ (i_addr i) locked) ins)).

(* for _, o := range txn.Out { if err := params.DropletPrecisionCheck(prec, o.Coins); err != nil { return err } } *)
Fixpoint precision_loop (prec : Z) (outs : list txout) : res error :=
  match outs with
  | [] => Val None
  | o :: r =>
    bind (DropletPrecisionCheck prec (o_coins o)) (fun e =>
    if is_err e then Val e else precision_loop prec r)
  end.

(* verifyTxnSoftConstraints; [size] is what txn.Size() returned *)
Definition verifyTxnSoftConstraints (size : Z * error) (T : Z) (ins : list uxin) (outs : list txout)
    (d : dist) (p : vparams) : res error :=
  let '(txnSize, serr) := size in
  if is_err serr then Val (Some "ErrTxnExceedsMaxBlockSize"%string)
  else if txnSize >? p_maxsize p then Val (Some "ErrTxnExceedsMaxBlockSize"%string)
  else
    bind (TransactionFee T ins outs) (fun '(f, e) =>
    if is_err e then Val e else
    bind (VerifyTransactionFee outs f (p_burn p)) (fun e =>
    if is_err e then Val e else
    bind (TransactionIsLocked d ins) (fun locked =>
    if locked then Val (Some "ErrTxnIsLocked"%string)
    else precision_loop (p_prec p) outs))).

(* transaction.VerifySingleTxnSoftConstraints *)
Definition VerifySingleTxnSoftConstraints (size : Z * error) (T : Z) (ins : list uxin) (outs : list txout)
    (d : dist) (p : vparams) : res verdict :=
  bind (verifyTxnSoftConstraints size T ins outs d p) (fun e => Val (wrap_err Soft e)).
