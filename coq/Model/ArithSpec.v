(* Mathematical specifications of the checked arithmetic, fee and coin-hour
   formulas (property C31), independent of the translated code. Definitions only. *)
From Sky Require Import Base.Uint.
Open Scope Z_scope.

Definition ret_or_err (ok : bool) (v : Z) (e : string) : res (Z * error) :=
  if ok then Val (v, None) else Val (0, Some e).

Definition ceil_div (h b : Z) : Z := (h + b - 1) / b.

Definition fee_verdict (hours fee b : Z) : error :=
  if fee =? 0 then Some "ErrTxnNoFee"%string
  else if 2 ^ 64 <=? hours + fee then Some "Hours and fee overflow"%string
  else if fee <? ceil_div (hours + fee) b then Some "ErrTxnInsufficientFee"%string
  else None.

Definition E_whole : error := Some "UxOut.CoinHours: Calculating whole coin seconds overflows uint64 seconds="%string.
Definition E_droplet : error := Some "UxOut.CoinHours: Calculating droplet seconds overflows uint64 seconds="%string.
Definition E_sum : error := Some "UxOut.CoinHours: Calculating coin seconds overflows uint64 seconds="%string.
Definition E_add : error := Some "ErrAddEarnedCoinHoursAdditionOverflow"%string.

(* hours earned: floor(coins * elapsed / 3.6e9) *)
Definition earned (coins d : Z) : Z := coins * d / 3600000000.

Definition coinhours_spec (time coins hours t : Z) : res (Z * error) :=
  if t <? time then Val (hours, None)
  else
    let d := t - time in
    if 2 ^ 64 <=? (coins / 1000000) * d then Val (0, E_whole)
    else if 2 ^ 64 <=? (coins mod 1000000) * d then Val (0, E_droplet)
    else if 2 ^ 64 <=? coins * d / 1000000 then Val (0, E_sum)
    else if 2 ^ 64 <=? hours + earned coins d then Val (0, E_add)
    else Val (hours + earned coins d, None).

(* observed results are compared with model results up to error-message
   suffixes: the model carries the sentinel name or the literal prefix of the
   format string, the harness reports the sentinel name or the full message. *)
Definition err_matches (model observed : error) : bool :=
  match model, observed with
  | None, None => true
  | Some m, Some o => String.prefix m o
  | _, _ => false
  end.
Definition res_ze_matches (model observed : res (Z * error)) : bool :=
  match model, observed with
  | Panic, Panic => true
  | Val (v, e), Val (v', e') => (v =? v') && err_matches e e'
  | _, _ => false
  end.
Definition res_z_matches (model observed : res Z) : bool :=
  match model, observed with
  | Panic, Panic => true
  | Val v, Val v' => v =? v'
  | _, _ => false
  end.
Definition res_e_matches (model observed : res error) : bool :=
  match model, observed with
  | Panic, Panic => true
  | Val e, Val e' => err_matches e e'
  | _, _ => false
  end.

(* spec of IntToUint32 and the conversions *)
Definition IntToUint32_spec_fn (a : Z) : res (Z * error) :=
  if a <? 0 then Val (0, Some "ErrIntUnderflowsUint32"%string)
  else if a <? 2 ^ 32 then Val (a, None)
  else Val (0, Some "ErrIntOverflowsUint32"%string).
