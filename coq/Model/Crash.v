(* Model/Crash.v — crash recovery of the chain database (property C08).
   Three layers, definitions only (proofs in Proofs/CrashProofs.v):
   A. bolt's commit as page writes (copy-on-write pages, then the alternate
      meta page) with crash = any prefix of the writes, last one possibly torn;
   B. the node life-cycle as a list of atomic commits + restart
      (visor.New/Init: create buckets, add genesis when the chain is empty),
      with re-delivery of the blocks after a restart;
   C. the control skeleton of Blockchain.WalkChain (producer, workers, waiter,
      main select) as a small-step system. *)
From Coq Require Import ZArith List Bool Lia.
Import ListNotations.
Open Scope Z_scope.

(* ------------------------------------------------------------------ A. pages *)

Record meta := { m_txid : Z; m_snap : Z; m_ok : bool }.
Record store := { pages : list (Z * Z); meta0 : meta; meta1 : meta }.

Fixpoint lookup (p : Z) (l : list (Z * Z)) : option Z :=
  match l with
  | [] => None
  | (q, c) :: r => if p =? q then Some c else lookup p r
  end.

Definition write_page (st : store) (pc : Z * Z) : store :=
  {| pages := pc :: pages st; meta0 := meta0 st; meta1 := meta1 st |}.

(* a snapshot (committed state) is intact when every page its root reaches
   holds the content it had at commit time *)
Definition intact (st : store) (reach : list (Z * Z)) : bool :=
  forallb (fun pc => match lookup (fst pc) (pages st) with
                     | Some c => c =? snd pc
                     | None => false
                     end) reach.

(* bolt opens the valid meta with the larger txid *)
Definition active (st : store) : option meta :=
  let a := meta0 st in let b := meta1 st in
  match m_ok a, m_ok b with
  | true, true => Some (if m_txid a <? m_txid b then b else a)
  | true, false => Some a
  | false, true => Some b
  | false, false => None
  end.
Definition recover (st : store) : option Z := option_map m_snap (active st).

(* which slot the next commit overwrites: txid parity, as bolt does *)
Definition slot_of (txid : Z) : bool := Z.odd txid.   (* true = meta1 *)
Definition write_meta (st : store) (m : meta) : store :=
  if slot_of (m_txid m)
  then {| pages := pages st; meta0 := meta0 st; meta1 := m |}
  else {| pages := pages st; meta0 := m; meta1 := meta1 st |}.

Inductive meta_write := MetaNone | MetaTorn | MetaFull.

(* a commit from snapshot `old` to snapshot `new` *)
Record commit := {
  c_old : Z; c_new : Z; c_txid : Z;          (* c_txid = txid of the NEW meta *)
  c_old_reach : list (Z * Z); c_new_reach : list (Z * Z);
  c_dirty : list (Z * Z) }.

Definition ids (l : list (Z * Z)) : list Z := map fst l.
Definition memZ (x : Z) (l : list Z) : bool := existsb (Z.eqb x) l.

(* copy-on-write: no dirty page overwrites a page the old root reaches; the new
   root reaches only fresh pages (with their new content) or untouched old ones *)
Definition cow (c : commit) : bool :=
  forallb (fun p => negb (memZ p (ids (c_old_reach c)))) (ids (c_dirty c)) &&
  forallb (fun pc => match lookup (fst pc) (rev (c_dirty c)) with
                     | Some d => d =? snd pc
                     | None => match lookup (fst pc) (c_old_reach c) with
                               | Some d => d =? snd pc
                               | None => false
                               end
                     end) (c_new_reach c).

(* crash state: the first j dirty pages reached the disk, then the meta page
   not at all / torn (checksum invalid) / completely *)
Definition crash_state (st : store) (c : commit) (j : nat) (mw : meta_write) : store :=
  let st1 := fold_left write_page (firstn j (c_dirty c)) st in
  match mw with
  | MetaNone => st1
  | MetaTorn => write_meta st1 {| m_txid := c_txid c; m_snap := c_new c; m_ok := false |}
  | MetaFull => write_meta st1 {| m_txid := c_txid c; m_snap := c_new c; m_ok := true |}
  end.

(* the state before the commit: the old snapshot is intact; the meta slot the
   commit will NOT overwrite holds the valid meta of the old snapshot with
   txid-1, and the slot it will overwrite is older or invalid (bolt alternates) *)
Definition slot (st : store) (b : bool) : meta := if b then meta1 st else meta0 st.
Definition pre_ok (st : store) (c : commit) : bool :=
  let a := slot st (negb (slot_of (c_txid c))) in
  let o := slot st (slot_of (c_txid c)) in
  intact st (c_old_reach c) &&
  m_ok a && (m_snap a =? c_old c) && (m_txid a =? c_txid c - 1) &&
  (negb (m_ok o) || (m_txid o <? c_txid c - 1)).

(* ------------------------------------------------------------------ B. life cycle *)

(* `dead` = transactions that can never be confirmed any more: confirmed by a
   block, or spending an output that a block has spent (a pool transaction
   conflicting with a block stays in the pool bucket until the next clean-up) *)
Record dbstate := { buckets : bool; chain : list Z; pool : list Z; dead : list Z }.

Inductive cop :=
| CreateBuckets
| AddGenesis (g : Z)
| ExecBlock (seq : Z) (confirms kills : list Z)
    (* block with this sequence number confirming `confirms`; the pool
       transactions `kills` spend outputs this block spends *)
| Inject (t : Z)
| Cleanup.                                   (* unconfirmed.RemoveInvalid *)

Definition remove_all (xs : list Z) (l : list Z) : list Z :=
  filter (fun t => negb (memZ t xs)) l.

(* each operation is one atomic database commit (or a no-op when refused) *)
Definition apply_op (s : dbstate) (o : cop) : dbstate :=
  match o with
  | CreateBuckets => {| buckets := true; chain := chain s; pool := pool s; dead := dead s |}
  | AddGenesis g =>
      if buckets s && (Z.of_nat (length (chain s)) =? 0)
      then {| buckets := true; chain := [g]; pool := pool s; dead := dead s |} else s
  | ExecBlock seq confirms kills =>
      if buckets s && (0 <? Z.of_nat (length (chain s))) && (seq =? Z.of_nat (length (chain s)))
      then {| buckets := true; chain := chain s ++ [seq]; pool := remove_all confirms (pool s);
              dead := dead s ++ confirms ++ kills |} else s
  | Inject t =>
      (* refused when known already, or when its inputs are spent *)
      if buckets s && (0 <? Z.of_nat (length (chain s))) && negb (memZ t (pool s)) && negb (memZ t (dead s))
      then {| buckets := true; chain := chain s; pool := pool s ++ [t]; dead := dead s |} else s
  | Cleanup =>
      {| buckets := buckets s; chain := chain s; pool := remove_all (dead s) (pool s); dead := dead s |}
  end.

Definition run (s : dbstate) (ops : list cop) : dbstate := fold_left apply_op ops s.
Definition empty_db : dbstate := {| buckets := false; chain := []; pool := []; dead := [] |}.

(* visor.New + Init on whatever the file holds: create what is missing, then
   drop the pool transactions that became invalid *)
Definition restart (g : Z) (s : dbstate) : dbstate := run s [CreateBuckets; AddGenesis g; Cleanup].

(* the periodic pool clean-up every running node performs; "the same state" is
   compared after it *)
Definition settle (s : dbstate) : dbstate := apply_op s Cleanup.

(* the scripted life-cycle: initialisation, then blocks / injections / clean-ups *)
Definition script (g : Z) (work : list cop) : list cop := CreateBuckets :: AddGenesis g :: work.

(* a work list as a publisher produces it: no initialisation steps, the blocks
   carry the sequence numbers n, n+1, ... *)
Fixpoint wf_work (n : Z) (w : list cop) : bool :=
  match w with
  | [] => true
  | ExecBlock seq _ _ :: r => (seq =? n) && wf_work (n + 1) r
  | Inject _ :: r | Cleanup :: r => wf_work n r
  | _ => false
  end.

(* ------------------------------------------------------------------ C. WalkChain *)

Inductive pstate := PInit | PLoop | PDone.
Inductive mstate := MWait | MJoin | MRet.

Record wstate := {
  w_remaining : nat;      (* blocks not yet sent *)
  w_prod : pstate;
  w_closed : bool;        (* signedBlockC closed *)
  w_queue : nat;          (* blocks buffered in signedBlockC *)
  w_workers : nat;        (* workers still ranging over signedBlockC *)
  w_vdone : bool;         (* verifyDone closed (waiter finished) *)
  w_err : bool;           (* an error is pending in errC *)
  w_interrupt : bool;     (* interrupt closed *)
  w_main : mstate;
  w_prod_joined : bool;   (* producer called wg.Done *)
  w_result : option bool  (* Some true = returned nil, Some false = returned an error *)
}.

Definition cap : nat := 100.

(* `fixed` = the producer registers wg.Done/close before the length check (tree
   after fix 888b9203a); with fixed = false an empty chain makes it return
   without closing the channel (the unfixed code) *)
(* `failing` = block reads / signature checks may fail (errors sent to errC) *)
Inductive wstep (fixed failing : bool) : wstate -> wstate -> Prop :=
| S_prod_check_empty : forall s, w_prod s = PInit -> w_remaining s = O ->
    wstep fixed failing s {| w_remaining := O; w_prod := PDone; w_closed := fixed; w_queue := w_queue s;
                     w_workers := w_workers s; w_vdone := w_vdone s; w_err := w_err s;
                     w_interrupt := w_interrupt s; w_main := w_main s;
                     w_prod_joined := fixed; w_result := w_result s |}
| S_prod_check : forall s n, w_prod s = PInit -> w_remaining s = S n ->
    wstep fixed failing s {| w_remaining := S n; w_prod := PLoop; w_closed := w_closed s; w_queue := w_queue s;
                     w_workers := w_workers s; w_vdone := w_vdone s; w_err := w_err s;
                     w_interrupt := w_interrupt s; w_main := w_main s;
                     w_prod_joined := w_prod_joined s; w_result := w_result s |}
| S_prod_send : forall s n, w_prod s = PLoop -> w_remaining s = S n -> (w_queue s < cap)%nat ->
    wstep fixed failing s {| w_remaining := n; w_prod := PLoop; w_closed := w_closed s; w_queue := S (w_queue s);
                     w_workers := w_workers s; w_vdone := w_vdone s; w_err := w_err s;
                     w_interrupt := w_interrupt s; w_main := w_main s;
                     w_prod_joined := w_prod_joined s; w_result := w_result s |}
| S_prod_fail : forall s, failing = true -> w_prod s = PLoop ->   (* missing signature / read error: report and stop *)
    wstep fixed failing s {| w_remaining := w_remaining s; w_prod := PDone; w_closed := true; w_queue := w_queue s;
                     w_workers := w_workers s; w_vdone := w_vdone s; w_err := true;
                     w_interrupt := w_interrupt s; w_main := w_main s;
                     w_prod_joined := true; w_result := w_result s |}
| S_prod_interrupted : forall s, w_prod s = PLoop -> w_interrupt s = true ->
    wstep fixed failing s {| w_remaining := w_remaining s; w_prod := PDone; w_closed := true; w_queue := w_queue s;
                     w_workers := w_workers s; w_vdone := w_vdone s; w_err := w_err s;
                     w_interrupt := true; w_main := w_main s;
                     w_prod_joined := true; w_result := w_result s |}
| S_prod_finish : forall s, w_prod s = PLoop -> w_remaining s = O ->
    wstep fixed failing s {| w_remaining := O; w_prod := PDone; w_closed := true; w_queue := w_queue s;
                     w_workers := w_workers s; w_vdone := w_vdone s; w_err := w_err s;
                     w_interrupt := w_interrupt s; w_main := w_main s;
                     w_prod_joined := true; w_result := w_result s |}
| S_worker_recv : forall s q (bad : bool), (bad = true -> failing = true) -> w_queue s = S q -> (0 < w_workers s)%nat ->
    wstep fixed failing s {| w_remaining := w_remaining s; w_prod := w_prod s; w_closed := w_closed s; w_queue := q;
                     w_workers := w_workers s; w_vdone := w_vdone s; w_err := w_err s || bad;
                     w_interrupt := w_interrupt s; w_main := w_main s;
                     w_prod_joined := w_prod_joined s; w_result := w_result s |}
| S_worker_exit : forall s k, w_queue s = O -> w_closed s = true -> w_workers s = S k ->
    wstep fixed failing s {| w_remaining := w_remaining s; w_prod := w_prod s; w_closed := true; w_queue := O;
                     w_workers := k; w_vdone := w_vdone s; w_err := w_err s;
                     w_interrupt := w_interrupt s; w_main := w_main s;
                     w_prod_joined := w_prod_joined s; w_result := w_result s |}
| S_waiter : forall s, w_workers s = O -> w_vdone s = false ->
    wstep fixed failing s {| w_remaining := w_remaining s; w_prod := w_prod s; w_closed := w_closed s; w_queue := w_queue s;
                     w_workers := O; w_vdone := true; w_err := w_err s;
                     w_interrupt := w_interrupt s; w_main := w_main s;
                     w_prod_joined := w_prod_joined s; w_result := w_result s |}
| S_main_select : forall s, w_main s = MWait -> (w_err s = true \/ w_vdone s = true) ->
    wstep fixed failing s {| w_remaining := w_remaining s; w_prod := w_prod s; w_closed := w_closed s; w_queue := w_queue s;
                     w_workers := w_workers s; w_vdone := w_vdone s; w_err := w_err s;
                     w_interrupt := true; w_main := MJoin;
                     w_prod_joined := w_prod_joined s; w_result := w_result s |}
| S_main_return : forall s, w_main s = MJoin -> w_vdone s = true -> w_prod_joined s = true ->
    wstep fixed failing s {| w_remaining := w_remaining s; w_prod := w_prod s; w_closed := w_closed s; w_queue := w_queue s;
                     w_workers := w_workers s; w_vdone := true; w_err := w_err s;
                     w_interrupt := w_interrupt s; w_main := MRet;
                     w_prod_joined := true; w_result := Some (negb (w_err s)) |}.

Definition winit (blocks workers : nat) : wstate :=
  {| w_remaining := blocks; w_prod := PInit; w_closed := false; w_queue := O; w_workers := workers;
     w_vdone := false; w_err := false; w_interrupt := false; w_main := MWait;
     w_prod_joined := false; w_result := None |}.

Inductive wreach (fixed failing : bool) (s0 : wstate) : wstate -> Prop :=
| R_refl : wreach fixed failing s0 s0
| R_step : forall s s', wreach fixed failing s0 s -> wstep fixed failing s s' -> wreach fixed failing s0 s'.

(* termination measure: every step strictly decreases it *)
Definition b2n (b : bool) : nat := if b then 1%nat else 0%nat.
Definition wmeasure (s : wstate) : nat :=
  (match w_prod s with PInit => 3 * w_remaining s + 2 | PLoop => 3 * w_remaining s + 1 | PDone => 0 end
   + 2 * w_queue s + w_workers s + b2n (negb (w_vdone s))
   + match w_main s with MWait => 2 | MJoin => 1 | MRet => 0 end)%nat.
