(* Model/SigAccept.v — the signature acceptance predicates of src/cipher/crypto.go
   exactly as coded, on top of the textbook curve of Model/Secp.v
   (properties C10 and C14).  Definitions only. *)
From Coq Require Import ZArith List Bool.
From Sky Require Import Model.Secp.
Import ListNotations.
Open Scope Z_scope.

Inductive sig_verdict : Type :=
  | SigOK
  | ErrInvalidSigPubKeyRecovery   (* RecoverPubkey returned nil *)
  | ErrPubKeyRecoverMismatch      (* recovered key differs from the given key *)
  | ErrInvalidAddressForSig       (* address of the recovered key differs *)
  | ErrInvalidSigValidity         (* VerifySignatureValidity failed: bit 255 of s or recid >= 4 *)
  | ErrInvalidHashForSig          (* secp256k1.VerifySignature failed (address variant) *)
  | ErrInvalidSigForMessage.      (* secp256k1.VerifySignature failed (pubkey variant) *)

Definition sig_verdict_eqb (a b : sig_verdict) : bool :=
  match a, b with
  | SigOK, SigOK | ErrInvalidSigPubKeyRecovery, ErrInvalidSigPubKeyRecovery
  | ErrPubKeyRecoverMismatch, ErrPubKeyRecoverMismatch
  | ErrInvalidAddressForSig, ErrInvalidAddressForSig
  | ErrInvalidSigValidity, ErrInvalidSigValidity
  | ErrInvalidHashForSig, ErrInvalidHashForSig
  | ErrInvalidSigForMessage, ErrInvalidSigForMessage => true
  | _, _ => false
  end.

(* cipher.PubKeyFromSig(sig, hash): no well-formedness test at all; the recovered
   key always passes NewPubKey (it is a curve point) *)
Definition pubkey_from_sig (sg hash : list Z) : option (list Z) := recover_pubkey hash sg.

(* cipher.VerifyPubKeySignedHash(pubkey, sig, hash) — the check applied to
   block signatures (visor: Blockchain.VerifySignature / SignedBlock.VerifySignature) *)
Definition verify_pubkey_signed_hash (pk sg hash : list Z) : sig_verdict :=
  match pubkey_from_sig sg hash with
  | None => ErrInvalidSigPubKeyRecovery
  | Some pk' =>
      if negb (bytes_eqb pk' pk) then ErrPubKeyRecoverMismatch
      else if negb (sig_wellformed sg) then ErrInvalidSigValidity
      else if negb (verify_signature hash sg pk) then ErrInvalidSigForMessage
      else SigOK
  end.

(* cipher.VerifySignatureRecoverPubKey(sig, hash): the per-signature test of
   coin.Transaction.Verify — recovery succeeds and the signature is well formed *)
Definition verify_signature_recover_pubkey (sg hash : list Z) : sig_verdict :=
  match recover_pubkey hash sg with
  | None => ErrInvalidSigPubKeyRecovery
  | Some pk => if verify_signature hash sg pk then SigOK else ErrInvalidHashForSig
  end.

Section Address.
  (* ripemd160(sha256(sha256(pubkey))) is an oracle: the 20-byte key hash of a
     33-byte public key (cipher.PubKeyRipemd160) *)
  Variable pubkey_hash : list Z -> list Z.

  (* cipher.VerifyAddressSignedHash(address, sig, hash) with address = (version, key hash)
     — the check applied to every transaction input signature
     (coin.Transaction.VerifyInputSignatures) *)
  Definition verify_address_signed_hash (addr_version : Z) (addr_key sg hash : list Z) : sig_verdict :=
    match recover_pubkey hash sg with
    | None => ErrInvalidSigPubKeyRecovery
    | Some pk =>
        if negb ((addr_version =? 0) && bytes_eqb addr_key (pubkey_hash pk)) then ErrInvalidAddressForSig
        else if negb (verify_signature hash sg pk) then ErrInvalidHashForSig
        else SigOK
    end.
End Address.

(* cipher.NewPubKey on an arbitrary byte string *)
Inductive newpk_verdict : Type := PubKeyOK | ErrInvalidLengthPubKey | ErrInvalidPubKey.
Definition new_pubkey (bs : list Z) : newpk_verdict :=
  if negb (Nat.eqb (length bs) 33) then ErrInvalidLengthPubKey
  else if pubkey_valid bs then PubKeyOK else ErrInvalidPubKey.
