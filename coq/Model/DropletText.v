(* Model/DropletText.v — C30: coin amount text <-> droplets.
   droplet.FromString = decimal.NewFromString (string-level model of what that
   function accepts, as the vendored version is written) followed by the sign /
   decimals / range checks; droplet.ToString = six-decimal fixed point.
   Text is a `list Z` of byte values. Definitions only. *)
From Sky Require Import Base.Uint Model.Base58.
Open Scope Z_scope.

Definition ch_plus := 43.  Definition ch_minus := 45.  Definition ch_dot := 46.
Definition ch_0 := 48.     Definition ch_E := 69.      Definition ch_e := 101.

Definition is_digit (c : Z) : bool := (48 <=? c) && (c <=? 57).
Definition is_exp_char (c : Z) : bool := (c =? ch_E) || (c =? ch_e).
Definition is_dot (c : Z) : bool := c =? ch_dot.

(* value of a string of decimal digits, most significant first *)
Definition uint_value (s : list Z) : Z := horner 10 (map (fun c => c - 48) s).

(* math/big SetString(s, 10) and strconv.ParseInt(s, 10, _): an optional sign
   followed by one or more decimal digits, nothing else *)
Definition parse_uint (s : list Z) : option Z :=
  match s with
  | [] => None
  | _ => if forallb is_digit s then Some (uint_value s) else None
  end.
Definition parse_int (s : list Z) : option Z :=
  match s with
  | c :: r =>
      if c =? ch_plus then parse_uint r
      else if c =? ch_minus then option_map Z.opp (parse_uint r)
      else parse_uint s
  | [] => None
  end.

Definition in_int32 (z : Z) : bool := (- 2 ^ 31 <=? z) && (z <? 2 ^ 31).

(* split at the first character satisfying p: (before, Some after) / (s, None) *)
Fixpoint split_first (p : Z -> bool) (s : list Z) : list Z * option (list Z) :=
  match s with
  | [] => ([], None)
  | c :: r =>
      if p c then ([], Some r)
      else let '(a, b) := split_first p r in (c :: a, b)
  end.

(* strings.TrimRight(s, "0") *)
Definition trim_zeros (s : list Z) : list Z :=
  rev (skipn (lead_zeros (map (fun c => c - 48) (rev s))) (rev s)).

(* decimal.NewFromString: Some (unscaled value, exponent) or None (an error) *)
Definition new_from_string (s : list Z) : option (Z * Z) :=
  let '(mant, etxt) := split_first is_exp_char s in
  match (match etxt with
         | None => Some 0
         | Some es => match parse_int es with
                      | Some e => if in_int32 e then Some e else None
                      | None => None
                      end
         end) with
  | None => None
  | Some e0 =>
      match split_first is_dot mant with
      | (p0, None) =>
          match parse_int p0 with Some v => Some (v, e0) | None => None end
      | (p0, Some p1) =>
          if existsb is_dot p1 then None                       (* too many .s *)
          else
            let dp := trim_zeros p1 in
            match parse_int (p0 ++ dp) with
            | Some v =>
                let e := e0 - Z.of_nat (List.length dp) in
                if in_int32 e then Some (v, e) else None
            | None => None
            end
      end
  end.

(* the exponent k for which FromString makes the decimal library compute 10^k
   (None: no power is computed); the cost of the call grows with 10^k *)
Definition pow10_arg (s : list Z) : option Z :=
  match new_from_string s with
  | Some (v, e) =>
      if v <? 0 then None else if e <? -6 then None
      else if 12 <? e then None
      else if e + 6 =? 0 then None else Some (e + 6)
  | None => None
  end.

(* droplet.FromString *)
Definition from_string (s : list Z) : outcome Z :=
  match new_from_string s with
  | None => Err "parse"
  | Some (v, e) =>
      if v <? 0 then Err "ErrNegativeValue"
      else if e <? -6 then Err "ErrTooManyDecimals"
      else if 12 <? e then (if v =? 0 then Ok 0 else Err "ErrTooLarge")
      else
        let w := v * 10 ^ (e + 6) in
        if MaxInt64 <? w then Err "ErrTooLarge" else Ok w
  end.

(* droplet.ToString *)
Definition dec_text (m : Z) : list Z :=
  if m =? 0 then [ch_0] else map (fun d => d + 48) (digits 10 m).
(* exactly k decimal digits of r, least significant first *)
Fixpoint fixed_rev (k : nat) (r : Z) : list Z :=
  match k with O => [] | S k' => r mod 10 :: fixed_rev k' (r / 10) end.
Definition six_digits (r : Z) : list Z := map (fun d => d + 48) (rev (fixed_rev 6 r)).
Definition to_string (n : Z) : outcome (list Z) :=
  if MaxInt64 <? n then Err "ErrTooLarge"
  else Ok (dec_text (n / 1000000) ++ [ch_dot] ++ six_digits (n mod 1000000)).

(* ---- declarative reading of the accepted syntax *)
Definition digits_text (s : list Z) : Prop := s <> [] /\ forallb is_digit s = true.
(* [+-]digits, with its value *)
Definition int_text (s : list Z) (v : Z) : Prop :=
  (digits_text s /\ v = uint_value s) \/
  (exists r, s = ch_plus :: r /\ digits_text r /\ v = uint_value r) \/
  (exists r, s = ch_minus :: r /\ digits_text r /\ v = - uint_value r).
(* mantissa [ (e|E) exponent ]; mantissa = int | [int-prefix] . fraction, where the
   text left after dropping the '.' and the fraction's trailing zeros must read
   as an int (so ".5" and "-.5" are accepted, ".0" and "." are not) *)
Definition decimal_text (s : list Z) (v e : Z) : Prop :=
  exists mant e0,
    forallb (fun c => negb (is_exp_char c)) mant = true /\
    (s = mant /\ e0 = 0 \/
     exists x es, is_exp_char x = true /\ s = mant ++ x :: es /\ int_text es e0 /\ - 2 ^ 31 <= e0 < 2 ^ 31) /\
    ((forallb (fun c => negb (is_dot c)) mant = true /\ int_text mant v /\ e = e0) \/
     (exists p0 dp k,
        mant = p0 ++ ch_dot :: dp ++ repeat ch_0 k /\
        forallb (fun c => negb (is_dot c)) (p0 ++ dp) = true /\
        (dp = [] \/ exists dp' c, dp = dp' ++ [c] /\ c <> ch_0) /\
        int_text (p0 ++ dp) v /\ e = e0 - Z.of_nat (List.length dp) /\ - 2 ^ 31 <= e < 2 ^ 31)).

(* ---- decidable helpers for the cases files *)
Definition eqb_outcome_Z (a b : outcome Z) : bool :=
  match a, b with
  | Ok x, Ok y => x =? y
  | Err e, Err f => String.eqb e f
  | _, _ => false
  end.

(* the property on one observed FromString result: accepted iff the text reads
   as a non-negative decimal v*10^e with e >= -6 whose droplet value fits, and
   then the result is exactly that value *)
Definition from_prop (c : list Z * outcome Z) : bool :=
  let '(s, o) := c in
  match new_from_string s with
  | None => match o with Err e => String.eqb e "parse" | Ok _ => false end
  | Some (v, e) =>
      (* `if`, not &&: evaluation is strict and 10^(e+6) must not be built for huge e *)
      let fits := if (0 <=? v) && (-6 <=? e) then
                    if v =? 0 then true
                    else if e <=? 12 then v * 10 ^ (e + 6) <=? MaxInt64 else false
                  else false in
      match o with
      | Ok w => if fits then w =? (if v =? 0 then 0 else v * 10 ^ (e + 6)) else false
      | Err e' => negb fits &&
                  existsb (String.eqb e') ["ErrNegativeValue"; "ErrTooManyDecimals"; "ErrTooLarge"]%string
      end
  end.

(* ToString(n) observed = o, FromString(o) observed = back *)
Definition to_prop (c : Z * outcome (list Z) * outcome Z) : bool :=
  let '(n, o, back) := c in
  if MaxInt64 <? n then
    match o with Err e => String.eqb e "ErrTooLarge" | Ok _ => false end
  else
    match o with
    | Ok s =>
        (* integer part . exactly six digits, value = n, and it reads back as n *)
        let '(ip, fp) := split_first is_dot s in
        match fp with
        | Some f =>
            forallb is_digit ip && negb (Nat.eqb (List.length ip) 0) &&
            forallb is_digit f && Nat.eqb (List.length f) 6 &&
            (uint_value ip * 1000000 + uint_value f =? n) &&
            ((Nat.eqb (List.length ip) 1) || negb (match ip with c :: _ => c =? ch_0 | [] => true end)) &&
            eqb_outcome_Z back (Ok n)
        | None => false
        end
    | Err _ => false
    end.
