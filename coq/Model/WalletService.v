(* Model/WalletService.v — C19: the wallet service's memory and disk views never diverge.

   Abstract model of src/wallet/service.go (+ wallets.go, wallet.go Save/Load):
   the service state is the in-memory wallet map, the wallet directory, the
   fingerprint map, and (ghost) the names removed by UnloadWallet. Wallets are
   abstract records; what a wallet-level function does to a wallet (generate
   addresses, lock, unlock) is reduced to the fields the property talks about.
   Every operation carries [dfail]: the wallet directory is unavailable while
   the operation runs (Save fails), so that the order "save first, then update
   memory" and the rollback in CreateWallet are part of the model.
   Definitions only; proofs are in Proofs/WalletServiceProofs.v.
   Tie: harness/c19 runs random operation sequences on a real wallet.Service and
   the cases file compares, after every operation, the error class, the memory
   view (GetWallets) and what a freshly started service loads from a copy of
   the directory with this model (Corr/C19_corr.v). *)
From Coq Require Import List String Bool ZArith.
From Sky Require Import Base.Uint.
Import ListNotations.
Open Scope Z_scope.

(* wallet types *)
Definition TDet : Z := 0.          (* "deterministic" *)
Definition TColl : Z := 1.         (* "collection": no seed, no fingerprint *)
Definition TBip : Z := 2.          (* "bip44": external chain (w_n) and change chain (w_c) of account 0 *)
Definition TXpub : Z := 3.         (* "xpub": one chain derived from an extended public key (w_seed = id of the key) *)

Record wallet : Type := mkW {
  w_name : string;    (* file name = wallet id *)
  w_type : Z;
  w_seed : Z;         (* id of the seed; 0 = none *)
  w_label : Z;        (* id of the label; 0 = empty *)
  w_enc : bool;
  w_pw : Z;           (* id of the password when encrypted, else 0 *)
  w_n : Z;            (* number of entries (bip44: on the external chain) *)
  w_c : Z;            (* bip44: number of entries on the change chain; else 0 *)
  w_coin : Z;         (* bip44: coin type of the derivation path (1 = skycoin/8000, the service default;
                         2 = bitcoin/0); else 0 *)
  w_temp : bool }.

Definition set_label (w : wallet) (l : Z) : wallet :=
  mkW (w_name w) (w_type w) (w_seed w) l (w_enc w) (w_pw w) (w_n w) (w_c w) (w_coin w) (w_temp w).
Definition set_enc (w : wallet) (e : bool) (pw : Z) : wallet :=
  mkW (w_name w) (w_type w) (w_seed w) (w_label w) e pw (w_n w) (w_c w) (w_coin w) (w_temp w).
Definition set_counts (w : wallet) (n c : Z) : wallet :=
  mkW (w_name w) (w_type w) (w_seed w) (w_label w) (w_enc w) (w_pw w) n c (w_coin w) (w_temp w).

(* Wallet.Fingerprint(): type + first address, i.e. a function of type, seed
   and, for bip44 wallets, the coin type of the derivation path (ids below 1000);
   0 = "" (collection wallets have none) *)
Definition fp_of (typ seed coin : Z) : Z :=
  if typ =? TColl then 0 else typ * 1000000 + coin * 1000 + seed + 1.
Definition fp (w : wallet) : Z := fp_of (w_type w) (w_seed w) (w_coin w).

Record st : Type := mkSt {
  mem : list wallet;              (* serv.wallets *)
  disk : list wallet;             (* files of the wallet directory *)
  fps : list (Z * string);        (* serv.fingerprints *)
  unloaded : list string }.       (* ghost: names dropped by UnloadWallet and not created again *)

Definition init : st := mkSt [] [] [] [].

Inductive op : Type :=
| Create (name : string) (typ seed coin label : Z) (enc : bool) (pw n : Z) (temp dfail : bool)
    (* coin: Options.Bip44Coin, 0 = not given (the service's configured coin, 1) *)
| NewAddr (name : string) (pw n : Z) (chg : bool) (dfail : bool)   (* chg: wallet.OptionChange() *)
| Scan (name : string) (pw num ea ca : Z) (dfail : bool)   (* ea / ca: activity on the external / change chain *)
| SetLabel (name : string) (label : Z) (dfail : bool)
| Encrypt (name : string) (pw : Z) (dfail : bool)
| Decrypt (name : string) (pw : Z) (dfail : bool)
| Recover (name : string) (seed pw : Z) (dfail : bool)
| Unload (name : string)
| UpdSecrets (name : string) (pw : Z) (fok : bool) (label : Z) (dfail : bool)
| Upd (name : string) (fok : bool) (label : Z) (dfail : bool)
(* read-only calls: they return data or an error and never change anything *)
| ViewSecrets (name : string) (pw : Z)       (* Service.ViewSecrets with a callback that only reads *)
| GetSeed (name : string) (pw : Z)           (* Service.GetWalletSeed *)
| ReadW (name : string).                     (* Service.GetWallet / View / GetAddresses *)

(* ------------------------------------------------------------------ maps by name *)

Fixpoint find (n : string) (l : list wallet) : option wallet :=
  match l with
  | [] => None
  | w :: r => if String.eqb (w_name w) n then Some w else find n r
  end.
Fixpoint put (w : wallet) (l : list wallet) : list wallet :=
  match l with
  | [] => [w]
  | x :: r => if String.eqb (w_name x) (w_name w) then w :: r else x :: put w r
  end.
Fixpoint del (n : string) (l : list wallet) : list wallet :=
  match l with
  | [] => []
  | x :: r => if String.eqb (w_name x) n then del n r else x :: del n r
  end.
Definition mem_str (n : string) (l : list string) : bool := existsb (String.eqb n) l.
Definition del_str (n : string) (l : list string) : list string := filter (fun x => negb (String.eqb x n)) l.
Definition has_fp (f : Z) (l : list (Z * string)) : bool := existsb (fun p => fst p =? f) l.
Definition del_fp (f : Z) (l : list (Z * string)) : list (Z * string) := filter (fun p => negb (fst p =? f)) l.

(* ------------------------------------------------------------------ errors *)

Definition err := option string.       (* None = the operation succeeded *)
Definition E (s : string) : err := Some s.

(* wallet.Save: temporary wallets are not written; otherwise the file is
   replaced (file.SaveBinary: all or nothing) unless the directory is unavailable *)
Definition save (dfail : bool) (w : wallet) (d : list wallet) : option (list wallet) :=
  if w_temp w then Some d else if dfail then None else Some (put w d).

(* GuardUpdate / the password checks in front of a secret-touching callback *)
Definition guard_pw (w : wallet) (pw : Z) : err :=
  if w_enc w then
    if pw =? 0 then E "ErrMissingPassword"
    else if pw =? w_pw w then None else E "ErrInvalidPassword"
  else if pw =? 0 then None else E "ErrWalletNotEncrypted".

(* the tail shared by every modifying operation: Save, then serv.wallets.set *)
Definition commit (s : st) (w : wallet) (dfail : bool) : st * err :=
  match save dfail w (disk s) with
  | None => (s, E "EDisk")
  | Some d => (mkSt (put w (mem s)) d (fps s) (unloaded s), None)
  end.

(* the wallet files CreateWallet compares the new fingerprint with: files that
   are not the file about to be written and are not the file of a non-temporary
   wallet in memory (fix 5e505b54e) *)
Definition unloaded_file_has_fp (s : st) (f : Z) (skip : string) : bool :=
  existsb (fun x => negb (String.eqb (w_name x) skip) &&
                    match find (w_name x) (mem s) with
                    | Some m => w_temp m
                    | None => true
                    end && (fp x =? f)) (disk s).

(* Create: the validation done by the creator of each wallet type, in the
   order of the code; None = the wallet is constructed *)
Definition create_check (typ seed label : Z) (enc : bool) (pw : Z) (temp : bool) : err :=
  if typ =? TXpub then
    if enc then E "EXpubNoEncrypt"                       (* validateOptions *)
    else if seed =? 0 then E "ErrMissingXPub" else None  (* no label check for xpub wallets *)
  else if negb ((typ =? TDet) || (typ =? TColl) || (typ =? TBip)) then E "ErrInvalidWalletType"
  else if label =? 0 then E "ErrMissingLabel"
  else if negb (typ =? TColl) && (seed =? 0) then E "ErrMissingSeed"
  else if enc && temp then E "ErrEncryptTempWallet"
  else if enc && (pw =? 0) then (if typ =? TBip then E "EBip44MissingPassword" else E "ErrMissingPassword")
  else None.   (* a password without encrypt is ignored: the creators only pass it on when Encrypt is set *)

(* number of addresses a scan keeps on one chain: up to the last address with
   activity among the num scanned ones (act = index + 1 of that address, 0 = none) *)
Definition keep (num act : Z) : Z := if num =? 0 then 0 else Z.min act num.

Definition step_gen (scan : bool) (s : st) (o : op) : st * err :=
  match o with
  | Create name typ seed coin label enc pw n temp dfail =>
      match create_check typ seed label enc pw temp with
      | Some e => (s, Some e)
      | None =>
        let w := mkW name typ (if typ =? TColl then 0 else seed) label enc (if enc then pw else 0)
                     (if typ =? TColl then 0 else if n =? 0 then 1 else n)
                     (if typ =? TBip then 1 else 0)
                     (if typ =? TBip then (if coin =? 0 then 1 else coin) else 0) temp in
        let f := fp w in
        if negb (f =? 0) && has_fp f (fps s) then (s, E "ErrFingerprintConflict")
        else if scan && negb (f =? 0) && negb temp && dfail then (s, E "EDisk")     (* ReadDir of the scan fails *)
        else if scan && negb (f =? 0) && negb temp && unloaded_file_has_fp s f name then (s, E "ErrFingerprintConflict")
        else match find name (mem s) with
             | Some _ => (s, E "ErrWalletNameConflict")
             | None =>
                 (* serv.wallets.add(w); Save; on failure remove it again *)
                 match save dfail w (disk s) with
                 | None => (s, E "EDisk")
                 | Some d =>
                     (mkSt (put w (mem s)) d
                           (if f =? 0 then fps s else (f, name) :: fps s)
                           (if temp then unloaded s else del_str name (unloaded s)), None)
                 end
             end
      end
  | NewAddr name pw n chg dfail =>
      match find name (mem s) with
      | None => (s, E "ErrWalletNotExist")
      | Some w =>
          (* an encrypted bip44 wallet derives addresses from public keys: no password check at all *)
          match (if (w_type w =? TBip) && w_enc w then None else guard_pw w pw) with
          | Some e => (s, Some e)
          | None =>
              let w' := if w_type w =? TColl then w
                        else if (w_type w =? TBip) && chg then set_counts w (w_n w) (w_c w + n)
                        else set_counts w (w_n w + n) (w_c w) in
              commit s w' dfail
          end
      end
  | Scan name pw num ea ca dfail =>
      match find name (mem s) with
      | None => (s, E "ErrWalletNotExist")
      | Some w =>
          if w_type w =? TBip then
            if negb (pw =? 0) then (s, E "EBip44ScanPassword")
            else commit s (set_counts w (w_n w + keep num ea) (w_c w + keep num ca)) dfail
          else
          match guard_pw w pw with
          | Some e => (s, Some e)
          | None =>
              if w_type w =? TColl then (s, E "ENoScan")
              else commit s (set_counts w (w_n w + keep num ea) (w_c w)) dfail
          end
      end
  | SetLabel name label dfail =>
      match find name (mem s) with
      | None => (s, E "ErrWalletNotExist")
      | Some w => commit s (set_label w label) dfail
      end
  | Encrypt name pw dfail =>
      match find name (mem s) with
      | None => (s, E "ErrWalletNotExist")
      | Some w =>
          if w_enc w then (s, E "ErrWalletEncrypted")
          else if w_type w =? TXpub then (s, E "EXpubNoEncrypt")
          else if w_temp w then (s, E "ErrEncryptTempWallet")
          else if pw =? 0 then (s, E "ErrMissingPassword")
          else commit s (set_enc w true pw) dfail
      end
  | Decrypt name pw dfail =>
      match find name (mem s) with
      | None => (s, E "ErrWalletNotExist")
      | Some w =>
          if negb (w_enc w) then (s, E "ErrWalletNotEncrypted")
          else if pw =? 0 then (s, E "ErrMissingPassword")
          else if negb (pw =? w_pw w) then (s, E "ErrInvalidPassword")
          else commit s (set_enc w false 0) dfail
      end
  | Recover name seed pw dfail =>
      match find name (mem s) with
      | None => (s, E "ErrWalletNotExist")
      | Some w =>
          if negb (w_enc w) then (s, E "ErrWalletNotEncrypted")
          else if negb ((w_type w =? TDet) || (w_type w =? TBip)) then (s, E "ErrWalletTypeNotRecoverable")
          (* the comparison wallet is created with the old label and the given seed:
             an empty label or seed makes that creation fail *)
          else if (w_label w =? 0) || (seed =? 0) then (s, E "ERecoverCreate")
          else if negb (fp_of (w_type w) seed (w_coin w) =? fp w) then (s, E "ErrWalletRecoverSeedWrong")
          else commit s (mkW (w_name w) (w_type w) seed (w_label w) (negb (pw =? 0)) pw (w_n w) (w_c w) (w_coin w) false) dfail
      end
  | Unload name =>
      match find name (mem s) with
      | None => (s, None)
      | Some w =>
          (mkSt (del name (mem s)) (disk s)
                (if fp w =? 0 then fps s else del_fp (fp w) (fps s))
                (if mem_str name (unloaded s) then unloaded s else name :: unloaded s), None)
      end
  | UpdSecrets name pw fok label dfail =>
      match find name (mem s) with
      | None => (s, E "ErrWalletNotExist")
      | Some w =>
          match guard_pw w pw with
          | Some e => (s, Some e)
          | None =>
              if negb fok then (s, E "EFn")
              else commit s (set_label w label) dfail
          end
      end
  | Upd name fok label dfail =>
      match find name (mem s) with
      | None => (s, E "ErrWalletNotExist")
      | Some w =>
          if negb fok then (s, E "EFn")
          else commit s (set_label w label) dfail
      end
  | ViewSecrets name pw =>
      match find name (mem s) with
      | None => (s, E "ErrWalletNotExist")
      | Some w => (s, guard_pw w pw)
      end
  | GetSeed name pw =>
      match find name (mem s) with
      | None => (s, E "ErrWalletNotExist")
      | Some w => if negb (w_enc w) then (s, E "ErrWalletNotEncrypted") else (s, guard_pw w pw)
      end
  | ReadW name =>
      match find name (mem s) with
      | None => (s, E "ErrWalletNotExist")
      | Some _ => (s, None)
      end
  end.

(* the service as it is now (CreateWallet also looks at unloaded wallet files) *)
Definition step : st -> op -> st * err := step_gen true.
(* the unchanged tree: only serv.fingerprints is consulted (F20) *)
Definition step_v0 : st -> op -> st * err := step_gen false.

Definition run (ops : list op) (s : st) : st := fold_left (fun s o => fst (step s o)) ops s.
Definition run_v0 (ops : list op) (s : st) : st := fold_left (fun s o => fst (step_v0 s o)) ops s.

(* ------------------------------------------------------------------ a fresh start on the directory *)

Inductive reloaded : Type :=
| RAbort                          (* NewService returns an error *)
| RLoaded (ws : list wallet).

Fixpoint nodup_fps (seen : list Z) (l : list wallet) : bool :=
  match l with
  | [] => true
  | w :: r => if fp w =? 0 then nodup_fps seen r
              else if existsb (Z.eqb (fp w)) seen then false else nodup_fps (fp w :: seen) r
  end.

(* loadWallets only takes files whose name ends in WalletExt = "wlt" *)
Fixpoint suffixb (suf s : string) : bool :=
  match s with
  | EmptyString => String.eqb suf s
  | String _ r => String.eqb suf s || suffixb suf r
  end.
Definition name_ok (n : string) : bool := suffixb "wlt" n.

(* wallet.NewService: load every wallet file; abort on a duplicate
   fingerprint or on an empty non-collection wallet *)
Definition reload (d : list wallet) : reloaded :=
  let v := filter (fun w => name_ok (w_name w)) d in
  if negb (nodup_fps [] v) then RAbort
  else if existsb (fun w => negb (w_type w =? TColl) && (w_n w + w_c w <=? 0)) v then RAbort
  else RLoaded v.

(* domain of the theorems: counts are not negative (uint64 in the code) and
   wallet files are named *wlt (the HTTP API always lets the service generate
   "<date>_<hex>.wlt"; a Go caller passing another name gets a wallet that the
   next start does not load) *)
Definition wf_op (o : op) : bool :=
  match o with
  | Create name _ _ _ _ _ _ n _ _ => name_ok name && (0 <=? n)
  | NewAddr _ _ n _ _ => 0 <=? n
  | Scan _ _ num ea ca _ => (0 <=? num) && (0 <=? ea) && (0 <=? ca)
  | _ => true
  end.

(* ------------------------------------------------------------------ the views compared *)

Definition eqb_wallet (a b : wallet) : bool :=
  String.eqb (w_name a) (w_name b) && (w_type a =? w_type b) && (w_seed a =? w_seed b) &&
  (w_label a =? w_label b) && Bool.eqb (w_enc a) (w_enc b) && (w_pw a =? w_pw b) &&
  (w_n a =? w_n b) && (w_c a =? w_c b) && (w_coin a =? w_coin b) && Bool.eqb (w_temp a) (w_temp b).

(* memory without temporary wallets *)
Definition non_temp (l : list wallet) : list wallet := filter (fun w => negb (w_temp w)) l.
(* the directory without the files of unloaded wallets *)
Definition not_unloaded (u : list string) (l : list wallet) : list wallet :=
  filter (fun w => negb (mem_str (w_name w) u)) l.

(* equality of two wallet maps (lists with unique names), order-independent *)
Definition sub_map (a b : list wallet) : bool :=
  forallb (fun w => match find (w_name w) b with Some x => eqb_wallet w x | None => false end) a.
Definition eq_map (a b : list wallet) : bool := sub_map a b && sub_map b a.

(* the decidable form of mem = disk after a history *)
Definition mem_eq_disk_b (s : st) : bool :=
  match reload (disk s) with
  | RAbort => false
  | RLoaded ws => eq_map (not_unloaded (unloaded s) ws) (non_temp (mem s))
  end.
