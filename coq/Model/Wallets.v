(* Model/Wallets.v — property C17: wallet address derivation.
   (1) the deterministic wallet: a single chain, each key derived from the
       previous seed by `step` (cipher.DeterministicKeyPairIterator), the wallet
       remembers the last seed;
   (2) index-derived chains (bip44 account chains, xpub wallet): entry i of chain
       j is `child j i`.
   Operations as coded in src/wallet/{deterministic,bip44wallet,xpubwallet}:
   GenerateAddresses, ScanAddresses (generate ahead, ask for activity, reset,
   regenerate existing + kept), save + reload.  Definitions only. *)
From Coq Require Import List Bool Arith.
Import ListNotations.

(* ScanAddresses: number of scanned addresses kept = position of the last active
   one, counted from 1; 0 when none is active *)
Fixpoint keep_num (active : list bool) : nat :=
  match active with
  | [] => 0
  | b :: r => match keep_num r with
              | 0 => if b then 1 else 0
              | S k => S (S k)
              end
  end.

(* ------------------------------------------------------------- deterministic *)
Section Det.
  Variable S K : Type.              (* seeds, keys (an entry is a function of its secret key) *)
  Variable step : S -> S * K.       (* cipher.DeterministicKeyPairIterator *)

  (* cipher.GenerateDeterministicKeyPairsSeed *)
  Fixpoint derive_chain (s : S) (n : nat) : S * list K :=
    match n with
    | 0 => (s, [])
    | Datatypes.S n' =>
      let (s', k) := step s in
      let (s'', ks) := derive_chain s' n' in
      (s'', k :: ks)
    end.
  Definition derive_all (s : S) (n : nat) : list K := snd (derive_chain s n).
  Definition seed_after (s : S) (n : nat) : S := fst (derive_chain s n).

  Record dwallet := { d_seed : S; d_last : S; d_entries : list K }.
  Definition d_init (s : S) : dwallet := {| d_seed := s; d_last := s; d_entries := [] |}.

  (* Wallet.GenerateAddresses: num = 0 returns at once; an empty wallet starts from
     the seed, otherwise from lastSeed *)
  Definition d_generate (n : nat) (w : dwallet) : dwallet :=
    match n with
    | 0 => w
    | _ =>
      let start := match d_entries w with [] => d_seed w | _ => d_last w end in
      let (s', ks) := derive_chain start n in
      {| d_seed := d_seed w; d_last := s'; d_entries := d_entries w ++ ks |}
    end.
  Definition d_reset (w : dwallet) : dwallet :=
    {| d_seed := d_seed w; d_last := d_seed w; d_entries := [] |}.

  (* Wallet.ScanAddresses *)
  Definition d_scan (n : nat) (act : K -> bool) (w : dwallet) : dwallet :=
    match n with
    | 0 => w
    | _ =>
      let w2 := d_generate n w in
      let scanned := skipn (length (d_entries w)) (d_entries w2) in
      let keep := keep_num (map act scanned) in
      d_generate (length (d_entries w) + keep) (d_reset w2)
    end.

  Inductive dop :=
  | DGen (n : nat)
  | DScan (n : nat) (act : K -> bool)
  | DSaveReload                           (* Serialize, write, read, Load: the same wallet *)
  | DLock | DUnlock                       (* Lock / Unlock: derivation state untouched *)
  | DFailed                               (* an operation that returned an error (finder error during a scan,
                                             generate / scan on a locked wallet, invalid count): no effect *)
  | DRead.                                (* read-only calls: Fingerprint, GetEntries, EntriesLen, Serialize, Clone ... *)

  Definition d_step (w : dwallet) (o : dop) : dwallet :=
    match o with
    | DGen n => d_generate n w
    | DScan n act => d_scan n act w
    | DSaveReload | DLock | DUnlock | DFailed | DRead => w
    end.
  Definition d_run (ops : list dop) (w : dwallet) : dwallet := fold_left d_step ops w.
  Fixpoint d_trace (ops : list dop) (w : dwallet) : list dwallet :=
    match ops with
    | [] => []
    | o :: r => let w' := d_step w o in w' :: d_trace r w'
    end.

  (* how many addresses the wallet must hold after the ops, by the documented
     meaning of the operations alone *)
  Definition d_count_step (s : S) (m : nat) (o : dop) : nat :=
    match o with
    | DGen n => m + n
    | DScan n act => m + keep_num (map act (skipn m (derive_all s (m + n))))
    | DSaveReload | DLock | DUnlock | DFailed | DRead => m
    end.
  (* the operations that can change the derivation state *)
  Definition d_effective (o : dop) : bool :=
    match o with DGen _ | DScan _ _ => true | _ => false end.
  Definition d_count (s : S) (ops : list dop) : nat := fold_left (d_count_step s) ops 0.

  (* NewWallet with the GenerateN / ScanN options *)
  Definition d_new (s : S) (gen_n scan_n : nat) (act : K -> bool) : dwallet :=
    let w := d_generate gen_n (d_init s) in
    match scan_n with
    | 0 => w
    | _ => d_scan (if gen_n <? scan_n then scan_n - gen_n else scan_n) act w
    end.
End Det.

Arguments d_seed {S K}. Arguments d_last {S K}. Arguments d_entries {S K}.
Arguments DGen {K} n. Arguments DScan {K} n act. Arguments DSaveReload {K}.
Arguments DLock {K}. Arguments DUnlock {K}. Arguments DFailed {K}. Arguments DRead {K}. Arguments d_effective {K} o.

(* ------------------------------------------------- index-derived chains *)
Section Idx.
  Variable K : Type.
  Variable child : nat -> nat -> K.     (* chain number, index -> entry *)

  (* a wallet is the list of its chains' entries (bip44: external, change of each
     account in order; xpub: one chain) *)
  Definition iwallet := list (list K).

  Definition new_entries (j : nat) (from n : nat) : list K := map (child j) (seq from n).

  (* bip44Chain.newAddresses / xpub GenerateAddresses on chain j *)
  Fixpoint i_generate_at (j0 j : nat) (n : nat) (w : iwallet) : option iwallet :=
    match w, j with
    | [], _ => None
    | c :: r, 0 => Some ((c ++ new_entries j0 (length c) n) :: r)
    | c :: r, Datatypes.S j' =>
      match i_generate_at j0 j' n r with Some r' => Some (c :: r') | None => None end
    end.
  Definition i_generate (j n : nat) (w : iwallet) : option iwallet := i_generate_at j j n w.

  (* ScanAddresses: every chain is scanned n ahead, the wallet is reset and every
     chain regenerated to its old length + the number kept *)
  Fixpoint i_scan_from (j : nat) (n : nat) (act : K -> bool) (w : iwallet) : iwallet :=
    match w with
    | [] => []
    | c :: r =>
      let keep := keep_num (map act (new_entries j (length c) n)) in
      new_entries j 0 (length c + keep) :: i_scan_from (Datatypes.S j) n act r
    end.
  Definition i_scan (n : nat) (act : K -> bool) (w : iwallet) : iwallet :=
    match n with 0 => w | _ => i_scan_from 0 n act w end.

  Inductive iop :=
  | IGen (j n : nat)
  | IScan (n : nat) (act : K -> bool)
  | ISaveReload
  | ILock                                 (* bip44 Lock: addresses untouched, later ones derived publicly *)
  | IUnlock                               (* bip44 Unlock: secrets restored / synced, addresses untouched *)
  | IFailed                               (* an operation that returned an error: no effect *)
  | INewAccount                           (* bip44 NewAccount: two more (empty) chains, external and change *)
  | IRead.                                (* read-only calls: Fingerprint, GetEntries, EntriesLen, Serialize, Clone ... *)

  (* a failing op (chain out of range) leaves the wallet unchanged *)
  Definition i_step (w : iwallet) (o : iop) : iwallet :=
    match o with
    | IGen j n => match i_generate j n w with Some w' => w' | None => w end
    | IScan n act => i_scan n act w
    | ISaveReload => w
    | ILock => w
    | IUnlock => w
    | IFailed => w
    | INewAccount => w ++ [[]; []]
    | IRead => w
    end.
  Definition i_effective (o : iop) : bool :=
    match o with IGen _ _ | IScan _ _ | INewAccount => true | _ => false end.
  Definition i_run (ops : list iop) (w : iwallet) : iwallet := fold_left i_step ops w.
  Fixpoint i_trace (ops : list iop) (w : iwallet) : list iwallet :=
    match ops with
    | [] => []
    | o :: r => let w' := i_step w o in w' :: i_trace r w'
    end.

  (* every chain is the single-shot derivation of its own length *)
  Fixpoint chains_ok_from (j : nat) (w : iwallet) : Prop :=
    match w with
    | [] => True
    | c :: r => c = new_entries j 0 (length c) /\ chains_ok_from (Datatypes.S j) r
    end.
  Definition chains_ok (w : iwallet) : Prop := chains_ok_from 0 w.
End Idx.

Arguments IGen {K} j n. Arguments IScan {K} n act. Arguments ISaveReload {K}.
Arguments ILock {K}. Arguments IUnlock {K}. Arguments IFailed {K}. Arguments INewAccount {K}. Arguments IRead {K}. Arguments i_effective {K} o.

(* ------------------------------------------------------------ coin type *)
(* The wallet's coin type selects the text form of its addresses (Skycoin base58
   or Bitcoin base58 with its version byte) and, for bip44, the coin number of the
   derivation path. It is part of the wallet (meta "coin", bip44 account
   coin_type, bip44 coin number) and every operation, save + reload included,
   keeps it: derivation after any operation uses the wallet's own coin. *)
Inductive coin := Skycoin | Bitcoin.
Definition coin_eqb (a b : coin) : bool :=
  match a, b with Skycoin, Skycoin | Bitcoin, Bitcoin => true | _, _ => false end.

Section CoinIdx.
  Variable K : Type.
  Variable child : coin -> nat -> nat -> K.   (* coin, chain, index -> entry (address text included) *)
  Record cwallet := { cw_coin : coin; cw_chains : iwallet K }.
  Definition cw_step (w : cwallet) (o : iop K) : cwallet :=
    {| cw_coin := cw_coin w; cw_chains := i_step K (child (cw_coin w)) (cw_chains w) o |}.
  Definition cw_run (ops : list (iop K)) (w : cwallet) : cwallet := fold_left cw_step ops w.
  Fixpoint cw_trace (ops : list (iop K)) (w : cwallet) : list cwallet :=
    match ops with
    | [] => []
    | o :: r => let w' := cw_step w o in w' :: cw_trace r w'
    end.
End CoinIdx.
Arguments cw_coin {K}. Arguments cw_chains {K}.

Section CoinDet.
  Variable S Sec K : Type.
  Variable step : S -> S * Sec.
  Variable key_of : coin -> Sec -> K.         (* the entry of a secret key in the coin's address form *)
  Record cdwallet := { cd_coin : coin; cd_w : dwallet S Sec }.
  Definition cd_step (w : cdwallet) (o : dop Sec) : cdwallet :=
    {| cd_coin := cd_coin w; cd_w := d_step S Sec step (cd_w w) o |}.
  Definition cd_run (ops : list (dop Sec)) (w : cdwallet) : cdwallet := fold_left cd_step ops w.
  Definition cd_entries (w : cdwallet) : list K := map (key_of (cd_coin w)) (d_entries (cd_w w)).
End CoinDet.
Arguments cd_coin {S Sec}. Arguments cd_w {S Sec}.

(* ------------------------------------------------------------ entries *)
(* a wallet entry and its coherence: the address is the address of the public
   key, the public key is the one of the secret key where one is held *)
Section Entries.
  Variable Sec Pub Addr : Type.
  Variable pub_of : Sec -> Pub.        (* cipher.PubKeyFromSecKey *)
  Variable addr_of : Pub -> Addr.      (* cipher.AddressFromPubKey *)

  Record wentry := { en_addr : Addr; en_pub : Pub; en_sec : option Sec }.
  Definition coherent (e : wentry) : Prop :=
    en_addr e = addr_of (en_pub e) /\ match en_sec e with Some s => en_pub e = pub_of s | None => True end.

  (* deterministic / collection wallets: the entry of a secret key *)
  Definition entry_of_sec (s : Sec) : wentry :=
    {| en_addr := addr_of (pub_of s); en_pub := pub_of s; en_sec := Some s |}.

  (* bip44: public key from the chain's extended public key, secret key from the
     account's extended private key; xpub wallet: public derivation only *)
  Variable cpub : nat -> nat -> Pub.   (* chain, index: PublicKey.NewPublicChildKey *)
  Variable csec : nat -> nat -> Sec.   (* chain, index: secretFromPrivateKey *)
  Definition bip44_entry (has_secret : bool) (j i : nat) : wentry :=
    {| en_addr := addr_of (cpub j i); en_pub := cpub j i; en_sec := if has_secret then Some (csec j i) else None |}.
  Definition xpub_entry (j i : nat) : wentry :=
    {| en_addr := addr_of (cpub j i); en_pub := cpub j i; en_sec := None |}.
End Entries.

(* ---- instantiation helpers for the correspondence runs (keys are address strings) *)
From Coq Require Import String.
Definition act_of (actives : list string) (k : string) : bool := existsb (String.eqb k) actives.
(* the derivation oracle as a table: seeds are positions in the chain *)
Definition step_of (table : list string) (i : nat) : nat * string :=
  (Datatypes.S i, match nth_error table i with Some k => k | None => "?"%string end).
Definition child_of (tables : list (list string)) (j i : nat) : string :=
  match nth_error tables j with
  | Some t => match nth_error t i with Some k => k | None => "?"%string end
  | None => "?"%string
  end.
