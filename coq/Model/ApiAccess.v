(* C27 — model of the HTTP API access-control chain of src/api
   (http.go newServerMux / webHandlerWithOptionals / forMethodAPISets,
    middleware.go basicAuth / ContentTypeJSONRequired / hostCheck / originRefererCheck,
    csrf.go CSRFCheck / verifyCSRFToken, rs/cors preflight).

   Definitions only.  `decide cfg r q` follows the wrappers from the outermost
   to the innermost in the order in which webHandlerWithOptionals stacks them:

     gzip (transparent) -> basicAuth -> [v2] ContentTypeJSONRequired -> hostCheck
       -> originRefererCheck -> [checkCSRF] CSRFCheck -> cors (answers preflights)
       -> ElapsedHandler (transparent) -> [sets != nil] forMethodAPISets -> handler

   What is data, not computed here (oracles, supplied by the harness from the
   same library calls the code makes): r.BasicAuth() (net/http), url.Parse(..).Host
   (net/url), iputil.IsLocalhost / SplitAddr of the configured host, and for a
   CSRF token the facts "splits in two parts", "base64 decodes", "HMAC matches",
   "JSON decodes", its expiry time. *)
From Coq Require Import String List ZArith Bool.
Import ListNotations.
Open Scope string_scope.
Open Scope Z_scope.

(* ------------------------------------------------------------------ routes *)

Inductive hdr_mode := HdrNever | HdrAlways | HdrCfg.

Record route := {
  r_path : string;
  r_v2 : bool;                                      (* apiVersion2 *)
  r_csrf : bool;                                    (* checkCSRF argument *)
  r_hdr : hdr_mode;                                 (* checkHeaders argument *)
  r_sets : option (list (string * list string))     (* None: registered without forMethodAPISets *)
}.

(* shape of Gen/Routes.v entries *)
Definition raw_route_t : Type :=
  (string * (bool * (bool * (Z * option (list (string * list string))))))%type.

Definition route_of_raw (x : raw_route_t) : route :=
  let '(p, (v2, (cs, (h, s)))) := x in
  {| r_path := p; r_v2 := v2; r_csrf := cs;
     r_hdr := (if h =? 0 then HdrNever else if h =? 1 then HdrAlways else HdrCfg);
     r_sets := s |}.

(* http.ServeMux for the registered patterns: exact path, else the "/" subtree *)
Fixpoint find_path (t : list route) (p : string) : option route :=
  match t with
  | [] => None
  | r :: t' => if String.eqb (r_path r) p then Some r else find_path t' p
  end.

Definition mux_lookup (t : list route) (p : string) : option route :=
  match find_path t p with
  | Some r => Some r
  | None => find_path t "/"
  end.

(* ------------------------------------------------------------------ config / request *)

Record config := {
  c_disable_csrf : bool;
  c_disable_hdr : bool;
  c_enabled : list string;        (* enabledAPISets *)
  c_host : string;                (* muxConfig.host *)
  c_host_local : bool;            (* iputil.IsLocalhost(address part of host)      [oracle] *)
  c_port : string;                (* port of host as printed by %d                  [oracle] *)
  c_whitelist : list string;      (* hostWhitelist *)
  c_user : string;
  c_pass : string
}.

Inductive token_view :=
| TokMalformed                                   (* header absent or not exactly two '.'-separated parts *)
| TokBadEncoding                                 (* first part is not raw-url base64 *)
| TokParsed (mac_ok json_ok : bool) (expires : Z).

Record request := {
  q_meth : string;
  q_host : string;                               (* http.Request.Host *)
  q_origin : string;
  q_referer : string;
  q_chk_host : option string;                    (* url.Parse(header checked): None = error, Some u.Host  [oracle] *)
  q_ctype : string;
  q_auth : option (string * string);             (* r.BasicAuth()                                     [oracle] *)
  q_token : token_view;
  q_now : Z;                                     (* time.Now() when the token is verified *)
  q_acrm : string                                (* Access-Control-Request-Method *)
}.

Inductive verdict := Handler | Status (n : Z).

(* ------------------------------------------------------------------ helpers *)

Definition mem (x : string) (l : list string) : bool := existsb (String.eqb x) l.

Fixpoint assoc {A} (k : string) (l : list (string * A)) : option A :=
  match l with
  | [] => None
  | (k', v) :: l' => if String.eqb k' k then Some v else assoc k l'
  end.

Definition nonempty_s (s : string) : bool := negb (String.eqb s "").

Definition content_type_json : string := "application/json".

(* isContentTypeJSON *)
Definition is_jsonb (c : string) : bool :=
  String.eqb c content_type_json || String.prefix (content_type_json ++ ";") c.

(* CSRFCheck: case http.MethodPost, http.MethodPut, http.MethodDelete *)
Definition state_changingb (m : string) : bool :=
  String.eqb m "POST" || String.eqb m "PUT" || String.eqb m "DELETE".

(* hostCheck's whitelist map *)
Definition accepted_hosts (cfg : config) : list string :=
  c_whitelist cfg ++ ["127.0.0.1:" ++ c_port cfg; "localhost:" ++ c_port cfg].

(* originRefererCheck's whitelist map *)
Definition accepted_origins (cfg : config) : list string :=
  if c_host_local cfg
  then c_whitelist cfg ++ ["127.0.0.1:" ++ c_port cfg; "localhost:" ++ c_port cfg]
  else c_whitelist cfg ++ [c_host cfg].

Definition hdr_onb (cfg : config) (r : route) : bool :=
  match r_hdr r with
  | HdrNever => false
  | HdrAlways => true
  | HdrCfg => negb (c_disable_hdr cfg)
  end.

(* ------------------------------------------------------------------ the wrappers, outermost first *)

(* basicAuth (after the F8a repair: user and password compared separately) *)
Definition basic_auth_pass (cfg : config) (q : request) : bool :=
  let needs_auth := nonempty_s (c_user cfg) || nonempty_s (c_pass cfg) in
  if needs_auth then
    match q_auth q with
    | None => false
    | Some (u, p) => String.eqb u (c_user cfg) && String.eqb p (c_pass cfg)
    end
  else
    match q_auth q with
    | None => true          (* BasicAuth() returns "", "", false *)
    | Some (u, p) => negb (nonempty_s u || nonempty_s p)
    end.

(* the code before the repair compared sha256(user ++ pass); under collision
   freedom that is equality of the concatenations.  Kept to state what F8a was. *)
Definition basic_auth_pass_concat (cfg : config) (q : request) : bool :=
  let needs_auth := nonempty_s (c_user cfg) || nonempty_s (c_pass cfg) in
  if needs_auth then
    match q_auth q with
    | None => false
    | Some (u, p) => String.eqb (u ++ p) (c_user cfg ++ c_pass cfg)
    end
  else
    match q_auth q with
    | None => true
    | Some (u, p) => negb (nonempty_s u || nonempty_s p)
    end.

(* ContentTypeJSONRequired, only wrapped around v2 endpoints *)
Definition content_type_pass (r : route) (q : request) : bool :=
  if r_v2 r && String.eqb (q_meth q) "POST" then is_jsonb (q_ctype q) else true.

(* hostCheck *)
Definition host_pass (cfg : config) (q : request) : bool :=
  negb (c_host_local cfg && nonempty_s (q_host q) && negb (mem (q_host q) (accepted_hosts cfg))).

(* originRefererCheck *)
Definition checked_header (q : request) : string :=
  if String.eqb (q_origin q) "" then q_referer q else q_origin q.

Definition origin_pass (cfg : config) (q : request) : bool :=
  if nonempty_s (checked_header q) then
    match q_chk_host q with
    | None => false
    | Some h => mem h (accepted_origins cfg)
    end
  else true.

(* verifyCSRFToken *)
Definition token_passb (q : request) : bool :=
  match q_token q with
  | TokMalformed => false
  | TokBadEncoding => false
  | TokParsed mac_ok json_ok expires =>
      if negb mac_ok then false
      else if negb json_ok then false
      else negb (q_now q >? expires)       (* time.Now().After(ExpiresAt) *)
  end.

(* CSRFCheck *)
Definition csrf_pass (cfg : config) (r : route) (q : request) : bool :=
  if r_csrf r then
    if negb (c_disable_csrf cfg) then
      if state_changingb (q_meth q) then token_passb q else true
    else true
  else true.

(* rs/cors Handler with OptionsPassthrough = false *)
Definition is_preflight (q : request) : bool :=
  String.eqb (q_meth q) "OPTIONS" && nonempty_s (q_acrm q).

(* forMethodAPISets *)
Definition api_sets_decide (cfg : config) (tbl : list (string * list string)) (q : request) : verdict :=
  match assoc (q_meth q) tbl with
  | None => Status 405
  | Some [] => Status 405
  | Some sets => if existsb (fun k => mem k (c_enabled cfg)) sets then Handler else Status 403
  end.

Definition decide (cfg : config) (r : route) (q : request) : verdict :=
  if negb (basic_auth_pass cfg q) then Status 401 else
  if negb (content_type_pass r q) then Status 415 else
  if hdr_onb cfg r && negb (host_pass cfg q) then Status 403 else
  if hdr_onb cfg r && negb (origin_pass cfg q) then Status 403 else
  if negb (csrf_pass cfg r q) then Status 403 else
  if is_preflight q then Status 200 else
  match r_sets r with
  | None => Handler
  | Some tbl => api_sets_decide cfg tbl q
  end.

(* the unrepaired chain (F8a), for the record *)
Definition decide_concat (cfg : config) (r : route) (q : request) : verdict :=
  if negb (basic_auth_pass_concat cfg q) then Status 401 else
  decide {| c_disable_csrf := c_disable_csrf cfg; c_disable_hdr := c_disable_hdr cfg;
            c_enabled := c_enabled cfg; c_host := c_host cfg; c_host_local := c_host_local cfg;
            c_port := c_port cfg; c_whitelist := c_whitelist cfg; c_user := ""; c_pass := "" |}
         r {| q_meth := q_meth q; q_host := q_host q; q_origin := q_origin q; q_referer := q_referer q;
              q_chk_host := q_chk_host q; q_ctype := q_ctype q; q_auth := None; q_token := q_token q;
              q_now := q_now q; q_acrm := q_acrm q |}.

(* ------------------------------------------------------------------ the property's clauses, declaratively *)

Definition sets_for (r : route) (m : string) : list string :=
  match r_sets r with
  | None => []
  | Some tbl => match assoc m tbl with Some s => s | None => [] end
  end.

(* the method is served at the endpoint (an endpoint registered without a
   method table leaves the decision to its handler) *)
Definition method_served (r : route) (m : string) : Prop :=
  r_sets r = None \/ sets_for r m <> [].

Definition known_sets : list string :=
  ["READ"; "STATUS"; "TXN"; "WALLET"; "INSECURE_WALLET_SEED"; "NET_CTRL"; "STORAGE"].

(* endpoints that are documented to be available whatever API sets are enabled *)
Definition exempt_paths : list string := ["/"; "/api/v1/csrf"; "/api/v1/version"].

(* the one endpoint that hands out tokens and therefore cannot ask for one *)
Definition csrf_exempt_paths : list string := ["/api/v1/csrf"].

(* one of the endpoint's API sets for that method is enabled; an endpoint
   without API sets counts as enabled only if it is one of the documented
   always-available ones *)
Definition api_enabled (cfg : config) (r : route) (m : string) : Prop :=
  match r_sets r with
  | None => In (r_path r) exempt_paths
  | Some _ => exists s, In s (sets_for r m) /\ In s (c_enabled cfg)
  end.

(* a registration without API sets is one of the documented exemptions *)
Definition sets_or_exempt (r : route) : Prop := r_sets r = None -> In (r_path r) exempt_paths.

Definition state_changing (m : string) : Prop := m = "POST" \/ m = "PUT" \/ m = "DELETE".

(* a token issued by this node (MAC under the node's key), well formed, unexpired *)
Definition token_ok (q : request) : Prop :=
  exists e, q_token q = TokParsed true true e /\ q_now q <= e.

Definition csrf_ok (cfg : config) (r : route) (q : request) : Prop :=
  r_csrf r = true -> c_disable_csrf cfg = false -> state_changing (q_meth q) -> token_ok q.

Definition hdr_on (cfg : config) (r : route) : Prop :=
  match r_hdr r with
  | HdrNever => False
  | HdrAlways => True
  | HdrCfg => c_disable_hdr cfg = false
  end.

Definition host_ok (cfg : config) (q : request) : Prop :=
  c_host_local cfg = true -> q_host q <> "" -> In (q_host q) (accepted_hosts cfg).

Definition origin_ok (cfg : config) (q : request) : Prop :=
  checked_header q <> "" -> exists h, q_chk_host q = Some h /\ In h (accepted_origins cfg).

Definition creds_configured (cfg : config) : Prop := c_user cfg <> "" \/ c_pass cfg <> "".

Definition creds_ok (cfg : config) (q : request) : Prop :=
  (creds_configured cfg -> q_auth q = Some (c_user cfg, c_pass cfg)) /\
  (~ creds_configured cfg -> forall u p, q_auth q = Some (u, p) -> u = "" /\ p = "").

Definition is_json (c : string) : Prop :=
  c = content_type_json \/ exists rest, c = (content_type_json ++ ";") ++ rest.

Definition ctype_ok (r : route) (q : request) : Prop :=
  r_v2 r = true -> q_meth q = "POST" -> is_json (q_ctype q).

Definition preflight (q : request) : Prop := q_meth q = "OPTIONS" /\ q_acrm q <> "".

(* right-hand side of reaches_iff *)
Definition may_reach (cfg : config) (r : route) (q : request) : Prop :=
  method_served r (q_meth q) /\ api_enabled cfg r (q_meth q) /\ csrf_ok cfg r q /\
  (hdr_on cfg r -> host_ok cfg q /\ origin_ok cfg q) /\ creds_ok cfg q /\ ctype_ok r q /\ ~ preflight q.

(* decidable form of the same clauses, written independently of `decide`
   (flat conjunction, no ordering); used on the implementation's outputs *)
Definition may_reachb (cfg : config) (r : route) (q : request) : bool :=
  let m := q_meth q in
  let served := match r_sets r with None => true | Some _ => match sets_for r m with [] => false | _ => true end end in
  let enabled := match r_sets r with None => mem (r_path r) exempt_paths | Some _ => existsb (fun s => mem s (c_enabled cfg)) (sets_for r m) end in
  let csrf := negb (r_csrf r && negb (c_disable_csrf cfg) && state_changingb m) ||
              match q_token q with TokParsed true true e => q_now q <=? e | _ => false end in
  let hdr := negb (hdr_onb cfg r) ||
             ((negb (c_host_local cfg) || String.eqb (q_host q) "" || mem (q_host q) (accepted_hosts cfg)) &&
              (String.eqb (checked_header q) "" ||
               match q_chk_host q with Some h => mem h (accepted_origins cfg) | None => false end)) in
  let creds := if nonempty_s (c_user cfg) || nonempty_s (c_pass cfg)
               then match q_auth q with Some (u, p) => String.eqb u (c_user cfg) && String.eqb p (c_pass cfg) | None => false end
               else match q_auth q with Some (u, p) => String.eqb u "" && String.eqb p "" | None => true end in
  let ctype := negb (r_v2 r && String.eqb m "POST") || is_jsonb (q_ctype q) in
  let nopre := negb (String.eqb m "OPTIONS" && nonempty_s (q_acrm q)) in
  served && enabled && csrf && hdr && creds && ctype && nopre.

(* ------------------------------------------------------------------ well-formed tables *)

Fixpoint nodupb (l : list string) : bool :=
  match l with
  | [] => true
  | x :: l' => negb (mem x l') && nodupb l'
  end.

Definition wf_setsb (tbl : list (string * list string)) : bool :=
  nodupb (map fst tbl) &&
  forallb (fun e => match snd e with [] => false | _ => forallb (fun s => mem s known_sets) (snd e) end) tbl.

Definition wf_routeb (r : route) : bool :=
  match r_sets r with
  | None => mem (r_path r) exempt_paths
  | Some tbl => match tbl with [] => false | _ => wf_setsb tbl end
  end &&
  (r_csrf r || mem (r_path r) csrf_exempt_paths) &&
  match r_hdr r with HdrCfg => true | HdrAlways => true | HdrNever => false end.

Definition wf_tableb (t : list route) : bool :=
  forallb wf_routeb t && nodupb (map r_path t) && mem "/" (map r_path t).

(* ------------------------------------------------------------------ token service (csrf.go) *)

(* CSRFMaxAge = 30 s, in nanoseconds *)
Definition csrf_max_age : Z := 30 * 1000000000.

(* The node keeps no per-token state: csrf.go's only package state is the
   HMAC key drawn once at start-up.  The state of the token service is
   therefore `unit`; issuing a token at time `now` returns a token that
   verifies (mac_ok, json_ok) and expires at now + CSRFMaxAge. *)
Definition csrf_state := unit.
Definition csrf_issue (s : csrf_state) (now : Z) : csrf_state * token_view :=
  (s, TokParsed true true (now + csrf_max_age)).
Definition with_token (q : request) (tk : token_view) (now : Z) : request :=
  {| q_meth := q_meth q; q_host := q_host q; q_origin := q_origin q; q_referer := q_referer q;
     q_chk_host := q_chk_host q; q_ctype := q_ctype q; q_auth := q_auth q; q_token := tk;
     q_now := now; q_acrm := q_acrm q |}.

(* README: "Requesting a CSRF token invalidates any previous CSRF token." *)
Definition old_token_invalidated : Prop :=
  forall cfg r q s0 t1 t2 t3,
    t1 <= t2 -> t2 <= t3 ->
    r_csrf r = true -> c_disable_csrf cfg = false -> state_changing (q_meth q) ->
    let '(s1, tk1) := csrf_issue s0 t1 in
    let '(s2, tk2) := csrf_issue s1 t2 in
    decide cfg r (with_token q tk1 t3) <> Handler.

(* ------------------------------------------------------------------ comparison with the running mux *)

(* Observable: HTTP status of the response (0 = the handler ran into the
   harness's gateway stub, which panics — i.e. the endpoint's logic was reached).
   With that stub an endpoint's own logic never answers 401 or 403; 415 is given
   by a handler only on v1 (wallet/transaction), 405 by a handler only for
   endpoints without a method table (csrf, version). *)
Definition obs_matches (r : route) (v : verdict) (status : Z) : bool :=
  match v with
  | Status n => status =? n
  | Handler =>
      negb (status =? 401) && negb (status =? 403) &&
      (negb (status =? 415) || negb (r_v2 r)) &&
      (negb (status =? 405) || match r_sets r with None => true | Some _ => false end)
  end.

(* Decidable property on the implementation's own answer: the request reached
   the endpoint's logic iff the property's clauses all hold; a refusal carries
   one of the documented statuses. *)
Definition obs_reached (r : route) (status : Z) : bool := obs_matches r Handler status.

Definition prop_holds (cfg : config) (r : route) (q : request) (status : Z) : bool :=
  if may_reachb cfg r q then obs_reached r status
  else negb (obs_reached r status) || (is_preflight q && (status =? 200)).
