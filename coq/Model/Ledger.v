(* Model/Ledger.v — executable model of block execution (properties C01, C02,
   C04) on a non-arbitrating node (exec_block: every node that receives blocks
   from the network) and on an arbitrating node (exec_block_arb: the block
   publisher's configuration, where processTransactions sorts the transactions
   and silently drops the invalid / conflicting ones). Definitions only.

   Mirrors, check by check and in the code's order,
     Visor.ExecuteSignedBlock -> executeSignedBlock (signature)
       -> Blockchain.ExecuteBlock -> processBlock
            isGenesisBlock, verifyBlockHeader, processTransactions
              (VerifyBlockTxnConstraints = Unspents.GetArray + transaction.
               VerifyBlockTxnConstraints [Transaction.Verify, VerifyInputSignatures,
               HasDupes, VerifyTransactionCoinsSpending, VerifyTransactionHoursSpending]
               + the DebugLevel1 Contains check), duplicate outputs across the
              block, pairwise duplicate spends), verifyUxHash
       -> blockdb.AddBlock (block tree duplicate check, Unspents.ProcessBlock)
   in src/visor/visor.go, src/visor/blockchain.go, src/transaction/verify.go,
   src/coin/transactions.go, src/coin/block.go, src/visor/blockdb/*.go.

   Hashes and signatures are data: every hash is a number chosen by the harness
   (an id; the null hash is 0), a transaction arrives with the ids its outputs
   get, and with the per-signature facts computed by the implementation.
   The unspent-set checksum is the xor of the (projected) snapshot hashes.
   The 64-bit sums use the translated mathutil.AddUint64 (Gen/Mathutil.v) and
   the coin-hour formula is the translated UxOut.CoinHours (Gen/CoinHours.v).
   The whole execution runs in one bolt Update: a rejected block leaves the
   state unchanged (checked against the implementation after every op). *)
From Sky Require Import Base.Uint Gen.Mathutil Gen.CoinHours.
From Sky Require Export Model.LedgerTypes.
Open Scope Z_scope.

(* Unspents.GetArray: every hash must be in the pool *)
Fixpoint get_array (hs : list Z) (pool : list ux) : option (list ux) :=
  match hs with
  | [] => Some []
  | h :: r => match find_ux h pool with
              | None => None
              | Some u => match get_array r pool with None => None | Some l => Some (u :: l) end
              end
  end.

(* acc, x1, x2 ... added with mathutil.AddUint64; None = overflow error *)
Fixpoint add_all (acc : Z) (l : list Z) : res (option Z) :=
  match l with
  | [] => Val (Some acc)
  | x :: r => bind (AddUint64 acc x) (fun '(c, e) => if is_err e then Val None else add_all c r)
  end.

(* ---- coin.Transaction.Verify (signed) *)
Fixpoint sigs_verify (l : list sigfact) : chk :=
  match l with
  | [] => Pass
  | s :: r => guard (negb (sg_null s)) EUnsigned ;; guard (sg_recovers s) ESigRecover ;; sigs_verify r
  end.

Definition txn_verify (t : txn) : chk :=
  guard (negb (lenZ (t_ins t) =? 0)) ENoInputs ;;
  guard (negb (lenZ (t_outs t) =? 0)) ENoOutputs ;;
  guard (lenZ (t_sigs t) =? lenZ (t_ins t)) ESigCount ;;
  guard (lenZ (t_sigs t) <=? 65535) ETooMany ;;
  guard (lenZ (t_outs t) <=? 65535) ETooMany ;;
  guard (nodupZ (t_ins t)) EDupSpend ;;
  guard (t_type t =? 0) EType ;;
  guard (forallb (fun o => negb (o_coins o =? 0)) (t_outs t)) EZeroCoin ;;
  match add_all 0 (map o_coins (t_outs t)) with
  | Panic => Boom
  | Val None => Fail EOutOverflow
  | Val (Some _) =>
      guard (t_len_ok t) ELength ;;
      guard (nodupZ (map o_id (t_outs t))) EDupOut ;;
      guard (t_inner_ok t) EInner ;;
      sigs_verify (t_sigs t)
  end.

(* ---- coin.Transaction.VerifyInputSignatures: the prelude cannot fail after
   Verify (same lengths, inner hash checked, uxIn fetched by these hashes) *)
Fixpoint sigs_match (sg : list sigfact) (uxin : list ux) : chk :=
  match sg, uxin with
  | s :: sr, u :: ur =>
      guard (negb (sg_null s)) EUnsigned ;;
      guard (sg_recovers s && (sg_signer s =? u_addr u)) ESigAddr ;;
      sigs_match sr ur
  | _, _ => Pass
  end.

(* ---- coin.VerifyTransactionCoinsSpending *)
Definition coins_spending (uxin : list ux) (outs : list txout) : chk :=
  match add_all 0 (map u_coins uxin) with
  | Panic => Boom
  | Val None => Fail EInOverflow
  | Val (Some cin) =>
      match add_all 0 (map o_coins outs) with
      | Panic => Boom
      | Val None => Fail EOutOverflow2
      | Val (Some cout) =>
          guard (negb (cin <? cout)) EInsufficientCoins ;;
          guard (negb (cin >? cout)) EDestroyCoins
      end
  end.

(* ---- coin.VerifyTransactionHoursSpending: input hours accrue to the head
   time; the ErrAddEarnedCoinHoursAdditionOverflow case counts as 0 hours; the
   output hours are added WITHOUT an overflow check (legacy consensus rule) *)
Definition E_AddEarned : string := "ErrAddEarnedCoinHoursAdditionOverflow".
Inductive hrs := HOk (h : Z) | HErr (e : err) | HBoom.
Fixpoint hours_in (head_time : Z) (acc : Z) (uxin : list ux) : hrs :=
  match uxin with
  | [] => HOk acc
  | u :: r =>
      match UxOut_CoinHours (u_time u) (u_coins u) (u_hours u) head_time with
      | Panic => HBoom
      | Val (h, e) =>
          let oh := match e with
                    | None => Some h
                    | Some s => if String.eqb s E_AddEarned then Some 0 else None
                    end in
          match oh with
          | None => HErr ECoinHours
          | Some h' =>
              match AddUint64 acc h' with
              | Panic => HBoom
              | Val (c, e2) => if is_err e2 then HErr EInHoursOverflow else hours_in head_time c r
              end
          end
      end
  end.
Definition hours_out (outs : list txout) : Z :=
  fold_left (fun a o => wrap 64 (a + o_hours o)) outs 0.
Definition hours_spending (head_time : Z) (uxin : list ux) (outs : list txout) : chk :=
  match hours_in head_time 0 uxin with
  | HBoom => Boom
  | HErr e => Fail e
  | HOk hin => guard (negb (hin <? hours_out outs)) EInsufficientHours
  end.

(* ids of coin.CreateUnspents(head, txn): the source hash is null when the
   head is the genesis block (BkSeq 0) *)
Definition chk_ids (head : block) (t : txn) : list Z :=
  if h_seq (b_head head) =? 0 then t_ids0 t else map o_id (t_outs t).

(* ---- Blockchain.VerifyBlockTxnConstraints (every failure in here is an
   ErrTxnViolatesHardConstraint) *)
Definition block_txn_constraints (pool : list ux) (head : block) (t : txn) : chk :=
  match get_array (t_ins t) pool with
  | None => Fail EUnspentMissing
  | Some uxin =>
      txn_verify t ;;
      sigs_match (t_sigs t) uxin ;;
      guard (nodupZ (chk_ids head t)) EDupOut ;;
      coins_spending uxin (t_outs t) ;;
      hours_spending (h_time (b_head head)) uxin (t_outs t) ;;
      guard (forallb (fun i => negb (memZ i (ids pool))) (chk_ids head t)) ECollide
  end.

(* ---- processTransactions, non-arbitrating: first loop *)
(* "each pending unspent will be unique": seen = ids of the earlier transactions' outputs *)
Fixpoint outs_unique (pool : list ux) (seen : list Z) (outs : list txout) : err + list Z :=
  match outs with
  | [] => inr seen
  | o :: r =>
      if memZ (o_id o) seen then inl EDupOutAcross
      else if memZ (o_id o) (ids pool) then inl EOutInPool
      else outs_unique pool (o_id o :: seen) r
  end.
Fixpoint txns_loop (pool : list ux) (head : block) (seen : list Z) (ts : list txn) : chk :=
  match ts with
  | [] => Pass
  | t :: r =>
      block_txn_constraints pool head t ;;
      match outs_unique pool seen (t_outs t) with
      | inl e => Fail e
      | inr seen' => txns_loop pool head seen' r
      end
  end.
(* second loop: no two transactions with one hash, no output spent twice in the block *)
Definition shares_input (s t : txn) : bool := existsb (fun a => memZ a (t_ins t)) (t_ins s).
Fixpoint pair_one (s : txn) (ts : list txn) : chk :=
  match ts with
  | [] => Pass
  | t :: r => guard (negb (t_hash s =? t_hash t)) EDupTxn ;;
              guard (negb (shares_input s t)) EDoubleSpend ;;
              pair_one s r
  end.
Fixpoint pairwise (ts : list txn) : chk :=
  match ts with
  | [] => Pass
  | s :: r => pair_one s r ;; pairwise r
  end.
Definition process_txns (pool : list ux) (head : block) (ts : list txn) : chk :=
  guard (negb (lenZ ts =? 0)) ENoTxns ;;
  txns_loop pool head [] ts ;;
  pairwise ts.

(* ---- processTransactions, ARBITRATING mode ------------------------------------
   1. coin.SortTransactions with Blockchain.TransactionFee at the head time:
      a transaction whose fee cannot be computed is dropped; order = fee per KB
      descending, then hash ascending;
   2. no transactions left: the (empty) list is returned without error;
   3. first loop: a transaction failing VerifyBlockTxnConstraints is skipped; a
      transaction one of whose output ids was seen before in the block, or is in
      the unspent pool, is skipped — but its OTHER outputs still enter the seen set;
   4. second loop (after F19's repair): a transaction sharing an input with an
      earlier transaction that was kept is skipped; two transactions with one
      hash (the earlier one kept) are an error even here. *)

(* fee.TransactionFee: UxArray.CoinHours (every CoinHours error is an error
   here), Transaction.OutputHours (checked sum), in >= out *)
Fixpoint hours_in_strict (head_time : Z) (acc : Z) (uxin : list ux) : res (option Z) :=
  match uxin with
  | [] => Val (Some acc)
  | u :: r =>
      bind (UxOut_CoinHours (u_time u) (u_coins u) (u_hours u) head_time) (fun '(h, e) =>
      if is_err e then Val None
      else bind (AddUint64 acc h) (fun '(c, e2) =>
           if is_err e2 then Val None else hours_in_strict head_time c r))
  end.
Definition fee_of (pool : list ux) (head_time : Z) (t : txn) : res (option Z) :=
  match get_array (t_ins t) pool with
  | None => Val None
  | Some uxin =>
      bind (hours_in_strict head_time 0 uxin) (fun hin =>
      match hin with
      | None => Val None
      | Some hi =>
          bind (add_all 0 (map o_hours (t_outs t))) (fun hout =>
          match hout with
          | None => Val None
          | Some ho => Val (if hi <? ho then None else Some (hi - ho))
          end)
      end)
  end.
(* feeKB = fee*1024 saturating at 2^64-1; priority = feeKB / size *)
Definition fee_prio (fee size : Z) : res Z :=
  bind (MultUint64 fee 1024) (fun '(k, e) =>
  udiv (if is_err e then 18446744073709551615 else k) size).
Fixpoint sortable (pool : list ux) (head_time : Z) (ts : list txn) : res (list (Z * txn)) :=
  match ts with
  | [] => Val []
  | t :: r =>
      bind (fee_of pool head_time t) (fun f =>
      match f with
      | None => sortable pool head_time r
      | Some fee =>
          bind (fee_prio fee (t_size t)) (fun k =>
          bind (sortable pool head_time r) (fun r' => Val ((k, t) :: r')))
      end)
  end.
Definition less (a b : Z * txn) : bool :=
  if fst a =? fst b then t_hkey (snd a) <? t_hkey (snd b) else fst a >? fst b.
(* sort.Sort is unstable, but `less` is total on distinct hashes and equal
   entries are the same transaction: insertion sort is the representative *)
Fixpoint insert_by (x : Z * txn) (l : list (Z * txn)) : list (Z * txn) :=
  match l with
  | [] => [x]
  | y :: r => if less y x then y :: insert_by x r else x :: y :: r
  end.
Definition sort_txns (pool : list ux) (head_time : Z) (ts : list txn) : res (list txn) :=
  bind (sortable pool head_time ts) (fun l => Val (map snd (fold_right insert_by [] l))).

(* first loop: outputs of one transaction; (skip?, seen') *)
Fixpoint outs_arb (pool : list ux) (seen : list Z) (outs : list txout) : bool * list Z :=
  match outs with
  | [] => (false, seen)
  | o :: r =>
      if memZ (o_id o) seen || memZ (o_id o) (ids pool)
      then (true, snd (outs_arb pool seen r))
      else outs_arb pool (o_id o :: seen) r
  end.
Fixpoint loop1_arb (pool : list ux) (head : block) (seen : list Z) (ts : list txn) : option (list txn) :=
  match ts with
  | [] => Some []
  | t :: r =>
      match block_txn_constraints pool head t with
      | Boom => None
      | Fail _ => loop1_arb pool head seen r          (* every failure is a hard-constraint error: skip *)
      | Pass =>
          let so := outs_arb pool seen (t_outs t) in
          match loop1_arb pool head (snd so) r with
          | None => None
          | Some l => Some (if fst so then l else t :: l)
          end
      end
  end.
(* second loop: kept = earlier transactions that were not skipped *)
Fixpoint arb2 (kept : list txn) (l : list txn) : err + list txn :=
  match l with
  | [] => inr []
  | t :: r =>
      if existsb (fun s => shares_input s t) kept then arb2 kept r
      else if existsb (fun u => t_hash t =? t_hash u) r then inl EDupTxn
      else match arb2 (t :: kept) r with
           | inl e => inl e
           | inr l' => inr (t :: l')
           end
  end.
Inductive arb_result := ArbOk (l : list txn) | ArbErr (e : err) | ArbBoom.
Definition process_txns_arb (pool : list ux) (head : block) (ts : list txn) : arb_result :=
  match sort_txns pool (h_time (b_head head)) ts with
  | Panic => ArbBoom
  | Val sorted =>
      match loop1_arb pool head [] sorted with
      | None => ArbBoom
      | Some l1 => match arb2 [] l1 with inl e => ArbErr e | inr l2 => ArbOk l2 end
      end
  end.

(* ---- verifyBlockHeader *)
Definition verify_header (head b : block) : chk :=
  guard (h_seq (b_head b) =? wrap 64 (h_seq (b_head head) + 1)) EBkSeq ;;
  guard (negb (h_time (b_head b) <=? h_time (b_head head))) ETime ;;
  guard (h_prev (b_head b) =? b_hash head) EPrevHash ;;
  guard (b_body_actual b =? h_body (b_head b)) EBodyHash.

(* ---- blockdb: Unspents.ProcessBlock *)
Definition all_ins (ts : list txn) : list Z := flat_map t_ins ts.
Definition created_of (time : Z) (t : txn) : list ux :=
  map (fun o => mkUx (o_id o) (o_coins o) (o_hours o) (o_addr o) time (o_snap o)) (t_outs t).
Definition created (b : block) : list ux := flat_map (created_of (h_time (b_head b))) (b_txns b).
Definition remove_ids (hs : list Z) (pool : list ux) : list ux :=
  filter (fun u => negb (memZ (u_id u) hs)) pool.
Definition xor_all (x : Z) (l : list ux) : Z := fold_left (fun a u => Z.lxor a (u_snap u)) l x.

Definition genesis_of (c : list block) : option block := last (map Some c) None.

Definition apply_block (s : state) (b : block) (spent : list ux) : state :=
  mkState (b :: chain s)
          (remove_ids (all_ins (b_txns b)) (utxo s) ++ created b)
          (xor_all (xor_all (xorsum s) spent) (created b)).

(* ---- Visor.ExecuteSignedBlock *)
Definition exec_block (s : state) (b : block) : state * outcome :=
  match chain s with
  | [] => (s, Rejected EOther)      (* Visor.Init always stores the genesis block first *)
  | head :: _ =>
      let pre :=
        guard (b_sig_ok b) ESig ;;
        guard (negb (eqb_option Z.eqb (option_map b_hash (genesis_of (chain s))) (Some (b_hash b)))) EGenesis ;;
        verify_header head b ;;
        process_txns (utxo s) head (b_txns b) ;;
        guard (h_uxhash (b_head b) =? xorsum s) EUxHash ;;
        (* blockTree.AddBlock: a block with this header hash is already stored *)
        guard (negb (memZ (b_hash b) (map b_hash (chain s)))) EStore in
      match pre with
      | Fail e => (s, Rejected e)
      | Boom => (s, Crashed)
      | Pass =>
          (* Unspents.ProcessBlock *)
          match get_array (all_ins (b_txns b)) (utxo s) with
          | None => (s, Rejected EUnspentMissing)
          | Some spent =>
              if forallb (fun u => negb (memZ (u_id u) (ids (remove_ids (all_ins (b_txns b)) (utxo s))))) (created b)
              then (apply_block s b spent, Accepted)
              else (s, Rejected EInsertTwice)
          end
      end
  end.

(* the block as an arbitrating node stores it: same header, filtered body *)
Definition set_txns (b : block) (l : list txn) : block :=
  mkBlock (b_head b) (b_hash b) (b_body_actual b) (b_sig_ok b) l.

(* ---- Visor.ExecuteSignedBlock on an ARBITRATING node: the same checks in the
   same order; processTransactions returns the kept transactions, and the block
   stored and applied to the unspent set is the offered header with that body *)
Definition exec_block_arb (s : state) (b : block) : state * outcome :=
  match chain s with
  | [] => (s, Rejected EOther)
  | head :: _ =>
      let pre :=
        guard (b_sig_ok b) ESig ;;
        guard (negb (eqb_option Z.eqb (option_map b_hash (genesis_of (chain s))) (Some (b_hash b)))) EGenesis ;;
        verify_header head b in
      match pre with
      | Fail e => (s, Rejected e)
      | Boom => (s, Crashed)
      | Pass =>
          match process_txns_arb (utxo s) head (b_txns b) with
          | ArbBoom => (s, Crashed)
          | ArbErr e => (s, Rejected e)
          | ArbOk kept =>
              let post :=
                guard (h_uxhash (b_head b) =? xorsum s) EUxHash ;;
                guard (negb (memZ (b_hash b) (map b_hash (chain s)))) EStore in
              match post with
              | Fail e => (s, Rejected e)
              | Boom => (s, Crashed)
              | Pass =>
                  let nb := set_txns b kept in
                  match get_array (all_ins kept) (utxo s) with
                  | None => (s, Rejected EUnspentMissing)
                  | Some spent =>
                      if forallb (fun u => negb (memZ (u_id u) (ids (remove_ids (all_ins kept) (utxo s))))) (created nb)
                      then (apply_block s nb spent, Accepted)
                      else (s, Rejected EInsertTwice)
                  end
              end
          end
      end
  end.

Definition step (s : state) (o : op) : state * outcome :=
  match o with ExecBlock b => exec_block s b end.

Definition run (s : state) (ops : list op) : state :=
  fold_left (fun st o => fst (step st o)) ops s.

Definition step_arb (s : state) (o : op) : state * outcome :=
  match o with ExecBlock b => exec_block_arb s b end.
Definition run_arb (s : state) (ops : list op) : state :=
  fold_left (fun st o => fst (step_arb st o)) ops s.

(* the state after Visor.Init: the genesis block is executed on the empty
   database (no header / transaction checks apply to it); its single
   transaction has no inputs *)
Definition init_state (g : block) : state :=
  mkState [g] (created g) (xor_all 0 (created g)).

(* Visor.Init on an EMPTY database: maybeCreateGenesisBlock builds the genesis
   block from the configuration and appends it with executeSignedBlock, i.e.
   only if the configured genesis signature verifies over its header under the
   configured publisher key; otherwise Init fails and nothing is stored *)
Definition start_node (g : block) : option state :=
  if b_sig_ok g then Some (init_state g) else None.

Definition genesis_volume (g : block) : Z := sumZ (map u_coins (created g)).
