(* Model/Intro.v — executable model of IntroductionMessage.Verify
   (/repo/src/daemon/messages.go) over the bytes of Extra with the code's
   offsets, and of the per-connection gate of Daemon.onMessageEvent
   (/repo/src/daemon/daemon.go). Slices are explicit: an out-of-range slice is
   Panic. The user agent check (useragent.Parse . Sanitize: a regular expression
   and a semver parser) is an oracle predicate `ua_valid`. Definitions only. *)
From Sky Require Import Base.Uint.
Open Scope Z_scope.

Definition bytes := list Z.
Definition blen (b : bytes) : Z := Z.of_nat (List.length b).

Definition is_bytes (b : bytes) : Prop := Forall (fun x => 0 <= x < 256) b.

(* b[lo:hi]  (Go panics unless 0 <= lo <= hi <= len) *)
Definition slice (b : bytes) (lo hi : Z) : res bytes :=
  if (0 <=? lo) && (lo <=? hi) && (hi <=? blen b)
  then Val (firstn (Z.to_nat (hi - lo)) (skipn (Z.to_nat lo) b))
  else Panic.
(* b[lo:] *)
Definition slice_from (b : bytes) (lo : Z) : res bytes := slice b lo (blen b).

Fixpoint bytes_eqb (a b : bytes) : bool :=
  match a, b with
  | [], [] => true
  | x :: a', y :: b' => (x =? y) && bytes_eqb a' b'
  | _, _ => false
  end.

(* little-endian unsigned value of a byte string *)
Fixpoint le_val (b : bytes) : Z :=
  match b with [] => 0 | x :: r => x + 256 * le_val r end.

Record config := mkConfig {
  cfg_mirror : Z;          (* dc.Mirror *)
  cfg_min_version : Z;     (* dc.MinProtocolVersion (int32) *)
  cfg_pubkey : bytes }.    (* dc.BlockchainPubkey, 33 bytes *)

Record intro_msg := mkIntro {
  im_mirror : Z; im_version : Z; im_extra : bytes }.

(* gnet.DisconnectReason values Verify returns *)
Inductive reason :=
| RSelf | RVersionNotSupported | RPubkeyNotProvided | RInvalidExtraData | RPubkeyNotMatched
| RInvalidBurnFactor | RInvalidMaxTransactionSize | RInvalidMaxDropletPrecision | RInvalidUserAgent
| RNoIntroduction
| ROther.   (* any other reason (never produced by the model) *)

(* what Verify leaves in the message when it returns nil *)
Record accepted := mkAccepted {
  ac_burn : Z; ac_max_txn_size : Z; ac_max_decimals : Z;   (* UnconfirmedVerifyTxn *)
  ac_user_agent : bytes;                                    (* the string handed to useragent.Parse(Sanitize(.)) *)
  ac_genesis : bytes }.                                     (* GenesisHash: copy(hash[:], Extra[i:]) on a zero array *)

Inductive verdict := Accept (a : accepted) | Reject (r : reason).

Definition PUBKEY_LEN : Z := 33.
Definition PARAMS_LEN : Z := 9.
Definition UA_MAXLEN : Z := 256.
Definition HASH_LEN : Z := 32.
Definition MIN_BURN_FACTOR : Z := 2.
Definition MIN_TXN_SIZE : Z := 1024.
Definition MAX_DECIMALS : Z := 6.

(* copy(dst[:], src) for a zero 32-byte dst *)
Definition copy_hash (src : bytes) : bytes :=
  let taken := firstn 32 src in taken ++ repeat 0 (32 - List.length taken)%nat.

(* encoder.DeserializeString(in, maxlen): 4-byte little-endian length, then the bytes *)
Definition deserialize_string (b : bytes) (maxlen : Z) : res (option (bytes * Z)) :=
  if blen b <? 4 then Val None                         (* ErrBufferUnderflow *)
  else bind (slice b 0 4) (fun lb =>
       let n := le_val lb in
       bind (slice_from b 4) (fun rest =>
       if blen rest <? n then Val None                  (* ErrBufferUnderflow *)
       else if (0 <? maxlen) && (maxlen <? n) then Val None   (* ErrMaxLenExceeded *)
       else bind (slice rest 0 n) (fun s => Val (Some (s, 4 + n))))).

Section Verify.
  Variable ua_valid : bytes -> bool.

  Definition intro_verify (dc : config) (m : intro_msg) : res verdict :=
    if im_mirror m =? cfg_mirror dc then Val (Reject RSelf) else
    if im_version m <? cfg_min_version dc then Val (Reject RVersionNotSupported) else
    let extra := im_extra m in
    let extra_len := blen extra in
    if extra_len =? 0 then Val (Reject RPubkeyNotProvided) else
    if extra_len <? PUBKEY_LEN then Val (Reject RInvalidExtraData) else
    bind (slice extra 0 PUBKEY_LEN) (fun pk =>
    if negb (bytes_eqb pk (cfg_pubkey dc)) then Val (Reject RPubkeyNotMatched) else
    let i := PUBKEY_LEN in
    if extra_len <? i + PARAMS_LEN then Val (Reject RInvalidExtraData) else
    bind (slice extra i (i + PARAMS_LEN)) (fun pb =>
    bind (slice pb 0 4) (fun bfb =>
    bind (slice pb 4 8) (fun mtb =>
    bind (slice pb 8 9) (fun mdb =>
    let bf := le_val bfb in let mts := le_val mtb in let mdp := le_val mdb in
    let i := i + PARAMS_LEN in
    if bf <? MIN_BURN_FACTOR then Val (Reject RInvalidBurnFactor) else
    if mts <? MIN_TXN_SIZE then Val (Reject RInvalidMaxTransactionSize) else
    if MAX_DECIMALS <? mdp then Val (Reject RInvalidMaxDropletPrecision) else
    bind (slice_from extra i) (fun uas =>
    bind (deserialize_string uas UA_MAXLEN) (fun d =>
    match d with
    | None => Val (Reject RInvalidExtraData)
    | Some (ua, ua_len) =>
        if negb (ua_valid ua) then Val (Reject RInvalidUserAgent) else
        let i := i + ua_len in
        let remaining := extra_len - i in
        if (0 <? remaining) && (remaining <? HASH_LEN) then Val (Reject RInvalidExtraData) else
        bind (slice_from extra i) (fun tail =>
        Val (Accept (mkAccepted bf mts mdp ua (copy_hash tail))))
    end))))))).
End Verify.

(* ---- the declarative acceptance condition *)
Definition sub (b : bytes) (lo n : Z) : bytes := firstn (Z.to_nat n) (skipn (Z.to_nat lo) b).

Definition intro_ok (ua_valid : bytes -> bool) (dc : config) (m : intro_msg) : Prop :=
  let e := im_extra m in
  im_mirror m <> cfg_mirror dc /\
  cfg_min_version dc <= im_version m /\
  42 <= blen e /\
  sub e 0 33 = cfg_pubkey dc /\
  2 <= le_val (sub e 33 4) /\ 1024 <= le_val (sub e 37 4) /\ le_val (sub e 41 1) <= 6 /\
  46 <= blen e /\
  (let n := le_val (sub e 42 4) in
   n <= 256 /\ 46 + n <= blen e /\ ua_valid (sub e 46 n) = true /\
   (blen e = 46 + n \/ 32 <= blen e - (46 + n))).

(* ------------------------------------------------------------------ *)
(* the gate of onMessageEvent, for one connection *)
Inductive kind :=
| KIntro (v : verdict)   (* an IntroductionMessage and what Verify says about it *)
| KDisc | KGivePeers | KGetPeers | KPing | KPong
| KGetBlocks | KGiveBlocks | KAnnounceBlocks | KGetTxns | KGiveTxns | KAnnounceTxns.

Record cstate := mkC { alive : bool; introduced : bool }.

Inductive sent := SDisconnect (r : reason) | SPong | SOther.

Definition passes_gate (k : kind) : bool :=
  match k with KIntro _ | KDisc | KGivePeers => true | _ => false end.

(* the handlers, in the harness' environment (networking disabled: block and
   transaction handlers return at once; the peer's socket stays open) *)
Definition process (c : cstate) (k : kind) : cstate * list sent :=
  match k with
  | KIntro (Reject r) => (c, [SDisconnect r])
  | KIntro (Accept _) => if introduced c then (c, []) else (mkC (alive c) true, [])
  | KDisc => (mkC false (introduced c), [])
  | KPing => (c, [SPong])
  | _ => (c, [])
  end.

Definition gate_step (c : cstate) (k : kind) : cstate * list sent :=
  if negb (alive c) then (c, [])                                  (* no connection found: dropped *)
  else if negb (introduced c) && negb (passes_gate k) then (c, [SDisconnect RNoIntroduction])
  else process c k.

Definition fresh_conn : cstate := mkC true false.

(* ---- comparison helpers *)
Definition reason_eqb (a b : reason) : bool :=
  match a, b with
  | RSelf, RSelf | RVersionNotSupported, RVersionNotSupported | RPubkeyNotProvided, RPubkeyNotProvided
  | RInvalidExtraData, RInvalidExtraData | RPubkeyNotMatched, RPubkeyNotMatched
  | RInvalidBurnFactor, RInvalidBurnFactor | RInvalidMaxTransactionSize, RInvalidMaxTransactionSize
  | RInvalidMaxDropletPrecision, RInvalidMaxDropletPrecision | RInvalidUserAgent, RInvalidUserAgent
  | RNoIntroduction, RNoIntroduction => true   (* ROther equals nothing *)
  | _, _ => false
  end.
Definition sent_eqb (a b : sent) : bool :=
  match a, b with
  | SDisconnect x, SDisconnect y => reason_eqb x y
  | SPong, SPong => true
  | _, _ => false
  end.

(* ---- what the harness hands over: the user agent string found at the code's
   offset (if any) with the verdict of useragent.Parse(Sanitize(.)) on it *)
Definition oracle_of (c : option (bytes * bool)) (s : bytes) : bool :=
  match c with Some (u, ok) => bytes_eqb s u && ok | None => false end.
(* the oracle is asked about exactly the string it was built for *)
Definition oracle_covers (c : option (bytes * bool)) (dc : config) (m : intro_msg) : bool :=
  match intro_verify (fun _ => true) dc m with
  | Val (Accept a) => match c with Some (u, _) => bytes_eqb (ac_user_agent a) u | None => false end
  | _ => true
  end.

Inductive gate_event := GIntro (m : intro_msg) (oracle : option (bytes * bool)) | GOther (k : kind).

Definition accepted_eqb (x y : accepted) : bool :=
  (ac_burn x =? ac_burn y) && (ac_max_txn_size x =? ac_max_txn_size y) && (ac_max_decimals x =? ac_max_decimals y)
  && bytes_eqb (ac_user_agent x) (ac_user_agent y) && bytes_eqb (ac_genesis x) (ac_genesis y).
Definition verdict_eqb (x y : verdict) : bool :=
  match x, y with
  | Accept a, Accept b => accepted_eqb a b
  | Reject a, Reject b => reason_eqb a b
  | _, _ => false
  end.

(* decidable form of intro_ok (nested `if`s: vm_compute is eager in the
   arguments of &&, and `sub e 46 n` must not be built for a bogus n) *)
Definition intro_ok_b (ua_valid : bytes -> bool) (dc : config) (m : intro_msg) : bool :=
  let e := im_extra m in
  if negb (im_mirror m =? cfg_mirror dc) && (cfg_min_version dc <=? im_version m)
     && (42 <=? blen e) && (46 <=? blen e)
  then
    if bytes_eqb (sub e 0 33) (cfg_pubkey dc)
       && (2 <=? le_val (sub e 33 4)) && (1024 <=? le_val (sub e 37 4)) && (le_val (sub e 41 1) <=? 6)
    then
      let n := le_val (sub e 42 4) in
      if (n <=? 256) && (46 + n <=? blen e)
      then ua_valid (sub e 46 n) && ((blen e =? 46 + n) || (32 <=? blen e - (46 + n)))
      else false
    else false
  else false.
