(* Model/Sign.v — C13: wallet.SignTransaction (src/wallet/transaction.go) and
   coin.Transaction.SignInput (src/coin/transactions.go), step by step.
   Definitions only.

   Keys, addresses, hashes and signatures are ids (Z); the null signature is 0.
   `sign` (cipher.MustSignHash), `addr_of` (address of a secret key) and `msg_of`
   (cipher.AddSHA256 of inner hash and input hash) are Section variables: the
   theorems hold for every signature scheme satisfying the stated laws.
   A wallet is its type, its encrypted flag and the secret keys of GetEntries()
   in order.  Transactions are assumed to have at most 65535 signatures, inputs
   and outputs (otherwise copyTransaction panics in Transaction.Hash). *)
From Sky Require Import Base.Uint Model.TxVerify Model.Create.
Open Scope Z_scope.

Inductive wkind := KDeterministic | KCollection | KBip44 | KXPub.
Record wallet := mk_wallet { w_kind : wkind; w_encrypted : bool; w_entries : list Z }.

(* the part of a transaction SignTransaction reads or writes *)
Record stx := mk_stx {
  s_inner : Z;            (* InnerHash field *)
  s_inner_actual : Z;     (* HashInner() *)
  s_sigs : list Z;
  s_ins : list Z;
  s_outs : list txout
}.

Definition ErrWalletCantSign : string := "ErrWalletCantSign".
Definition ErrWalletEncrypted : string := "ErrWalletEncrypted".
Definition ESInner : string := "Transaction inner hash does not match computed inner hash".
Definition ESNoSigs : string := "Transaction signatures array is empty".
Definition ESFullySigned : string := "Transaction is fully signed".
Definition ESNoInputs : string := "No transaction inputs to sign".
Definition ESUxLen : string := "len(uxOuts) != len(txn.In)".
Definition ESIdxCount : string := "Number of signature indexes exceeds number of inputs".
Definition ESIdxRange : string := "Signature index out of range".
Definition ESIdxDup : string := "Duplicate value in signature indexes".
Definition ESAlready : string := "Transaction is already signed at index".
Definition ESCannot : string := "Wallet cannot sign all requested inputs".
Definition ESSigCount : string := "Number of signatures does not match number of inputs".
Definition ESInputSigned : string := "Input already signed".
Definition ESNotFully : string := "Transaction is not fully signed, but should be".
Definition ESFullyBut : string := "Transaction is fully signed, but shouldn't be".

Definition znth {A} (l : list A) (i : Z) : option A :=
  if i <? 0 then None else nth_error l (Z.to_nat i).

Fixpoint set_nth {A} (l : list A) (n : nat) (a : A) : list A :=
  match l, n with
  | [], _ => []
  | _ :: r, O => a :: r
  | x :: r, S n' => x :: set_nth r n' a
  end.

Definition is_fully_signed (sigs : list Z) : bool :=
  negb (len sigs =? 0) && forallb (fun s => negb (s =? 0)) sigs.

Definition validate_idx (idxs : list Z) (n : Z) : option string :=
  if len idxs >? n then Some ESIdxCount
  else if existsb (fun i => (i >=? n) || (i <? 0)) idxs then Some ESIdxRange
  else if negb (nodupb Z.eqb idxs) then Some ESIdxDup
  else None.

(* map[cipher.Address][]int as an association list (order of first insertion) *)
Fixpoint amap_add (m : list (Z * list Z)) (a i : Z) : list (Z * list Z) :=
  match m with
  | [] => [(a, [i])]
  | (b, l) :: r => if b =? a then (b, l ++ [i]) :: r else (b, l) :: amap_add r a i
  end.
Fixpoint amap_find (m : list (Z * list Z)) (a : Z) : option (list Z) :=
  match m with
  | [] => None
  | (b, l) :: r => if b =? a then Some l else amap_find r a
  end.
(* map[cipher.SecKey][]int: assignment replaces *)
Fixpoint kmap_set (m : list (Z * list Z)) (k : Z) (v : list Z) : list (Z * list Z) :=
  match m with
  | [] => [(k, v)]
  | (b, l) :: r => if b =? k then (b, v) :: r else (b, l) :: kmap_set r k v
  end.

Section Sign.
  Variable sign : Z -> Z -> Z.      (* secret key -> message -> signature (never the null signature) *)
  Variable addr_of : Z -> Z.        (* secret key -> address *)
  Variable msg_of : Z -> Z -> Z.    (* inner hash -> input hash -> signed message *)

  (* for _, in := range signIndexes { if !Sigs[in].Null() -> error; addrsMap[owner] = append(.., in) } *)
  Fixpoint amap_of_indexes (sigs owners : list Z) (idxs : list Z) (m : list (Z * list Z)) : R (list (Z * list Z)) :=
    match idxs with
    | [] => ok m
    | i :: r =>
        match znth sigs i, znth owners i with
        | Some s, Some a => if negb (s =? 0) then fail ESAlready else amap_of_indexes sigs owners r (amap_add m a i)
        | _, _ => Panic                                   (* index out of range *)
        end
    end.

  (* for i, o := range uxOuts { if !Sigs[i].Null() { continue }; addrsMap[o.Address] = append(.., i) } *)
  Fixpoint amap_of_unsigned (sigs owners : list Z) (i : Z) (m : list (Z * list Z)) : R (list (Z * list Z)) :=
    match owners with
    | [] => ok m
    | a :: r =>
        match sigs with
        | [] => Panic                                     (* Sigs[i] with i >= len(Sigs) *)
        | s :: sr => amap_of_unsigned sr r (i + 1) (if s =? 0 then amap_add m a i else m)
        end
    end.

  (* for _, e := range entries { if len(toSign) == len(addrsMap) { break }; if x, ok := addrsMap[addr(e)]; ok { toSign[e.Secret] = x } } *)
  Fixpoint scan_entries (entries : list Z) (am ts : list (Z * list Z)) : list (Z * list Z) :=
    match entries with
    | [] => ts
    | k :: r =>
        if len ts =? len am then ts else
        match amap_find am (addr_of k) with
        | Some x => scan_entries r am (kmap_set ts k x)
        | None => scan_entries r am ts
        end
    end.

  (* Transaction.SignInput(key, index) on (sigs, ins, inner) *)
  Definition sign_input (inner : Z) (ins sigs : list Z) (k i : Z) : R (list Z) :=
    if (i <? 0) || (i >=? len ins) then fail ESIdxRange else
    let sigs1 := if len sigs =? 0 then map (fun _ => 0) ins else sigs in
    if negb (len ins =? len sigs1) then fail ESSigCount else
    match znth sigs1 i, znth ins i with
    | Some s, Some h => if negb (s =? 0) then fail ESInputSigned else ok (set_nth sigs1 (Z.to_nat i) (sign k (msg_of inner h)))
    | _, _ => Panic
    end.

  Fixpoint sign_indexes (inner : Z) (ins sigs : list Z) (k : Z) (v : list Z) : R (list Z) :=
    match v with
    | [] => ok sigs
    | x :: r =>
        match znth sigs x with
        | None => Panic
        | Some s =>
            if negb (s =? 0) then fail ESAlready else
            do sigs' <- sign_input inner ins sigs k x ;;
            sign_indexes inner ins sigs' k r
        end
    end.

  (* for k, v := range toSign { ... }  (map order: the result does not depend on it) *)
  Fixpoint sign_all (inner : Z) (ins sigs : list Z) (ts : list (Z * list Z)) : R (list Z) :=
    match ts with
    | [] => ok sigs
    | (k, v) :: r => do sigs' <- sign_indexes inner ins sigs k v ;; sign_all inner ins sigs' r
    end.

  Definition sign_tx (w : wallet) (t : stx) (idxs owners : list Z) : R stx :=
    match w_kind w with KXPub => fail ErrWalletCantSign | _ =>
    if w_encrypted w then fail ErrWalletEncrypted else
    if negb (s_inner_actual t =? s_inner t) then fail ESInner else
    if len (s_sigs t) =? 0 then fail ESNoSigs else
    if is_fully_signed (s_sigs t) then fail ESFullySigned else
    if len (s_ins t) =? 0 then fail ESNoInputs else
    if negb (len owners =? len (s_ins t)) then fail ESUxLen else
    match validate_idx idxs (len owners) with Some e => fail e | None =>
    let n_missing := len (filter (fun s => s =? 0) (s_sigs t)) in
    do am <- (if len idxs >? 0 then amap_of_indexes (s_sigs t) owners idxs []
              else amap_of_unsigned (s_sigs t) owners 0 []) ;;
    let ts := scan_entries (w_entries w) am [] in
    if negb (len ts =? len am) then fail ESCannot else
    do sigs' <- sign_all (s_inner t) (s_ins t) (s_sigs t) ts ;;
    (* UpdateHeader: InnerHash := HashInner() (unchanged: inputs and outputs are not touched) *)
    if (len idxs =? 0) || (len idxs =? n_missing) then
      if negb (is_fully_signed sigs') then fail ESNotFully
      else ok (mk_stx (s_inner_actual t) (s_inner_actual t) sigs' (s_ins t) (s_outs t))
    else
      if is_fully_signed sigs' then fail ESFullyBut
      else ok (mk_stx (s_inner_actual t) (s_inner_actual t) sigs' (s_ins t) (s_outs t))
    end end.

  (* the inputs that a successful call signs *)
  Definition targets (t : stx) (idxs : list Z) : list Z :=
    if len idxs >? 0 then idxs
    else filter (fun i => match znth (s_sigs t) i with Some s => s =? 0 | None => false end)
                (zrange 0 (len (s_sigs t))).
End Sign.

(* ---------------------------------------------- observables (cases files) *)
(* per position: signature changed?, null?, verifies against the owner's address? *)
Definition sig_obs (verify : Z -> Z -> Z -> bool) (msg_of : Z -> Z -> Z)
  (old : stx) (new_sigs owners : list Z) : list (bool * bool * bool) :=
  map (fun x : Z * Z * (Z * Z) =>
         let '(o, n, (a, h)) := x in
         (negb (o =? n), n =? 0, verify a n (msg_of (s_inner_actual old) h)))
      (combine (combine (s_sigs old) new_sigs) (combine owners (s_ins old))).

(* a concrete signature scheme for evaluating the model on generated cases:
   key id = address id; signatures of known keys are odd numbers coding (key, message) *)
Definition t_sign (k m : Z) : Z := 2 * (k * 1048576 + m) + 1.
Definition t_addr_of (k : Z) : Z := k.
Definition t_msg_of (inner h : Z) : Z := h.       (* one inner hash per case: the input id identifies the message *)
Definition t_verify (a s m : Z) : bool := s =? t_sign a m.
Definition junk (n : Z) : Z := 2 * n + 2.         (* a non-null signature no key produced *)
