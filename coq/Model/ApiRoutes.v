(* C27 — the route table regenerated from src/api/http.go (Gen/Routes.v) as
   model routes.  Definitions only. *)
From Coq Require Import String List ZArith.
From Sky Require Import Model.ApiAccess Gen.Routes.
Import ListNotations.

Definition routes : list route := map route_of_raw routes_raw.

(* registrations made in a loop over the files of the GUI directory (static
   files; the path is a pattern, one entry per file at run time) *)
Definition gui_file_routes : list route := map route_of_raw gui_file_routes_raw.

(* a static-file registration: no API sets, v1, CSRF-checked, header-checked *)
Definition gui_route_shapeb (r : route) : bool :=
  match r_sets r with None => true | Some _ => false end && negb (r_v2 r) && r_csrf r &&
  match r_hdr r with HdrNever => false | _ => true end.
