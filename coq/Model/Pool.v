(* Model/Pool.v — executable model of the unconfirmed transaction pool
   (property C06). Definitions only.

   Mirrors src/visor/unconfirmed.go (InjectTransaction, RemoveTransactions,
   Refresh, RemoveInvalid) and their callers in src/visor/visor.go
   (InjectForeignTransaction, InjectUserTransaction(Tx), executeSignedBlockUnsafe,
   RefreshUnconfirmed, RemoveInvalidUnconfirmed).

   State: the set of unspent output ids at the head + the pool, a list of
   (transaction, IsValid flag) kept in key order (the bolt bucket is keyed by
   the transaction hash, so iteration is in hash order).

   A transaction is (tid, ids of the outputs it spends, ids of the outputs it
   creates). Whether its inputs are unspent is COMPUTED by the model from the
   unspent set, so the model itself decides when an accepted block turns a pooled
   transaction hard-invalid. The remaining verdicts are facts supplied with each
   operation, computed by the harness at the node's current head with the
   transaction package directly (transaction validation is C09/C11):
     v_wf      transaction.VerifySingleTxnHardConstraints (the hard rules for a
               transaction OUTSIDE a block: includes "output hours do not overflow"
               and "no input's coin hours overflow at the head time") holds given the
               outputs named by the inputs — everything hard except "the inputs are
               unspent". Used by injection, Refresh and RemoveInvalid.
     v_blk     transaction.VerifyBlockTxnConstraints (the weaker hard rules for a
               transaction INSIDE a block) holds, same proviso. Used by ExecBlock
               only. Both bits are supplied with every verdict so that a checker
               swapped for the other rule set is visible whenever they differ.
     v_soft    VerifySingleTxnSoftConstraints holds under the parameter set the
               operation uses (UnconfirmedVerifyTxn; params.UserVerifyTxn for
               user injection). Both depend on the head time (coin hours accrue).
     v_unspent the node's own answer to "are all inputs unspent now" — NOT used
               by the model (it is compared with the model's computation in the
               correspondence file and used by the decidable property, which is
               evaluated on the implementation's outputs alone). *)
From Sky Require Import Base.Uint.
Open Scope Z_scope.

Record txn : Type := mkT { tid : Z; tins : list Z; touts : list Z }.
Record verdict : Type := mkV { v_wf : bool; v_blk : bool; v_soft : bool; v_unspent : bool }.

(* the code base has two entry points for user submissions:
     Visor.InjectUserTransaction            (daemon.InjectTransaction, no broadcast)
     Visor.InjectUserTransactionTx inside Visor.WithUpdateTx
                                            (daemon.InjectBroadcastTransaction, the default of
                                             POST /api/v1/injectTransaction)
   The admission rule (user, then hard + soft under params.UserVerifyTxn) is the
   same for both; the operation records which one was driven. *)
Inductive user_entry := ViaInjectUserTransaction | ViaInjectUserTransactionTx.

Inductive op : Type :=
| InjectForeign (t : txn) (v : verdict)
| InjectUser (ep : user_entry) (t : txn) (user_ok : bool) (v : verdict)
| ExecBlock (hdr_ok : bool) (txs : list (txn * verdict))
| Refresh (vs : list (Z * verdict))
| RemoveInvalid (vs : list (Z * verdict)).

(* what the caller sees *)
Inductive icls := IOk | ISoftFlagged | IHard | ISoftRejected | IUserRejected.
Inductive out : Type :=
| OInject (known : bool) (c : icls)
| OBlock (accepted : bool)
| OHashes (l : list Z)        (* Refresh: hashes that became valid; RemoveInvalid: hashes removed *)
| OOracle                     (* a verdict the operation needs was not supplied *)
| OOther.                     (* observed only: a runtime panic or an error outside the hard/soft/user classes *)

Definition entry : Type := (txn * bool)%type.
Record state : Type := mkS { unspent : list Z; pool : list entry }.

Definition mem (i : Z) (l : list Z) : bool := existsb (Z.eqb i) l.
Definition inputs_unspent (U : list Z) (t : txn) : bool := forallb (fun i => mem i U) (tins t).
(* hard constraints = inputs exist in the unspent set (Unspent().GetArray) + the rest *)
Definition hard_ok (U : list Z) (t : txn) (v : verdict) : bool := inputs_unspent U t && v_wf v.
(* the hard rules for a transaction inside a block *)
Definition block_hard_ok (U : list Z) (t : txn) (v : verdict) : bool := inputs_unspent U t && v_blk v.

Definition key (e : entry) : Z := tid (fst e).
Definition keys (p : list entry) : list Z := map key p.
Definition known_in (p : list entry) (t : txn) : bool := existsb (fun e => key e =? tid t) p.

(* utp.txns.put / update: the bucket is ordered by key; an existing entry keeps
   its stored transaction and gets the new flag *)
Fixpoint pool_put (t : txn) (f : bool) (p : list entry) : list entry :=
  match p with
  | [] => [(t, f)]
  | e :: r =>
      if tid t <? key e then (t, f) :: p
      else if tid t =? key e then (fst e, f) :: r
      else e :: pool_put t f r
  end.

Definition pool_remove (ids : list Z) (p : list entry) : list entry :=
  filter (fun e => negb (mem (key e) ids)) p.

Fixpoint lookup (i : Z) (vs : list (Z * verdict)) : option verdict :=
  match vs with
  | [] => None
  | (j, v) :: r => if i =? j then Some v else lookup i r
  end.

(* UnconfirmedTransactionPool.InjectTransaction *)
Definition inject (s : state) (t : txn) (v : verdict) : state * out :=
  if negb (hard_ok (unspent s) t v) then (s, OInject false IHard)
  else
    let flag := v_soft v in
    let c := if flag then IOk else ISoftFlagged in
    (mkS (unspent s) (pool_put t flag (pool s)), OInject (known_in (pool s) t) c).

(* Visor.InjectUserTransactionTx: user constraints, then hard+soft under
   params.UserVerifyTxn (any violation rejects), then InjectTransaction *)
Definition inject_user (s : state) (t : txn) (user_ok : bool) (v : verdict) : state * out :=
  if negb user_ok then (s, OInject false IUserRejected)
  else if negb (hard_ok (unspent s) t v) then (s, OInject false IHard)
  else if negb (v_soft v) then (s, OInject false ISoftRejected)
  else inject s t v.

(* strict processTransactions + Unspents.ProcessBlock + RemoveTransactions *)
Fixpoint disjoint_ins (seen : list Z) (txs : list (txn * verdict)) : bool :=
  match txs with
  | [] => true
  | (t, _) :: r => negb (existsb (fun i => mem i seen) (tins t)) && disjoint_ins (tins t ++ seen) r
  end.
Definition block_ok (U : list Z) (hdr_ok : bool) (txs : list (txn * verdict)) : bool :=
  hdr_ok && negb (match txs with [] => true | _ => false end)
  && forallb (fun tv => block_hard_ok U (fst tv) (snd tv)) txs
  && disjoint_ins [] txs.
Definition exec_block (s : state) (hdr_ok : bool) (txs : list (txn * verdict)) : state * out :=
  if block_ok (unspent s) hdr_ok txs then
    let spent := flat_map (fun tv => tins (fst tv)) txs in
    let made := flat_map (fun tv => touts (fst tv)) txs in
    (mkS (filter (fun i => negb (mem i spent)) (unspent s) ++ made)
         (pool_remove (map (fun tv => tid (fst tv)) txs) (pool s)),
     OBlock true)
  else (s, OBlock false).

(* every pooled transaction must have a verdict *)
Definition covered (vs : list (Z * verdict)) (p : list entry) : bool :=
  forallb (fun e => match lookup (key e) vs with Some _ => true | None => false end) p.

(* the fresh re-check of an entry against the current head *)
Definition recheck (U : list Z) (vs : list (Z * verdict)) (e : entry) : bool :=
  match lookup (key e) vs with
  | Some v => hard_ok U (fst e) v && v_soft v
  | None => false
  end.
Definition hard_now (U : list Z) (vs : list (Z * verdict)) (e : entry) : bool :=
  match lookup (key e) vs with
  | Some v => hard_ok U (fst e) v
  | None => false
  end.

(* UnconfirmedTransactionPool.Refresh *)
Definition refresh (s : state) (vs : list (Z * verdict)) : state * out :=
  if negb (covered vs (pool s)) then (s, OOracle)
  else
    let p' := map (fun e => (fst e, recheck (unspent s) vs e)) (pool s) in
    let now_valid := map key (filter (fun e => negb (snd e) && recheck (unspent s) vs e) (pool s)) in
    (mkS (unspent s) p', OHashes now_valid).

(* UnconfirmedTransactionPool.RemoveInvalid *)
Definition remove_invalid (s : state) (vs : list (Z * verdict)) : state * out :=
  if negb (covered vs (pool s)) then (s, OOracle)
  else
    let removed := map key (filter (fun e => negb (hard_now (unspent s) vs e)) (pool s)) in
    (mkS (unspent s) (filter (hard_now (unspent s) vs) (pool s)), OHashes removed).

Definition step (s : state) (o : op) : state * out :=
  match o with
  | InjectForeign t v => inject s t v
  | InjectUser ep t u v => inject_user s t u v
  | ExecBlock h txs => exec_block s h txs
  | Refresh vs => refresh s vs
  | RemoveInvalid vs => remove_invalid s vs
  end.

Fixpoint run (s : state) (ops : list op) : state :=
  match ops with
  | [] => s
  | o :: r => run (fst (step s o)) r
  end.

Definition init (U : list Z) : state := mkS U [].

(* ------------------------------------------------------------------ *)
(* correspondence and decidable property on observed histories          *)
(* ------------------------------------------------------------------ *)

(* one observed step: the operation, what the node returned, the node's pool
   afterwards as (hash, IsValid) in key order *)
Record obs_step : Type := mkO { o_op : op; o_out : out; o_pool : list (Z * bool) }.
Record history : Type := mkH { h_unspent : list Z; h_steps : list obs_step }.

Definition eqb_icls (a b : icls) : bool :=
  match a, b with
  | IOk, IOk | ISoftFlagged, ISoftFlagged | IHard, IHard
  | ISoftRejected, ISoftRejected | IUserRejected, IUserRejected => true
  | _, _ => false
  end.
Definition eqb_out (a b : out) : bool :=
  match a, b with
  | OInject k c, OInject k' c' => Bool.eqb k k' && eqb_icls c c'
  | OBlock x, OBlock y => Bool.eqb x y
  | OHashes l, OHashes l' => eqb_list Z.eqb l l'
  | OOracle, OOracle => true
  | OOther, OOther => true
  | _, _ => false
  end.
Fixpoint eqb_pool (p : list entry) (q : list (Z * bool)) : bool :=
  match p, q with
  | [], [] => true
  | e :: p', x :: q' => (key e =? fst x) && Bool.eqb (snd e) (snd x) && eqb_pool p' q'
  | _, _ => false
  end.

(* the node's "inputs unspent" answers agree with the model's unspent set *)
Definition unspent_agrees (U : list Z) (o : op) : bool :=
  match o with
  | InjectForeign t v | InjectUser _ t _ v => Bool.eqb (inputs_unspent U t) (v_unspent v)
  | ExecBlock _ txs => forallb (fun tv => Bool.eqb (inputs_unspent U (fst tv)) (v_unspent (snd tv))) txs
  | _ => true
  end.

(* index (from 0) of the first step where model and node differ; -1 = none *)
Fixpoint first_diff (i : Z) (s : state) (steps : list obs_step) : Z :=
  match steps with
  | [] => -1
  | st :: r =>
      let '(s', o) := step s (o_op st) in
      if eqb_out o (o_out st) && eqb_pool (pool s') (o_pool st) && unspent_agrees (unspent s) (o_op st)
      then first_diff (i + 1) s' r else i
  end.
Definition corr_ok (h : history) : bool := first_diff 0 (init (h_unspent h)) (h_steps h) =? -1.

(* --- the property, on the node's outputs alone (no model state): uses the
   node's own v_unspent answers --- *)
Definition vhard (v : verdict) : bool := v_unspent v && v_wf v.
Fixpoint sorted_keys (l : list Z) : bool :=
  match l with
  | [] => true
  | x :: r => match r with [] => true | y :: _ => (x <? y) && sorted_keys r end
  end.
Definition oflag (p : list (Z * bool)) (i : Z) : option bool :=
  match find (fun x => fst x =? i) p with Some x => Some (snd x) | None => None end.
Definition without (i : Z) (p : list (Z * bool)) := filter (fun x => negb (fst x =? i)) p.
Definition eqb_opool := eqb_list (fun x y : Z * bool => (fst x =? fst y) && Bool.eqb (snd x) (snd y)).
Definition vrecheck (vs : list (Z * verdict)) (x : Z * bool) : bool :=
  match lookup (fst x) vs with Some v => vhard v && v_soft v | None => false end.
Definition vhardnow (vs : list (Z * verdict)) (x : Z * bool) : bool :=
  match lookup (fst x) vs with Some v => vhard v | None => false end.

Definition step_prop (before : list (Z * bool)) (st : obs_step) : bool :=
  let after := o_pool st in
  sorted_keys (map fst after) &&
  match o_op st, o_out st with
  | InjectForeign t v, OInject k c =>
      (* enters only if the hard rules hold; soft violation = flagged invalid;
         known => not duplicated (keys sorted) and reported; nothing else changes *)
      if vhard v then
        eqb_icls c (if v_soft v then IOk else ISoftFlagged)
        && Bool.eqb k (existsb (fun x => fst x =? tid t) before)
        && eqb_option Bool.eqb (oflag after (tid t)) (Some (v_soft v))
        && eqb_opool (without (tid t) after) (without (tid t) before)
      else eqb_icls c IHard && negb k && eqb_opool after before
  | InjectUser ep t u v, OInject k c =>
      if u && vhard v && v_soft v then
        eqb_icls c IOk
        && Bool.eqb k (existsb (fun x => fst x =? tid t) before)
        && eqb_option Bool.eqb (oflag after (tid t)) (Some true)
        && eqb_opool (without (tid t) after) (without (tid t) before)
      else
        eqb_icls c (if negb u then IUserRejected else if negb (vhard v) then IHard else ISoftRejected)
        && negb k && eqb_opool after before
  | ExecBlock h txs, OBlock acc =>
      (* a transaction of an accepted block leaves the pool; the others stay *)
      if acc then eqb_opool after (filter (fun x => negb (mem (fst x) (map (fun tv => tid (fst tv)) txs))) before)
      else eqb_opool after before
  | Refresh vs, OHashes l =>
      (* flags = a fresh re-check against the current head *)
      eqb_opool after (map (fun x => (fst x, vrecheck vs x)) before)
      && eqb_list Z.eqb l (map fst (filter (fun x => negb (snd x) && vrecheck vs x) before))
  | RemoveInvalid vs, OHashes l =>
      (* afterwards no pooled transaction violates a hard rule; nothing else is removed *)
      eqb_opool after (filter (vhardnow vs) before)
      && eqb_list Z.eqb l (map fst (filter (fun x => negb (vhardnow vs x)) before))
  | _, _ => false
  end.

Fixpoint first_bad (i : Z) (before : list (Z * bool)) (steps : list obs_step) : Z :=
  match steps with
  | [] => -1
  | st :: r => if step_prop before st then first_bad (i + 1) (o_pool st) r else i
  end.
Definition prop_ok (h : history) : bool := first_bad 0 [] (h_steps h) =? -1.

(* hypotheses of the theorems on a generated history: verdict lists cover the pool *)
Fixpoint oracle_complete (before : list (Z * bool)) (steps : list obs_step) : bool :=
  match steps with
  | [] => true
  | st :: r =>
      match o_op st with
      | Refresh vs | RemoveInvalid vs =>
          forallb (fun x => match lookup (fst x) vs with Some _ => true | None => false end) before
      | _ => true
      end && oracle_complete (o_pool st) r
  end.
Definition hyps_ok (h : history) : bool := oracle_complete [] (h_steps h).
