(* Model/BlockCreate.v — executable model of the publisher's block creation
   (property C05). Definitions only.

   Mirrors, step by step and in the code's order,
     visor.Visor.createBlockFromTxns        (src/visor/visor.go)
       filter  : VerifySingleTxnSoftHardConstraints with CreateBlockVerifyTxn
       sort    : coin.SortTransactions           (src/coin/transactions.go)
       cut     : Transactions.TruncateBytesTo(MaxBlockTransactionsSize)
       cut     : len > coin.MaxBlockTransactions
       panic   : "TruncateBytesTo removed all transactions"
     visor.Blockchain.NewBlock               (src/visor/blockchain.go)
       processTransactions in arbitrating mode (sort again, drop hard-invalid,
         eliminate double spends pairwise), coin.NewBlock (fee total),
         DebugLevel2: processTransactions a second time on the result.
     follower: processTransactions in strict (non-arbitrating) mode.

   A pending transaction is the tuple of facts the code consults:
     ph          the first 8 bytes of its hash as a big-endian integer (bytes.Compare order =
                 integer order; the harness checks that no two pool hashes share these bytes)
     pfee        fee computed by Blockchain.TransactionFee at the HEAD block's time — not at the
                 time of the block being created: the filter's burn rule, the sort, the header
                 fee and arbitration all use head.Time(); `prio`/`txn_lt`, hence created_sorted,
                 the cut and conflict_choice, are stated for that time (None = the calculator errors)
     psize       encoded size in bytes
     pins        ids of the outputs it spends (harness id table; only equality matters)
     pok_create  VerifySingleTxnSoftHardConstraints(.., CreateBlockVerifyTxn, TxnSigned) = nil at the head
     pok_block   VerifyBlockTxnConstraints = nil at the head
   The two verdict bits are inputs of this model (full transaction validation
   is the subject of C09/C11); the arithmetic (MultUint64 saturation, AddUint32
   in the size cut, AddUint64 in the fee total) is the Gallina regenerated from
   src/util/mathutil on every run.

   Not modelled: the "duplicate unspent output across transactions" test of
   processTransactions (two pool transactions with the same output hash must have
   the same transaction hash: excluded by distinct pool keys + SHA-256), the
   header built by coin.NewBlock, the signature. *)
From Sky Require Import Base.Uint Gen.Mathutil.
Open Scope Z_scope.

Record ptxn : Type := mkP {
  ph : Z;
  pfee : option Z;
  psize : Z;
  pins : list Z;
  pok_create : bool;
  pok_block : bool
}.

Definition MaxUint64 : Z := 18446744073709551615.
Definition MaxBlockTransactions : Z := 65535.

(* ---- coin.NewSortableTransactions / SortableTransactions.Less ---- *)

(* feeKB, err := mathutil.MultUint64(fee, 1024); if err != nil { feeKB = math.MaxUint64 } *)
Definition fee_kb (fee : Z) : res Z :=
  bind (MultUint64 fee 1024) (fun ce => Val (if is_err (snd ce) then MaxUint64 else fst ce)).

(* fees[j] = feeKB / uint64(size)   (size 0 = division by zero = runtime panic) *)
Definition fee_per_kb (fee size : Z) : res Z :=
  bind (fee_kb fee) (fun k => udiv k size).

(* transactions whose fee cannot be computed are dropped (`continue`) *)
Fixpoint sortable (l : list ptxn) : res (list (Z * ptxn)) :=
  match l with
  | [] => Val []
  | t :: r =>
      match pfee t with
      | None => sortable r
      | Some f =>
          bind (fee_per_kb f (psize t)) (fun k =>
          bind (sortable r) (fun r' => Val ((k, t) :: r')))
      end
  end.

(* Less: fees descending, hash ascending if fees equal *)
Definition less (a b : Z * ptxn) : bool :=
  if fst a =? fst b then ph (snd a) <? ph (snd b) else fst a >? fst b.

(* sort.Sort is not stable and its algorithm is unspecified; any correct sort
   gives the same list because `less` is a strict total order on entries with
   distinct hashes (Proofs: sorted_unique). Insertion sort is the executable
   representative. *)
Fixpoint insert (x : Z * ptxn) (l : list (Z * ptxn)) : list (Z * ptxn) :=
  match l with
  | [] => [x]
  | y :: r => if less y x then y :: insert x r else x :: y :: r
  end.
Definition isort (l : list (Z * ptxn)) : list (Z * ptxn) := fold_right insert [] l.

Definition sort_txns (l : list ptxn) : res (list ptxn) :=
  bind (sortable l) (fun s => Val (map snd (isort s))).

(* ---- Transactions.TruncateBytesTo ---- *)
Fixpoint truncate_bytes (size total : Z) (l : list ptxn) : res (list ptxn) :=
  match l with
  | [] => Val []
  | t :: r =>
      bind (AddUint32 total (psize t)) (fun pe =>
      if is_err (snd pe) then Val []                 (* return txns[:i], nil *)
      else if fst pe >? size then Val []             (* pendingTotal > size *)
      else bind (truncate_bytes size (fst pe) r) (fun r' => Val (t :: r')))
  end.

(* txns[:n] when len(txns) > n *)
Fixpoint take_z {A} (n : Z) (l : list A) : list A :=
  match l with
  | [] => []
  | x :: r => if n <=? 0 then [] else x :: take_z (n - 1) r
  end.

(* ---- processTransactions ---- *)

Definition shares (s t : ptxn) : bool :=
  existsb (fun a => existsb (Z.eqb a) (pins t)) (pins s).

(* The pairwise double-spend loop in arbitrating mode (txns sorted):
     for i { if skip[i] {continue}; for j > i { if txns[i], txns[j] share an input { skip[j] } } }
   skip[j] is final when the outer loop reaches j, so txn j is skipped exactly
   when an earlier txn that was NOT skipped shares an input with it.
   `kept` = the earlier txns that were not skipped. *)
Fixpoint arbitrate (kept : list ptxn) (l : list ptxn) : list ptxn :=
  match l with
  | [] => []
  | t :: r =>
      if existsb (fun s => shares s t) kept then arbitrate kept r
      else t :: arbitrate (t :: kept) r
  end.

(* The loop before the fix of F19 (no `if skip[i] {continue}`): txn j is skipped
   when ANY earlier txn, skipped or not, shares an input with it. Kept only to
   state what was wrong (conflict_choice_f19_refuted). *)
Fixpoint arbitrate_f19 (seen : list ptxn) (l : list ptxn) : list ptxn :=
  match l with
  | [] => []
  | t :: r =>
      if existsb (fun s => shares s t) seen then arbitrate_f19 (t :: seen) r
      else t :: arbitrate_f19 (t :: seen) r
  end.

Inductive create_err := NoTxns | NoTxnsAfterFilter | EmptyBlock | FeesInvalid.

Section Process.
  Variable arb : list ptxn -> list ptxn -> list ptxn.

  (* arbitrating mode: sort, drop transactions violating hard constraints,
     then arbitrate between colliding ones; never an error *)
  Definition process_arb (txs : list ptxn) : res (list ptxn) :=
    bind (sort_txns txs) (fun sorted => Val (arb [] (filter pok_block sorted))).

  (* coin.Transactions.Fees: every fee must be computable, the total must fit uint64 *)
  Fixpoint fees_total (total : Z) (l : list ptxn) : res (option Z) :=
    match l with
    | [] => Val (Some total)
    | t :: r =>
        match pfee t with
        | None => Val None
        | Some f => bind (AddUint64 total f) (fun se =>
                    if is_err (snd se) then Val None else fees_total (fst se) r)
        end
    end.

  (* Blockchain.NewBlock (the time test is the caller's: the harness always
     passes a time after the head's) *)
  Definition new_block (txs : list ptxn) : res (list ptxn + create_err) :=
    match txs with
    | [] => Val (inr NoTxns)
    | _ =>
        bind (process_arb txs) (fun ptx =>
        match ptx with
        | [] => Val (inr EmptyBlock)           (* coin.NewBlock: "Refusing to create block with no transactions" *)
        | _ =>
            bind (fees_total 0 ptx) (fun ft =>
            match ft with
            | None => Val (inr FeesInvalid)
            | Some _ =>
                (* DebugLevel2: processTransactions again; b.Body.Transactions = txns *)
                bind (process_arb ptx) (fun ptx2 => Val (inl ptx2))
            end)
        end)
    end.

  (* Visor.createBlockFromTxns; pool = AllRawTransactions (bolt key order) *)
  Definition create (max_block : Z) (pool : list ptxn) : res (list ptxn + create_err) :=
    match pool with
    | [] => Val (inr NoTxns)
    | _ =>
        match filter pok_create pool with
        | [] => Val (inr NoTxnsAfterFilter)
        | filtered =>
            bind (sort_txns filtered) (fun sorted =>
            bind (truncate_bytes max_block 0 sorted) (fun tr =>
            match take_z MaxBlockTransactions tr with
            | [] => Panic                       (* logger.Panic("TruncateBytesTo removed all transactions") *)
            | tr2 => new_block tr2
            end))
        end
    end.
End Process.

Definition create_block := create arbitrate.
Definition create_block_f19 := create arbitrate_f19.

(* the transactions that reach the arbitration step: valid for block creation,
   inside the size cut, hard-valid — in fee order *)
Definition candidates (max_block : Z) (pool : list ptxn) : res (list ptxn) :=
  bind (sort_txns (filter pok_create pool)) (fun sorted =>
  bind (truncate_bytes max_block 0 sorted) (fun tr =>
  Val (filter pok_block (take_z MaxBlockTransactions tr)))).

(* ---- follower: processTransactions in strict mode on the block's list ---- *)
Fixpoint disjoint_from (s : ptxn) (l : list ptxn) : bool :=
  match l with [] => true | t :: r => negb (shares s t) && disjoint_from s r end.
Fixpoint pairwise_disjoint (l : list ptxn) : bool :=
  match l with [] => true | s :: r => disjoint_from s r && pairwise_disjoint r end.
Fixpoint nodup_z (l : list Z) : bool :=
  match l with [] => true | x :: r => negb (existsb (Z.eqb x) r) && nodup_z r end.

Definition follower_accepts (blk : list ptxn) : bool :=
  match blk with
  | [] => false                                   (* "No transactions" *)
  | _ => forallb pok_block blk                    (* VerifyBlockTxnConstraints on each *)
         && nodup_z (map ph blk)                  (* duplicate outputs = duplicate transaction *)
         && pairwise_disjoint blk                 (* "Cannot spend output twice in the same block" *)
  end.

(* ---- the order the property talks about ---- *)

(* fee per kilobyte as the property states it: fee*1024 capped at 2^64-1, divided by the size *)
Definition prio (t : ptxn) : Z :=
  match pfee t with
  | Some f => Z.min (f * 1024) MaxUint64 / psize t
  | None => -1
  end.
Definition txn_ltb (a b : ptxn) : bool :=
  if prio a =? prio b then ph a <? ph b else prio a >? prio b.
Definition txn_lt (a b : ptxn) : Prop := txn_ltb a b = true.

Definition sum_sizes (l : list ptxn) : Z := fold_right (fun t acc => psize t + acc) 0 l.

(* ---- well-formedness of the facts (evaluated on every generated pool) ---- *)
Definition wf_txn_b (t : ptxn) : bool :=
  (0 <? psize t) && (psize t <? 2 ^ 32) &&
  match pfee t with Some f => in_ub 64 f | None => true end.
Definition wf_pool_b (pool : list ptxn) : bool :=
  forallb wf_txn_b pool && nodup_z (map ph pool).

(* ---- decidable form of the property on an observed block ----
   pool: facts of the pool; blk: hashes of the block's transactions in order *)
Fixpoint find_txn (h : Z) (pool : list ptxn) : option ptxn :=
  match pool with [] => None | t :: r => if ph t =? h then Some t else find_txn h r end.
Fixpoint lookup_all (pool : list ptxn) (hs : list Z) : option (list ptxn) :=
  match hs with
  | [] => Some []
  | h :: r => match find_txn h pool, lookup_all pool r with
              | Some t, Some l => Some (t :: l)
              | _, _ => None
              end
  end.
Fixpoint sorted_b (l : list ptxn) : bool :=
  match l with
  | [] => true
  | a :: r => forallb (txn_ltb a) r && sorted_b r
  end.

(* the valid pool transactions that come before-or-at t in the order: t is
   inside the cut iff their total size is <= max_block (and there are at most
   MaxBlockTransactions of them) *)
Definition upto (t u : ptxn) : bool := (ph u =? ph t) || txn_ltb u t.
Definition prefix_of (pool : list ptxn) (t : ptxn) : list ptxn :=
  filter (fun u => pok_create u && upto t u) pool.
Definition in_cut (max_block : Z) (pool : list ptxn) (t : ptxn) : bool :=
  (sum_sizes (prefix_of pool t) <=? max_block)
  && (Z.of_nat (List.length (prefix_of pool t)) <=? MaxBlockTransactions).

Definition block_spec_b (max_block : Z) (pool blk : list ptxn) : bool :=
  (* only valid pool transactions, each once *)
  forallb (fun t => pok_create t && pok_block t) blk
  && nodup_z (map ph blk)
  (* listed by fee per kB (highest first), ties by lowest hash *)
  && sorted_b blk
  (* respects the configured block size *)
  && (sum_sizes blk <=? max_block) && (Z.of_nat (List.length blk) <=? MaxBlockTransactions)
  (* no two included transactions conflict *)
  && pairwise_disjoint blk
  (* every valid transaction inside the size cut that was left out lost a
     conflict against an included transaction that comes first in the order;
     nothing outside the cut is included *)
  && forallb (in_cut max_block pool) blk
  && forallb (fun t =>
       negb (pok_create t && pok_block t)
       || existsb (fun b => ph b =? ph t) blk
       || negb (in_cut max_block pool t)
       || existsb (fun s => txn_ltb s t && shares s t) blk) pool.

(* a case of the correspondence file *)
Record ccase : Type := mkCase {
  c_max_block : Z;
  c_max_txn : Z;
  c_pool : list ptxn;
  c_obs : res (list Z + string);      (* observed: block (hashes in order) or error class *)
  c_follower : bool;                   (* the independent follower accepted the block *)
  c_publisher : bool                   (* the publisher executed its own block *)
}.

Definition err_name (e : create_err) : string :=
  match e with
  | NoTxns => "NoTxns" | NoTxnsAfterFilter => "NoTxnsAfterFilter"
  | EmptyBlock => "EmptyBlock" | FeesInvalid => "FeesOverflow"
  end%string.

Definition project (r : res (list ptxn + create_err)) : res (list Z + string) :=
  match r with
  | Panic => Panic
  | Val (inl b) => Val (inl (map ph b))
  | Val (inr e) => Val (inr (err_name e))
  end.

Definition eqb_obs (a b : res (list Z + string)) : bool :=
  match a, b with
  | Panic, Panic => true
  | Val (inl x), Val (inl y) => eqb_list Z.eqb x y
  | Val (inr x), Val (inr y) => String.eqb x y
  | _, _ => false
  end.

(* model vs implementation *)
Definition corr_ok (c : ccase) : bool :=
  eqb_obs (project (create_block (c_max_block c) (c_pool c))) (c_obs c).

(* the property on the implementation's own output *)
Definition prop_ok (c : ccase) : bool :=
  match c_obs c with
  | Val (inl hs) =>
      match lookup_all (c_pool c) hs with
      | Some blk => negb (match blk with [] => true | _ => false end)
                    && block_spec_b (c_max_block c) (c_pool c) blk
                    && c_follower c && c_publisher c
      | None => false                              (* a transaction that is not in the pool *)
      end
  | Val (inr e) =>
      (* no block: allowed only when no pool transaction is valid for creation *)
      negb (existsb (fun t => pok_create t && pok_block t) (c_pool c))
  | Panic =>
      (* the panic exists only outside the configuration invariant
         MaxBlockTransactionsSize >= CreateBlockVerifyTxn.MaxTransactionSize *)
      c_max_block c <? c_max_txn c
  end.

(* hypotheses of the theorems, evaluated on the generated cases *)
Definition hyps_ok (c : ccase) : bool :=
  wf_pool_b (c_pool c)
  && forallb (fun t => negb (pok_create t) || ((psize t <=? c_max_txn c) && pok_block t
                        && match pfee t with Some _ => true | None => false end)) (c_pool c).
