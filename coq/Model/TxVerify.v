(* Model/TxVerify.v — C09: coin.Transaction.verify (Verify / VerifyUnsigned) and
   VerifyInputSignatures, check by check and in the code's order
   (src/coin/transactions.go), with the first failing rule's error.
   Definitions only.

   Hashes and signatures are data: a transaction arrives with the hash facts the
   implementation computed (inner hash actually computed, encoded size, ids of
   the outputs it would create, per-signature verdict of
   cipher.VerifySignatureRecoverPubKey and the recovered address).  The
   arithmetic (output-coin sum) is the translated mathutil.AddUint64. *)
From Sky Require Import Base.Uint Gen.Mathutil.
From Coq Require Import MSets.MSetPositive FSets.FMapPositive.
Open Scope Z_scope.

Record txout := mk_out { o_addr : Z; o_coins : Z; o_hours : Z }.

(* what the implementation says about one signature slot:
   sf_null  = Sig.Null()
   sf_verr  = result of cipher.VerifySignatureRecoverPubKey(sig, AddSHA256(InnerHash, In[i]))
              (None = nil; Some sentinel otherwise)
   sf_addr  = id of the address recovered from the signature (0 when none) *)
Record sigfact := mk_sig { sf_null : bool; sf_verr : error; sf_addr : Z }.

Record txn := mk_txn {
  t_len : Z;                      (* Length field *)
  t_typ : Z;                      (* Type field *)
  t_inner : Z;                    (* InnerHash field (256-bit value) *)
  t_inner_actual : option Z;      (* hashInner(): None = encoder error (too many elements) *)
  t_size : option Z;              (* len(Serialize()):  None = encoder error *)
  t_sigs : list sigfact;
  t_ins : list Z;                 (* spent output hashes (256-bit values) *)
  t_outs : list txout;
  t_out_ids : list Z              (* UxBody{SrcTransaction: txn hash, out}.Hash() of each output, as ids *)
}.

Definition len {A} (l : list A) : Z := Z.of_nat (List.length l).
Definition MaxUint16 : Z := 65535.

(* `m := map[K]struct{}; for x in l { m[x] = {} }; len(m)` *)
(* the map is a binary trie (stdlib PositiveSet) keyed by an injective coding of Z *)
Definition zkey (z : Z) : positive :=
  if 0 <=? z then Z.to_pos (2 * z + 1) else Z.to_pos (- 2 * z).
Definition distinct_count (l : list Z) : Z :=
  Z.of_nat (PositiveSet.cardinal
              (fold_left (fun s x => PositiveSet.add (zkey x) s) l PositiveSet.empty)).

(* coins := 0; for to in Out { coins, err = AddUint64(coins, to.Coins); if err != nil -> overflow } *)
Fixpoint coins_sum (acc : Z) (outs : list txout) : res (Z * error) :=
  match outs with
  | [] => Val (acc, None)
  | o :: r =>
      bind (AddUint64 acc (o_coins o)) (fun '(c, err) =>
      if is_err err then Val (0, err) else coins_sum c r)
  end.

(* error texts (first string literal of errors.New / fmt.Errorf, or the sentinel's message);
   the harness prints these names for the messages it knows and a literal otherwise *)
Definition E_no_inputs : string := "No inputs".
Definition E_no_outputs : string := "No outputs".
Definition E_sig_count : string := "Invalid number of signatures".
Definition E_too_many_sigs : string := "Too many signatures and inputs".
Definition E_too_many_outs : string := "Too many ouptuts".
Definition E_dup_spend : string := "Duplicate spend".
Definition E_type : string := "transaction type invalid".
Definition E_zero_coin : string := "Zero coin output".
Definition E_coins_overflow : string := "Output coins overflow".
Definition E_maxlen : string := "ErrMaxLenExceeded".
Definition E_length : string := "Incorrect transaction length".
Definition E_dup_output : string := "Duplicate output in transaction".
Definition E_hash_inner : string := "HashInner failed".
Definition E_inner : string := "InnerHash does not match computed hash".
Definition E_unsigned_input : string := "Unsigned input in transaction".
Definition E_no_null : string := "Unsigned transaction must contain a null signature".
Definition E_sig_owner : string := "Signature not valid for output being spent".
Definition E_sig_recover : string := "Failed to recover pubkey from signature".
Definition E_sig_hash : string := "Signature not valid for hash".

(* the signature loop *)
Fixpoint check_sigs (signed : bool) (sigs : list sigfact) : error :=
  match sigs with
  | [] => None
  | s :: r =>
      if sf_null s then
        (if signed then Some E_unsigned_input else check_sigs signed r)
      else
        match sf_verr s with
        | Some e => Some e
        | None => check_sigs signed r
        end
  end.

Definition E (s : string) : res error := Val (Some s).

Definition verify (signed : bool) (t : txn) : res error :=
  if len (t_ins t) =? 0 then E E_no_inputs else
  if len (t_outs t) =? 0 then E E_no_outputs else
  if negb (len (t_sigs t) =? len (t_ins t)) then E E_sig_count else
  if len (t_sigs t) >? MaxUint16 then E E_too_many_sigs else
  if len (t_outs t) >? MaxUint16 then E E_too_many_outs else
  if negb (distinct_count (t_ins t) =? len (t_ins t)) then E E_dup_spend else
  if negb (t_typ t =? 0) then E E_type else
  if existsb (fun o => o_coins o =? 0) (t_outs t) then E E_zero_coin else
  bind (coins_sum 0 (t_outs t)) (fun '(_, err) =>
  if is_err err then E E_coins_overflow else
  match t_size t with
  | None => E E_maxlen
  | Some size =>
  if negb (t_len t =? size) then E E_length else
  if negb (distinct_count (t_out_ids t) =? len (t_outs t)) then E E_dup_output else
  match t_inner_actual t with
  | None => E E_hash_inner
  | Some h =>
  if negb (h =? t_inner t) then E E_inner else
  match check_sigs signed (t_sigs t) with
  | Some e => Val (Some e)
  | None =>
  if negb signed && negb (existsb sf_null (t_sigs t))
  then E E_no_null
  else Val None
  end end end).

(* ---------------------------------------------------------------- the spec *)

Definition sum_coins (outs : list txout) : Z := fold_right (fun o a => o_coins o + a) 0 outs.

(* the documented rule set (property text of C09) *)
Definition well_formed (signed : bool) (t : txn) : Prop :=
  t_ins t <> [] /\
  t_outs t <> [] /\
  List.length (t_sigs t) = List.length (t_ins t) /\          (* one signature per input *)
  NoDup (t_ins t) /\                                         (* no repeated inputs *)
  NoDup (t_outs t) /\                                        (* no two identical outputs *)
  t_typ t = 0 /\
  Forall (fun o => o_coins o <> 0) (t_outs t) /\             (* no zero-coin output *)
  sum_coins (t_outs t) < 2 ^ 64 /\                           (* output coins do not overflow *)
  t_size t = Some (t_len t) /\                               (* length field = encoded size *)
  t_inner_actual t = Some (t_inner t) /\                     (* correct inner hash *)
  (if signed
   then Forall (fun s => sf_null s = false /\ sf_verr s = None) (t_sigs t)
   else Forall (fun s => sf_null s = true \/ sf_verr s = None) (t_sigs t) /\
        Exists (fun s => sf_null s = true) (t_sigs t)).

(* Premises about the supplied facts (trusted base: SHA-256 collision freedom on
   the explored transactions + the encoder's maxlen rule); their boolean forms
   are evaluated on every generated case. *)
Definition out_key (o : txout) : Z * Z * Z := (o_addr o, o_coins o, o_hours o).

Definition ids_consistent_tx (t : txn) : Prop :=
  List.length (t_out_ids t) = List.length (t_outs t) /\
  (forall i j a b oa ob,
      nth_error (t_out_ids t) i = Some a -> nth_error (t_out_ids t) j = Some b ->
      nth_error (t_outs t) i = Some oa -> nth_error (t_outs t) j = Some ob ->
      (a = b <-> oa = ob)).

Definition over (t : txn) : Prop :=
  len (t_sigs t) > MaxUint16 \/ len (t_ins t) > MaxUint16 \/ len (t_outs t) > MaxUint16.

Definition facts_consistent (t : txn) : Prop :=
  ids_consistent_tx t /\
  (t_size t = None <-> over t) /\
  (t_inner_actual t = None <-> (len (t_ins t) > MaxUint16 \/ len (t_outs t) > MaxUint16)) /\
  Forall (fun o => in_u 64 (o_coins o)) (t_outs t).

(* boolean forms (used by the cases files) *)
Definition txout_eqb (a b : txout) : bool :=
  (o_addr a =? o_addr b) && (o_coins a =? o_coins b) && (o_hours a =? o_hours b).

Fixpoint ids_pairs_ok (ids : list Z) (outs : list txout) : bool :=
  match ids, outs with
  | [], [] => true
  | a :: ids', oa :: outs' =>
      forallb (fun p => Bool.eqb (a =? fst p) (txout_eqb oa (snd p))) (combine ids' outs')
      && ids_pairs_ok ids' outs'
  | _, _ => false
  end.

Definition overb (t : txn) : bool :=
  (len (t_sigs t) >? MaxUint16) || (len (t_ins t) >? MaxUint16) || (len (t_outs t) >? MaxUint16).

Definition is_none {A} (o : option A) : bool := match o with None => true | Some _ => false end.

(* ids_pairs_ok is quadratic: evaluated when the transaction has at most `cap` outputs *)
Definition facts_consistent_b (cap : Z) (t : txn) : bool :=
  (if cap <? len (t_outs t) then len (t_out_ids t) =? len (t_outs t) else ids_pairs_ok (t_out_ids t) (t_outs t)) &&
  Bool.eqb (is_none (t_size t)) (overb t) &&
  Bool.eqb (is_none (t_inner_actual t)) ((len (t_ins t) >? MaxUint16) || (len (t_outs t) >? MaxUint16)) &&
  forallb (fun o => in_ub 64 (o_coins o)) (t_outs t).

(* decidable form of well_formed, written independently of `verify`
   (quadratic duplicate tests, plain sum) *)
Fixpoint nodupb {A} (eqb : A -> A -> bool) (l : list A) : bool :=
  match l with
  | [] => true
  | a :: r => negb (existsb (eqb a) r) && nodupb eqb r
  end.

Definition opt_eqb (o : option Z) (z : Z) : bool :=
  match o with Some x => x =? z | None => false end.

(* cheap (linear) conjuncts first; the duplicate tests are thunks so that the
   call-by-value evaluator skips them when an earlier conjunct already fails *)
Definition wf_cheap (signed : bool) (t : txn) : bool :=
  negb (len (t_ins t) =? 0) &&
  negb (len (t_outs t) =? 0) &&
  (len (t_sigs t) =? len (t_ins t)) &&
  (t_typ t =? 0) &&
  forallb (fun o => negb (o_coins o =? 0)) (t_outs t) &&
  (sum_coins (t_outs t) <? 2 ^ 64) &&
  opt_eqb (t_size t) (t_len t) &&
  opt_eqb (t_inner_actual t) (t_inner t) &&
  (if signed
   then forallb (fun s => negb (sf_null s) && negb (is_err (sf_verr s))) (t_sigs t)
   else forallb (fun s => sf_null s || negb (is_err (sf_verr s))) (t_sigs t) &&
        existsb sf_null (t_sigs t)).

Definition wf_core (nodup_ins nodup_outs : unit -> bool) (signed : bool) (t : txn) : bool :=
  if wf_cheap signed t then (if nodup_ins tt then nodup_outs tt else false) else false.

Definition well_formed_b (signed : bool) (t : txn) : bool :=
  wf_core (fun _ => nodupb Z.eqb (t_ins t)) (fun _ => nodupb txout_eqb (t_outs t)) signed t.

(* the same for transactions with tens of thousands of elements: duplicates are
   found through a set of injective codes instead of pairwise comparison *)
(* Cantor-style pairing without the halving: injective on non-negative numbers and
   short for small arguments (the trie's cost is the bit length of the key) *)
Definition pair2 (x y : Z) : Z := (x + y) * (x + y + 1) + 2 * y.
Definition out_code (o : txout) : Z := pair2 (pair2 (o_addr o) (o_coins o)) (o_hours o).
Definition well_formed_fast_b (signed : bool) (t : txn) : bool :=
  wf_core (fun _ => distinct_count (t_ins t) =? len (t_ins t))
          (fun _ => distinct_count (map out_code (t_outs t)) =? len (t_outs t)) signed t.

(* ids_consistent for very large output lists (n log n): id -> output is a
   function (checked through a map keyed by id) and the numbers of distinct ids
   and of distinct outputs coincide (so the function is injective) *)
Fixpoint ids_functional (m : PositiveMap.t Z) (ids codes : list Z) : bool :=
  match ids, codes with
  | [], [] => true
  | i :: ids', c :: codes' =>
      match PositiveMap.find (zkey i) m with
      | Some c' => if c =? c' then ids_functional m ids' codes' else false
      | None => ids_functional (PositiveMap.add (zkey i) c m) ids' codes'
      end
  | _, _ => false
  end.
Definition ids_consistent_fast_b (t : txn) : bool :=
  let codes := map out_code (t_outs t) in
  if ids_functional (PositiveMap.empty Z) (t_out_ids t) codes
  then distinct_count (t_out_ids t) =? distinct_count codes else false.

(* ------------------------------------------------- ordered rule list (spec) *)

(* The rules in the order the verifier reports them; `FirstFail rules e` says
   e is the error of the first rule that does not hold (None if all hold). *)
Inductive FirstFail : list (Prop * string) -> error -> Prop :=
| FF_nil : FirstFail [] None
| FF_ok : forall (P : Prop) e rest r, P -> FirstFail rest r -> FirstFail ((P, e) :: rest) r
| FF_fail : forall (P : Prop) e rest, ~ P -> FirstFail ((P, e) :: rest) (Some e).

Definition err_text (e : error) : string := match e with Some s => s | None => EmptyString end.

Definition sig_rules (signed : bool) (s : sigfact) : list (Prop * string) :=
  [ (signed = false \/ sf_null s = false, E_unsigned_input);
    (sf_null s = true \/ sf_verr s = None, err_text (sf_verr s)) ].

Definition rule_list (signed : bool) (t : txn) : list (Prop * string) :=
  [ (t_ins t <> [], E_no_inputs);
    (t_outs t <> [], E_no_outputs);
    (List.length (t_sigs t) = List.length (t_ins t), E_sig_count);
    (len (t_sigs t) <= MaxUint16, E_too_many_sigs);
    (len (t_outs t) <= MaxUint16, E_too_many_outs);
    (NoDup (t_ins t), E_dup_spend);
    (t_typ t = 0, E_type);
    (Forall (fun o => o_coins o <> 0) (t_outs t), E_zero_coin);
    (sum_coins (t_outs t) < 2 ^ 64, E_coins_overflow);
    (t_size t <> None, E_maxlen);
    (t_size t = None \/ t_size t = Some (t_len t), E_length);
    (NoDup (t_outs t), E_dup_output);
    (t_inner_actual t <> None, E_hash_inner);
    (t_inner_actual t = None \/ t_inner_actual t = Some (t_inner t), E_inner) ]
  ++ flat_map (sig_rules signed) (t_sigs t)
  ++ [ (signed = true \/ Exists (fun s => sf_null s = true) (t_sigs t),
        E_no_null) ].

(* --------------------------------------------- VerifyInputSignatures (model) *)

(* uxIn[i] as (hash id, owner address id).  The prelude's failures are
   log.Panic (DebugLevel2 is true). inner_ok = (InnerHash == HashInner()). *)
Fixpoint vis_loop (sigs : list sigfact) (ux : list (Z * Z)) : error :=
  match sigs, ux with
  | s :: sr, (_, a) :: ur =>
      if sf_null s then Some E_unsigned_input
      else if is_err (sf_verr s) || negb (sf_addr s =? a)
           then Some E_sig_owner
           else vis_loop sr ur
  | _, _ => None
  end.

Definition verify_input_sigs (t : txn) (ux : list (Z * Z)) : res error :=
  if negb (len (t_ins t) =? len ux) then Panic else
  if negb (len (t_ins t) =? len (t_sigs t)) then Panic else
  match t_inner_actual t with
  | None => Panic
  | Some h =>
  if negb (h =? t_inner t) then Panic else
  if negb (eqb_list Z.eqb (t_ins t) (map fst ux)) then Panic else
  Val (vis_loop (t_sigs t) ux)
  end.

(* helpers for compact printing of very large generated cases *)
Fixpoint zrange_nat (lo : Z) (n : nat) : list Z :=
  match n with O => [] | S n' => lo :: zrange_nat (lo + 1) n' end.
Definition zrange (lo n : Z) : list Z := zrange_nat lo (Z.to_nat n).
Definition gen_outs (a c h0 n : Z) : list txout := map (fun h => mk_out a c h) (zrange h0 n).
Definition rep {A} (x : A) (n : Z) : list A := repeat x (Z.to_nat n).
