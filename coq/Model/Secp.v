(* Model/Secp.v — textbook secp256k1 over Z (properties C14, C10, C16).

   Definitions only.  Everything is executable; the correspondence runs these
   definitions (extracted to OCaml with Z mapped to Zarith, see
   coq/Extract/SecpExtract.v) against the Go implementation in
   src/cipher/secp256k1-go and src/cipher/crypto.go on the same inputs.

   The model is *not* a transcription of the optimised Go code (10x26-bit
   limbs, wNAF, endomorphism, precomputed tables): it is the mathematics the
   code is supposed to implement.  Only the interface behaviour (which inputs
   are rejected, with which code; which recid is produced; low-s
   normalisation) follows the Go functions named beside each definition. *)
From Coq Require Import ZArith List Bool.
Import ListNotations.
Open Scope Z_scope.

(* ------------------------------------------------------------------ constants *)

(* field prime p = 2^256 - 2^32 - 977, group order n, generator G;
   halfOrder is the constant the Go code compares s with (TheCurve.halfOrder).
   Their relation to the Go source is checked on every run (Gen/SecpConsts.v,
   Properties/C14.v consts_match_go). *)
Definition p : Z :=
  115792089237316195423570985008687907853269984665640564039457584007908834671663.
Definition n : Z :=
  115792089237316195423570985008687907852837564279074904382605163141518161494337.
Definition halfOrder : Z :=
  57896044618658097711785492504343953926418782139537452191302581570759080747168.
Definition Gx : Z :=
  55066263022277343669578718895168534326250603453777594175500187360389116729240.
Definition Gy : Z :=
  32670510020758816978083085130507043184471273380659243275938904335757337482424.
(* (p+1)/4, the exponent of the square root (p = 3 mod 4) *)
Definition sqrt_exp : Z :=
  28948022309329048855892746252171976963317496166410141009864396001977208667916.
Definition two256 : Z :=
  115792089237316195423570985008687907853269984665640564039457584007913129639936.

(* ------------------------------------------------------------------ bytes *)

(* big-endian, fixed length (most significant byte first) *)
Fixpoint be_val_acc (acc : Z) (bs : list Z) : Z :=
  match bs with
  | [] => acc
  | b :: r => be_val_acc (acc * 256 + b) r
  end.
Definition be_val (bs : list Z) : Z := be_val_acc 0 bs.

Fixpoint le_bytes (len : nat) (z : Z) : list Z :=
  match len with
  | O => []
  | S k => z mod 256 :: le_bytes k (z / 256)
  end.
Definition be_bytes (len : nat) (z : Z) : list Z := rev (le_bytes len z).

Definition is_byte (b : Z) : bool := (0 <=? b) && (b <? 256).
Definition all_bytes (bs : list Z) : bool := forallb is_byte bs.

(* ------------------------------------------------------------------ modular arithmetic *)

(* square-and-multiply, structural on the exponent *)
Fixpoint pow_pos (m b : Z) (e : positive) : Z :=
  match e with
  | xH => b mod m
  | xO e' => let t := pow_pos m b e' in (t * t) mod m
  | xI e' => let t := pow_pos m b e' in (((t * t) mod m) * b) mod m
  end.
Definition powm (b e m : Z) : Z :=
  match e with
  | Z0 => 1 mod m
  | Zpos e' => pow_pos m b e'
  | Zneg _ => 0
  end.

(* extended Euclid with fuel: state (r0, r1, s0, s1) with r_i = s_i * a (mod m).
   r0*r1 at least halves at every step, so 2*bits+2 steps are enough. *)
Fixpoint egcd (fuel : nat) (r0 r1 s0 s1 : Z) : option (Z * Z) :=
  match fuel with
  | O => None
  | S f =>
      if r1 =? 0 then Some (r0, s0)
      else egcd f r1 (r0 mod r1) s1 (s0 - (r0 / r1) * s1)
  end.
Definition egcd_fuel : nat := 520.

(* inverse of a modulo m (m > 1): None when gcd (a mod m) m <> 1.
   Go: big.Int.ModInverse (returns nil in that case). *)
Definition modinv (a m : Z) : option Z :=
  match egcd egcd_fuel m (a mod m) 0 1 with
  | Some (g, s) => if g =? 1 then Some (s mod m) else None
  | None => None
  end.

(* field F_p *)
Definition fadd (a b : Z) : Z := (a + b) mod p.
Definition fsub (a b : Z) : Z := (a - b) mod p.
Definition fmul (a b : Z) : Z := (a * b) mod p.
Definition fneg (a : Z) : Z := (- a) mod p.
(* total inverse: 0 for the non-invertible 0 (field convention); for prime p
   every non-zero residue is invertible (Proofs/SecpProofs.v modinv_prime) *)
Definition finv (a : Z) : Z := match modinv a p with Some x => x | None => 0 end.
Definition fdiv (a b : Z) : Z := fmul a (finv b).
(* candidate square root c^((p+1)/4); a root iff c is a square *)
Definition fsqrt (c : Z) : Z := powm c sqrt_exp p.
Definition in_field (x : Z) : bool := (0 <=? x) && (x <? p).

(* ------------------------------------------------------------------ affine points *)

Inductive point : Type := Inf | Aff (x y : Z).

Definition curve_rhs (x : Z) : Z := fadd (fmul (fmul x x) x) 7.

Definition on_curve (P : point) : bool :=
  match P with
  | Inf => true
  | Aff x y => in_field x && in_field y && (fmul y y =? curve_rhs x)
  end.

Definition pneg (P : point) : point :=
  match P with
  | Inf => Inf
  | Aff x y => Aff x (fneg y)
  end.

Definition point_eqb (P Q : point) : bool :=
  match P, Q with
  | Inf, Inf => true
  | Aff x1 y1, Aff x2 y2 => (x1 =? x2) && (y1 =? y2)
  | _, _ => false
  end.

(* chord-tangent addition (a = 0) *)
Definition padd (P Q : point) : point :=
  match P, Q with
  | Inf, _ => Q
  | _, Inf => P
  | Aff x1 y1, Aff x2 y2 =>
      if x1 =? x2 then
        if fadd y1 y2 =? 0 then Inf
        else
          let l := fdiv (fmul 3 (fmul x1 x1)) (fmul 2 y1) in
          let x3 := fsub (fsub (fmul l l) x1) x2 in
          Aff x3 (fsub (fmul l (fsub x1 x3)) y1)
      else
        let l := fdiv (fsub y2 y1) (fsub x2 x1) in
        let x3 := fsub (fsub (fmul l l) x1) x2 in
        Aff x3 (fsub (fmul l (fsub x1 x3)) y1)
  end.

(* double-and-add, least significant bit first *)
Fixpoint smul_pos (k : positive) (P : point) : point :=
  match k with
  | xH => P
  | xO k' => smul_pos k' (padd P P)
  | xI k' => padd P (smul_pos k' (padd P P))
  end.
Definition smul (k : Z) (P : point) : point :=
  match k with
  | Z0 => Inf
  | Zpos k' => smul_pos k' P
  | Zneg k' => pneg (smul_pos k' P)
  end.

Definition G : point := Aff Gx Gy.

(* ------------------------------------------------------------------ Jacobian points (execution) *)

(* (X, Y, Z) stands for (X/Z^2, Y/Z^3); Z = 0 is the point at infinity *)
Definition jpoint : Type := (Z * Z * Z)%type.
Definition jinf : jpoint := (1, 1, 0).
Definition to_j (P : point) : jpoint :=
  match P with Inf => jinf | Aff x y => (x, y, 1) end.
Definition of_j (J : jpoint) : point :=
  let '(X, Y, Zc) := J in
  if Zc =? 0 then Inf
  else
    let zi := finv Zc in
    let zi2 := fmul zi zi in
    Aff (fmul X zi2) (fmul Y (fmul zi2 zi)).

Definition jdouble (J : jpoint) : jpoint :=
  let '(X, Y, Zc) := J in
  if (Zc =? 0) || (Y =? 0) then jinf
  else
    let y2 := fmul Y Y in
    let s := fmul 4 (fmul X y2) in
    let m := fmul 3 (fmul X X) in
    let x3 := fsub (fmul m m) (fmul 2 s) in
    let y3 := fsub (fmul m (fsub s x3)) (fmul 8 (fmul y2 y2)) in
    (x3, y3, fmul 2 (fmul Y Zc)).

Definition jadd (J1 J2 : jpoint) : jpoint :=
  let '(X1, Y1, Z1) := J1 in
  let '(X2, Y2, Z2) := J2 in
  if Z1 =? 0 then J2
  else if Z2 =? 0 then J1
  else
    let z1z1 := fmul Z1 Z1 in
    let z2z2 := fmul Z2 Z2 in
    let u1 := fmul X1 z2z2 in
    let u2 := fmul X2 z1z1 in
    let s1 := fmul Y1 (fmul z2z2 Z2) in
    let s2 := fmul Y2 (fmul z1z1 Z1) in
    if u1 =? u2 then
      if s1 =? s2 then jdouble J1 else jinf
    else
      let h := fsub u2 u1 in
      let r := fsub s2 s1 in
      let h2 := fmul h h in
      let h3 := fmul h2 h in
      let v := fmul u1 h2 in
      let x3 := fsub (fsub (fmul r r) h3) (fmul 2 v) in
      let y3 := fsub (fmul r (fsub v x3)) (fmul s1 h3) in
      (x3, y3, fmul h (fmul Z1 Z2)).

Fixpoint jsmul_pos (k : positive) (J : jpoint) : jpoint :=
  match k with
  | xH => J
  | xO k' => jsmul_pos k' (jdouble J)
  | xI k' => jadd J (jsmul_pos k' (jdouble J))
  end.

(* scalar multiplication as executed: Jacobian, one inversion at the end.
   Proofs/SecpJacobian.v relates it to smul. *)
Definition smulx (k : Z) (P : point) : point :=
  match k with
  | Z0 => Inf
  | Zpos k' => of_j (jsmul_pos k' (to_j P))
  | Zneg k' => pneg (of_j (jsmul_pos k' (to_j P)))
  end.
(* a*P + b*Q as executed *)
Definition lincomb (a : Z) (P : point) (b : Z) (Q : point) : point :=
  match a, b with
  | Zneg _, _ | _, Zneg _ => padd (smulx a P) (smulx b Q)
  | _, _ =>
      let ja := match a with Zpos a' => jsmul_pos a' (to_j P) | _ => jinf end in
      let jb := match b with Zpos b' => jsmul_pos b' (to_j Q) | _ => jinf end in
      of_j (jadd ja jb)
  end.

(* ------------------------------------------------------------------ keys and encodings *)

(* secp.SeckeyIsValid: 1, -1 (zero), -2 (>= order) on the 32-byte big-endian value *)
Definition seckey_valid (k : Z) : bool := (0 <? k) && (k <? n).
Definition seckey_code (k : Z) : Z := if k <=? 0 then -1 else if n <=? k then -2 else 1.

(* XY.Bytes: 0x02/0x03 (y even/odd) followed by x, 33 bytes *)
Definition compress (P : point) : option (list Z) :=
  match P with
  | Inf => None
  | Aff x y => Some ((if Z.odd y then 3 else 2) :: be_bytes 32 x)
  end.

(* the point with abscissa x and the given parity of y, if x is a field element
   and x^3+7 is a square (XY.SetXO followed by XY.IsValid) *)
Definition lift_x (odd : bool) (x : Z) : option point :=
  if in_field x then
    let c := curve_rhs x in
    let y := fsqrt c in
    if fmul y y =? c then
      let y' := if Bool.eqb (Z.odd y) odd then y else fneg y in
      (* y = 0 has no representative of odd parity (no such point exists on
         secp256k1; Go's PubkeyIsValid rejects it through its round-trip test) *)
      if Bool.eqb (Z.odd y') odd then Some (Aff x y') else None
    else None
  else None.

Inductive pk_err : Type := PkLen | PkPrefix | PkRange | PkOffCurve.

(* XY.ParsePubkey + PubkeyIsValid on a byte string *)
Definition parse_pubkey (bs : list Z) : point + pk_err :=
  match bs with
  | pre :: xs =>
      if negb (Nat.eqb (length xs) 32) then inr PkLen
      else if negb ((pre =? 2) || (pre =? 3)) then inr PkPrefix
      else
        let x := be_val xs in
        if negb (in_field x) then inr PkRange
        else match lift_x (pre =? 3) x with
             | Some P => inl P
             | None => inr PkOffCurve
             end
  | [] => inr PkLen
  end.

(* secp256k1go.PubkeyIsValid (33-byte input): 1, -1 parse error, -3 not on the curve *)
Definition pubkey_code (bs : list Z) : Z :=
  match parse_pubkey bs with
  | inl _ => 1
  | inr PkLen => -2
  | inr PkPrefix | inr PkRange => -1
  | inr PkOffCurve => -3
  end.
Definition pubkey_valid (bs : list Z) : bool := pubkey_code bs =? 1.

(* secp.GeneratePublicKey / cipher.PubKeyFromSecKey *)
Definition pubkey_of_seckey (k : Z) : option (list Z) :=
  if seckey_valid k then compress (smulx k G) else None.

(* ------------------------------------------------------------------ ECDSA *)

(* Signature.Sign(seckey, message, nonce, &recid): None = returns 0 (or the
   nonce is outside the caller's contract).  message and seckey are 256-bit
   numbers, not reduced by the caller. *)
Definition sign (k m nonce : Z) : option (Z * Z * Z) :=
  match smulx nonce G with
  | Inf => None
  | Aff rx ry =>
      if rx =? 0 then None
      else
        let recid0 := (if n <=? rx then 2 else 0) + (if Z.odd ry then 1 else 0) in
        let r := rx mod n in
        match modinv nonce n with
        | None => None
        | Some ki =>
            let s := (ki * ((r * k + m) mod n)) mod n in
            if s =? 0 then None
            else if halfOrder <? s
                 then Some (r, n - s, if Z.odd recid0 then recid0 - 1 else recid0 + 1)
                 else Some (r, s, recid0)
        end
  end.

(* Signature.Verify(pubkey, message): textbook ECDSA verification *)
Definition ecdsa_verify (Q : point) (m r s : Z) : bool :=
  match modinv s n with
  | None => false
  | Some si =>
      match lincomb ((si * m) mod n) G ((si * r) mod n) Q with
      | Inf => false
      | Aff x _ => x mod n =? r
      end
  end.

(* Signature.Recover(msg, recid) under RecoverPublicKey's range checks:
   inr code = RecoverPublicKey's error code *)
Definition recover (m r s recid : Z) : point + Z :=
  if r =? 0 then inr (-1)
  else if r <? 0 then inr (-2)
  else if n <=? r then inr (-3)
  else if (s <=? 0) || (n <=? s) then inr (-5)
  else
    let hi := Z.odd (recid / 2) in
    let x := if hi then r + n else r in
    if hi && (p <=? x) then inr (-6)
    else
      match lift_x (Z.odd recid) x with
      | None => inr (-6)
      | Some R =>
          match modinv r n with
          | None => inr (-6)
          | Some ri =>
              let u1 := (n - (ri * m) mod n) mod n in
              let u2 := (ri * s) mod n in
              match lincomb u2 R u1 G with
              | Inf => inr (-6)
              | Q => inl Q
              end
          end
      end.

(* ------------------------------------------------------------------ 65-byte signatures (secp256k1.go) *)

Definition sig_r (sg : list Z) : Z := be_val (firstn 32 sg).
Definition sig_s (sg : list Z) : Z := be_val (firstn 32 (skipn 32 sg)).
Definition sig_recid (sg : list Z) : Z := nth 64 sg 0.
Definition sig_bytes (r s v : Z) : list Z := be_bytes 32 r ++ be_bytes 32 s ++ [v].

(* secp256k1.RecoverPubkey(msg, sig): compressed key or None (nil).
   The recovery id is used modulo 4 and is NOT range-checked here. *)
Definition recover_pubkey (msg sg : list Z) : option (list Z) :=
  if negb (Nat.eqb (length sg) 65) then None
  else match recover (be_val msg) (sig_r sg) (sig_s sg) (sig_recid sg) with
       | inl Q => compress Q
       | inr _ => None
       end.

(* secp256k1.VerifySignatureValidity: bit 255 of s clear and recid < 4 *)
Definition sig_wellformed (sg : list Z) : bool :=
  Nat.eqb (length sg) 65 && (nth 32 sg 0 / 128 =? 0) && (sig_recid sg <? 4).

Fixpoint bytes_eqb (a b : list Z) : bool :=
  match a, b with
  | [], [] => true
  | x :: a', y :: b' => (x =? y) && bytes_eqb a' b'
  | _, _ => false
  end.

(* secp256k1.VerifySignature(msg, sig, pubkey) = 1 *)
Definition verify_signature (msg sg pk : list Z) : bool :=
  negb (Nat.eqb (length msg) 0) && sig_wellformed sg &&
  match recover_pubkey msg sg with
  | Some pk' => bytes_eqb pk pk'
  | None => false
  end.

(* secp256k1.Sign with the nonce made explicit: 65 bytes r || s || recid *)
Definition sign_bytes (msg : list Z) (k nonce : Z) : option (list Z) :=
  match sign k (be_val msg) nonce with
  | Some (r, s, v) => Some (sig_bytes r s v)
  | None => None
  end.

(* ------------------------------------------------------------------ ECDH *)

(* secp256k1.ECDH(pub, sec): compressed sec*P, None (nil) for invalid inputs *)
Definition ecdh (pub : list Z) (k : Z) : option (list Z) :=
  if negb (seckey_valid k) then None
  else match parse_pubkey pub with
       | inl P => compress (smulx k P)
       | inr _ => None
       end.

(* ------------------------------------------------------------------ deterministic keys *)

Section DetKeys.
  (* SHA-256 is not modelled: the hash is an oracle (answered by an
     implementation independent of the Go code during the correspondence) *)
  Variable sha256 : list Z -> list Z.

  (* deterministicKeyPairIteratorStep: hash the seed until it is a valid
     secret key (the Go loop has no bound; an invalid 256-bit hash value has
     probability 2^-128) *)
  Fixpoint det_step (fuel : nat) (seed : list Z) : option (list Z * list Z) :=
    match fuel with
    | O => None
    | S f =>
        let seed' := sha256 seed in
        let k := be_val seed' in
        if seckey_valid k then
          match compress (smulx k G) with
          | Some pk => Some (pk, seed')
          | None => None
          end
        else det_step f seed'
    end.
  Definition det_fuel : nat := 8.

  (* Secp256k1Hash *)
  Definition secp256k1_hash (seed : list Z) : option (list Z) :=
    let h := sha256 seed in
    match det_step det_fuel h with
    | None => None
    | Some (_, seckey) =>
        match det_step det_fuel (sha256 h) with
        | None => None
        | Some (pubkey, _) =>
            match ecdh pubkey (be_val seckey) with
            | None => None
            | Some e => Some (sha256 (h ++ e))
            end
        end
    end.

  (* DeterministicKeyPairIterator: (next seed, pubkey, seckey) *)
  Definition det_keypair_iterator (seed : list Z) : option (list Z * list Z * list Z) :=
    match secp256k1_hash seed with
    | None => None
    | Some seed1 =>
        match det_step det_fuel (sha256 (seed ++ seed1)) with
        | None => None
        | Some (pk, sk) => Some (seed1, pk, sk)
        end
    end.

  (* GenerateDeterministicKeyPairsSeed: n keys, feeding the seed back *)
  Fixpoint det_keypairs (cnt : nat) (seed : list Z) : option (list Z * list (list Z * list Z)) :=
    match cnt with
    | O => Some (seed, [])
    | S c =>
        match det_keypair_iterator seed with
        | None => None
        | Some (seed1, pk, sk) =>
            match det_keypairs c seed1 with
            | None => None
            | Some (sd, ks) => Some (sd, (pk, sk) :: ks)
            end
        end
    end.
End DetKeys.

(* ------------------------------------------------------------------ premises of the group-law theorems *)

(* Mathematical facts that are ASSUMED (they are premises of the theorems of
   Properties/C14.v, C10.v, C16.v, never axioms): together with `prime p` and
   `prime n` (Znumtheory.prime).  Closure, commutativity, identity, inverses,
   n*G = O and the correctness of the Jacobian execution are proved. *)
Definition padd_associative : Prop :=
  forall P Q R, on_curve P = true -> on_curve Q = true -> on_curve R = true ->
  padd (padd P Q) R = padd P (padd Q R).
(* c^((p+1)/4) is a square root of every square (Euler's criterion, p = 3 mod 4) *)
Definition sqrt_correct : Prop :=
  forall c y, in_field y = true -> fmul y y = c -> fmul (fsqrt c) (fsqrt c) = c.
