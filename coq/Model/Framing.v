(* Model/Framing.v — gnet receive path (property C22): length-prefix framing of
   the byte stream (pool.go: readLoop + decodeData) and conversion of a frame
   to a message (dispatcher.go: convertToMessage / deserializeMessage).
   Bytes are `Z` (0..255), a buffer / chunk / frame is a `list Z`.
   Definitions only; proofs are in Proofs/FramingProofs.v. *)
From Sky Require Import Base.Uint.
Open Scope Z_scope.

Definition bytes := list Z.

(* constants of gnet (checked against the implementation on every run:
   Corr/C22_corr.v `mism_consts`) *)
Definition LEN_PREFIX_SIZE : Z := 4.   (* messageLengthPrefixSize *)
Definition MIN_LENGTH : Z := 4.        (* messagePrefixLength: a frame holds at least the 4-byte id *)

Definition blen (b : bytes) : Z := Z.of_nat (List.length b).

(* little-endian uint32 (encoder.DeserializeUint32 / SerializeUint32) *)
Fixpoint le_val (bs : bytes) : Z :=
  match bs with [] => 0 | b :: r => b + 256 * le_val r end.
Fixpoint le_bytes (w : nat) (z : Z) : bytes :=
  match w with O => [] | S k => z mod 256 :: le_bytes k (z / 256) end.

(* disconnect reasons of the receive path (gnet.ErrDisconnect...) *)
Inductive reason :=
| InvalidMessageLength     (* ErrDisconnectInvalidMessageLength *)
| TruncatedMessageID       (* ErrDisconnectTruncatedMessageID *)
| UnknownMessage           (* ErrDisconnectUnknownMessage *)
| MalformedMessage         (* ErrDisconnectMalformedMessage *)
| MessageDecodeUnderflow.  (* ErrDisconnectMessageDecodeUnderflow *)

Inductive status := Running | Disconnected (r : reason) | OutOfFuel.

(* One iteration of decodeData's loop, looking at the front of the buffer. *)
Inductive front :=
| NeedHeader                        (* loop condition  buf.Len() > 4  is false *)
| BadLength                         (* length < messagePrefixLength  or  length > maxMsgLength *)
| NeedBody                          (* buf.Len()-4 < length : frame not complete yet *)
| Frame (f : bytes) (rest : bytes). (* complete frame stripped from the buffer *)

Definition next_frame (max : Z) (s : bytes) : front :=
  if blen s >? LEN_PREFIX_SIZE then
    let len := le_val (firstn 4 s) in
    if len <? MIN_LENGTH then BadLength
    else if len >? max then BadLength
    else if blen s - LEN_PREFIX_SIZE <? len then NeedBody
    else Frame (firstn (Z.to_nat len) (skipn 4 s)) (skipn (Z.to_nat len) (skipn 4 s))
  else NeedHeader.

(* decodeData(buf, max): returns (buffer left, frames returned, status).
   `keep` = what the code returns when the next frame is incomplete:
     true  : the frames collected so far (the code after the F17 fix)
     false : no frames (the code before the fix: `return [][]byte{}, nil`).
   On an invalid length the code returns no frames and an error.
   fuel: one unit per loop iteration; every iteration that continues strips
   >= 8 bytes, so `length buffer` units always suffice (FramingProofs.decode_fuel_enough). *)
Fixpoint decode_loop (keep : bool) (fuel : nat) (max : Z) (s : bytes) (acc : list bytes)
  : bytes * list bytes * status :=
  match fuel with
  | O => (s, [], OutOfFuel)
  | S fuel' =>
    match next_frame max s with
    | NeedHeader => (s, acc, Running)
    | BadLength => (s, [], Disconnected InvalidMessageLength)
    | NeedBody => (s, if keep then acc else [], Running)
    | Frame f rest => decode_loop keep fuel' max rest (acc ++ [f])
    end
  end.

Definition decode_data_gen (keep : bool) (max : Z) (s : bytes) : bytes * list bytes * status :=
  decode_loop keep (S (List.length s)) max s [].

(* the code as it is now *)
Definition decode_data := decode_data_gen true.
(* the code before the F17 fix, kept for the witness in Properties/C22.v *)
Definition decode_data_f17 := decode_data_gen false.

(* readLoop: one successful read appends the chunk to the connection buffer
   and decodes. *)
Definition feed_gen (keep : bool) (max : Z) (buf chunk : bytes) := decode_data_gen keep max (buf ++ chunk).
Definition feed := feed_gen true.

(* readLoop over a sequence of reads: frames handed to the message channel, in
   order; an error ends the loop (nothing of that read is delivered). *)
Fixpoint run_gen (keep : bool) (max : Z) (buf : bytes) (chunks : list bytes)
  : list bytes * bytes * status :=
  match chunks with
  | [] => ([], buf, Running)
  | c :: cs =>
    match feed_gen keep max buf c with
    | (buf', d, Running) =>
        match run_gen keep max buf' cs with
        | (d2, b2, st2) => (d ++ d2, b2, st2)
        end
    | (buf', d, st) => (d, buf', st)
    end
  end.
Definition run := run_gen true.

(* Chunking-independent reference: what the whole stream contains. *)
Inductive tail := Wait (rest : bytes) | Bad | NoFuel.
Fixpoint parse_all (fuel : nat) (max : Z) (s : bytes) : list bytes * tail :=
  match fuel with
  | O => ([], NoFuel)
  | S fuel' =>
    match next_frame max s with
    | NeedHeader | NeedBody => ([], Wait s)
    | BadLength => ([], Bad)
    | Frame f rest => let '(fs, t) := parse_all fuel' max rest in (f :: fs, t)
    end
  end.
Definition parse (max : Z) (s : bytes) := parse_all (S (List.length s)) max s.

(* sender side: EncodeMessage = 4-byte little-endian length of (id ++ body), then id ++ body *)
Definition enc_frame (f : bytes) : bytes := le_bytes 4 (blen f) ++ f.
Definition frame_ok (max : Z) (f : bytes) : Prop := MIN_LENGTH <= blen f /\ blen f <= max /\ blen f < 2 ^ 32.
Definition frame_okb (max : Z) (f : bytes) : bool :=
  (MIN_LENGTH <=? blen f) && (blen f <=? max) && (blen f <? 2 ^ 32).

(* ---- convertToMessage ---- *)

(* The 12 message ids registered by daemon.MessagesConfig.Register
   (compared with gnet.MessageIDReverseMap on every run: `mism_table`). *)
Definition id_of_string (a b c d : Z) : bytes := [a; b; c; d].
Definition daemon_msg_ids : list bytes :=
  [ [73; 78; 84; 82]   (* INTR *)
  ; [71; 69; 84; 80]   (* GETP *)
  ; [71; 73; 86; 80]   (* GIVP *)
  ; [80; 73; 78; 71]   (* PING *)
  ; [80; 79; 78; 71]   (* PONG *)
  ; [71; 69; 84; 66]   (* GETB *)
  ; [71; 73; 86; 66]   (* GIVB *)
  ; [65; 78; 78; 66]   (* ANNB *)
  ; [71; 69; 84; 84]   (* GETT *)
  ; [71; 73; 86; 84]   (* GIVT *)
  ; [65; 78; 78; 84]   (* ANNT *)
  ; [68; 73; 83; 67]   (* DISC *) ].

Definition eqb_bytes : bytes -> bytes -> bool := eqb_list Z.eqb.
Definition id_known (table : list bytes) (id : bytes) : bool := existsb (eqb_bytes id) table.

(* result of the generated decoder on the body, supplied per frame by the
   harness (the codec itself is the subject of C21): a runtime panic (recovered
   by deserializeMessage), an error, or the number of bytes used. *)
Inductive decoded := DecPanic | DecErr | DecOk (used : Z).

(* convertToMessage(frame) = the message (its id and body bytes) or the reason
   for disconnecting. `res` so that "never panics" is a statement. *)
Definition convert (table : list bytes) (dec : decoded) (f : bytes) : res (bytes * bytes + reason) :=
  if blen f <? 4 then Val (inr TruncatedMessageID)
  else
    let id := firstn 4 f in
    let body := skipn 4 f in
    if negb (id_known table id) then Val (inr UnknownMessage)
    else match dec with
         | DecPanic | DecErr => Val (inr MalformedMessage)
         | DecOk used => if used =? blen body then Val (inl (id, body)) else Val (inr MessageDecodeUnderflow)
         end.

(* receive path end to end: frames go through the message channel to
   receiveMessage one at a time; the first conversion error disconnects.
   Each delivered frame comes with its decoder oracle. *)
Fixpoint receive (table : list bytes) (fds : list (bytes * decoded))
  : res (list (bytes * bytes) * option reason) :=
  match fds with
  | [] => Val ([], None)
  | (f, d) :: r =>
    match convert table d f with
    | Panic => Panic
    | Val (inr e) => Val ([], Some e)
    | Val (inl m) =>
      match receive table r with
      | Panic => Panic
      | Val (ms, e) => Val (m :: ms, e)
      end
    end
  end.

(* boolean equalities for the cases files *)
Definition reason_code (r : reason) : Z :=
  match r with
  | InvalidMessageLength => 1 | TruncatedMessageID => 2 | UnknownMessage => 3
  | MalformedMessage => 4 | MessageDecodeUnderflow => 5
  end.
(* status codes used by the harness: 0 running, 1..5 disconnect reason, 9 other *)
Definition status_code (s : status) : Z :=
  match s with Running => 0 | Disconnected r => reason_code r | OutOfFuel => 99 end.
Definition eqb_frames : list bytes -> list bytes -> bool := eqb_list eqb_bytes.
Fixpoint is_prefix (a b : list bytes) : bool :=
  match a, b with
  | [], _ => true
  | x :: a', y :: b' => eqb_bytes x y && is_prefix a' b'
  | _ :: _, [] => false
  end.
