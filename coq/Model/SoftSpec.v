(* Model/SoftSpec.v — the soft rules as the property C11 states them
   (mathematical, no translated code): which transactions are accepted and
   which rule is reported first. Definitions only. *)
From Sky Require Import Base.Uint Model.ArithSpec Model.HoursSpec.
Open Scope Z_scope.

(* params.VerifyTxn *)
Record vparams := mkP { p_burn : Z; p_maxsize : Z; p_prec : Z }.
(* params.Distribution as TransactionIsLocked sees it: the distribution
   addresses (ids) in order, and the number of initially unlocked ones *)
Record dist := mkD { d_addrs : list Z; d_unlocked : Z }.

(* VerifyTxn.Validate() = nil *)
Definition valid_params (p : vparams) : Prop :=
  2 <= p_burn p < 2 ^ 32 /\ 1024 <= p_maxsize p < 2 ^ 32 /\ 0 <= p_prec p <= 6.
Definition valid_paramsb (p : vparams) : bool :=
  (2 <=? p_burn p) && (p_burn p <? 2 ^ 32) && (1024 <=? p_maxsize p) && (p_maxsize p <? 2 ^ 32) &&
  (0 <=? p_prec p) && (p_prec p <=? 6).
(* Distribution.Validate(): InitialUnlockedCount <= len(Addresses) *)
Definition valid_dist (d : dist) : Prop := 0 <= d_unlocked d <= Z.of_nat (List.length (d_addrs d)).
Definition valid_distb (d : dist) : bool :=
  (0 <=? d_unlocked d) && (d_unlocked d <=? Z.of_nat (List.length (d_addrs d))).

Definition memZ (a : Z) (l : list Z) : bool := existsb (Z.eqb a) l.
Definition locked_addrs (d : dist) : list Z := skipn (Z.to_nat (d_unlocked d)) (d_addrs d).
(* the transaction spends an output owned by a still-locked distribution address *)
Definition spends_locked (d : dist) (ins : list uxin) : bool :=
  existsb (fun i => memZ (i_addr i) (locked_addrs d)) ins.

(* the output amount has at most [prec] decimal places: coins mod 10^(6-prec) = 0 *)
Definition precision_ok (prec : Z) (o : txout) : bool := o_coins o mod 10 ^ (6 - prec) =? 0.

(* input hours at the head time and output hours are computable in 64 bits *)
Definition hours_computable (T : Z) (ins : list uxin) (outs : list txout) : bool :=
  forallb (acc_ok T) ins && (in_acc_sum T ins <? 2 ^ 64) && (out_sum outs <? 2 ^ 64).

Inductive soft_verdict :=
  SAccept | SSize | SHoursErr | SInsufficientHours | SNoFee | SInsufficientFee | SLocked | SDecimals.
Definition soft_verdict_eqb (a b : soft_verdict) : bool :=
  match a, b with
  | SAccept, SAccept | SSize, SSize | SHoursErr, SHoursErr | SInsufficientHours, SInsufficientHours
  | SNoFee, SNoFee | SInsufficientFee, SInsufficientFee | SLocked, SLocked | SDecimals, SDecimals => true
  | _, _ => false
  end.

(* the rule set in the order the node reports it. [sz] is the encoded size,
   [sz_err] says that the transaction could not be encoded at all. *)
Definition soft_spec (sz_err : bool) (sz : Z) (T : Z) (ins : list uxin) (outs : list txout)
    (d : dist) (p : vparams) : soft_verdict :=
  if sz_err || (p_maxsize p <? sz) then SSize
  else if negb (hours_computable T ins outs) then SHoursErr
  else
    let hin := in_acc_sum T ins in
    let hout := out_sum outs in
    let fee := hin - hout in
    if hin <? hout then SInsufficientHours
    else if fee =? 0 then SNoFee
    else if fee <? ceil_div hin (p_burn p) then SInsufficientFee
    else if spends_locked d ins then SLocked
    else if negb (forallb (precision_ok (p_prec p)) outs) then SDecimals
    else SAccept.

(* error name -> rule *)
Definition classify (e : error) : soft_verdict :=
  match e with
  | None => SAccept
  | Some s =>
    if String.eqb s "ErrTxnExceedsMaxBlockSize" then SSize
    else if String.eqb s "ErrTxnInsufficientCoinHours" then SInsufficientHours
    else if String.eqb s "ErrTxnNoFee" then SNoFee
    else if String.eqb s "ErrTxnInsufficientFee" then SInsufficientFee
    else if String.eqb s "ErrTxnIsLocked" then SLocked
    else if String.eqb s "ErrInvalidDecimals" then SDecimals
    else SHoursErr
  end.

(* the five documented soft reasons *)
Definition documented_soft (v : soft_verdict) : bool :=
  match v with SSize | SNoFee | SInsufficientFee | SLocked | SDecimals => true | _ => false end.
