(* Model/LedgerObs.v — what the ledger harness (harness/c01) records about the
   implementation after every op, and the DECIDABLE FORMS of properties C01, C02
   and C04 evaluated on those records alone (no use of the model's step
   function: created-minus-spent, sums and the append rule are recomputed here
   independently from the submitted blocks and the implementation's verdicts).
   Definitions only. *)
From Sky Require Import Base.Uint Model.LedgerTypes.
Open Scope Z_scope.

(* projected state of the node *)
Record dump := mkDump {
  d_seq : Z;            (* head block seq *)
  d_head : Z;           (* head header hash (id) *)
  d_time : Z;           (* head time *)
  d_xor : Z;            (* stored unspent-set checksum (projected) *)
  d_stored : Z;         (* header hash of the block re-read from the store at head seq *)
  d_sig_ok : bool;      (* the stored signature verifies over the stored header under the configured key *)
  d_db_ok : bool;       (* visor.CheckDatabase passes on the node's file *)
  d_utxo : list (Z * Z * Z);   (* (id, coins, hours) sorted by id *)
  d_digest : Z          (* id of the digest of everything a rejected block must leave unchanged *)
}.

Record history := mkHist {
  hi_arb : bool;        (* the node runs in arbitrating mode (block publisher configuration) *)
  hi_genesis : block;
  hi_volume : Z;        (* configured GenesisCoinVolume *)
  hi_d0 : dump;         (* after Visor.Init *)
  (* start-up attempts of a node on a fresh empty database with the same genesis
     block and some GenesisSignature: (the signature verifies over the genesis
     header under the configured key, Visor.Init succeeded, block 0 is stored
     afterwards) *)
  hi_starts : list (bool * bool * bool);
  (* submitted block, verdict, state after the op, and — when accepted — the
     transactions of the block as re-read from the node's store (an arbitrating
     node stores a filtered, re-ordered body) *)
  hi_steps : list (block * outcome * dump * list txn)
}.

Definition eqb_trip (a b : Z * Z * Z) : bool :=
  let '(a1, a2, a3) := a in let '(b1, b2, b3) := b in (a1 =? b1) && (a2 =? b2) && (a3 =? b3).
Definition eqb_dump (a b : dump) : bool :=
  (d_seq a =? d_seq b) && (d_head a =? d_head b) && (d_time a =? d_time b) && (d_xor a =? d_xor b) &&
  (d_stored a =? d_stored b) && Bool.eqb (d_sig_ok a) (d_sig_ok b) && Bool.eqb (d_db_ok a) (d_db_ok b) &&
  eqb_list eqb_trip (d_utxo a) (d_utxo b) && (d_digest a =? d_digest b).
Definition is_accepted (o : outcome) : bool := match o with Accepted => true | _ => false end.
Definition d_ids (d : dump) : list Z := map (fun t => fst (fst t)) (d_utxo d).
Definition d_coins (d : dump) : list Z := map (fun t => snd (fst t)) (d_utxo d).
Fixpoint d_find (id : Z) (l : list (Z * Z * Z)) : option (Z * Z) :=
  match l with [] => None | (i, c, h) :: r => if i =? id then Some (c, h) else d_find id r end.

(* walk the steps keeping the previous dump and an accumulator; collect the
   local indices (init = 0, steps from 1) where `test` is false *)
Section Walk.
  Variable A : Type.
  (* the tests see the block with the body the node STORED (sb) next to the submitted one *)
  Variable test : A -> dump -> block -> block -> outcome -> dump -> bool.
  Variable next : A -> dump -> block -> block -> outcome -> dump -> A.
  Fixpoint walk (i : Z) (acc : A) (prev : dump) (l : list (block * outcome * dump * list txn)) : list Z :=
    match l with
    | [] => []
    | (b, o, d, st) :: r =>
        let sb := mkBlock (b_head b) (b_hash b) (b_body_actual b) (b_sig_ok b) st in
        (if test acc prev b sb o d then [] else [i]) ++ walk (i + 1) (next acc prev b sb o d) d r
    end.
End Walk.

Fixpoint flat_fail (tests : history -> list Z) (hs : list history) (off : Z) : list Z :=
  match hs with
  | [] => []
  | h :: r => map (Z.add off) (tests h) ++ flat_fail tests r (off + 1 + lenZ (hi_steps h))
  end.

(* ------------------------------------------------------------------ C01 *)
(* coins of the inputs of a transaction as the PREVIOUS dump lists them *)
Fixpoint in_coins (prev : dump) (hs : list Z) : option Z :=
  match hs with
  | [] => Some 0
  | h :: r => match d_find h (d_utxo prev), in_coins prev r with
              | Some (c, _), Some s => Some (c + s)
              | _, _ => None
              end
  end.
Definition txn_balanced (prev : dump) (t : txn) : bool :=
  match in_coins prev (t_ins t) with
  | Some cin => (cin =? sumZ (map o_coins (t_outs t))) && (cin <? 2 ^ 64)
  | None => false
  end.
Definition c01_test (vol : Z) (_ : unit) (prev : dump) (b sb : block) (o : outcome) (d : dump) : bool :=
  (sumZ (d_coins d) =? vol) &&
  (if is_accepted o then forallb (txn_balanced prev) (b_txns sb) else true).
Definition pf_c01_hist (h : history) : list Z :=
  (if (sumZ (d_coins (hi_d0 h)) =? hi_volume h) &&
      (sumZ (map o_coins (flat_map t_outs (b_txns (hi_genesis h)))) =? hi_volume h) then [] else [0]) ++
  walk unit (c01_test (hi_volume h)) (fun _ _ _ _ _ _ => tt) 1 tt (hi_d0 h) (hi_steps h).

(* ------------------------------------------------------------------ C02 *)
(* accumulator: ids created so far, ids spent so far, expected unspent ids (created minus spent) *)
Record c02_acc := mkAcc { a_created : list Z; a_spent : list Z; a_unspent : list Z }.
Definition blk_ins (b : block) : list Z := flat_map t_ins (b_txns b).
Definition blk_out_ids (b : block) : list Z := map o_id (flat_map t_outs (b_txns b)).
Fixpoint insert_sorted (x : Z) (l : list Z) : list Z :=
  match l with [] => [x] | y :: r => if x <=? y then x :: l else y :: insert_sorted x r end.
Definition sortZ (l : list Z) : list Z := fold_right insert_sorted [] l.
Definition subsetZ (a b : list Z) : bool := forallb (fun x => memZ x b) a.
Definition disjointZ (a b : list Z) : bool := forallb (fun x => negb (memZ x b)) a.
(* the accounting follows the body the node stored *)
Definition c02_next (a : c02_acc) (_ : dump) (_ b : block) (o : outcome) (_ : dump) : c02_acc :=
  if is_accepted o then
    mkAcc (blk_out_ids b ++ a_created a) (blk_ins b ++ a_spent a)
          (filter (fun x => negb (memZ x (blk_ins b))) (a_unspent a) ++ blk_out_ids b)
  else a.
Definition outs_recorded (d : dump) (b : block) : bool :=
  forallb (fun o => match d_find (o_id o) (d_utxo d) with
                    | Some (c, h) => (c =? o_coins o) && (h =? o_hours o)
                    | None => false
                    end) (flat_map t_outs (b_txns b)).
Definition c02_test (a : c02_acc) (prev : dump) (sub b : block) (o : outcome) (d : dump) : bool :=
  let a' := c02_next a prev sub b o d in
  (* the unspent set is exactly created minus spent, recomputed from the accepted blocks *)
  eqb_list Z.eqb (d_ids d) (sortZ (a_unspent a')) && nodupZ (d_ids d) &&
  (if is_accepted o then
     subsetZ (blk_ins b) (d_ids prev) &&          (* every input was unspent at the head *)
     nodupZ (blk_ins b) &&                         (* no output spent twice within the block *)
     disjointZ (blk_ins b) (a_spent a) &&          (* ... nor spent before *)
     nodupZ (blk_out_ids b) &&                     (* created ids are new: among themselves, *)
     disjointZ (blk_out_ids b) (a_created a) &&    (* and against every id ever created *)
     outs_recorded d b
   else true).
Definition pf_c02_hist (h : history) : list Z :=
  let g := blk_out_ids (hi_genesis h) in
  (if eqb_list Z.eqb (d_ids (hi_d0 h)) (sortZ g) && nodupZ g then [] else [0]) ++
  walk c02_acc c02_test c02_next 1 (mkAcc g [] g) (hi_d0 h) (hi_steps h).

(* ------------------------------------------------------------------ C04 *)
Definition hashes_of (ts : list txn) : list Z := map t_hash ts.
Definition c04_test (arb : bool) (ghash : Z) (_ : unit) (prev : dump) (b sb : block) (o : outcome) (d : dump) : bool :=
  d_db_ok d && d_sig_ok d && (d_stored d =? d_head d) &&
  match o with
  | Accepted =>
      b_sig_ok b &&
      (h_seq (b_head b) =? d_seq prev + 1) &&
      (d_time prev <? h_time (b_head b)) &&
      (h_prev (b_head b) =? d_head prev) &&
      (b_body_actual b =? h_body (b_head b)) &&
      (h_uxhash (b_head b) =? d_xor prev) &&
      negb (b_hash b =? ghash) &&
      (* the stored header is the submitted (signed) header, and it is the new head *)
      (d_stored d =? b_hash b) && (d_head d =? b_hash b) &&
      (d_seq d =? h_seq (b_head b)) && (d_time d =? h_time (b_head b)) &&
      (* the stored body: the submitted one; on an arbitrating node a part of it *)
      (if arb then forallb (fun x => memZ x (hashes_of (b_txns b))) (hashes_of (b_txns sb))
       else eqb_list Z.eqb (hashes_of (b_txns sb)) (hashes_of (b_txns b)))
  | Rejected _ => eqb_dump prev d       (* a rejected block changes nothing *)
  | Crashed => false
  end.
(* a node starts (appends its genesis block) only with a verifying genesis
   signature; a refused start stores nothing *)
Definition start_ok (a : bool * bool * bool) : bool :=
  let '(sigok, started, stored) := a in
  (if started then sigok && stored else negb stored).
Definition pf_c04_hist (h : history) : list Z :=
  (if forallb start_ok (hi_starts h) && d_db_ok (hi_d0 h) && d_sig_ok (hi_d0 h) && (d_stored (hi_d0 h) =? b_hash (hi_genesis h)) &&
      (d_head (hi_d0 h) =? b_hash (hi_genesis h)) && (d_seq (hi_d0 h) =? 0) then [] else [0]) ++
  walk unit (c04_test (hi_arb h) (b_hash (hi_genesis h))) (fun _ _ _ _ _ _ => tt) 1 tt (hi_d0 h) (hi_steps h).

(* ------------------------------------------------------------------ premises of the theorems,
   evaluated on every generated history (non-vacuity) *)
Definition all_blocks (h : history) : list block := map (fun s => fst (fst (fst s))) (hi_steps h).
Definition all_txns (h : history) : list txn := flat_map b_txns (all_blocks h).
Definition block_in_range_b (b : block) : bool :=
  forallb (fun t => forallb (fun o => in_ub 64 (o_coins o)) (t_outs t)) (b_txns b).
Definition hist_in_range_b (h : history) : bool :=
  block_in_range_b (hi_genesis h) && forallb block_in_range_b (all_blocks h).
Definition genesis_wf_b (h : history) : bool :=
  block_in_range_b (hi_genesis h) && nodupZ (blk_out_ids (hi_genesis h)) &&
  match blk_ins (hi_genesis h) with [] => true | _ => false end.
(* the id table is consistent: an output id determines its source transaction,
   a transaction hash determines its inputs, genesis ids are not reused *)
Definition outs_src_consistent_b (ts : list txn) : bool :=
  forallb (fun t1 => forallb (fun t2 =>
    (t_hash t1 =? t_hash t2) ||
    disjointZ (map o_id (t_outs t1)) (map o_id (t_outs t2))) ts) ts.
Definition hash_ins_consistent_b (ts : list txn) : bool :=
  forallb (fun t1 => forallb (fun t2 =>
    negb (t_hash t1 =? t_hash t2) || eqb_list Z.eqb (t_ins t1) (t_ins t2)) ts) ts.
Definition ids_consistent_b (h : history) : bool :=
  outs_src_consistent_b (all_txns h) && hash_ins_consistent_b (all_txns h) &&
  disjointZ (blk_out_ids (hi_genesis h)) (map o_id (flat_map t_outs (all_txns h))).
Definition premises_b (h : history) : bool := hist_in_range_b h && genesis_wf_b h && ids_consistent_b h.
