(* Model/Bip.v — BIP39 / BIP32 / BIP44 as the standards define them (property C16).
   Definitions only; executable; compared with src/cipher/bip39, bip32, bip44 on
   every run (extracted to OCaml, Mode B).

   The hash functions are NOT modelled: SHA-256, HMAC-SHA512, RIPEMD160(SHA256(.)),
   PBKDF2-HMAC-SHA512 and Unicode NFKD are Section variables (oracles), answered
   during the correspondence by Python's hashlib / hmac / unicodedata — an
   implementation independent of the Go code.  The elliptic-curve part is the
   textbook curve of Model/Secp.v. *)
From Coq Require Import ZArith List Bool String Ascii.
From Sky Require Import Model.Secp.
Import ListNotations.
Open Scope Z_scope.

(* ------------------------------------------------------------------ byte strings *)

Definition bytes_of_string (s : string) : list Z :=
  List.map (fun c => Z.of_N (N_of_ascii c)) (list_ascii_of_string s).

Fixpoint bytes_eq (a b : list Z) : bool :=
  match a, b with
  | [], [] => true
  | x :: a', y :: b' => (x =? y) && bytes_eq a' b'
  | _, _ => false
  end.

Fixpoint is_prefix (p s : list Z) : bool :=
  match p, s with
  | [], _ => true
  | x :: p', y :: s' => (x =? y) && is_prefix p' s'
  | _ :: _, [] => false
  end.
Definition is_suffix (p s : list Z) : bool := is_prefix (rev p) (rev s).

(* strings.Split(s, sep) for a one-byte separator: at least one field *)
Fixpoint split_on (sep : Z) (s : list Z) (cur : list Z) : list (list Z) :=
  match s with
  | [] => [rev cur]
  | b :: r => if b =? sep then rev cur :: split_on sep r [] else split_on sep r (b :: cur)
  end.
Definition split (sep : Z) (s : list Z) : list (list Z) := split_on sep s [].

Fixpoint join (sep : Z) (ws : list (list Z)) : list Z :=
  match ws with
  | [] => []
  | [w] => w
  | w :: r => w ++ sep :: join sep r
  end.

(* ------------------------------------------------------------------ BIP39 *)

(* UTF-8 encodings of the characters strings.TrimSpace removes (unicode.IsSpace) *)
Definition space_seqs : list (list Z) :=
  [[9]; [10]; [11]; [12]; [13]; [32]; [194; 133]; [194; 160]; [225; 154; 128];
   [226; 128; 128]; [226; 128; 129]; [226; 128; 130]; [226; 128; 131]; [226; 128; 132]; [226; 128; 133];
   [226; 128; 134]; [226; 128; 135]; [226; 128; 136]; [226; 128; 137]; [226; 128; 138];
   [226; 128; 168]; [226; 128; 169]; [226; 128; 175]; [226; 129; 159]; [227; 128; 128]].
Definition surrounding_space (s : list Z) : bool :=
  existsb (fun w => is_prefix w s) space_seqs || existsb (fun w => is_suffix w s) space_seqs.

Inductive bip39_err : Type :=
  | ErrInvalidEntropyLength | ErrChecksumIncorrect | ErrSurroundingWhitespace
  | ErrInvalidSeparator | ErrUnknownWord | ErrInvalidNumberOfWords.

Section Bip39.
  Variable sha256 : list Z -> list Z.
  (* the word list: 2048 words (Gen/Bip39Words.v, regenerated from the Go source) *)
  Variable words : list (list Z).

  (* ENT in {128,160,192,224,256} bits *)
  Definition entropy_len_ok (nbytes : Z) : bool :=
    (nbytes mod 4 =? 0) && (16 <=? nbytes) && (nbytes <=? 32).

  (* checksum: the first ENT/32 bits of SHA-256(entropy), as a number *)
  Definition checksum_bits (entropy : list Z) : Z :=
    let cs := Z.of_nat (List.length entropy) / 4 in
    match sha256 entropy with
    | h0 :: _ => h0 / 2 ^ (8 - cs)
    | [] => 0
    end.

  (* k big-endian digits of v in base 2048 *)
  Fixpoint digits2048 (k : nat) (v : Z) (acc : list Z) : list Z :=
    match k with
    | O => acc
    | S k' => digits2048 k' (v / 2048) (v mod 2048 :: acc)
    end.
  Fixpoint undigits2048 (acc : Z) (ds : list Z) : Z :=
    match ds with
    | [] => acc
    | d :: r => undigits2048 (acc * 2048 + d) r
    end.

  (* entropy || checksum, cut in 11-bit groups: the word indices *)
  Definition indices_of_entropy (entropy : list Z) : bip39_err + list Z :=
    let nb := Z.of_nat (List.length entropy) in
    if negb (entropy_len_ok nb) then inl ErrInvalidEntropyLength
    else
      let cs := nb / 4 in
      let v := be_val entropy * 2 ^ cs + checksum_bits entropy in
      inr (digits2048 (Z.to_nat ((nb * 8 + cs) / 11)) v []).

  Definition count_ok (w : Z) : bool := (w mod 3 =? 0) && (12 <=? w) && (w <=? 24).

  (* the inverse: indices -> entropy, checking the checksum *)
  Definition entropy_of_indices (idx : list Z) : bip39_err + list Z :=
    let w := Z.of_nat (List.length idx) in
    if negb (count_ok w) then inl ErrInvalidNumberOfWords
    else
      let cs := w / 3 in                      (* checksum bits: 4,5,6,7,8 *)
      let v := undigits2048 0 idx in
      let entropy := be_bytes (Z.to_nat (w / 3 * 4)) (v / 2 ^ cs) in
      if v mod 2 ^ cs =? checksum_bits entropy then inr entropy else inl ErrChecksumIncorrect.

  (* words <-> indices *)
  Fixpoint index_of (w : list Z) (l : list (list Z)) (i : Z) : option Z :=
    match l with
    | [] => None
    | x :: r => if bytes_eq x w then Some i else index_of w r (i + 1)
    end.
  Definition word_index (w : list Z) : option Z := index_of w words 0.
  Definition index_word (i : Z) : option (list Z) :=
    if (0 <=? i) && (i <? Z.of_nat (List.length words)) then nth_error words (Z.to_nat i) else None.

  Fixpoint map_opt {A B} (f : A -> option B) (l : list A) : option (list B) :=
    match l with
    | [] => Some []
    | a :: r => match f a, map_opt f r with
                | Some b, Some bs => Some (b :: bs)
                | _, _ => None
                end
    end.

  (* bip39.NewMnemonic: words joined by one space *)
  Definition new_mnemonic (entropy : list Z) : bip39_err + list Z :=
    match indices_of_entropy entropy with
    | inl e => inl e
    | inr idx => match map_opt index_word idx with
                 | Some ws => inr (join 32 ws)
                 | None => inl ErrUnknownWord      (* unreachable for a 2048-word list *)
                 end
    end.

  (* splitMnemonicWords: no surrounding white space, single spaces, 12..24 words
     (multiple of 3), all words known *)
  Definition split_mnemonic (s : list Z) : bip39_err + list Z :=
    if surrounding_space s then inl ErrSurroundingWhitespace
    else
      let ws := split 32 s in
      if existsb (fun w => match w with [] => true | _ => false end) ws then inl ErrInvalidSeparator
      else if negb (count_ok (Z.of_nat (List.length ws))) then inl ErrInvalidNumberOfWords
      else match map_opt word_index ws with
           | Some idx => inr idx
           | None => inl ErrUnknownWord
           end.

  (* bip39.EntropyFromMnemonic / ValidateMnemonic *)
  Definition entropy_from_mnemonic (s : list Z) : bip39_err + list Z :=
    match split_mnemonic s with
    | inl e => inl e
    | inr idx => entropy_of_indices idx
    end.
  Definition validate_mnemonic (s : list Z) : option bip39_err :=
    match entropy_from_mnemonic s with inl e => Some e | inr _ => None end.

  (* bip39.NewSeed: PBKDF2-HMAC-SHA512(NFKD(mnemonic), "mnemonic" || NFKD(passphrase), 2048, 64)
     of a VALID mnemonic *)
  Variable nfkd : list Z -> list Z.
  Variable pbkdf2 : list Z -> list Z -> list Z.
  Definition salt_prefix : list Z := [109; 110; 101; 109; 111; 110; 105; 99].   (* "mnemonic" *)
  Definition new_seed (mnemonic passphrase : list Z) : bip39_err + list Z :=
    match validate_mnemonic mnemonic with
    | Some e => inl e
    | None => inr (pbkdf2 (nfkd mnemonic) (salt_prefix ++ nfkd passphrase))
    end.
End Bip39.

(* ------------------------------------------------------------------ BIP32 *)

Definition hardened : Z := 2147483648.              (* 2^31 *)
Definition xprv_version : list Z := [4; 136; 173; 228].
Definition xpub_version : list Z := [4; 136; 178; 30].
Definition master_hmac_key : list Z := [66; 105; 116; 99; 111; 105; 110; 32; 115; 101; 101; 100]. (* "Bitcoin seed" *)

(* an extended key: private (32-byte key) or public (33-byte compressed point) *)
Record xkey : Type := XKey {
  x_private : bool;
  x_depth : Z;
  x_fp : list Z;        (* parent fingerprint, 4 bytes *)
  x_child : Z;          (* child number, 32 bits *)
  x_chain : list Z;     (* chain code, 32 bytes *)
  x_key : list Z
}.

Inductive bip32_err : Type :=
  | ErrInvalidSeedLength | ErrDerivedInvalidPrivateKey | ErrImpossibleChild
  | ErrHardenedChildPublicKey | ErrMaxDepthReached
  | ErrSerializedKeyWrongSize | ErrInvalidChecksum | ErrInvalidKeyVersion
  | ErrInvalidPrivateKeyVersion | ErrInvalidPublicKeyVersion
  | ErrInvalidFingerprint | ErrInvalidChildNumber | ErrInvalidPrivateKey | ErrInvalidPublicKey
  | ErrPathNoMaster | ErrPathChildMaster | ErrPathNodeNotNumber | ErrPathNodeNumberTooLarge
  | ErrPathEmptySubpath | ErrInvalidCoinType | ErrInvalidAccount.

Section Bip32.
  Variable hmac_sha512 : list Z -> list Z -> list Z.   (* key, data -> 64 bytes *)
  Variable hash160 : list Z -> list Z.                 (* ripemd160(sha256(.)) -> 20 bytes *)
  Variable sha256 : list Z -> list Z.

  Definition ser32 (i : Z) : list Z := be_bytes 4 i.

  (* master key: I = HMAC-SHA512("Bitcoin seed", seed); IL = 0 or IL >= n is invalid *)
  Definition master_key (seed : list Z) : bip32_err + xkey :=
    let len := Z.of_nat (List.length seed) in
    if (len <? 16) || (64 <? len) then inl ErrInvalidSeedLength
    else
      let i := hmac_sha512 master_hmac_key seed in
      let il := firstn 32 i in
      if seckey_valid (be_val il) then inr (XKey true 0 [0; 0; 0; 0] 0 (skipn 32 i) il)
      else inl ErrDerivedInvalidPrivateKey.

  (* serP(point(k)) *)
  Definition pub_of_priv (k : list Z) : option (list Z) := pubkey_of_seckey (be_val k).

  (* N((k, c)) = (K, c) *)
  Definition neuter (k : xkey) : option xkey :=
    if x_private k then
      match pub_of_priv (x_key k) with
      | Some pk => Some (XKey false (x_depth k) (x_fp k) (x_child k) (x_chain k) pk)
      | None => None
      end
    else Some k.

  Definition fingerprint (pubkey : list Z) : list Z := firstn 4 (hash160 pubkey).

  (* CKDpriv((kpar, cpar), i) *)
  Definition ckd_priv (k : xkey) (i : Z) : bip32_err + xkey :=
    if negb (x_private k) then inl ErrInvalidPrivateKey
    else if x_depth k =? 255 then inl ErrMaxDepthReached
    else
      match pub_of_priv (x_key k) with
      | None => inl ErrInvalidPrivateKey
      | Some pk =>
          let data := (if hardened <=? i then 0 :: x_key k else pk) ++ ser32 i in
          let ih := hmac_sha512 (x_chain k) data in
          let il := be_val (firstn 32 ih) in
          let ki := (il + be_val (x_key k)) mod n in
          (* "In case parse256(IL) >= n or ki = 0, the resulting key is invalid" *)
          if (n <=? il) || (ki =? 0) then inl ErrImpossibleChild
          else inr (XKey true (x_depth k + 1) (fingerprint pk) i (skipn 32 ih) (be_bytes 32 ki))
      end.

  (* CKDpub((Kpar, cpar), i) *)
  Definition ckd_pub (k : xkey) (i : Z) : bip32_err + xkey :=
    if x_private k then inl ErrInvalidPublicKey
    else if x_depth k =? 255 then inl ErrMaxDepthReached
    else if hardened <=? i then inl ErrHardenedChildPublicKey
    else
      match parse_pubkey (x_key k) with
      | inr _ => inl ErrInvalidPublicKey
      | inl kpar =>
          let ih := hmac_sha512 (x_chain k) (x_key k ++ ser32 i) in
          let il := be_val (firstn 32 ih) in
          (* "In case parse256(IL) >= n or Ki is the point at infinity, the resulting key is invalid" *)
          if n <=? il then inl ErrImpossibleChild
          else match compress (padd (smulx il G) kpar) with
               | None => inl ErrImpossibleChild
               | Some ck => inr (XKey false (x_depth k + 1) (fingerprint (x_key k)) i (skipn 32 ih) ck)
               end
      end.

  (* ---- serialisation: 4 version | 1 depth | 4 fingerprint | 4 child | 32 chain | 33 key | 4 checksum *)
  Definition checksum4 (b : list Z) : list Z := firstn 4 (sha256 (sha256 b)).
  Definition serialize (k : xkey) : list Z :=
    let body := (if x_private k then xprv_version else xpub_version) ++ [x_depth k] ++ x_fp k ++ ser32 (x_child k)
                ++ x_chain k ++ (if x_private k then 0 :: x_key k else x_key k) in
    body ++ checksum4 body.

  Definition slice (a len : nat) (b : list Z) : list Z := firstn len (skipn a b).

  Definition deserialize (want_private : bool) (data : list Z) : bip32_err + xkey :=
    if negb (Nat.eqb (List.length data) 82) then inl ErrSerializedKeyWrongSize
    else if negb (bytes_eq (checksum4 (firstn 78 data)) (skipn 78 data)) then inl ErrInvalidChecksum
    else
      let version := slice 0 4 data in
      let depth := nth 4 data 0 in
      let fp := slice 5 4 data in
      let child := be_val (slice 9 4 data) in
      let chain := slice 13 32 data in
      let is_priv := bytes_eq version xprv_version in
      let is_pub := bytes_eq version xpub_version in
      if negb is_priv && negb is_pub then inl ErrInvalidKeyVersion
      else if want_private && negb is_priv then inl ErrInvalidPrivateKeyVersion
      else if negb want_private && negb is_pub then inl ErrInvalidPublicKeyVersion
      else if (depth =? 0) && negb (bytes_eq fp [0; 0; 0; 0]) then inl ErrInvalidFingerprint
      else if (depth =? 0) && negb (child =? 0) then inl ErrInvalidChildNumber
      else if is_priv then
        if negb (nth 45 data 0 =? 0) then inl ErrInvalidPrivateKey
        else
          let key := slice 46 32 data in
          if seckey_valid (be_val key) then inr (XKey true depth fp child chain key) else inl ErrInvalidPrivateKey
      else
        let key := slice 45 33 data in
        if pubkey_valid key then inr (XKey false depth fp child chain key) else inl ErrInvalidPublicKey.

  (* ---- paths: "m" ( "/" digits [ "'" ] )* *)
  Definition is_digit (b : Z) : bool := (48 <=? b) && (b <=? 57).
  Fixpoint dec_val (acc : Z) (ds : list Z) : Z :=
    match ds with [] => acc | d :: r => dec_val (acc * 10 + (d - 48)) r end.

  (* parseNode: strconv.ParseUint(x, 10, 32) then < 2^31; a trailing ' adds 2^31 *)
  Definition parse_node (x : list Z) : bip32_err + Z :=
    let hard := is_suffix [39] x in
    let ds := if hard then removelast x else x in
    match ds with
    | [] => inl ErrPathNodeNotNumber
    | _ =>
        if negb (forallb is_digit ds) then inl ErrPathNodeNotNumber
        else
          let v := dec_val 0 ds in
          if 4294967296 <=? v then inl ErrPathNodeNotNumber          (* ParseUint range error *)
          else if hardened <=? v then inl ErrPathNodeNumberTooLarge
          else inr (if hard then v + hardened else v)
    end.

  Fixpoint parse_nodes (xs : list (list Z)) : bip32_err + list Z :=
    match xs with
    | [] => inr []
    | x :: r =>
        if bytes_eq x [109] then inl ErrPathChildMaster
        else match parse_node x with
             | inl e => inl e
             | inr v => match parse_nodes r with
                        | inl e => inl e
                        | inr vs => inr (v :: vs)
                        end
             end
    end.

  (* ParsePath: child numbers after the master node *)
  Definition parse_path (p : list Z) : bip32_err + list Z :=
    match split 47 p with
    | x :: r => if bytes_eq x [109] then parse_nodes r else inl ErrPathNoMaster
    | [] => inl ErrPathNoMaster
    end.

  (* canonical text of a path *)
  Fixpoint dec_digits (fuel : nat) (v : Z) (acc : list Z) : list Z :=
    match fuel with
    | O => acc
    | S f => if v <? 10 then (48 + v) :: acc else dec_digits f (v / 10) ((48 + v mod 10) :: acc)
    end.
  Definition print_node (v : Z) : list Z :=
    if hardened <=? v then dec_digits 12 (v - hardened) [] ++ [39] else dec_digits 12 v [].
  Definition print_path (vs : list Z) : list Z := join 47 ([109] :: List.map print_node vs).

  Fixpoint derive (k : xkey) (path : list Z) : bip32_err + xkey :=
    match path with
    | [] => inr k
    | i :: r => match ckd_priv k i with
                | inl e => inl e
                | inr c => derive c r
                end
    end.

  (* bip32.NewPrivateKeyFromPath *)
  Definition private_key_from_path (seed p : list Z) : bip32_err + xkey :=
    match parse_path p with
    | inl e => inl e
    | inr path => match master_key seed with
                  | inl e => inl e
                  | inr m => derive m path
                  end
    end.

  (* ---- BIP44: m / 44' / coin_type' / account' / change / address_index *)
  Definition bip44_coin (seed : list Z) (coin : Z) : bip32_err + xkey :=
    if hardened <=? coin then inl ErrInvalidCoinType
    else match master_key seed with
         | inl e => inl e
         | inr m => derive m [44 + hardened; coin + hardened]
         end.
  Definition bip44_account (c : xkey) (account : Z) : bip32_err + xkey :=
    if hardened <=? account then inl ErrInvalidAccount else ckd_priv c (account + hardened).
  Definition bip44_external (a : xkey) : bip32_err + xkey := ckd_priv a 0.
  Definition bip44_change (a : xkey) : bip32_err + xkey := ckd_priv a 1.
  Definition bip44_path (coin account change index : Z) : list Z :=
    [44 + hardened; coin + hardened; account + hardened; change; index].
End Bip32.
