(* Model/LedgerTypes.v — data of the ledger model (blocks, transactions,
   unspent outputs, outcomes) and small list helpers. Definitions only; no
   dependency on the translated arithmetic, so that the decidable properties
   can be evaluated on the implementation's outputs even when Gen/ changes. *)
From Sky Require Import Base.Uint.
Open Scope Z_scope.

(* error classes: one per check of the code *)
Inductive err : Type :=
| ESig | EGenesis | EBkSeq | ETime | EPrevHash | EBodyHash | ENoTxns
| EUnspentMissing | ENoInputs | ENoOutputs | ESigCount | ETooMany | EDupSpend | EType
| EZeroCoin | EOutOverflow | ELength | EDupOut | EInner | EUnsigned | ESigRecover
| ESigAddr | EInOverflow | EOutOverflow2 | EInsufficientCoins | EDestroyCoins
| ECoinHours | EInHoursOverflow | EInsufficientHours | ECollide
| EDupOutAcross | EOutInPool | EDupTxn | EDoubleSpend | EUxHash
| EStore | EInsertTwice | EHistory | EOther.

Inductive outcome : Type := Accepted | Rejected (e : err) | Crashed.

(* result of a sequence of checks: all passed / first failing check / runtime panic *)
Inductive chk : Type := Pass | Fail (e : err) | Boom.
Definition andthen (c : chk) (k : chk) : chk :=
  match c with Pass => k | Fail e => Fail e | Boom => Boom end.
Notation "c ;; k" := (andthen c k) (at level 61, right associativity).
Definition guard (ok : bool) (e : err) : chk := if ok then Pass else Fail e.

Record txout := mkOut { o_addr : Z; o_coins : Z; o_hours : Z;
                        o_id : Z;      (* hash of UxBody{txn hash, addr, coins, hours} *)
                        o_snap : Z }.  (* snapshot hash of the output as created by the block carrying it *)
Record sigfact := mkSig { sg_null : bool; sg_recovers : bool; sg_signer : Z }.
Record txn := mkTxn { t_hash : Z; t_ins : list Z; t_outs : list txout; t_sigs : list sigfact;
                      t_type : Z;
                      t_len_ok : bool;     (* header length field = serialized size *)
                      t_inner_ok : bool;   (* inner hash field = computed inner hash *)
                      t_ids0 : list Z;     (* output ids with the null source hash:
                                              CreateUnspents(head, txn) when head is the genesis block *)
                      t_size : Z;          (* encoded size in bytes *)
                      t_hkey : Z }.        (* first 8 bytes of the hash, big endian: the order of
                                              bytes.Compare on hashes (arbitrating sort) *)
Record header := mkHeader { h_version : Z; h_time : Z; h_seq : Z; h_fee : Z;
                            h_prev : Z; h_body : Z; h_uxhash : Z }.
Record block := mkBlock { b_head : header;
                          b_hash : Z;          (* hash of the submitted header *)
                          b_body_actual : Z;   (* hash of the submitted body *)
                          b_sig_ok : bool;     (* signature verifies for b_hash under the configured key *)
                          b_txns : list txn }.
Record ux := mkUx { u_id : Z; u_coins : Z; u_hours : Z; u_addr : Z; u_time : Z; u_snap : Z }.
Record state := mkState { chain : list block;   (* head first *)
                          utxo : list ux;
                          xorsum : Z }.

Inductive op : Type := ExecBlock (b : block).

(* ---- small list helpers *)
Fixpoint memZ (x : Z) (l : list Z) : bool :=
  match l with [] => false | y :: r => (x =? y) || memZ x r end.
Fixpoint nodupZ (l : list Z) : bool :=
  match l with [] => true | x :: r => negb (memZ x r) && nodupZ r end.
Fixpoint sumZ (l : list Z) : Z := match l with [] => 0 | x :: r => x + sumZ r end.
Fixpoint find_ux (id : Z) (l : list ux) : option ux :=
  match l with [] => None | u :: r => if u_id u =? id then Some u else find_ux id r end.
Definition ids (l : list ux) : list Z := map u_id l.
Definition lenZ {A} (l : list A) : Z := Z.of_nat (List.length l).

