(* Model/Hours.v — executable model of the coin-hour rules (property C03):
   coin.VerifyTransactionHoursSpending, coin.VerifyTransactionCoinsSpending,
   Transaction.OutputHours, UxArray.CoinHours (src/coin) and the hour-related
   part of transaction.VerifySingleTxnHardConstraints / VerifyBlockTxnConstraints
   (src/transaction/verify.go).
   The scalar arithmetic is the Gallina REGENERATED from /repo on every run
   (Gen.CoinHours.UxOut_CoinHours, Gen.Mathutil.AddUint64); the slice loops are
   written by hand in the order of the Go statements and are compared with the
   running code by the correspondence check of C03/C11. Definitions only. *)
From Sky Require Import Base.Uint Model.ArithSpec Model.HoursSpec Gen.Mathutil Gen.CoinHours.
Open Scope Z_scope.

(* uxIn[i].CoinHours(headTime) *)
Definition coin_hours (T : Z) (i : uxin) : res (Z * error) :=
  UxOut_CoinHours (i_time i) (i_coins i) (i_hours i) T.

(* coin.VerifyTransactionHoursSpending, first loop:
     uxHours, err := uxIn[i].CoinHours(headTime)
     if err != nil { if err == ErrAddEarnedCoinHoursAdditionOverflow { uxHours = 0 } else { return err } }
     hoursIn, err = mathutil.AddUint64(hoursIn, uxHours)
     if err != nil { return errors.New("Transaction input hours overflow") } *)
Fixpoint hours_in_legacy (T : Z) (ins : list uxin) (acc : Z) : res (Z * error) :=
  match ins with
  | [] => Val (acc, None)
  | i :: r =>
    bind (coin_hours T i) (fun '(h, e) =>
    let go (uxHours : Z) :=
      bind (AddUint64 acc uxHours) (fun '(s, e2) =>
      if is_err e2 then Val (0, Some "Transaction input hours overflow"%string)
      else hours_in_legacy T r s) in
    if is_err e then (if eqb_error e E_add then go 0 else Val (0, e)) else go h)
  end.

(* second loop:  hoursOut += uxOut[i].Body.Hours   (unchecked, wraps) *)
Definition out_hours_wrapped (outs : list txout) : Z :=
  fold_left (fun a o => wrap 64 (a + o_hours o)) outs 0.

Definition VerifyTransactionHoursSpending (T : Z) (ins : list uxin) (outs : list txout) : res error :=
  bind (hours_in_legacy T ins 0) (fun '(hoursIn, e) =>
  if is_err e then Val e
  else if hoursIn <? out_hours_wrapped outs then Val (Some "Insufficient coin hours"%string)
  else Val None).

(* Transaction.OutputHours: checked sum *)
Fixpoint output_hours_loop (outs : list txout) (acc : Z) : res (Z * error) :=
  match outs with
  | [] => Val (acc, None)
  | o :: r =>
    bind (AddUint64 acc (o_hours o)) (fun '(s, e) =>
    if is_err e then Val (0, Some "Transaction output hours overflow"%string)
    else output_hours_loop r s)
  end.
Definition Transaction_OutputHours (outs : list txout) : res (Z * error) := output_hours_loop outs 0.

(* UxArray.CoinHours: every CoinHours error is returned, checked sum *)
Fixpoint uxarray_hours_loop (T : Z) (ins : list uxin) (acc : Z) : res (Z * error) :=
  match ins with
  | [] => Val (acc, None)
  | i :: r =>
    bind (coin_hours T i) (fun '(h, e) =>
    if is_err e then Val (0, e)
    else bind (AddUint64 acc h) (fun '(s, e2) =>
         if is_err e2 then Val (0, Some "UxArray.CoinHours addition overflow"%string)
         else uxarray_hours_loop T r s))
  end.
Definition UxArray_CoinHours (T : Z) (ins : list uxin) : res (Z * error) := uxarray_hours_loop T ins 0.

(* coin.VerifyTransactionCoinsSpending *)
Fixpoint coins_loop {A} (f : A -> Z) (msg : string) (l : list A) (acc : Z) : res (Z * error) :=
  match l with
  | [] => Val (acc, None)
  | x :: r =>
    bind (AddUint64 acc (f x)) (fun '(s, e) =>
    if is_err e then Val (0, Some msg) else coins_loop f msg r s)
  end.
Definition VerifyTransactionCoinsSpending (ins : list uxin) (outs : list txout) : res error :=
  bind (coins_loop i_coins "Transaction input coins overflow" ins 0) (fun '(cin, e) =>
  if is_err e then Val e else
  bind (coins_loop o_coins "Transaction output coins overflow" outs 0) (fun '(cout, e) =>
  if is_err e then Val e
  else if cin <? cout then Val (Some "Insufficient coins"%string)
  else if cin >? cout then Val (Some "Transactions may not destroy coins"%string)
  else Val None)).

(* verifyTxnHardConstraints. [pre] is the verdict of the checks that come first
   and do not concern hours (txn.Verify / VerifyUnsigned, the input signatures,
   duplicate outputs — the subject of C09); it is data handed to the model. *)
Definition verifyTxnHardConstraints (pre : error) (T : Z) (ins : list uxin) (outs : list txout) : res error :=
  if is_err pre then Val pre else
  bind (VerifyTransactionCoinsSpending ins outs) (fun e =>
  if is_err e then Val e else VerifyTransactionHoursSpending T ins outs).

(* transaction.VerifyBlockTxnConstraints *)
Definition VerifyBlockTxnConstraints (pre : error) (T : Z) (ins : list uxin) (outs : list txout) : res verdict :=
  bind (verifyTxnHardConstraints pre T ins outs) (fun e => Val (wrap_err Hard e)).

(* for _, ux := range uxIn { if _, err := ux.CoinHours(head.Time); err != nil { return hard(err) } } *)
Fixpoint first_coin_hours_error (T : Z) (ins : list uxin) : res error :=
  match ins with
  | [] => Val None
  | i :: r => bind (coin_hours T i) (fun '(_, e) => if is_err e then Val e else first_coin_hours_error T r)
  end.

(* transaction.VerifySingleTxnHardConstraints *)
Definition VerifySingleTxnHardConstraints (pre : error) (T : Z) (ins : list uxin) (outs : list txout) : res verdict :=
  bind (Transaction_OutputHours outs) (fun '(_, e) =>
  if is_err e then Val (wrap_err Hard e) else
  bind (first_coin_hours_error T ins) (fun e =>
  if is_err e then Val (wrap_err Hard e) else
  bind (verifyTxnHardConstraints pre T ins outs) (fun e => Val (wrap_err Hard e)))).
