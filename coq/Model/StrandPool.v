(* Model/StrandPool.v — the strand protocol of gnet.ConnectionPool as a small-step
   transition system (property C32).

   Threads:
   * callers (API users and the pool's own connection handlers): each runs a
     program = list of strand requests. One request is strand.Strand():
       first select   : send the request on reqC   | <-quit  => ErrConnectionPoolClosed
       second select  : <-done (request finished)  | <-quit  => ErrConnectionPoolClosed
   * the strand worker (processStrand): select { <-quit => close(strandDone), exit
     | req := <-reqC => req.Func() } — with both ready Go picks either one.
   * Shutdown: close(quit) ; <-strandDone ; close listener ; disconnectAll
     (touches the pool state on the Shutdown thread) ; <-done
   * Run: returns (close(done)) once quit is closed, the worker has exited and
     every connection handler has returned.
   The pool state (here: the list of registered connection ids) is touched only
   by the worker while it executes a request, and by Shutdown's disconnectAll.
   What the model cannot exhibit: Go memory-model races on variables outside the
   pool maps (e.g. variables captured by a request closure), sockets, timers.
   Definitions only; proofs in Proofs/StrandPoolProofs.v. *)
From Sky Require Import Base.Uint.
From Coq Require Import List.
Import ListNotations.
Open Scope Z_scope.

(* request bodies: what they do to the pool state *)
Inductive op := OpAdd (c : Z) | OpDel (c : Z) | OpQuery.
Inductive result := ROk | RClosed.   (* f ran and its value came back | ErrConnectionPoolClosed *)

Inductive cstate :=
| CIdle     (* not inside Strand() *)
| CSend     (* in the first select: offering the request *)
| CWait.    (* request handed to the worker: waiting for done or quit *)

Record caller := mkCaller {
  handler : bool;          (* a connection handler goroutine (Run waits for it) *)
  prog : list op;          (* requests still to issue *)
  cst : cstate;
  cur : op;                (* the request being issued (meaningful in CSend / CWait) *)
  reqno : nat;             (* number of the current request; each has its own done channel *)
  reqdone : bool;          (* done channel of the current request is closed *)
  results : list result    (* results of finished calls, latest first *)
}.

Inductive wstate :=
| WNotStarted                         (* Run has not started the strand goroutine (yet) *)
| WIdle
| WRun (i : nat) (n : nat) (o : op)   (* executing request n of caller i: inside the pool state *)
| WExited.                            (* strandDone closed *)

Inductive sstate := SNot | SQuitClosed | SListener | SDisconnect | SWaitDone | SFinished.

Record state := mkState {
  quit : bool;              (* quit channel closed *)
  worker : wstate;
  callers : list caller;
  shut : sstate;
  conns : list Z;           (* the pool state *)
  run_done : bool           (* done channel closed (Run returned) *)
}.

Inductive label :=
| LStart (i : nat)      (* caller i enters Strand() with its next request *)
| LAccept (i : nat)     (* rendezvous on reqC: the worker takes caller i's request *)
| LSendQuit (i : nat)   (* first select takes <-quit *)
| LWaitDone (i : nat)   (* second select takes <-done *)
| LWaitQuit (i : nat)   (* second select takes <-quit (the request may still be running) *)
| LExec                 (* the worker finishes the request: applies it, close(done) *)
| LWorkerQuit           (* the worker's select takes <-quit: close(strandDone) *)
| LShutStart            (* Shutdown: close(quit) *)
| LShutStrandDone       (* Shutdown: <-strandDone *)
| LShutListener         (* Shutdown: listener closed, about to disconnectAll *)
| LShutDisconnect       (* Shutdown: disconnectAll (pool state section) *)
| LRunStart             (* Run is called: it starts the strand goroutine before anything else *)
| LRunFail              (* Run returns early (net.Listen failed): close(done), the strand goroutine keeps running *)
| LRunDone              (* Run returns: close(done) *)
| LShutFinish.          (* Shutdown: <-done, returns *)

Fixpoint upd {A} (i : nat) (f : A -> A) (l : list A) : list A :=
  match l with
  | [] => []
  | x :: r => match i with O => f x :: r | S k => x :: upd k f r end
  end.

Definition apply_op (o : op) (cs : list Z) : list Z :=
  match o with
  | OpAdd c => if existsb (Z.eqb c) cs then cs else c :: cs
  | OpDel c => filter (fun x => negb (Z.eqb c x)) cs
  | OpQuery => cs
  end.

Definition finished (c : caller) : bool :=
  match cst c, prog c with CIdle, [] => true | _, _ => false end.

Definition set_callers (s : state) (cs : list caller) : state :=
  mkState (quit s) (worker s) cs (shut s) (conns s) (run_done s).
Definition set_worker (s : state) (w : wstate) : state :=
  mkState (quit s) w (callers s) (shut s) (conns s) (run_done s).
Definition set_shut (s : state) (x : sstate) : state :=
  mkState (quit s) (worker s) (callers s) x (conns s) (run_done s).

Definition finish_call (r : result) (c : caller) : caller :=
  mkCaller (handler c) (prog c) CIdle (cur c) (reqno c) false (r :: results c).

Definition step (s : state) (l : label) : option state :=
  match l with
  | LStart i =>
    match nth_error (callers s) i with
    | Some c =>
      match cst c, prog c with
      | CIdle, o :: rest =>
        Some (set_callers s (upd i (fun c => mkCaller (handler c) rest CSend o (S (reqno c)) false (results c)) (callers s)))
      | _, _ => None
      end
    | None => None
    end
  | LAccept i =>
    match nth_error (callers s) i, worker s with
    | Some c, WIdle =>
      match cst c with
      | CSend =>
        Some (set_worker (set_callers s (upd i (fun c => mkCaller (handler c) (prog c) CWait (cur c) (reqno c) false (results c)) (callers s)))
                         (WRun i (reqno c) (cur c)))
      | _ => None
      end
    | _, _ => None
    end
  | LSendQuit i =>
    match nth_error (callers s) i with
    | Some c =>
      match cst c with
      | CSend => if quit s then Some (set_callers s (upd i (finish_call RClosed) (callers s))) else None
      | _ => None
      end
    | None => None
    end
  | LWaitDone i =>
    match nth_error (callers s) i with
    | Some c =>
      match cst c with
      | CWait => if reqdone c then Some (set_callers s (upd i (finish_call ROk) (callers s))) else None
      | _ => None
      end
    | None => None
    end
  | LWaitQuit i =>
    match nth_error (callers s) i with
    | Some c =>
      match cst c with
      | CWait => if quit s then Some (set_callers s (upd i (finish_call RClosed) (callers s))) else None
      | _ => None
      end
    | None => None
    end
  | LExec =>
    match worker s with
    | WRun i n o =>
      let cs := upd i (fun c =>
                  match cst c with
                  | CWait => if Nat.eqb (reqno c) n
                             then mkCaller (handler c) (prog c) CWait (cur c) (reqno c) true (results c)
                             else c
                  | _ => c
                  end) (callers s) in
      Some (mkState (quit s) WIdle cs (shut s) (apply_op o (conns s)) (run_done s))
    | _ => None
    end
  | LWorkerQuit =>
    match worker s with
    | WIdle => if quit s then Some (set_worker s WExited) else None
    | _ => None
    end
  | LShutStart =>
    match shut s with
    | SNot => Some (mkState true (worker s) (callers s) SQuitClosed (conns s) (run_done s))
    | _ => None
    end
  | LShutStrandDone =>
    match shut s, worker s with
    | SQuitClosed, WExited => Some (set_shut s SListener)
    | _, _ => None
    end
  | LShutListener =>
    match shut s with SListener => Some (set_shut s SDisconnect) | _ => None end
  | LShutDisconnect =>
    match shut s with
    | SDisconnect => Some (mkState (quit s) (worker s) (callers s) SWaitDone [] (run_done s))
    | _ => None
    end
  | LRunStart =>
    match worker s with
    | WNotStarted => Some (set_worker s WIdle)
    | _ => None
    end
  | LRunFail =>
    match worker s with
    | WNotStarted => None     (* the strand goroutine is started before any error can be returned *)
    | _ => if run_done s then None
           else Some (mkState (quit s) (worker s) (callers s) (shut s) (conns s) true)
    end
  | LRunDone =>
    match worker s with
    | WExited =>
      if quit s && negb (run_done s) && forallb (fun c => negb (handler c) || finished c) (callers s)
      then Some (mkState (quit s) (worker s) (callers s) (shut s) (conns s) true)
      else None
    | _ => None
    end
  | LShutFinish =>
    match shut s with
    | SWaitDone => if run_done s then Some (set_shut s SFinished) else None
    | _ => None
    end
  end.

Definition init_caller (p : bool * list op) : caller :=
  mkCaller (fst p) (snd p) CIdle OpQuery O false [].
Definition init (progs : list (bool * list op)) : state :=
  mkState false WNotStarted (map init_caller progs) SNot [] false.

Fixpoint exec (s : state) (ls : list label) : option state :=
  match ls with
  | [] => Some s
  | l :: r => match step s l with Some s' => exec s' r | None => None end
  end.

(* every state some schedule can reach from some set of caller programs *)
Definition reachable (s : state) : Prop :=
  exists progs ls, exec (init progs) ls = Some s.

(* threads inside a section that reads / writes the pool state *)
Definition worker_in_section (s : state) : bool :=
  match worker s with WRun _ _ _ => true | _ => false end.
Definition shutdown_in_section (s : state) : bool :=
  match shut s with SDisconnect => true | _ => false end.
Definition in_section_count (s : state) : nat :=
  (if worker_in_section s then 1 else 0) + (if shutdown_in_section s then 1 else 0).

(* nothing left to do: every caller has finished and Shutdown was either never
   called or has returned *)
Definition quiescent (s : state) : bool :=
  forallb finished (callers s) &&
  match shut s with SNot | SFinished => true | _ => false end.

Definition label_eqb_shutstart (l : label) : bool := match l with LShutStart => true | _ => false end.

(* all labels that could be enabled in s (for the executable progress check) *)
Definition all_labels (s : state) : list label :=
  flat_map (fun i => [LStart i; LAccept i; LSendQuit i; LWaitDone i; LWaitQuit i]) (seq 0 (List.length (callers s)))
  ++ [LExec; LWorkerQuit; LShutStart; LShutStrandDone; LShutListener; LShutDisconnect; LRunStart; LRunFail; LRunDone; LShutFinish].
Definition enabledb (s : state) (l : label) : bool :=
  match step s l with Some _ => true | None => false end.

(* ---- replay of an observed run of the real pool against the model ----
   The harness logs, with one global atomic counter, for every API call its
   start and its return with the result class, and the start / return of
   Shutdown. A log is allowed when the model has a schedule with the same calls
   and results in which every logged event happens inside its real interval:
   - at CallStart of a call that returned a value: LStart, LAccept, LExec
     (the request runs at once; needs a live worker)
   - at CallStart of a call that returned pool-closed: LStart
   - at CallReturn: LWaitDone resp. LSendQuit (needs quit closed)
   - at ShutdownStart: LShutStart; at ShutdownReturn: the rest of Shutdown
   - at RunStart: LRunStart (the strand goroutine exists from here on); a Run that
     returns the listen error: LRunFail. *)
Inductive event :=
| ECallStart (i : nat) (ran : bool)   (* ran: this call later returned a value (not pool-closed) *)
| ECallReturn (i : nat) (ran : bool)
| EShutStart
| EShutReturn
| ERunStart                           (* Run called *)
| ERunFail.                           (* Run returned the listen error *)

Definition event_labels (e : event) : list label :=
  match e with
  | ECallStart i true => [LStart i; LAccept i; LExec]
  | ECallStart i false => [LStart i]
  | ECallReturn i true => [LWaitDone i]
  | ECallReturn i false => [LSendQuit i]
  | EShutStart => [LShutStart]
  | EShutReturn => [LWorkerQuit; LShutStrandDone; LShutListener; LShutDisconnect; LRunDone; LShutFinish]
  | ERunStart => [LRunStart]
  | ERunFail => [LRunFail]
  end.

(* `pend`: callers whose call started before Run had started the strand goroutine
   and that later returned a value: their request is taken as soon as Run starts *)
Fixpoint replay_evs (s : state) (pend : list nat) (evs : list event) : option state :=
  match evs with
  | [] => Some s
  | e :: r =>
    match e with
    | ECallStart i true =>
      match step s (LStart i) with
      | None => None
      | Some s1 =>
        match worker s1 with
        | WNotStarted => replay_evs s1 (pend ++ [i]) r
        | _ => match exec s1 [LAccept i; LExec] with Some s2 => replay_evs s2 pend r | None => None end
        end
      end
    | ERunStart =>
      match exec s (LRunStart :: flat_map (fun i => [LAccept i; LExec]) pend) with
      | Some s1 => replay_evs s1 [] r
      | None => None
      end
    | EShutReturn =>
      match exec s [LWorkerQuit; LShutStrandDone; LShutListener; LShutDisconnect] with
      | Some s1 =>
        match exec s1 (if run_done s1 then [LShutFinish] else [LRunDone; LShutFinish]) with
        | Some s2 => replay_evs s2 pend r
        | None => None
        end
      | None => None
      end
    | _ => match exec s (event_labels e) with Some s1 => replay_evs s1 pend r | None => None end
    end
  end.

Definition replay (calls_per_caller : list nat) (evs : list event) : option state :=
  replay_evs (init (map (fun k => (false, repeat OpQuery k)) calls_per_caller)) [] evs.
