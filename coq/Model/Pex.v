(* Model/Pex.v — executable model of the peer list of /repo/src/daemon/pex
   (pex.go: validateAddress, AddPeer, AddPeers, setTrusted, RemovePeer, ...;
   peerlist.go: addPeer, clearOld, findOldestUntrustedPeer, ...).
   Strings are byte lists (list Z, one Z per byte). Time (time.Now), the
   permutation rand.Shuffle applies and the map-order dependent choice among
   equally old peers are explicit inputs of the operations. Definitions only. *)
From Sky Require Import Base.Uint.
From Sky Require Model.Conns.
Open Scope Z_scope.

Definition str := list Z.
Fixpoint str_eqb (a b : str) : bool :=
  match a, b with
  | [], [] => true
  | x :: a', y :: b' => (x =? y) && str_eqb a' b'
  | _, _ => false
  end.

(* ------------------------------------------------------------------ *)
(* validateAddress *)

(* regexp `\s` (RE2 perl class): \t \n \f \r and space *)
Definition is_ws (c : Z) : bool := (c =? 9) || (c =? 10) || (c =? 12) || (c =? 13) || (c =? 32).
Definition strip (s : str) : str := filter (fun c => negb (is_ws c)) s.

(* strings.Split(s, sep) for a one-byte separator: always at least one part *)
Fixpoint split_aux (sep : Z) (cur : str) (s : str) : list str :=
  match s with
  | [] => [rev cur]
  | c :: r => if c =? sep then rev cur :: split_aux sep [] r else split_aux sep (c :: cur) r
  end.
Definition split_on (sep : Z) (s : str) : list str := split_aux sep [] s.

Definition is_digit (c : Z) : bool := (48 <=? c) && (c <=? 57).

(* decimal value of a digit string *)
Definition num_acc (n : Z) (s : str) : Z := fold_left (fun acc c => acc * 10 + (c - 48)) s n.
Definition num (s : str) : Z := num_acc 0 s.

(* one field of net.ParseIP's IPv4 parser (Go 1.23 netip.parseIPv4Fields):
   at least one digit, only digits, no leading zero, value <= 255 *)
Fixpoint octet_loop (s : str) (val diglen : Z) : option Z :=
  match s with
  | [] => if diglen =? 0 then None else Some val
  | c :: r =>
      if negb (is_digit c) then None
      else if (diglen =? 1) && (val =? 0) then None
      else let v := val * 10 + (c - 48) in
           if 255 <? v then None else octet_loop r v (diglen + 1)
  end.
Definition parse_octet (s : str) : option Z := octet_loop s 0 0.

(* net.ParseIP on a string without ':' (IPv4 dotted quad only) *)
Definition parse_ipv4 (s : str) : option (Z * Z * Z * Z) :=
  match split_on 46 s with
  | [o1; o2; o3; o4] =>
      match parse_octet o1, parse_octet o2, parse_octet o3, parse_octet o4 with
      | Some a, Some b, Some c, Some d => Some (a, b, c, d)
      | _, _, _, _ => None
      end
  | _ => None
  end.

(* net.IP.IsLoopback / IsGlobalUnicast for IPv4 *)
Definition is_loopback (ip : Z * Z * Z * Z) : bool := let '(a, _, _, _) := ip in a =? 127.
Definition is_global_unicast (ip : Z * Z * Z * Z) : bool :=
  let '(a, b, c, d) := ip in
  negb ((a =? 255) && (b =? 255) && (c =? 255) && (d =? 255))     (* IPv4bcast *)
  && negb ((a =? 0) && (b =? 0) && (c =? 0) && (d =? 0))          (* unspecified *)
  && negb (a =? 127)                                              (* loopback *)
  && negb ((224 <=? a) && (a <=? 239))                            (* multicast *)
  && negb ((a =? 169) && (b =? 254)).                             (* link-local unicast *)

(* strconv.ParseUint(s, 10, 16) *)
Fixpoint uint16_loop (s : str) (n : Z) : option Z :=
  match s with
  | [] => Some n
  | c :: r =>
      if negb (is_digit c) then None
      else let n1 := n * 10 + (c - 48) in
           if 65535 <? n1 then None else uint16_loop r n1
  end.
Definition parse_uint16 (s : str) : option Z :=
  match s with [] => None | _ => uint16_loop s 0 end.

Inductive verr := EInvalidAddress | ENoLocalhost | ENotExternalIP | EPortTooLow.
Inductive vres := VAccept (clean : str) | VReject (e : verr).

Definition validate_address (ip_port : str) (allow_localhost : bool) : vres :=
  let s := strip ip_port in
  match split_on 58 s with
  | [ips; ports] =>
      match parse_ipv4 ips with
      | None => VReject EInvalidAddress
      | Some ip =>
          if is_loopback ip && negb allow_localhost then VReject ENoLocalhost
          else if negb (is_loopback ip) && negb (is_global_unicast ip) then VReject ENotExternalIP
          else match parse_uint16 ports with
               | None => VReject EInvalidAddress
               | Some port => if port <? 1024 then VReject EPortTooLow else VAccept s
               end
      end
  | _ => VReject EInvalidAddress
  end.

(* ---- the declarative predicate: exactly "a.b.c.d:port" *)
Definition digits (s : str) : Prop := Forall (fun c => is_digit c = true) s.
(* a decimal octet 0..255 without leading zero *)
Definition octet (o : str) : Prop :=
  o <> [] /\ digits o /\ (forall r, o = 48 :: r -> r = []) /\ num o <= 255.
Definition ip_ok (allow : bool) (a b c d : Z) : Prop :=
  if a =? 127 then allow = true
  else ~ (a = 255 /\ b = 255 /\ c = 255 /\ d = 255) /\ ~ (a = 0 /\ b = 0 /\ c = 0 /\ d = 0)
       /\ ~ (224 <= a <= 239) /\ ~ (a = 169 /\ b = 254).
Definition valid_form (allow : bool) (s : str) : Prop :=
  exists o1 o2 o3 o4 p,
    s = o1 ++ [46] ++ o2 ++ [46] ++ o3 ++ [46] ++ o4 ++ [58] ++ p /\
    octet o1 /\ octet o2 /\ octet o3 /\ octet o4 /\
    p <> [] /\ digits p /\ 1024 <= num p <= 65535 /\
    ip_ok allow (num o1) (num o2) (num o3) (num o4).

(* decidable form used on the implementation's outputs; the octet is decided by
   the textbook pattern  d | [1-9]d | 1dd | 2[0-4]d | 25[0-5]  (no arithmetic) *)
Definition in_range (lo hi c : Z) : bool := (lo <=? c) && (c <=? hi).
Definition octet_b (o : str) : bool :=
  match o with
  | [d] => is_digit d
  | [a; b] => in_range 49 57 a && is_digit b
  | [a; b; c] => ((a =? 49) && is_digit b && is_digit c)
                 || ((a =? 50) && in_range 48 52 b && is_digit c)
                 || ((a =? 50) && (b =? 53) && in_range 48 53 c)
  | _ => false
  end.
Definition valid_form_b (allow : bool) (s : str) : bool :=
  match split_on 58 s with
  | [ips; p] =>
      match split_on 46 ips with
      | [o1; o2; o3; o4] =>
          octet_b o1 && octet_b o2 && octet_b o3 && octet_b o4
          && negb (match p with [] => true | _ => false end) && forallb is_digit p
          && (1024 <=? num p) && (num p <=? 65535)
          && (let ip := (num o1, num o2, num o3, num o4) in
              if is_loopback ip then allow else is_global_unicast ip)
      | _ => false
      end
  | _ => false
  end.

(* ------------------------------------------------------------------ *)
(* the peer list *)
Record peer := mkPeer { p_seen : Z; p_trusted : bool; p_incoming : bool; p_retry : Z }.
Definition pl := list (str * peer).

(* the map addr -> *Peer as an association list (generic definitions of Model/Conns.v) *)
Definition pget (a : str) (l : pl) : option peer := Conns.aget str_eqb a l.
Definition pset (a : str) (p : peer) (l : pl) : pl := Conns.aset str_eqb a p l.
Definition pdel (a : str) (l : pl) : pl := Conns.adel str_eqb a l.
Definition plen (l : pl) : Z := Z.of_nat (List.length l).

(* update a peer in place if present (p, ok := peers[addr]; if ok { ... }) *)
Definition pupd (a : str) (f : peer -> peer) (l : pl) : pl :=
  match pget a l with Some p => pset a (f p) l | None => l end.

Definition seen (now : Z) (p : peer) : peer := mkPeer now (p_trusted p) (p_incoming p) (p_retry p).

(* peerlist.addPeer: Seen() if present, else NewPeer *)
Definition add_peer (now : Z) (l : pl) (a : str) : pl :=
  match pget a l with
  | Some p => pset a (seen now p) l
  | None => pset a (mkPeer now false false 0) l
  end.

(* LastSeen of findOldestUntrustedPeer's result: the least LastSeen of the untrusted peers *)
Fixpoint oldest_untrusted (l : pl) : option Z :=
  match l with
  | [] => None
  | (_, p) :: r =>
      if p_trusted p then oldest_untrusted r
      else match oldest_untrusted r with
           | Some m => Some (Z.min (p_seen p) m)
           | None => Some (p_seen p)
           end
  end.

Inductive op :=
| AddPeer (a : str) (now : Z) (victim : option str)   (* victim: which of the oldest untrusted peers map iteration met first *)
| AddPeers (addrs : list str) (perm : list nat) (now : Z)  (* perm: rand.Shuffle's permutation of the valid addresses *)
| SetTrusted (a : str)
| SetAllUntrusted
| RemovePeer (a : str)
| IncreaseRetry (a : str) (now : Z)
| ResetRetry (a : str) (now : Z)
| ResetAllRetry
| SetIncoming (a : str) (b : bool) (now : Z)
| ClearOld (expiration : Z) (now : Z)     (* whole seconds *)
| Aged (a : str) (t : Z).                 (* time passing: the peer's LastSeen becomes t *)

Inductive out :=
| OOk | OInvalidAddress | OPeerlistFull | ONotFound | OCount (n : Z) | ONone
| OOracle.  (* the oracle input is not one the implementation could have produced *)

Definition is_full (max : Z) (l : pl) : bool := (0 <? max) && (max <=? plen l).

Definition add_peer_op (max : Z) (allow : bool) (l : pl) (a : str) (now : Z) (victim : option str) : pl * out :=
  match validate_address a allow with
  | VReject _ => (l, OInvalidAddress)
  | VAccept c =>
      match pget c l with
      | Some p => (pset c (seen now p) l, OOk)
      | None =>
          if is_full max l then
            match oldest_untrusted l with
            | None => (l, OPeerlistFull)
            | Some m =>
                if now - m <? 86400 then (l, OPeerlistFull)
                else match victim with
                     | None => (l, OOracle)
                     | Some v =>
                         match pget v l with
                         | Some q => if negb (p_trusted q) && (p_seen q =? m)
                                     then (add_peer now (pdel v l) c, OOk)
                                     else (l, OOracle)
                         | None => (l, OOracle)
                         end
                     end
            end
          else (add_peer now l c, OOk)
      end
  end.

Fixpoint valid_addrs (allow : bool) (addrs : list str) : list str :=
  match addrs with
  | [] => []
  | a :: r => match validate_address a allow with
              | VAccept c => c :: valid_addrs allow r
              | VReject _ => valid_addrs allow r
              end
  end.

(* perm must be a permutation of 0 .. n-1; the shuffled list is l[perm[0]], l[perm[1]], ... *)
Fixpoint nat_mem (x : nat) (l : list nat) : bool :=
  match l with [] => false | y :: r => Nat.eqb x y || nat_mem x r end.
Fixpoint nat_nodup (l : list nat) : bool :=
  match l with [] => true | x :: r => negb (nat_mem x r) && nat_nodup r end.
Fixpoint pick_all {A} (l : list A) (perm : list nat) : option (list A) :=
  match perm with
  | [] => Some []
  | i :: r => match nth_error l i, pick_all l r with
              | Some x, Some xs => Some (x :: xs)
              | _, _ => None
              end
  end.
Definition apply_perm {A} (l : list A) (perm : list nat) : option (list A) :=
  if Nat.eqb (List.length perm) (List.length l) && nat_nodup perm then pick_all l perm else None.

Definition add_peers_op (max : Z) (allow : bool) (l : pl) (addrs : list str) (perm : list nat) (now : Z) : pl * out :=
  if is_full max l then (l, OCount 0) else
  match apply_perm (valid_addrs allow addrs) perm with
  | None => (l, OOracle)
  | Some sh =>
      let sh' := if 0 <? max then firstn (Z.to_nat (max - plen l)) sh else sh in
      (fold_left (add_peer now) sh' l, OCount (Z.of_nat (List.length sh')))
  end.

Definition step (max : Z) (allow : bool) (l : pl) (o : op) : pl * out :=
  match o with
  | AddPeer a now v => add_peer_op max allow l a now v
  | AddPeers addrs perm now => add_peers_op max allow l addrs perm now
  | SetTrusted a =>
      match validate_address a allow with
      | VReject _ => (l, OInvalidAddress)
      | VAccept c => match pget c l with
                     | Some p => (pset c (mkPeer (p_seen p) true (p_incoming p) (p_retry p)) l, OOk)
                     | None => (l, ONotFound)
                     end
      end
  | SetAllUntrusted =>
      (map (fun e : str * peer => (fst e, mkPeer (p_seen (snd e)) false (p_incoming (snd e)) (p_retry (snd e)))) l, ONone)
  | RemovePeer a => (pdel a l, ONone)
  | IncreaseRetry a now => (pupd a (fun p => mkPeer now (p_trusted p) (p_incoming p) (p_retry p + 1)) l, ONone)
  | ResetRetry a now => (pupd a (fun p => mkPeer now (p_trusted p) (p_incoming p) 0) l, ONone)
  | ResetAllRetry =>
      (map (fun e : str * peer => (fst e, mkPeer (p_seen (snd e)) (p_trusted (snd e)) (p_incoming (snd e)) 0)) l, ONone)
  | SetIncoming a b now =>
      match validate_address a allow with
      | VReject _ => (l, OInvalidAddress)
      | VAccept c => match pget c l with
                     | Some p => (pset c (mkPeer now (p_trusted p) b (p_retry p)) l, OOk)
                     | None => (l, ONotFound)
                     end
      end
  | ClearOld exp now =>
      (filter (fun e : str * peer => negb (negb (p_trusted (snd e)) && (exp <? now - p_seen (snd e)))) l, ONone)
  | Aged a t => (pupd a (fun p => mkPeer t (p_trusted p) (p_incoming p) (p_retry p)) l, ONone)
  end.

Fixpoint run (max : Z) (allow : bool) (l : pl) (ops : list op) : pl :=
  match ops with
  | [] => l
  | o :: r => run max allow (fst (step max allow l o)) r
  end.

(* ------------------------------------------------------------------ *)
(* starting from the cache file (pex.New: loadCache, setAllUntrusted, default
   connections, DisableTrustedPeers) and the save() -> restart round trip *)

(* one "addr": {Addr, LastSeen, Trusted, HasIncomingPort} member of peers.json /
   peers.txt, in file order; f_seen = None when LastSeen is neither an integer
   nor an RFC3339 time *)
Record fentry := mkF { f_key : str; f_addr : str; f_seen : option Z; f_trusted : bool; f_incoming : bool }.

(* encoding/json into a map: a repeated member name keeps the last value *)
Definition json_members (es : list fentry) : list (str * fentry) :=
  fold_left (fun acc e => Conns.aset str_eqb (f_key e) e acc) es [].

(* loadCachedPeersFile, one member: both the key and Addr are validated with
   allowLocalhost = true and must clean to the same string *)
Definition load_entry (e : fentry) : option (str * peer) :=
  match validate_address (f_key e) true with
  | VReject _ => None
  | VAccept a =>
      match f_seen e with
      | None => None
      | Some t =>
          match validate_address (f_addr e) true with
          | VReject _ => None
          | VAccept a' => if str_eqb a a' then Some (a, mkPeer t (f_trusted e) (f_incoming e) 0) else None
          end
      end
  end.
Definition load_file (es : list fentry) : pl :=
  fold_left (fun acc ke => match load_entry (snd ke) with Some (a, p) => pset a p acc | None => acc end)
            (json_members es) [].

(* loadCache: the CONFIGURED localhost policy is applied here *)
Definition cache_filter (allow : bool) (l : pl) : pl :=
  filter (fun e : str * peer => match validate_address (fst e) allow with VAccept _ => true | VReject _ => false end) l.

Fixpoint str_mem (a : str) (l : list str) : bool :=
  match l with [] => false | x :: r => str_eqb a x || str_mem a r end.
(* ... and at most Max peers are kept: which ones is the map iteration's choice
   (oracle `kept`, checked: exactly Max of the valid ones) *)
Definition cache_cut (max : Z) (l : pl) (kept : list str) : option pl :=
  if (0 <? max) && (max <? plen l) then
    let r := filter (fun e : str * peer => str_mem (fst e) kept) l in
    if plen r =? max then Some r else None
  else Some l.

Definition untrust_all (l : pl) : pl :=
  map (fun e : str * peer => (fst e, mkPeer (p_seen (snd e)) false (p_incoming (snd e)) (p_retry (snd e)))) l.

(* which peer findOldestUntrustedPeer returns when the oldest untrusted peer is unique
   (the harness gives the cached peers of such runs distinct LastSeen values) *)
Fixpoint oldest_victim (m : Z) (l : pl) : option str :=
  match l with
  | [] => None
  | (k, p) :: r => if negb (p_trusted p) && (p_seen p =? m) then Some k else oldest_victim m r
  end.
Definition auto_victim (l : pl) : option str :=
  match oldest_untrusted l with Some m => oldest_victim m l | None => None end.

(* DefaultConnections: AddPeer then setTrusted; any error aborts New *)
Fixpoint add_defaults (max : Z) (allow : bool) (l : pl) (defaults : list str) (now : Z) : option pl :=
  match defaults with
  | [] => Some l
  | d :: r =>
      match step max allow l (AddPeer d now (auto_victim l)) with
      | (l1, OOk) =>
          match step max allow l1 (SetTrusted d) with
          | (l2, OOk) => add_defaults max allow l2 r now
          | _ => None
          end
      | _ => None
      end
  end.

(* strings.Split(body, "\n"), whitespace stripped from every line *)
Definition body_lines (body : str) : list str := map strip (split_on 10 body).

(* parseLocalPeerList (the CustomPeersFile): empty lines and lines starting with
   '#' are skipped, any other line must be a valid address or the load fails *)
Fixpoint parse_local (allow : bool) (ls : list str) : option (list str) :=
  match ls with
  | [] => Some []
  | a :: r =>
      match a with
      | [] => parse_local allow r
      | c :: _ =>
          if c =? 35 then parse_local allow r
          else match validate_address a allow with
               | VReject _ => None
               | VAccept cl => match parse_local allow r with Some xs => Some (cl :: xs) | None => None end
               end
      end
  end.

(* parseRemotePeerList (the downloaded list): localhost is never allowed, invalid lines are skipped *)
Fixpoint parse_remote (ls : list str) : list str :=
  match ls with
  | [] => []
  | a :: r =>
      match a with
      | [] => parse_remote r
      | _ => match validate_address a false with
             | VAccept cl => cl :: parse_remote r
             | VReject _ => parse_remote r
             end
      end
  end.

(* loadCustom: the custom peers are added in file order, as many as fit below Max *)
Definition load_custom (max : Z) (allow : bool) (l : pl) (custom : option str) (now : Z) : option pl :=
  match custom with
  | None => Some l
  | Some body =>
      match parse_local allow (body_lines body) with
      | None => None
      | Some peers =>
          let peers' := if 0 <? max then firstn (Z.to_nat (max - plen l)) peers else peers in
          Some (fold_left (add_peer now) peers' l)
      end
  end.

Definition start (max : Z) (allow disable : bool) (es : list fentry) (kept defaults : list str)
                 (custom : option str) (now : Z) : option pl :=
  match cache_cut max (cache_filter allow (load_file es)) kept with
  | None => None
  | Some l0 =>
      match add_defaults max allow (untrust_all l0) defaults now with
      | None => None
      | Some l1 => load_custom max allow (if disable then untrust_all l1 else l1) custom now
      end
  end.

(* peerlist.save: peers with RetryTimes > MaxPeerRetryTimes (10) are not written *)
Definition saved_entries (l : pl) : list fentry :=
  map (fun e : str * peer => mkF (fst e) (fst e) (Some (p_seen (snd e))) (p_trusted (snd e)) (p_incoming (snd e)))
      (filter (fun e : str * peer => p_retry (snd e) <=? 10) l).

Inductive xop :=
| Op (o : op)
| Restart (kept defaults : list str) (disable : bool) (custom : option str) (now : Z)  (* save(), then pex.New on the same directory *)
| Download (body : str) (perm : list nat) (now : Z).   (* downloadPeers: AddPeers(parseRemotePeerList(body)) *)

Definition xstep (max : Z) (allow : bool) (l : pl) (x : xop) : pl * out :=
  match x with
  | Op o => step max allow l o
  | Restart kept defaults disable custom now =>
      match start max allow disable (saved_entries l) kept defaults custom now with
      | Some l' => (l', ONone)
      | None => (l, OOracle)
      end
  | Download body perm now => step max allow l (AddPeers (parse_remote (body_lines body)) perm now)
  end.
Fixpoint xrun (max : Z) (allow : bool) (l : pl) (xs : list xop) : pl :=
  match xs with
  | [] => l
  | x :: r => xrun max allow (fst (xstep max allow l x)) r
  end.

(* ---- comparison helpers for the cases files *)
Definition peer_eqb (x y : peer) : bool :=
  (p_seen x =? p_seen y) && Bool.eqb (p_trusted x) (p_trusted y)
  && Bool.eqb (p_incoming x) (p_incoming y) && (p_retry x =? p_retry y).
Definition pl_eqb (x y : pl) : bool :=
  Nat.eqb (List.length x) (List.length y) &&
  forallb (fun e : str * peer => eqb_option peer_eqb (pget (fst e) x) (pget (fst e) y)) (x ++ y).
Definition out_eqb (x y : out) : bool :=
  match x, y with
  | OOk, OOk | OInvalidAddress, OInvalidAddress | OPeerlistFull, OPeerlistFull
  | ONotFound, ONotFound | ONone, ONone => true
  | OCount a, OCount b => a =? b
  | _, _ => false        (* OOracle never equals an observation *)
  end.
Definition verr_eqb (x y : verr) : bool :=
  match x, y with
  | EInvalidAddress, EInvalidAddress | ENoLocalhost, ENoLocalhost
  | ENotExternalIP, ENotExternalIP | EPortTooLow, EPortTooLow => true
  | _, _ => false
  end.
Definition vres_eqb (x y : vres) : bool :=
  match x, y with
  | VAccept a, VAccept b => str_eqb a b
  | VReject a, VReject b => verr_eqb a b
  | _, _ => false
  end.

(* ---- specification vocabulary of the theorems (Properties/C26.v) *)
Definition keys (l : pl) : list str := map fst l.
Definition trusted_at (l : pl) (a : str) : Prop := exists p, pget a l = Some p /\ p_trusted p = true.
