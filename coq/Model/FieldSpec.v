(* Model/FieldSpec.v — vocabulary of the statements about secp256k1's 10x26-bit
   field representation (property C14, Proofs/FieldLimbs.v): what a tuple of limbs
   stands for, magnitudes, normal forms, the premise of Field.Normalize, and — for
   the record — the code of Normalize BEFORE commit 234fc8ec9 written by hand.
   Definitions only; p is the field prime of Model/Secp.v. *)
From Sky Require Import Base.Uint Model.Secp.
Open Scope Z_scope.

Definition limbs : Type := (Z * Z * Z * Z * Z * Z * Z * Z * Z * Z)%type.

Definition val (f : limbs) : Z :=
  let '(n0, n1, n2, n3, n4, n5, n6, n7, n8, n9) := f in
  n0 + n1 * 2 ^ 26 + n2 * 2 ^ 52 + n3 * 2 ^ 78 + n4 * 2 ^ 104 + n5 * 2 ^ 130 +
  n6 * 2 ^ 156 + n7 * 2 ^ 182 + n8 * 2 ^ 208 + n9 * 2 ^ 234.

(* every limb is a uint32 *)
Definition limbs32 (f : limbs) : Prop :=
  let '(n0, n1, n2, n3, n4, n5, n6, n7, n8, n9) := f in
  in_u 32 n0 /\ in_u 32 n1 /\ in_u 32 n2 /\ in_u 32 n3 /\ in_u 32 n4 /\
  in_u 32 n5 /\ in_u 32 n6 /\ in_u 32 n7 /\ in_u 32 n8 /\ in_u 32 n9.

(* magnitude m: what SetAdd / MulInt / Negate produce from normalised values
   (limb i <= m * (2^26 - 1), top limb <= m * (2^22 - 1)) *)
Definition mag (m : Z) (f : limbs) : Prop :=
  let '(n0, n1, n2, n3, n4, n5, n6, n7, n8, n9) := f in
  0 <= n0 <= m * 67108863 /\ 0 <= n1 <= m * 67108863 /\ 0 <= n2 <= m * 67108863 /\
  0 <= n3 <= m * 67108863 /\ 0 <= n4 <= m * 67108863 /\ 0 <= n5 <= m * 67108863 /\
  0 <= n6 <= m * 67108863 /\ 0 <= n7 <= m * 67108863 /\ 0 <= n8 <= m * 67108863 /\
  0 <= n9 <= m * 4194303.

(* normalised limbs (not necessarily below p) *)
Definition reduced (f : limbs) : Prop := mag 1 f.
Definition canon (f : limbs) : Prop := reduced f /\ val f < p.

(* the premise of Normalize: no uint32 addition (c >> 26) + n[i] can wrap.
   c >> 26 <= 63, so n_i <= 2^32 - 64 for i >= 1 is exactly the uniform bound. *)
Definition norm_pre (f : limbs) : Prop :=
  let '(n0, n1, n2, n3, n4, n5, n6, n7, n8, n9) := f in
  in_u 32 n0 /\
  0 <= n1 <= 2 ^ 32 - 64 /\ 0 <= n2 <= 2 ^ 32 - 64 /\ 0 <= n3 <= 2 ^ 32 - 64 /\
  0 <= n4 <= 2 ^ 32 - 64 /\ 0 <= n5 <= 2 ^ 32 - 64 /\ 0 <= n6 <= 2 ^ 32 - 64 /\
  0 <= n7 <= 2 ^ 32 - 64 /\ 0 <= n8 <= 2 ^ 32 - 64 /\ 0 <= n9 <= 2 ^ 32 - 64.

(* a function returned (no Panic: in particular the loop fuel sufficed) a value with Q *)
Definition returns {A} (Q : A -> Prop) (r : res A) : Prop := exists a, r = Val a /\ Q a.

(* the 32 bytes GetB32 writes, as a list (r[0] first: most significant) *)
Definition l32 (t : Z * Z * Z * Z * Z * Z * Z * Z * Z * Z * Z * Z * Z * Z * Z * Z * Z * Z * Z * Z * Z * Z * Z * Z * Z * Z * Z * Z * Z * Z * Z * Z) : list Z :=
  let '(r0, r1, r2, r3, r4, r5, r6, r7, r8, r9, r10, r11, r12, r13, r14, r15, r16, r17, r18, r19, r20, r21, r22, r23, r24, r25, r26, r27, r28, r29, r30, r31) := t in [r0; r1; r2; r3; r4; r5; r6; r7; r8; r9; r10; r11; r12; r13; r14; r15; r16; r17; r18; r19; r20; r21; r22; r23; r24; r25; r26; r27; r28; r29; r30; r31].

(* what Mul / Sqr leave: every limb reduced except limb 2, which may exceed 2^26 - 1 by at most 2^18 *)
Definition mul_out (r : limbs) : Prop :=
  let '(r0, r1, r2, r3, r4, r5, r6, r7, r8, r9) := r in
  (0 <= r0 <= 67108863) /\ (0 <= r1 <= 67108863) /\ (0 <= r2 <= 67371008) /\ (0 <= r3 <= 67108863) /\
  (0 <= r4 <= 67108863) /\ (0 <= r5 <= 67108863) /\ (0 <= r6 <= 67108863) /\ (0 <= r7 <= 67108863) /\
  (0 <= r8 <= 67108863) /\ (0 <= r9 <= 4194303).

(* what Normalize returns for a Field standing for V *)
Definition norm_post (V : Z) (l : limbs) : Prop := canon l /\ val l = V mod p.

(* ---- the code BEFORE commit 234fc8ec9 (one unconditional fold, its carry out of
   bit 256 dropped), written by hand from the diff of that commit *)
Definition carry26 (c n : Z) : Z * Z := (c mod 2 ^ 26, wrap 32 (c / 2 ^ 26 + n)).
Definition Normalize_single_fold (n0 n1 n2 n3 n4 n5 n6 n7 n8 n9 : Z) : limbs :=
  let '(t0, c) := carry26 n0 n1 in let '(t1, c) := carry26 c n2 in let '(t2, c) := carry26 c n3 in
  let '(t3, c) := carry26 c n4 in let '(t4, c) := carry26 c n5 in let '(t5, c) := carry26 c n6 in
  let '(t6, c) := carry26 c n7 in let '(t7, c) := carry26 c n8 in let '(t8, c) := carry26 c n9 in
  let t9 := c mod 2 ^ 22 in let c := c / 2 ^ 22 in
  (* d := c*0x3D1 + t0 ... t9 = d & 0x03FFFFF; the carry d >> 22 is dropped *)
  let '(t0, d) := carry26 (wrap 32 (wrap 32 (c * 977) + t0)) (wrap 32 (t1 + wrap 32 (c * 64))) in
  let '(t1, d) := carry26 d t2 in let '(t2, d) := carry26 d t3 in let '(t3, d) := carry26 d t4 in
  let '(t4, d) := carry26 d t5 in let '(t5, d) := carry26 d t6 in let '(t6, d) := carry26 d t7 in
  let '(t7, d) := carry26 d t8 in let '(t8, d) := carry26 d t9 in
  let t9 := d mod 2 ^ 22 in
  let low := t1 * 2 ^ 26 + t0 in
  if (t9 <? 4194303) || (t8 <? 67108863) || (t7 <? 67108863) || (t6 <? 67108863) || (t5 <? 67108863) ||
     (t4 <? 67108863) || (t3 <? 67108863) || (t2 <? 67108863) || (low <? 4503595332402223)
  then (t0, t1, t2, t3, t4, t5, t6, t7, t8, t9)
  else let low := low - 4503595332402223 in (low mod 2 ^ 26, low / 2 ^ 26, 0, 0, 0, 0, 0, 0, 0, 0).

