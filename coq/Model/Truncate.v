(* Model/Truncate.v — truncation of outgoing peer messages (property C23).
   daemon/messages.go: NewGivePeersMessage / NewGiveBlocksMessage /
   NewGiveTxnsMessage (size loop over the items) and NewAnnounceTxnsMessage /
   NewGetTxnsMessage (division by the hash size); gnet/dispatcher.go:
   EncodeMessage / sendMessage's length test.
   An item list is the list of the encoded sizes of its items (`list Z`, data
   from the harness: encodeSizeIPAddr / encodeSizeSignedBlock /
   encodeSizeTransaction / 32 for a hash). The result is the number of items
   kept (the code always keeps a prefix; the harness checks that it is one).
   Definitions only; proofs in Proofs/TruncateProofs.v. *)
From Sky Require Import Base.Uint.
Open Scope Z_scope.

(* wire format (gnet.EncodeMessage): 4-byte length prefix, 4-byte message id, body *)
Definition WIRE_HEADER : Z := 8.
(* what the truncate functions subtract from maxMsgLength before measuring the
   body: 8 since the F18 fix (it was 4: only the message id) *)
Definition RESERVE : Z := 8.
(* encoded size of a message with no items: the uint32 length prefix of the slice *)
Definition EMPTY_SIZE : Z := 4.
Definition HASH_SIZE : Z := 32.

Definition add64 (a b : Z) : Z := wrap 64 (a + b).

Fixpoint sum (xs : list Z) : Z := match xs with [] => 0 | x :: r => x + sum r end.
Fixpoint sum64 (xs : list Z) : Z := match xs with [] => 0 | x :: r => add64 x (sum64 r) end.

(* EncodeSize of the message body, as the generated encodeSize*Message computes
   it (uint64 arithmetic) *)
Definition encode_size (xs : list Z) : Z := add64 EMPTY_SIZE (sum64 xs).

(* for i, item := range items { x := size(item); if size+x > max { break }; size += x; index = i } *)
Fixpoint take_loop (maxl size : Z) (xs : list Z) : nat :=
  match xs with
  | [] => O
  | x :: r => if add64 size x >? maxl then O else S (take_loop maxl (add64 size x) r)
  end.

(* truncateGivePeersMessage / truncateGiveBlocksMessage / truncateGiveTxnsMessage;
   `reserve` is a parameter so that the pre-fix code (4) can be exhibited *)
Definition truncate_loop_gen (reserve : Z) (xs : list Z) (max : Z) : res nat :=
  if max <? reserve then Panic       (* logger.Panic("maxMsgLength must be >= ...") *)
  else
    let maxl := max - reserve in
    if encode_size xs <=? maxl then Val (List.length xs)
    else Val (take_loop maxl EMPTY_SIZE xs).

(* truncateAnnounceTxnsHashes / truncateGetTxnsHashes + truncateSHA256Slice on `count` hashes *)
Definition truncate_hashes_gen (reserve : Z) (count : Z) (max : Z) : res Z :=
  if max <? reserve then Panic
  else
    let maxl := max - reserve in
    if add64 EMPTY_SIZE (wrap 64 (HASH_SIZE * count)) <=? maxl then Val count
    else if maxl <? EMPTY_SIZE then Panic     (* logger.Panic("maxMsgLength must be <= 4 + sizeof(empty ...)") *)
    else
      let maxl2 := maxl - EMPTY_SIZE in
      if count =? 0 then Val 0
      else let n := maxl2 / HASH_SIZE in
           if n >? count then Val count else Val n.

Definition truncate_loop := truncate_loop_gen RESERVE.
Definition truncate_hashes := truncate_hashes_gen RESERVE.

(* the constructors cap the item list first: 512 peers, 128 blocks, 256 txns, 256 hashes *)
Inductive kind := GivePeers | GiveBlocks | GiveTxns | AnnounceTxns | GetTxns.
Definition item_limit (k : kind) : nat :=
  match k with GivePeers => 512 | GiveBlocks => 128 | GiveTxns => 256 | AnnounceTxns => 256 | GetTxns => 256 end.
Definition is_hash_kind (k : kind) : bool :=
  match k with AnnounceTxns | GetTxns => true | _ => false end.

(* New<k>Message(items, max): number of items in the message built *)
Definition new_message_gen (reserve : Z) (k : kind) (xs : list Z) (max : Z) : res nat :=
  let capped := firstn (item_limit k) xs in
  if is_hash_kind k then
    match truncate_hashes_gen reserve (Z.of_nat (List.length capped)) max with
    | Panic => Panic
    | Val n => Val (Z.to_nat n)
    end
  else truncate_loop_gen reserve capped max.
Definition new_message := new_message_gen RESERVE.

(* len(EncodeMessage(m)) for a message keeping the first n items, and
   sendMessage's verdict: refused (ErrMsgExceedsMaxLen) iff it exceeds max *)
Definition encoded_len (xs : list Z) (n : nat) : Z := WIRE_HEADER + EMPTY_SIZE + sum (firstn n xs).
Definition send_refused (xs : list Z) (n : nat) (max : Z) : bool := encoded_len xs n >? max.

(* well-formed size lists: what the `maxlen` tags and the item limits imply *)
Definition sizes_ok (xs : list Z) : Prop :=
  Forall (fun x => 0 <= x) xs /\ EMPTY_SIZE + sum xs < 2 ^ 64.
Definition sizes_okb (xs : list Z) : bool :=
  forallb (fun x => 0 <=? x) xs && (EMPTY_SIZE + sum xs <? 2 ^ 64).

Definition kind_of_code (c : Z) : kind :=
  if c =? 0 then GivePeers else if c =? 1 then GiveBlocks else if c =? 2 then GiveTxns
  else if c =? 3 then AnnounceTxns else GetTxns.
