(* Model/Paging.v — C29: what txnHashesContainer.Pagination returns, written
   over the Gallina regenerated from visor.NewPageIndex / PageIndex.Cal
   (Gen/Page.v). Definitions only. *)
From Sky Require Import Base.Uint Gen.Page.
Open Scope Z_scope.

(* [lo; lo+1; ...] of length k *)
Fixpoint zseq (lo : Z) (k : nat) : list Z :=
  match k with O => [] | S k' => lo :: zseq (lo + 1) k' end.
(* page numbers 1..N *)
Definition pages_upto (N : Z) : list Z := zseq 1 (Z.to_nat N).

(* ceil(n / size), stated independently of the code *)
Definition page_count (n size : Z) : Z := (n + size - 1) / size.

(* NewPageIndex(size, pageN) followed by Cal(len): the error of NewPageIndex
   (None when a PageIndex was made) and what Cal returned *)
Definition cal_via_new (size pageN len : Z) : error * res (Z * Z * Z * error) :=
  match NewPageIndex size pageN with
  | Val (Some (s, p), None) => (None, PageIndex_Cal s p len)
  | Val (_, e) => (e, Val (0, 0, 0, None))
  | Panic => (None, Panic)
  end.

(* s.items[start:end]: Go panics unless start <= end <= cap; the model is
   stricter (end <= len) — the theorem shows that it never gets there *)
Definition slice {A} (l : list A) (start end_ : Z) : res (list A) :=
  if (0 <=? start) && (start <=? end_) && (end_ <=? Z.of_nat (List.length l))
  then Val (firstn (Z.to_nat (end_ - start)) (skipn (Z.to_nat start) l))
  else Panic.

(* Pagination of the list l for a request (size, pageN):
   (items of the page, reported total pages, error) *)
Definition page {A} (l : list A) (size pageN : Z) : res (list A * Z * error) :=
  match cal_via_new size pageN (Z.of_nat (List.length l)) with
  | (Some e, _) => Val ([], 0, Some e)
  | (None, Panic) => Panic
  | (None, Val (_, _, _, Some e)) => Val ([], 0, Some e)
  | (None, Val (start, end_, total, None)) =>
      bind (slice l start end_) (fun items => Val (items, total, None))
  end.

(* drop / keep the first k elements, k : Z (no huge nat is ever built:
   page numbers go up to 2^64) *)
Fixpoint zskipn {A} (k : Z) (l : list A) : list A :=
  match l with
  | [] => []
  | x :: r => if k <=? 0 then l else zskipn (k - 1) r
  end.
Fixpoint zfirstn {A} (k : Z) (l : list A) : list A :=
  match l with
  | [] => []
  | x :: r => if k <=? 0 then [] else x :: zfirstn (k - 1) r
  end.

(* the mathematical page: items size*(n-1) .. size*n-1 of l
   (= firstn size (skipn (size*(n-1)) l), lemma chunk_firstn_skipn) *)
Definition chunk {A} (l : list A) (size n : Z) : list A :=
  zfirstn size (zskipn (size * (n - 1)) l).

(* ---- decidable forms used on observed outputs *)
Definition eqb_zlist := eqb_list Z.eqb.
Definition eqb_cal (a b : res (Z * Z * Z * error)) : bool :=
  match a, b with
  | Panic, Panic => true
  | Val (s, e, t, er), Val (s', e', t', er') => (s =? s') && (e =? e') && (t =? t') && eqb_error er er'
  | _, _ => false
  end.
Definition eqb_page (a b : res (list Z * Z * error)) : bool :=
  match a, b with
  | Panic, Panic => true
  | Val (l, t, er), Val (l', t', er') => eqb_zlist l l' && (t =? t') && eqb_error er er'
  | _, _ => false
  end.

(* Cal's observed output, for 1 <= size <= 100 and page number >= 1, denotes
   the mathematical page [size*(n-1), min(size*n, len)) and the page count *)
Definition cal_ok (size pageN len : Z) (o : res (Z * Z * Z * error)) : bool :=
  match o with
  | Val (start, end_, total, None) =>
      let lo := Z.min (size * (pageN - 1)) len in
      let hi := Z.min (size * pageN) len in
      (total =? page_count len size) && (start <=? end_) && (end_ <=? len) &&
      (end_ - start =? hi - lo) && ((hi - lo =? 0) || (start =? lo))
  | _ => false
  end.

(* one observed paging session over the list [0; 1; ...; len-1]:
   obs = [(page number, observed Pagination result)].  Pages 1..N must come
   first, in order; anything after them must be a page number > N. *)
Fixpoint session_ok (N : Z) (expect : Z) (obs : list (Z * res (list Z * Z * error)))
  : option (list Z) :=   (* concatenation of pages 1..N, None = a check failed *)
  match obs with
  | [] => if expect =? N + 1 then Some [] else None
  | (n, Val (items, total, None)) :: r =>
      if negb (total =? N) then None
      else if expect <=? N then
        if n =? expect then
          match session_ok N (expect + 1) r with Some rest => Some (items ++ rest) | None => None end
        else None
      else
        if (N <? n) && (match items with [] => true | _ => false end)
        then session_ok N expect r else None
  | _ => None
  end.
Definition partition_ok (c : Z * Z * list (Z * res (list Z * Z * error))) : bool :=
  let '(len, size, obs) := c in
  match session_ok (page_count len size) 1 obs with
  | Some all => eqb_zlist all (zseq 0 (Z.to_nat len))
  | None => false
  end.

(* ---- the property, decided on one observed request *)
Definition request_error (size pageN : Z) : error :=
  if size =? 0 then Some "ErrZeroPageSize"%string
  else if pageN =? 0 then Some "ErrZeroPageNum"%string
  else if 100 <? size then Some "ErrMaxTxnPageSize"%string
  else None.

(* NewPageIndex + Cal: rejected exactly outside 1<=size<=100, page>=1;
   otherwise (for lengths a Go slice can have) Cal denotes the mathematical page *)
Definition cal_prop (c : Z * Z * Z * error * res (Z * Z * Z * error)) : bool :=
  let '(size, pageN, len, new_err, o) := c in
  match request_error size pageN with
  | Some e => eqb_error new_err (Some e)
  | None => eqb_error new_err None && ((2 ^ 63 <=? len) || cal_ok size pageN len o)
  end.

(* Pagination over [0..len-1]: the mathematical page and the page count *)
Definition page_prop (c : Z * Z * Z * res (list Z * Z * error)) : bool :=
  let '(len, size, pageN, o) := c in
  match request_error size pageN with
  | Some e => eqb_page o (Val ([], 0, Some e))
  | None => eqb_page o (Val (chunk (zseq 0 (Z.to_nat len)) size pageN, page_count len size, None))
  end.

(* the unpaged answer of a query is ordered: keys (block seq, pool transactions of mixed queries left out;
   hash for pool-only queries) non-decreasing (asc) / non-increasing (desc) *)
Fixpoint sorted_by (le : Z -> Z -> bool) (l : list Z) : bool :=
  match l with
  | a :: ((b :: _) as r) => le a b && sorted_by le r
  | _ => true
  end.
Definition order_ok (c : bool * list Z) : bool :=
  let '(desc, keys) := c in
  if desc then sorted_by Z.geb keys else sorted_by Z.leb keys.

(* one paging session of a real query against the model: page n of the query =
   page n of its unpaged answer (positions 0..len-1) *)
Definition session_matches (c : Z * Z * list (Z * res (list Z * Z * error))) : bool :=
  let '(len, size, obs) := c in
  forallb (fun x : Z * res (list Z * Z * error) =>
             let '(n, o) := x in eqb_page (page (zseq 0 (Z.to_nat len)) size n) o) obs.

(* ---- GET /api/v2/transactions: page / limit parameter text (bytes) *)
(* strconv.ParseUint(s, 10, 64): one or more decimal digits, value < 2^64 *)
Definition is_dec_digit (c : Z) : bool := (48 <=? c) && (c <=? 57).
Definition parse_u64 (s : list Z) : option Z :=
  match s with
  | [] => None
  | _ =>
      if forallb is_dec_digit s then
        let v := fold_left (fun a c => a * 10 + (c - 48)) s 0 in
        if v <? 2 ^ 64 then Some v else None
      else None
  end.
Definition param_or (dflt : Z) (s : list Z) : option Z :=
  match s with [] => Some dflt | _ => parse_u64 s end.

(* observed = (HTTP status, page size and page number handed to the gateway, 0 0 if not called) *)
Definition apipage_prop (c : list Z * list Z * (Z * Z * Z)) : bool :=
  let '(ptxt, ltxt, (status, gsize, gpage)) := c in
  match param_or 1 ptxt, param_or 10 ltxt with
  | Some pn, Some sz =>
      match request_error sz pn with
      | None => (status =? 200) && (gsize =? sz) && (gpage =? pn)
      | Some _ => (status =? 400) && (gsize =? 0) && (gpage =? 0)
      end
  | _, _ => (status =? 400) && (gsize =? 0) && (gpage =? 0)
  end.
Definition apipage_model (c : list Z * list Z * (Z * Z * Z)) : bool :=
  let '(ptxt, ltxt, (status, gsize, gpage)) := c in
  match param_or 1 ptxt, param_or 10 ltxt with
  | Some pn, Some sz =>
      match NewPageIndex sz pn with
      | Val (Some (s, p), None) => (status =? 200) && (gsize =? s) && (gpage =? p)
      | _ => (status =? 400) && (gsize =? 0) && (gpage =? 0)
      end
  | _, _ => (status =? 400) && (gsize =? 0) && (gpage =? 0)
  end.
