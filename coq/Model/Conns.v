(* Model/Conns.v — executable model of daemon.Connections
   (/repo/src/daemon/connections.go): the five maps conns, mirrors, ipCounts,
   gnetIDs, listenAddrs as association lists and the operations pending /
   connected / introduced / remove / SetHeight with the code's checks in the
   code's order. Definitions only. *)
From Sky Require Import Base.Uint.
Open Scope Z_scope.

(* ---- association lists (a Go map: lookup finds the only entry of a key) *)
Section AList.
  Context {K V : Type} (eqb : K -> K -> bool).
  Fixpoint aget (k : K) (m : list (K * V)) : option V :=
    match m with
    | [] => None
    | (k', v) :: r => if eqb k k' then Some v else aget k r
    end.
  (* m[k] = v : replace in place, else append *)
  Fixpoint aset (k : K) (v : V) (m : list (K * V)) : list (K * V) :=
    match m with
    | [] => [(k, v)]
    | (k', v') :: r => if eqb k k' then (k, v) :: r else (k', v') :: aset k v r
    end.
  (* delete(m, k) *)
  Fixpoint adel (k : K) (m : list (K * V)) : list (K * V) :=
    match m with
    | [] => []
    | (k', v') :: r => if eqb k k' then adel k r else (k', v') :: adel k r
    end.
End AList.

(* an address TEXT is the pair (ip, p): ip identifies the host part that
   iputil.SplitAddr returns, p = variant * 65536 + port where port is the number
   SplitAddr parses and variant tells texts with the same ip and port apart
   (0: the canonical "ip:port" that connection.ListenAddr() renders; 1: a
   zero-padded port "ip:06000"; 2: a bracketed host "[::1]:6060"). The maps are
   keyed by the text; ListenPort and the listenAddrs key use the parsed port. *)
Definition addr := (Z * Z)%type.
Definition addr_eqb (a b : addr) : bool := (fst a =? fst b) && (snd a =? snd b).

Inductive cstate := SPending | SConnected | SIntroduced.
Definition cstate_eqb (a b : cstate) : bool :=
  match a, b with
  | SPending, SPending | SConnected, SConnected | SIntroduced, SIntroduced => true
  | _, _ => false
  end.

(* the fields of `connection` that the bookkeeping reads or writes *)
Record conn := mkConn {
  c_state : cstate; c_out : bool; c_mirror : Z; c_lport : Z; c_gid : Z; c_height : Z }.

Definition introduced_b (c : conn) : bool := cstate_eqb (c_state c) SIntroduced.

Record st := mkSt {
  conns : list (addr * conn);
  mirrors : list (Z * list (Z * Z));       (* mirror -> ip -> listen port *)
  ipc : list (Z * Z);                      (* ip -> count *)
  gids : list (Z * addr);                  (* gnet id -> addr *)
  laddrs : list (addr * list addr) }.      (* listen addr -> addrs *)

Definition init : st := mkSt [] [] [] [] [].

Inductive op :=
| Pending (a : addr)
| Connected (a : addr) (id : Z)
| Introduced (a : addr) (id mirror lport : Z)
| Remove (a : addr) (id : Z)
| SetHeight (a : addr) (id h : Z).

Inductive err :=
| OK | ENotExist | EExists | EIPMirrorExists | EStateNotConnected | EGnetIDMismatch
| EAlreadyIntroduced | EAlreadyConnected | EInvalidGnetID.
Definition err_eqb (a b : err) : bool :=
  match a, b with
  | OK, OK | ENotExist, ENotExist | EExists, EExists | EIPMirrorExists, EIPMirrorExists
  | EStateNotConnected, EStateNotConnected | EGnetIDMismatch, EGnetIDMismatch
  | EAlreadyIntroduced, EAlreadyIntroduced | EAlreadyConnected, EAlreadyConnected
  | EInvalidGnetID, EInvalidGnetID => true
  | _, _ => false
  end.

(* Go map read with zero default: ipCounts[ip], listenAddrs[k] *)
Definition getz (k : Z) (m : list (Z * Z)) : Z :=
  match aget Z.eqb k m with Some v => v | None => 0 end.
Definition getl (k : addr) (m : list (addr * list addr)) : list addr :=
  match aget addr_eqb k m with Some v => v | None => [] end.

(* connection.ListenAddr(): "" (None) when ListenPort = 0, else ip:ListenPort *)
Definition listen_key (a : addr) (c : conn) : option addr :=
  if c_lport c =? 0 then None else Some (fst a, c_lport c).

(* remove the first occurrence (the loop with break in remove) *)
Fixpoint remove_first (a : addr) (l : list addr) : list addr :=
  match l with
  | [] => []
  | x :: r => if addr_eqb x a then r else x :: remove_first a r
  end.

(* listenAddrs[k] = append(listenAddrs[k], a), only for a non-empty listen address *)
Definition laddrs_add (k : option addr) (a : addr) (m : list (addr * list addr)) :=
  match k with
  | None => m
  | Some k => aset addr_eqb k (getl k m ++ [a]) m
  end.
Definition laddrs_del (k : option addr) (a : addr) (m : list (addr * list addr)) :=
  match k with
  | None => m
  | Some k =>
      match remove_first a (getl k m) with
      | [] => adel addr_eqb k m
      | l => aset addr_eqb k l m
      end
  end.

Definition set_conns (s : st) x := mkSt x (mirrors s) (ipc s) (gids s) (laddrs s).

Definition pending (s : st) (a : addr) : res (st * err) :=
  match aget addr_eqb a (conns s) with
  | Some _ => Val (s, EExists)
  | None =>
      let c := mkConn SPending true 0 (snd a mod 65536) 0 0 in
      Val (mkSt (aset addr_eqb a c (conns s)) (mirrors s)
                (aset Z.eqb (fst a) (getz (fst a) (ipc s) + 1) (ipc s))
                (gids s)
                (laddrs_add (listen_key a c) a (laddrs s)), OK)
  end.

Definition connected (s : st) (a : addr) (id : Z) : res (st * err) :=
  if id =? 0 then Val (s, EInvalidGnetID) else
  match aget addr_eqb a (conns s) with
  | None =>
      let c := mkConn SConnected false 0 0 id 0 in
      Val (mkSt (aset addr_eqb a c (conns s)) (mirrors s)
                (aset Z.eqb (fst a) (getz (fst a) (ipc s) + 1) (ipc s))
                (aset Z.eqb id a (gids s)) (laddrs s), OK)
  | Some c =>
      match c_state c with
      | SPending =>
          let c' := mkConn SConnected (c_out c) (c_mirror c) (c_lport c) id (c_height c) in
          Val (mkSt (aset addr_eqb a c' (conns s)) (mirrors s) (ipc s)
                    (aset Z.eqb id a (gids s)) (laddrs s), OK)
      | SConnected => Val (s, EAlreadyConnected)
      | SIntroduced => Val (s, EAlreadyIntroduced)
      end
  end.

Definition can_update_mirror (s : st) (ip mirror : Z) : bool :=
  match aget Z.eqb mirror (mirrors s) with
  | None => true
  | Some x => match aget Z.eqb ip x with Some _ => false | None => true end
  end.

(* updateMirror: error (a Panic at the call site) when the entry exists *)
Definition update_mirror (ms : list (Z * list (Z * Z))) (ip mirror port : Z) : res (list (Z * list (Z * Z))) :=
  let x := match aget Z.eqb mirror ms with Some x => x | None => [] end in
  match aget Z.eqb ip x with
  | Some _ => Panic
  | None => Val (aset Z.eqb mirror (aset Z.eqb ip port x) ms)
  end.

Definition introduced (s : st) (a : addr) (id mirror lport : Z) : res (st * err) :=
  if id =? 0 then Val (s, EInvalidGnetID) else
  match aget addr_eqb a (conns s) with
  | None => Val (s, ENotExist)
  | Some c =>
      match c_state c with
      | SPending => Val (s, EStateNotConnected)
      | SIntroduced => Val (s, EAlreadyIntroduced)
      | SConnected =>
          if negb (id =? c_gid c) then Val (s, EGnetIDMismatch) else
          if negb (can_update_mirror s (fst a) mirror) then Val (s, EIPMirrorExists) else
          let listen_port := if c_out c then c_lport c else lport in
          bind (update_mirror (mirrors s) (fst a) mirror listen_port) (fun ms =>
          let c' := mkConn SIntroduced (c_out c) mirror listen_port (c_gid c) (c_height c) in
          Val (mkSt (aset addr_eqb a c' (conns s)) ms (ipc s) (gids s)
                    (if c_out c then laddrs s else laddrs_add (listen_key a c') a (laddrs s)), OK))
      end
  end.

(* the mirrors part of remove: only an introduced connection owns an entry *)
Definition mirrors_remove (ms : list (Z * list (Z * Z))) (ip : Z) (c : conn) :=
  if introduced_b c then
    match aget Z.eqb (c_mirror c) ms with
    | Some x =>
        match adel Z.eqb ip x with
        | [] => adel Z.eqb (c_mirror c) ms
        | x' => aset Z.eqb (c_mirror c) x' ms
        end
    | None => ms
    end
  else ms.

Definition remove (s : st) (a : addr) (id : Z) : res (st * err) :=
  match aget addr_eqb a (conns s) with
  | None => Val (s, ENotExist)
  | Some c =>
      if negb (c_gid c =? id) then Val (s, EGnetIDMismatch) else
      let n := getz (fst a) (ipc s) in
      Val (mkSt (adel addr_eqb a (conns s))
                (mirrors_remove (mirrors s) (fst a) c)
                (if 0 <? n then aset Z.eqb (fst a) (n - 1) (ipc s) else ipc s)
                (adel Z.eqb (c_gid c) (gids s))
                (laddrs_del (listen_key a c) a (laddrs s)), OK)
  end.

Definition set_height (s : st) (a : addr) (id h : Z) : res (st * err) :=
  match aget addr_eqb a (conns s) with
  | None => Val (s, ENotExist)
  | Some c =>
      if negb (c_gid c =? id) then Val (s, EGnetIDMismatch) else
      let c' := mkConn (c_state c) (c_out c) (c_mirror c) (c_lport c) (c_gid c) h in
      Val (set_conns s (aset addr_eqb a c' (conns s)), OK)
  end.

Definition step (s : st) (o : op) : res (st * err) :=
  match o with
  | Pending a => pending s a
  | Connected a id => connected s a id
  | Introduced a id m p => introduced s a id m p
  | Remove a id => remove s a id
  | SetHeight a id h => set_height s a id h
  end.

(* state after a list of operations (errors leave the state as the code does) *)
Fixpoint run (s : st) (ops : list op) : res st :=
  match ops with
  | [] => Val s
  | o :: r => bind (step s o) (fun p => run (fst p) r)
  end.

(* gnet allocates connection ids from a counter: the id handed to `connected`
   is not the id of a connection currently held *)
Definition gid_used (s : st) (id : Z) : bool :=
  existsb (fun p : addr * conn => c_gid (snd p) =? id) (conns s).
Definition fresh_b (s : st) (o : op) : bool :=
  match o with
  | Connected a id => (id =? 0) || negb (gid_used s id)
  | _ => true
  end.
Fixpoint fresh_run_b (s : st) (ops : list op) : bool :=
  match ops with
  | [] => true
  | o :: r => fresh_b s o && match step s o with Val p => fresh_run_b (fst p) r | Panic => true end
  end.

(* number of live connections of one ip *)
Definition count_ip (ip : Z) (cs : list (addr * conn)) : Z :=
  Z.of_nat (List.length (List.filter (fun p : addr * conn => fst (fst p) =? ip) cs)).

(* ---- decidable form of the invariant, evaluated on dumps of the implementation *)
Definition mirror_lookup (s : st) (m ip : Z) : option Z :=
  match aget Z.eqb m (mirrors s) with Some x => aget Z.eqb ip x | None => None end.

Definition opt_z_eqb := eqb_option Z.eqb.
Definition opt_addr_eqb := eqb_option addr_eqb.

Definition nodup_keys_b {K V} (eqb : K -> K -> bool) (m : list (K * V)) : bool :=
  (fix go (l : list (K * V)) := match l with
     | [] => true
     | (k, _) :: r => negb (existsb (fun q : K * V => eqb k (fst q)) r) && go r end) m.

Definition inv_b (s : st) : bool :=
  (* well-formed maps *)
  nodup_keys_b addr_eqb (conns s) && nodup_keys_b Z.eqb (mirrors s) && nodup_keys_b Z.eqb (ipc s)
  && nodup_keys_b Z.eqb (gids s) && nodup_keys_b addr_eqb (laddrs s)
  && forallb (fun e : Z * list (Z * Z) => nodup_keys_b Z.eqb (snd e)) (mirrors s)
  (* ipCounts = count per ip (zero entries are observationally absent) *)
  && forallb (fun ip => getz ip (ipc s) =? count_ip ip (conns s))
             (map fst (ipc s) ++ map (fun p : addr * conn => fst (fst p)) (conns s))
  (* mirrors = {(ip, mirror) -> listen port of the introduced connections}, no empty inner map *)
  && forallb (fun e : Z * list (Z * Z) =>
       negb (match snd e with [] => true | _ => false end) &&
       forallb (fun q : Z * Z =>
         existsb (fun p : addr * conn => introduced_b (snd p) && (fst (fst p) =? fst q)
                    && (c_mirror (snd p) =? fst e) && (c_lport (snd p) =? snd q)) (conns s)) (snd e))
       (mirrors s)
  && forallb (fun p : addr * conn =>
       negb (introduced_b (snd p)) ||
       opt_z_eqb (mirror_lookup s (c_mirror (snd p)) (fst (fst p))) (Some (c_lport (snd p)))) (conns s)
  (* two introduced connections never share ip and mirror *)
  && forallb (fun p : addr * conn => forallb (fun q : addr * conn =>
       negb (introduced_b (snd p) && introduced_b (snd q) && (fst (fst p) =? fst (fst q))
             && (c_mirror (snd p) =? c_mirror (snd q))) || addr_eqb (fst p) (fst q)) (conns s)) (conns s)
  (* gnetIDs = {gnet id -> addr of the connected / introduced connections} *)
  && forallb (fun e : Z * addr =>
       match aget addr_eqb (snd e) (conns s) with
       | Some c => negb (cstate_eqb (c_state c) SPending) && (c_gid c =? fst e)
       | None => false end) (gids s)
  && forallb (fun p : addr * conn =>
       match c_state (snd p) with
       | SPending => (c_gid (snd p) =? 0)
       | _ => negb (c_gid (snd p) =? 0) && opt_addr_eqb (aget Z.eqb (c_gid (snd p)) (gids s)) (Some (fst p))
       end) (conns s)
  (* listenAddrs = {listen address -> the live connections that have it}, no empty or repeated entry *)
  && forallb (fun e : addr * list addr =>
       negb (match snd e with [] => true | _ => false end) &&
       nodup_keys_b addr_eqb (map (fun a => (a, tt)) (snd e)) &&
       forallb (fun a => match aget addr_eqb a (conns s) with
                         | Some c => opt_addr_eqb (listen_key a c) (Some (fst e))
                         | None => false end) (snd e)) (laddrs s)
  && forallb (fun p : addr * conn =>
       match listen_key (fst p) (snd p) with
       | Some k => existsb (addr_eqb (fst p)) (getl k (laddrs s))
       | None => true end) (conns s)
  (* an incoming connection reports its listen port only by introducing itself *)
  && forallb (fun p : addr * conn =>
       c_out (snd p) || introduced_b (snd p) || (c_lport (snd p) =? 0)) (conns s).

(* all maps observationally empty *)
Definition all_empty_b (s : st) : bool :=
  match conns s, mirrors s, gids s, laddrs s with
  | [], [], [], [] => forallb (fun e : Z * Z => snd e =? 0) (ipc s)
  | _, _, _, _ => false
  end.

(* ---- comparison of a model state with a dumped state (maps up to order) *)
Definition conn_eqb (x y : conn) : bool :=
  cstate_eqb (c_state x) (c_state y) && Bool.eqb (c_out x) (c_out y) && (c_mirror x =? c_mirror y)
  && (c_lport x =? c_lport y) && (c_gid x =? c_gid y) && (c_height x =? c_height y).

Definition map_eqb {K V} (keq : K -> K -> bool) (veq : V -> V -> bool) (m1 m2 : list (K * V)) : bool :=
  (Nat.eqb (List.length m1) (List.length m2)) &&
  forallb (fun e : K * V => eqb_option veq (aget keq (fst e) m1) (aget keq (fst e) m2)) (m1 ++ m2).

Definition st_eqb (x y : st) : bool :=
  map_eqb addr_eqb conn_eqb (conns x) (conns y)
  && map_eqb Z.eqb (map_eqb Z.eqb Z.eqb) (mirrors x) (mirrors y)
  && map_eqb Z.eqb Z.eqb (ipc x) (ipc y)
  && map_eqb Z.eqb addr_eqb (gids x) (gids y)
  && map_eqb addr_eqb (eqb_list addr_eqb) (laddrs x) (laddrs y).

(* ---- specification vocabulary of the theorems (Properties/C24.v) *)
(* gnet's counter: the ids handed to `connected` never repeat *)
Fixpoint connected_ids (ops : list op) : list Z :=
  match ops with
  | [] => []
  | Connected _ id :: r => id :: connected_ids r
  | _ :: r => connected_ids r
  end.

Definition live (s : st) (a : addr) (c : conn) : Prop := aget addr_eqb a (conns s) = Some c.

Definition describes_live (s : st) : Prop :=
  (* ipCounts[ip] = number of live connections of that ip *)
  (forall ip, getz ip (ipc s) = count_ip ip (conns s)) /\
  (* mirrors[m][ip] = p  iff  an introduced connection from ip has mirror m and listen port p *)
  (forall m ip p, mirror_lookup s m ip = Some p <->
     exists port c, live s (ip, port) c /\ c_state c = SIntroduced /\ c_mirror c = m /\ c_lport c = p) /\
  (* gnetIDs[id] = a  iff  a is a connected / introduced connection with that gnet id *)
  (forall id a, aget Z.eqb id (gids s) = Some a <->
     exists c, live s a c /\ c_state c <> SPending /\ c_gid c = id) /\
  (* a is listed under listenAddrs[k]  iff  a is live and its listen address is k; listed once *)
  (forall k a, In a (getl k (laddrs s)) <-> exists c, live s a c /\ listen_key a c = Some k) /\
  (forall k, NoDup (getl k (laddrs s))) /\
  (* no empty inner map / list is kept *)
  Forall (fun e : Z * list (Z * Z) => snd e <> []) (mirrors s) /\
  Forall (fun e : addr * list addr => snd e <> []) (laddrs s) /\
  NoDup (map fst (conns s)).

(* removing every connection, one `remove` per live connection with its own id *)
Definition remove_all_ops (s : st) : list op :=
  map (fun p : addr * conn => Remove (fst p) (c_gid (snd p))) (conns s).

Definition observably_empty (s : st) : Prop :=
  conns s = [] /\ mirrors s = [] /\ gids s = [] /\ laddrs s = [] /\ forall ip, getz ip (ipc s) = 0.
