(* Model/Create.v — C12: spend construction
   src/transaction/{params,choose,hours,create}.go mirrored step by step.
   Definitions only.

   Values: addresses and output hashes are ids supplied by the harness that
   preserve the byte order the code uses (bytes.Compare of Address.Bytes() /
   of the hash); the null address is id 0.  UxBalance.Hours (CoinHours at head
   time) is data computed by the implementation (C31 covers its formula).
   The burn factor is params.UserVerifyTxn.BurnFactor, an input of the model.
   Raw Go additions are `wrap 64`; checked ones are the translated AddUint64;
   fee arithmetic is the translated fee.RequiredFee / RemainingHours. *)
From Sky Require Import Base.Uint Gen.Mathutil Gen.Fee Model.TxVerify.
Open Scope Z_scope.

(* ------------------------------------------------------------ result monad *)
(* Val (inl e) = returned error e;  Val (inr a) = success;  Panic = Go panic *)
Definition R (A : Type) := res (string + A).
Definition ok {A} (a : A) : R A := Val (inr a).
Definition fail {A} (e : string) : R A := Val (inl e).
Definition bindR {A B} (r : R A) (f : A -> R B) : R B :=
  match r with
  | Panic => Panic
  | Val (inl e) => Val (inl e)
  | Val (inr a) => f a
  end.
Notation "'do' x <- r ;; k" := (bindR r (fun x => k)) (at level 200, x pattern, r at level 100, k at level 200).

(* a translated checked helper whose error is passed through unchanged *)
Definition chk (r : res (Z * error)) : R Z :=
  match r with
  | Panic => Panic
  | Val (v, None) => ok v
  | Val (_, Some e) => fail e
  end.
(* ... or replaced by the caller's own error *)
Definition chk_as (e : string) (r : res (Z * error)) : R Z :=
  match r with
  | Panic => Panic
  | Val (v, None) => ok v
  | Val (_, Some _) => fail e
  end.
Definition lift {A} (r : res A) : R A :=
  match r with Panic => Panic | Val a => ok a end.

(* ------------------------------------------------------------------- data *)
Record ux := mk_ux {
  u_hash : Z; u_bkseq : Z; u_addr : Z; u_coins : Z;
  u_hours : Z;        (* CoinHours(headTime) *)
  u_init : Z;         (* Body.Hours *)
  u_src_null : bool   (* Body.SrcTransaction.Null() *)
}.

Inductive hs_type := TManual | TAuto | TBad.
Inductive hs_mode := MShare | MEmpty | MBad.
Record params := mk_params {
  p_type : hs_type;
  p_mode : hs_mode;
  p_share : option (Z * Z);      (* decimal share factor as num / den, den > 0 *)
  p_to : list txout;
  p_change : option Z
}.

(* error texts: sentinel names of package transaction / fee / mathutil, or message prefixes *)
Definition ErrNullChangeAddress : string := "ErrNullChangeAddress".
Definition ErrMissingReceivers : string := "ErrMissingReceivers".
Definition ErrZeroCoinsReceiver : string := "ErrZeroCoinsReceiver".
Definition ErrNullAddressReceiver : string := "ErrNullAddressReceiver".
Definition ErrDuplicateReceiver : string := "ErrDuplicateReceiver".
Definition ErrReceiverZeroHoursAuto : string := "ErrReceiverZeroHoursAuto".
Definition ErrMissingHoursSelectionModeAuto : string := "ErrMissingHoursSelectionModeAuto".
Definition ErrInvalidHoursSelelectionMode : string := "ErrInvalidHoursSelelectionMode".
Definition ErrInvalidHoursSelectionModeManual : string := "ErrInvalidHoursSelectionModeManual".
Definition ErrInvalidHoursSelectionType : string := "ErrInvalidHoursSelectionType".
Definition ErrMissingShareFactor : string := "ErrMissingShareFactor".
Definition ErrInvalidShareFactor : string := "ErrInvalidShareFactor".
Definition ErrShareFactorOutOfRange : string := "ErrShareFactorOutOfRange".
Definition ErrInsufficientBalance : string := "ErrInsufficientBalance".
Definition ErrInsufficientHours : string := "ErrInsufficientHours".
Definition ErrZeroSpend : string := "ErrZeroSpend".
Definition ErrNoUnspents : string := "ErrNoUnspents".
Definition ErrTxnNoFee : string := "ErrTxnNoFee".
Definition ErrTxnInsufficientCoinHours : string := "ErrTxnInsufficientCoinHours".
Definition ErrChangeDuplicatesReceiver : string := "ErrChangeDuplicatesReceiver".
Definition ErrUint64AddOverflow : string := "ErrUint64AddOverflow".
Definition ErrUint64OverflowsInt64 : string := "ErrUint64OverflowsInt64".
Definition EDupUxBalance : string := "Duplicate UxBalance in array".
Definition ETotalOutCoins : string := "total output coins error".
Definition ETotalOutHours : string := "total output hours error".
Definition EMaxInputs : string := "Max transaction inputs reached".
Definition EMaxOutputs : string := "Max transaction outputs reached".
Definition ENoCoinHours : string := "Chosen spends have no coin hours, unexpectedly".
Definition EOutHoursOverflow : string := "Transaction output hours overflow".
Definition ENewFeeLess : string := "updated fee after adding extra input for change is unexpectedly less than it was initially".
Definition EAddFeeHigher : string := "calculated additional fee is unexpectedly higher than the extra input's hours".
Definition EShareOne : string := "share factor is 1.0 but changeHours > 0 unexpectedly".
Definition EFellBack : string := "transaction.Create already fell back to share ratio 1.0".
Definition EInvariants : string := "Created transaction that violates invariants, this is a bug".
Definition EInputNotInSet : string := "Created transaction's input is not in the UxBalanceSet, this should not occur".
Definition EDistEmpty : string := "DistributeCoinHoursProportional coins array must not be empty".
Definition EDistZero : string := "DistributeCoinHoursProportional coins array has a zero value".
Definition EDistFrac : string := "DistributeCoinHoursProportional calculated fractional hours is not representable as a uint64".
Definition EDistAssigned : string := "DistributeCoinHoursProportional assigned hours exceeding input hours, this is a bug".
Definition EDistRemaining : string := "DistributeCoinHoursProportional remaining hours exceed len(coins), this is a bug".

(* ------------------------------------------------------- Params.Validate *)
Fixpoint validate_to (to : list txout) : option string :=
  match to with
  | [] => None
  | o :: r =>
      if o_coins o =? 0 then Some ErrZeroCoinsReceiver
      else if o_addr o =? 0 then Some ErrNullAddressReceiver
      else validate_to r
  end.

Definition validate (p : params) : option string :=
  if match p_change p with Some a => a =? 0 | None => false end then Some ErrNullChangeAddress else
  if len (p_to p) =? 0 then Some ErrMissingReceivers else
  match validate_to (p_to p) with Some e => Some e | None =>
  if negb (nodupb txout_eqb (p_to p)) then Some ErrDuplicateReceiver else
  match
    match p_type p with
    | TAuto =>
        if existsb (fun o => negb (o_hours o =? 0)) (p_to p) then Some ErrReceiverZeroHoursAuto
        else match p_mode p with
             | MShare => None
             | MEmpty => Some ErrMissingHoursSelectionModeAuto
             | MBad => Some ErrInvalidHoursSelelectionMode
             end
    | TManual => match p_mode p with MEmpty => None | _ => Some ErrInvalidHoursSelectionModeManual end
    | TBad => Some ErrInvalidHoursSelectionType
    end
  with Some e => Some e | None =>
  match p_share p with
  | None => match p_mode p with MShare => Some ErrMissingShareFactor | _ => None end
  | Some (num, den) =>
      match p_mode p with
      | MShare => if (num <? 0) || (den <? num) then Some ErrShareFactorOutOfRange else None
      | _ => Some ErrInvalidShareFactor
      end
  end end end.

(* ---------------------------------------------------------------- sorting *)
(* sort.Slice with a comparator that is a strict total order on lists without
   duplicate hashes (the result is then unique); cmpUxBalanceByUxID panics on
   equal hashes, which any comparison sort reaches when the slice holds the
   same UxBalance twice *)
Definition cmp_by_coins (coins_lt : Z -> Z -> bool) (a b : ux) : bool :=
  if u_coins a =? u_coins b then
    if u_hours a =? u_hours b then
      if u_bkseq a =? u_bkseq b then u_hash a <? u_hash b
      else u_bkseq a <? u_bkseq b
    else u_hours a <? u_hours b
  else coins_lt (u_coins a) (u_coins b).

Definition cmp_by_hours (a b : ux) : bool :=
  if u_hours a =? u_hours b then
    if u_coins a =? u_coins b then
      if u_bkseq a =? u_bkseq b then u_hash a <? u_hash b
      else u_bkseq a <? u_bkseq b
    else u_coins a <? u_coins b
  else u_hours a <? u_hours b.

Fixpoint insert (less : ux -> ux -> bool) (a : ux) (l : list ux) : list ux :=
  match l with
  | [] => [a]
  | b :: r => if less a b then a :: b :: r else b :: insert less a r
  end.
Definition isort (less : ux -> ux -> bool) (l : list ux) : list ux := fold_right (insert less) [] l.

Definition sort_ux (less : ux -> ux -> bool) (l : list ux) : res (list ux) :=
  if nodupb Z.eqb (map u_hash l) then Val (isort less l) else Panic.

Definition high_to_low := cmp_by_coins Z.gtb.
Definition low_to_high := cmp_by_coins Z.ltb.

(* ----------------------------------------------------------- ChooseSpends *)
(* `strategy` = the comparator of sortStrategy (high_to_low for
   ChooseSpendsMinimizeUxOuts, low_to_high for ChooseSpendsMaximizeUxOuts) *)

(* for _, ux := range zero { spending = append(..); have += ..; if haveCoins >= coins { break } } *)
Fixpoint take_zero (coins : Z) (zero : list ux) (have_c have_h : Z) : list ux * Z * Z :=
  match zero with
  | [] => ([], have_c, have_h)
  | u :: r =>
      let c := wrap 64 (have_c + u_coins u) in
      let h := wrap 64 (have_h + u_hours u) in
      if c >=? coins then ([u], c, h)
      else let '(l, c', h') := take_zero coins r c h in (u :: l, c', h')
  end.

Definition enough (burn coins hours have_c have_h : Z) : res bool :=
  if have_c >=? coins then bind (RemainingHours have_h burn) (fun rem => Val (rem >=? hours))
  else Val false.

(* the last loop: returns the spending list on success, else the sums reached *)
Fixpoint take_nonzero (burn coins hours : Z) (nz : list ux) (acc : list ux) (have_c have_h : Z)
  : res (list ux + Z * Z) :=
  match nz with
  | [] => Val (inr (have_c, have_h))
  | u :: r =>
      let c := wrap 64 (have_c + u_coins u) in
      let h := wrap 64 (have_h + u_hours u) in
      bind (enough burn coins hours c h) (fun e =>
      if e then Val (inl (acc ++ [u])) else take_nonzero burn coins hours r (acc ++ [u]) c h)
  end.

Definition choose_spends (strategy : ux -> ux -> bool) (burn : Z) (uxa : list ux) (coins hours : Z)
  : R (list ux) :=
  if coins =? 0 then fail ErrZeroSpend else
  if len uxa =? 0 then fail ErrNoUnspents else
  if existsb (fun u => u_coins u =? 0) uxa then Panic else
  let nonzero := filter (fun u => negb (u_hours u =? 0)) uxa in
  let zero := filter (fun u => u_hours u =? 0) uxa in
  if len nonzero =? 0 then fail ErrTxnNoFee else
  do nz <- lift (sort_ux high_to_low nonzero) ;;
  match nz with
  | [] => Panic                                   (* nonzero[0] of an empty slice *)
  | first :: rest =>
      if u_hours first =? 0 then Panic else
      let have_c := wrap 64 (0 + u_coins first) in
      let have_h := wrap 64 (0 + u_hours first) in
      do e1 <- lift (enough burn coins hours have_c have_h) ;;
      if (e1 : bool) then ok [first] else
      do zs <- lift (sort_ux strategy zero) ;;
      let '(taken, have_c2, have_h2) := take_zero coins zs have_c have_h in
      let spending := first :: taken in
      do e2 <- lift (enough burn coins hours have_c2 have_h2) ;;
      if (e2 : bool) then ok spending else
      do rs <- lift (sort_ux strategy rest) ;;
      do r3 <- lift (take_nonzero burn coins hours rs spending have_c2 have_h2) ;;
      match r3 with
      | inl sp => ok sp
      | inr (c, _) => if c <? coins then fail ErrInsufficientBalance else fail ErrInsufficientHours
      end
  end.

(* ---------------------------------------- DistributeCoinHoursProportional *)
Fixpoint dist_prepare (coins : list Z) (total : Z) : R Z :=
  match coins with
  | [] => ok total
  | c :: r =>
      if c =? 0 then fail EDistZero else
      do t <- chk (AddUint64 total c) ;;
      do _u <- chk (Uint64ToInt64 c) ;;
      dist_prepare r t
  end.

(* fracInt := (c * hours) / total on math/big integers; IsUint64 test; checked sum *)
Fixpoint dist_frac (coins : list Z) (hours total assigned : Z) : R (list Z * Z) :=
  match coins with
  | [] => ok ([], assigned)
  | c :: r =>
      if total =? 0 then Panic else                (* big.Int.Div by zero panics *)
      let f := c * hours / total in
      if negb (in_ub 64 f) then fail EDistFrac else
      do a <- chk (AddUint64 assigned f) ;;
      do (l, a') <- dist_frac r hours total a ;;
      ok (f :: l, a')
  end.

(* first pass: i from 0 while remaining > 0 && i < len: zero entries get 1 *)
Fixpoint dist_zeros (l : list Z) (rem : Z) : list Z * Z :=
  match l with
  | [] => ([], rem)
  | x :: r =>
      if rem >? 0 then
        if x =? 0 then let '(l', rem') := dist_zeros r (rem - 1) in (1 :: l', rem')
        else let '(l', rem') := dist_zeros r rem in (x :: l', rem')
      else (l, rem)
  end.

(* second pass: i from 0 while remaining > 0: addrHours[i]++ (index out of range panics) *)
Fixpoint dist_extra (l : list Z) (rem : Z) : res (list Z) :=
  if rem >? 0 then
    match l with
    | [] => Panic
    | x :: r => bind (dist_extra r (rem - 1)) (fun r' => Val (wrap 64 (x + 1) :: r'))
    end
  else Val l.

Definition distribute (coins : list Z) (hours : Z) : R (list Z) :=
  if len coins =? 0 then fail EDistEmpty else
  do total <- dist_prepare coins 0 ;;
  do _u <- chk (Uint64ToInt64 total) ;;
  do _u <- chk (Uint64ToInt64 hours) ;;
  do (fr, assigned) <- dist_frac coins hours total 0 ;;
  if hours <? assigned then fail EDistAssigned else
  let rem := wrap 64 (hours - assigned) in
  if rem >? len coins then fail EDistRemaining else
  let '(l1, rem1) := dist_zeros fr rem in
  lift (dist_extra l1 rem1).

(* ------------------------------------------------------------------ create *)
Fixpoint sum_chk (l : list Z) (acc : Z) : R Z :=
  match l with
  | [] => ok acc
  | x :: r => do a <- chk (AddUint64 acc x) ;; sum_chk r a
  end.
Fixpoint sum_chk_as (e : string) (l : list Z) (acc : Z) : R Z :=
  match l with
  | [] => ok acc
  | x :: r => do a <- chk_as e (AddUint64 acc x) ;; sum_chk_as e r a
  end.

(* the two sums over p.To are interleaved: coins of output i, then hours of output i *)
Fixpoint sum_to (to : list txout) (c h : Z) : R (Z * Z) :=
  match to with
  | [] => ok (c, h)
  | o :: r =>
      do c' <- chk_as ETotalOutCoins (AddUint64 c (o_coins o)) ;;
      do h' <- chk_as ETotalOutHours (AddUint64 h (o_hours o)) ;;
      sum_to r c' h'
  end.

(* coins and hours of the spends are summed interleaved as well, with PushInput *)
Fixpoint sum_spends (sp : list ux) (n c h : Z) : R (Z * Z) :=
  match sp with
  | [] => ok (c, h)
  | u :: r =>
      do c' <- chk (AddUint64 c (u_coins u)) ;;
      do h' <- chk (AddUint64 h (u_hours u)) ;;
      if n >=? MaxUint16 then fail EMaxInputs else sum_spends r (n + 1) c' h'
  end.

Fixpoint lookup (uxb : list ux) (h : Z) : option ux :=
  match uxb with
  | [] => None
  | u :: r => if u_hash u =? h then Some u else lookup r h
  end.

(* uxbMap is built front to back: on equal hashes the build fails, so a lookup
   of a list without duplicates finds the unique entry *)
Fixpoint lookup_all (uxb : list ux) (hs : list Z) : option (list ux) :=
  match hs with
  | [] => Some []
  | h :: r => match lookup uxb h, lookup_all uxb r with
              | Some u, Some l => Some (u :: l)
              | _, _ => None
              end
  end.

Definition min_addr (sp : list ux) : option Z :=
  match sp with
  | [] => None
  | u :: r => Some (fold_left Z.min (map u_addr r) (u_addr u))
  end.

Record created := mk_created { c_ins : list ux; c_outs : list txout }.

(* VerifyCreatedInvariants (p, txn, inputs) — first failing check, as text *)
Fixpoint inv_outs (outs : list txout) : option string :=
  match outs with
  | [] => None
  | o :: r => if o_addr o =? 0 then Some "Output address is null"%string
              else if o_coins o =? 0 then Some "Output coins is 0"%string
              else inv_outs r
  end.
Fixpoint inv_match (outs to : list txout) : option string :=
  match to, outs with
  | [], _ => None
  | t :: tr, o :: or =>
      if negb (o_addr o =? o_addr t) then Some "Output address does not match requested address"%string
      else if negb (o_coins o =? o_coins t) then Some "Output coins does not match requested coins"%string
      else if negb (o_hours t =? 0) && negb (o_hours o =? o_hours t) then Some "Output hours does not match requested hours"%string
      else inv_match or tr
  | _ :: _, [] => Some "slice bounds out of range"%string   (* unreachable: guarded by the length check *)
  end.
Fixpoint inv_inputs (ins : list ux) (seen : list Z) : option string :=
  match ins with
  | [] => None
  | i :: r =>
      if u_hours i <? u_init i then Some "Calculated input hours are unexpectedly less than the initial hours"%string
      else if (u_bkseq i =? 0) && negb (u_src_null i) then Some "Input is the genesis UTXO but its source transaction hash is not null"%string
      else if negb (u_bkseq i =? 0) && u_src_null i then Some "Input's source transaction hash is null"%string
      else if u_hash i =? 0 then Some "Input's hash is null"%string
      else if existsb (Z.eqb (u_hash i)) seen then Some "Duplicate input in array"%string
      else inv_inputs r (u_hash i :: seen)
  end.

Definition invariants (burn : Z) (p : params) (ins : list ux) (outs : list txout) : R unit :=
  match inv_outs outs with Some e => fail e | None =>
  if negb (len outs =? len (p_to p)) && negb (len outs =? len (p_to p) + 1)
  then fail "Transaction has unexpected number of outputs" else
  match inv_match outs (p_to p) with Some e => fail e | None =>
  match inv_inputs ins [] with Some e => fail e | None =>
  do ih <- sum_chk (map u_hours ins) 0 ;;
  do oh <- sum_chk (map o_hours outs) 0 ;;
  if ih <? oh then fail "Total input hours is less than the output hours" else
  do rf <- lift (RequiredFee ih burn) ;;
  if wrap 64 (ih - oh) <? rf then fail "Transaction will not satisfy required fee" else ok tt
  end end end.

Inductive step_res := SPanic | SErr (e : string) | SOk (c : created) | SAgain.

Definition of_R (r : R created) : step_res :=
  match r with Panic => SPanic | Val (inl e) => SErr e | Val (inr c) => SOk c end.

(* the hours given to the requested outputs *)
Definition assign_hours (p : params) (remaining : Z) : R (list txout) :=
  match p_type p with
  | TManual => ok (p_to p)
  | TAuto =>
      match p_mode p, p_share p with
      | MShare, Some (num, den) =>
          do hours <- chk (Uint64ToInt64 remaining) ;;
          if den <=? 0 then Panic else       (* a decimal always has a positive denominator *)
          let allocated_int := num * hours / den in   (* ShareFactor.Mul(hours).IntPart() *)
          do allocated <- chk (Int64ToUint64 allocated_int) ;;
          do hs <- distribute (map o_coins (p_to p)) allocated ;;
          ok (map (fun oh => mk_out (o_addr (fst oh)) (o_coins (fst oh)) (snd oh)) (combine (p_to p) hs))
      | _, _ => Panic                        (* logger.Panic("Invalid HoursSelection.Mode") *)
      end
  | TBad => Panic
  end.

Definition is_auto_share (p : params) : bool :=
  match p_type p, p_mode p with TAuto, MShare => true | _, _ => false end.

(* one activation of create(); callCount = 0 / 1 is `again` = false / true.
   Result SAgain = "call create again with share factor 1.0". *)
Definition create_step (burn : Z) (again : bool) (p : params) (uxb : list ux) : R (created + unit) :=
  match validate p with Some e => fail e | None =>
  if negb (nodupb Z.eqb (map u_hash uxb)) then fail EDupUxBalance else
  do (total_out_coins, requested_hours) <- sum_to (p_to p) 0 0 ;;
  do spends <- choose_spends high_to_low burn uxb total_out_coins requested_hours ;;
  do (total_in_coins, total_in_hours) <- sum_spends spends 0 0 0 ;;
  do fee_hours <- lift (RequiredFee total_in_hours burn) ;;
  if fee_hours =? 0 then fail ENoCoinHours else
  let remaining := wrap 64 (total_in_hours - fee_hours) in
  do outs <- assign_hours p remaining ;;
  if len outs >? MaxUint16 then fail EMaxOutputs else
  do total_out_hours <- sum_chk_as EOutHoursOverflow (map o_hours outs) 0 ;;
  if total_out_coins >? total_in_coins then fail ErrInsufficientBalance else
  if total_out_hours >? remaining then fail ErrTxnInsufficientCoinHours else
  let change_coins := wrap 64 (total_in_coins - total_out_coins) in
  let change_hours := wrap 64 (remaining - total_out_hours) in
  (* extra input to carry the change hours *)
  do (spends2, change_coins2, change_hours2) <-
    (if (change_coins =? 0) && (change_hours >? 0) then
       let z := filter (fun u => negb (existsb (fun s => u_hash s =? u_hash u) spends)) uxb in
       do zs <- lift (sort_ux cmp_by_hours z) ;;
       match zs with
       | [] => ok (spends, change_coins, change_hours)
       | extra :: _ =>
           do new_total <- chk (AddUint64 total_in_hours (u_hours extra)) ;;
           do new_fee <- lift (RequiredFee new_total burn) ;;
           if new_fee <? fee_hours then fail ENewFeeLess else
           let additional := wrap 64 (new_fee - fee_hours) in
           if additional <? change_hours then
             if u_hours extra <? additional then fail EAddFeeHigher else
             let add_hours := wrap 64 (u_hours extra - additional) in
             do ch <- chk (AddUint64 change_hours add_hours) ;;
             if len spends >=? MaxUint16 then fail EMaxInputs else
             ok (spends ++ [extra], u_coins extra, ch)
           else ok (spends, change_coins, change_hours)
       end
     else ok (spends, change_coins, change_hours)) ;;
  if (change_coins2 =? 0) && (change_hours2 >? 0) && is_auto_share p then
    match p_share p with
    | Some (num, den) =>
        if num =? den then fail EShareOne else
        if again then fail EFellBack else ok (inr tt)
    | None => Panic
    end
  else
  do outs2 <-
    (if change_coins2 >? 0 then
       do addr <- (match p_change p with
                   | Some a => ok a
                   | None => match min_addr spends2 with Some a => ok a | None => fail "spends is unexpectedly empty when choosing an automatic change address" end
                   end) ;;
       let change := mk_out addr change_coins2 change_hours2 in
       if existsb (txout_eqb change) outs then fail ErrChangeDuplicatesReceiver else
       if len outs >=? MaxUint16 then fail EMaxOutputs else
       ok (outs ++ [change])
     else ok outs) ;;
  match lookup_all uxb (map u_hash spends2) with
  | None => fail EInputNotInSet
  | Some inputs =>
      match invariants burn p inputs outs2 with
      | Panic => Panic
      | Val (inl _) => fail EInvariants
      | Val (inr _) => ok (inl (mk_created inputs outs2))
      end
  end
  end.

Definition with_share_one (p : params) : params :=
  mk_params (p_type p) (p_mode p) (Some (1, 1)) (p_to p) (p_change p).

Definition create (burn : Z) (p : params) (uxb : list ux) : R created :=
  do r <- create_step burn false p uxb ;;
  match r with
  | inl c => ok c
  | inr _ =>
      do r2 <- create_step burn true (with_share_one p) uxb ;;
      match r2 with
      | inl c => ok c
      | inr _ => Panic      (* unreachable: the second activation never asks for a third *)
      end
  end.

(* the unsigned transaction as the verifier of C09 sees it: null signatures,
   header set by UpdateHeader (Length = encoded size, Type 0, InnerHash = the
   hash of In/Out — `h` is that hash, data) *)
Definition null_sig : sigfact := mk_sig true (Some E_sig_recover) 0.
Definition as_txn (h : Z) (c : created) : txn :=
  let n := len (c_ins c) in
  let size := 49 + 65 * n + 32 * n + 37 * len (c_outs c) in
  mk_txn size 0 h (Some h) (Some size) (map (fun _ => null_sig) (c_ins c)) (map u_hash (c_ins c)) (c_outs c) [].

(* ------------------------------------------------ comparison with observations *)
Definition ux_eqb (a b : ux) : bool :=
  (u_hash a =? u_hash b) && (u_bkseq a =? u_bkseq b) && (u_addr a =? u_addr b) && (u_coins a =? u_coins b) &&
  (u_hours a =? u_hours b) && (u_init a =? u_init b) && Bool.eqb (u_src_null a) (u_src_null b).
Definition created_eqb (a b : created) : bool :=
  eqb_list ux_eqb (c_ins a) (c_ins b) && eqb_list txout_eqb (c_outs a) (c_outs b).
(* an error of the model is the sentinel name or a prefix of the observed message *)
Definition R_matches {A} (eqA : A -> A -> bool) (model observed : R A) : bool :=
  match model, observed with
  | Panic, Panic => true
  | Val (inl m), Val (inl o) => String.prefix m o
  | Val (inr a), Val (inr b) => eqA a b
  | _, _ => false
  end.

(* ------------------------------------------- decidable form of the property *)
Definition zsum (l : list Z) : Z := fold_right Z.add 0 l.
Definition ceil_div_z (h b : Z) : Z := (h + b - 1) / b.
Definition remaining_of (burn h : Z) : Z := h - ceil_div_z h burn.

Definition is_auto (p : params) : bool := match p_type p with TAuto => true | _ => false end.

(* the hours the requested outputs may sum to in auto mode: floor(f * remaining)
   with f the requested factor or 1 (fallback), remaining computed on all inputs
   or on all but the last (the extra input added to carry the change hours) *)
Definition allotted_candidates (burn : Z) (p : params) (ins : list ux) : list Z :=
  match p_share p with
  | Some (num, den) =>
      let r1 := remaining_of burn (zsum (map u_hours ins)) in
      let r2 := remaining_of burn (zsum (map u_hours (removelast ins))) in
      [num * r1 / den; num * r2 / den; r1; r2]
  | None => []
  end.

Definition sound_b (burn : Z) (p : params) (uxb : list ux) (c : created) : bool :=
  let ins := c_ins c in
  let outs := c_outs c in
  let nto := List.length (p_to p) in
  let req := firstn nto outs in
  let rest := skipn nto outs in
  let in_hours := zsum (map u_hours ins) in
  let out_hours := zsum (map o_hours outs) in
  (* inputs are offered outputs, each once *)
  forallb (fun i => existsb (ux_eqb i) uxb) ins &&
  nodupb Z.eqb (map u_hash ins) &&
  negb (len ins =? 0) &&
  (* requested outputs are paid exactly *)
  (len req =? len (p_to p)) &&
  forallb (fun ot => (o_addr (fst ot) =? o_addr (snd ot)) && (o_coins (fst ot) =? o_coins (snd ot)) &&
                     (is_auto p || (o_hours (fst ot) =? o_hours (snd ot)))) (combine req (p_to p)) &&
  (* the remaining coins go to the change address *)
  (zsum (map o_coins outs) =? zsum (map u_coins ins)) &&
  match rest with
  | [] => true
  | [ch] => negb (o_coins ch =? 0) &&
            match p_change p with
            | Some a => o_addr ch =? a
            | None => match min_addr ins with Some a => o_addr ch =? a | None => false end
            end
  | _ => false
  end &&
  (* automatic hours sum exactly to the allotted amount *)
  (negb (is_auto p) || existsb (Z.eqb (zsum (map o_hours req))) (allotted_candidates burn p ins)) &&
  (* at least the required fee is burned *)
  (out_hours <=? in_hours) && (ceil_div_z in_hours burn <=? in_hours - out_hours).

(* "fails for lack of funds only when the offered outputs cannot cover the request" *)
Definition complete_b (burn : Z) (uxa : list ux) (coins hours : Z) (e : string) : bool :=
  if String.eqb e ErrInsufficientBalance then zsum (map u_coins uxa) <? coins
  else if String.eqb e ErrInsufficientHours then remaining_of burn (zsum (map u_hours uxa)) <? hours
  else true.
