(* Model/HoursSpec.v — data of a transaction as the coin-hour and soft rules see
   it, and the MATHEMATICAL quantities the properties C03 / C11 talk about
   (no translated code is used here, so these definitions and the decidable
   forms of the properties still evaluate when a translation or a proof
   breaks). Definitions only. *)
From Sky Require Import Base.Uint Model.ArithSpec.
Open Scope Z_scope.

(* an unspent output being spent: creation time (block time of the block that
   created it), coins (droplets), initial hours, owner address (an id; the
   harness maps distinct addresses to distinct ids) *)
Record uxin := mkIn { i_time : Z; i_coins : Z; i_hours : Z; i_addr : Z }.
(* a transaction output *)
Record txout := mkOut { o_coins : Z; o_hours : Z }.

Definition wf_in (i : uxin) : Prop :=
  in_u 64 (i_time i) /\ in_u 64 (i_coins i) /\ in_u 64 (i_hours i).
Definition wf_out (o : txout) : Prop := in_u 64 (o_coins o) /\ in_u 64 (o_hours o).
Definition wf_inb (i : uxin) : bool :=
  in_ub 64 (i_time i) && in_ub 64 (i_coins i) && in_ub 64 (i_hours i).
Definition wf_outb (o : txout) : bool := in_ub 64 (o_coins o) && in_ub 64 (o_hours o).

(* error classes of the verifier (transaction.ErrTxnViolates{Hard,Soft}Constraint);
   Other = an error that reached the caller without one of the two wrappers *)
Inductive cls := Hard | Soft | Other.
Definition verdict := option (cls * string).
Definition wrap_err (c : cls) (e : error) : verdict :=
  match e with None => None | Some s => Some (c, s) end.
Definition cls_eqb (a b : cls) : bool :=
  match a, b with Hard, Hard | Soft, Soft | Other, Other => true | _, _ => false end.
Definition verdict_class (v : verdict) : option cls :=
  match v with None => None | Some (c, _) => Some c end.
Definition verdict_err (v : verdict) : error :=
  match v with None => None | Some (_, s) => Some s end.

Definition sumZ {A} (f : A -> Z) (l : list A) : Z := fold_right (fun x a => f x + a) 0 l.

(* ---- accrued hours, mathematically *)

(* hours of an output at time T: initial hours + one hour per whole coin per
   hour elapsed (floor(coins * elapsed / 3.6e9)); before its creation time the
   code returns the initial hours *)
Definition acc_hours (T : Z) (i : uxin) : Z :=
  if T <? i_time i then i_hours i else i_hours i + earned (i_coins i) (T - i_time i).

(* the three intermediate products / sums of UxOut.CoinHours fit in 64 bits *)
Definition acc_mid_ok (T : Z) (i : uxin) : bool :=
  (T <? i_time i) ||
  (let d := T - i_time i in
   ((i_coins i / 1000000) * d <? 2 ^ 64) && ((i_coins i mod 1000000) * d <? 2 ^ 64) &&
   (i_coins i * d / 1000000 <? 2 ^ 64)).
(* UxOut.CoinHours returns no error *)
Definition acc_ok (T : Z) (i : uxin) : bool := acc_mid_ok T i && (acc_hours T i <? 2 ^ 64).

(* what an input counts for in the block-level rule: its accrued hours, except
   that accrued hours that do not fit in 64 bits count as 0 (the documented
   legacy exception, ErrAddEarnedCoinHoursAdditionOverflow) *)
Definition eff_hours (T : Z) (i : uxin) : Z :=
  if acc_hours T i <? 2 ^ 64 then acc_hours T i else 0.

Definition in_acc_sum (T : Z) (ins : list uxin) : Z := sumZ (acc_hours T) ins.
Definition in_eff_sum (T : Z) (ins : list uxin) : Z := sumZ (eff_hours T) ins.
Definition out_sum (outs : list txout) : Z := sumZ o_hours outs.
Definition in_coins (ins : list uxin) : Z := sumZ i_coins ins.
Definition out_coins (outs : list txout) : Z := sumZ o_coins outs.

(* ---- decidable forms of the C03 statements, evaluated on what the
   implementation returned *)

(* the block-level rule accepts exactly when ... (hours_spending_accepts_iff) *)
Definition block_hours_ok (T : Z) (ins : list uxin) (outs : list txout) : bool :=
  forallb (acc_mid_ok T) ins && (in_eff_sum T ins <? 2 ^ 64) &&
  (wrap 64 (out_sum outs) <=? in_eff_sum T ins).

(* FULL statement: outputs' hours (true sum) do not exceed the inputs' effective hours *)
Definition not_created_full (T : Z) (ins : list uxin) (outs : list txout) : bool :=
  out_sum outs <=? in_eff_sum T ins.
(* PARTIAL statement that holds of the block-level rule: either the full
   statement, or the outputs' hours sum does not fit in 64 bits (the code adds
   them unchecked) and the wrapped sum is within the inputs' effective hours *)
Definition not_created_partial (T : Z) (ins : list uxin) (outs : list txout) : bool :=
  not_created_full T ins outs ||
  ((2 ^ 64 <=? out_sum outs) && (wrap 64 (out_sum outs) <=? in_eff_sum T ins)).

(* single-transaction (pool admission) rule: no overflow anywhere, no exception *)
Definition pool_hours_ok (T : Z) (ins : list uxin) (outs : list txout) : bool :=
  (out_sum outs <? 2 ^ 64) && forallb (acc_ok T) ins &&
  (in_acc_sum T ins <? 2 ^ 64) && (out_sum outs <=? in_acc_sum T ins).

Definition coins_ok (ins : list uxin) (outs : list txout) : bool :=
  (in_coins ins <? 2 ^ 64) && (out_coins outs <? 2 ^ 64) && (in_coins ins =? out_coins outs).

(* comparison of a model verdict with an observed one: same class, and the
   model's error name is the observed sentinel name or a prefix of the message *)
Definition verdict_matches (model observed : verdict) : bool :=
  match model, observed with
  | None, None => true
  | Some (c, m), Some (c', o) => cls_eqb c c' && String.prefix m o
  | _, _ => false
  end.
Definition res_verdict_matches (model observed : res verdict) : bool :=
  match model, observed with
  | Panic, Panic => true
  | Val a, Val b => verdict_matches a b
  | _, _ => false
  end.
Definition res_b_matches (model observed : res bool) : bool :=
  match model, observed with
  | Panic, Panic => true
  | Val a, Val b => Bool.eqb a b
  | _, _ => false
  end.
Definition is_val_none {A} (r : res (option A)) : bool :=
  match r with Val None => true | _ => false end.
