(* C28 — models of the decision logic behind API endpoints whose code contains
   operations that can panic in Go (nil dereference, integer conversion), with
   `Panic` explicit.  Definitions only.

   1. Visor.VerifyTxnVerbose (src/visor/visor.go) and the status mapping of
      verifyTxnHandler (src/api/transaction.go, POST /api/v2/transaction/verify).
      Database lookups are data: per input "is in the unspent pool" / "is known
      to historydb"; the history lookup of the transaction is an `option`
      (Go: a *Transaction that may be nil); the three constraint checkers
      (user / soft / hard; subject of C09, C11) are verdict bits.
   2. Blockchain.GetLastBlocks / GetBlocksInRange (src/visor/blockchain.go) and
      lastBlocksHandler's bound: the uint64 -> int conversion arithmetic. *)
From Sky Require Import Base.Uint.
Open Scope Z_scope.

(* ------------------------------------------------------------------ 1. VerifyTxnVerbose *)

Record vin := { in_unspent : bool; in_history : bool }.

Inductive lookup (A : Type) : Type :=
| LErr            (* the database call returned an error *)
| LNil            (* no error, nil pointer *)
| LFound (a : A).
Arguments LErr {A}.
Arguments LNil {A}.
Arguments LFound {A} a.

Inductive vclass := EHard | ESoft | EUser | EOther.

Record vfacts := {
  f_head_err : bool;                 (* vs.blockchain.Head(tx) failed *)
  f_head_time : Z;
  f_inputs : list vin;               (* txn.In, in order *)
  f_unspent_dberr : bool;            (* Unspent().GetArray failed with a database error *)
  f_hist_dberr : bool;               (* history.GetUxOuts failed with a database error *)
  f_hist_txn : lookup Z;             (* history.GetTransaction(txn.Hash()): block seq of the confirmed txn *)
  f_prev_block : lookup Z;           (* GetSignedBlockBySeq(seq-1): its time *)
  f_user : bool; f_soft : bool; f_hard : bool;   (* the constraint checks pass *)
  f_inputs_err : bool                (* NewTransactionInputs(uxa, feeCalcTime) fails *)
}.

Record vout := {
  o_inputs : bool;                   (* verbose inputs returned (non-nil) *)
  o_confirmed : bool;
  o_err : option vclass
}.

(* state of the captured variables (uxa non-empty?, isTxnConfirmed, feeCalcTime) and the error of the View closure *)
Record vview := { w_uxa : bool; w_conf : bool; w_fee_time : Z; w_err : option vclass }.

Definition all_unspent (l : list vin) : bool := forallb in_unspent l.
Definition all_in_history (l : list vin) : bool := forallb in_history l.
Definition nonempty {A} (l : list A) : bool := match l with [] => false | _ => true end.

(* the closure passed to vs.db.View; `fixed` = with the nil check of the F6 repair *)
Definition vtv_view (fixed : bool) (f : vfacts) : res vview :=
  if f_head_err f then Val {| w_uxa := false; w_conf := false; w_fee_time := 0; w_err := Some EOther |} else
  if f_unspent_dberr f then Val {| w_uxa := false; w_conf := false; w_fee_time := 0; w_err := Some EOther |} else
  if all_unspent (f_inputs f) then
    (* case nil: *)
    let st := fun e => Val {| w_uxa := nonempty (f_inputs f); w_conf := false; w_fee_time := f_head_time f; w_err := e |} in
    if negb (f_user f) then st (Some EUser)
    else if negb (f_soft f) then st (Some ESoft)
    else if negb (f_hard f) then st (Some EHard)
    else st None
  else
    (* case blockdb.ErrUnspentNotExist: *)
    if f_hist_dberr f then Val {| w_uxa := false; w_conf := false; w_fee_time := 0; w_err := Some EOther |} else
    if negb (all_in_history (f_inputs f)) then
      (* historydb ErrUxOutNotExist is returned as it is *)
      Val {| w_uxa := false; w_conf := false; w_fee_time := 0; w_err := Some EOther |}
    else
    (* len(outs) == 0 cannot happen here: some input is not unspent, so there is one *)
    match f_hist_txn f with
    | LErr => Val {| w_uxa := true; w_conf := false; w_fee_time := 0; w_err := Some EOther |}
    | LNil =>
        if fixed
        then Val {| w_uxa := true; w_conf := false; w_fee_time := 0; w_err := Some EHard |}
        else Panic                                  (* historyTxn.BlockSeq with historyTxn == nil *)
    | LFound seq =>
        if seq >? 0 then
          match f_prev_block f with
          | LErr => Val {| w_uxa := true; w_conf := true; w_fee_time := 0; w_err := Some EOther |}
          | LNil => Val {| w_uxa := true; w_conf := true; w_fee_time := 0; w_err := Some EOther |}
          | LFound t => Val {| w_uxa := true; w_conf := true; w_fee_time := t; w_err := None |}
          end
        else Val {| w_uxa := true; w_conf := true; w_fee_time := 0; w_err := None |}
    end.

Definition vtv_gen (fixed : bool) (f : vfacts) : res vout :=
  bind (vtv_view fixed f) (fun w =>
    if w_uxa w && negb (w_fee_time w =? 0) then
      if f_inputs_err f
      then Val {| o_inputs := false; o_confirmed := w_conf w; o_err := Some EOther |}
      else Val {| o_inputs := true; o_confirmed := w_conf w; o_err := w_err w |}
    else Val {| o_inputs := false; o_confirmed := w_conf w; o_err := w_err w |}).

(* the code as it is now *)
Definition vtv := vtv_gen true.
(* the code before the F6 repair *)
Definition vtv_unfixed := vtv_gen false.

(* verifyTxnHandler after the request has been decoded: status of the answer.
   fuzzy_err: newCreatedTransactionFuzzy fails. *)
Definition verify_status_of (r : res vout) (fuzzy_err : bool) : res Z :=
  bind r (fun o =>
    match o_err o with
    | Some EOther => Val 500
    | Some _ => if fuzzy_err then Val 500 else Val 422
    | None => if fuzzy_err then Val 500 else if o_confirmed o then Val 422 else Val 200
    end).

Definition verify_status (f : vfacts) (fuzzy_err : bool) : res Z := verify_status_of (vtv f) fuzzy_err.
Definition verify_status_unfixed (f : vfacts) (fuzzy_err : bool) : res Z := verify_status_of (vtv_unfixed f) fuzzy_err.

(* a verdict: the answer says whether the transaction is valid *)
Definition is_verdict (s : Z) : bool := (s =? 200) || (s =? 422) || (s =? 500).

(* ------------------------------------------------------------------ 2. last blocks / block ranges *)

(* Blockchain.GetBlocksInRange: number of blocks returned on a chain whose
   head has sequence `head` (all blocks 0..head exist).  The Go loop
   `for i := start; i <= end; i++` stops at the first missing block. *)
Definition blocks_in_range_count (head start end_ : Z) : Z :=
  if start >? end_ then 0
  else if start >? head then 0
  else Z.min end_ head - start + 1.

(* Blockchain.GetLastBlocks: start := int(end-num) + 1 (uint64 subtraction wraps,
   the conversion to int reinterprets the bits, the addition wraps in int64) *)
Definition last_blocks_start (head num : Z) : Z :=
  let s := swrap 64 (swrap 64 (wrap 64 (head - num)) + 1) in
  if s <? 0 then 0 else s.

Definition last_blocks_count (has_head : bool) (head num : Z) : Z :=
  if num =? 0 then 0
  else if negb has_head then 0
  else blocks_in_range_count head (last_blocks_start head num) head.

(* lastBlocksHandler: 400 when num does not parse or exceeds MaxLastBlocksCount *)
Definition last_blocks_status (parsed : option Z) (max_lbc : Z) : Z :=
  match parsed with
  | None => 400
  | Some n => if n >? max_lbc then 400 else 200
  end.
