(* Model/SaveFile.v — C20: wallet and key-value files survive a crash during a save.

   One directory of the file system, the list of file-system operations that
   a save issues (src/util/file/file.go SaveBinary, as called by wallet.Save,
   kvStorage.flush, Service.NewAddresses/ScanAddresses after file.IsWritable),
   the ordered-write crash model, and the decisions of the two loaders
   (wallet.NewService, kvstorage.NewManager/newKVStorage).
   Definitions only; proofs are in Proofs/SaveFileProofs.v.

   The op list is tied to the code on every run: the harness runs the real
   service operation under strace and the cases file compares the traced
   skeleton with [service_ops] below (Corr/C20_corr.v, mism_ops). *)
From Coq Require Import List String Ascii Bool ZArith Arith.
From Sky Require Import Base.Uint.
Import ListNotations.
Open Scope string_scope.

(* ------------------------------------------------------------------ files *)

Definition content := list Z.                    (* bytes *)
Definition dir := list (string * content).       (* name -> content, names unique *)

Fixpoint get (n : string) (d : dir) : option content :=
  match d with
  | [] => None
  | (m, x) :: r => if String.eqb m n then Some x else get n r
  end.

(* replace in place, or add at the end *)
Fixpoint set (n : string) (c : content) (d : dir) : dir :=
  match d with
  | [] => [(n, c)]
  | (m, x) :: r => if String.eqb m n then (m, c) :: r else (m, x) :: set n c r
  end.

Fixpoint remove (n : string) (d : dir) : dir :=
  match d with
  | [] => []
  | (m, x) :: r => if String.eqb m n then remove n r else (m, x) :: remove n r
  end.

(* ------------------------------------------------------------- operations *)

(* The system calls a save makes on the directory (strace skeleton). *)
Inductive op : Type :=
| OCreate (n : string)                 (* openat O_WRONLY|O_CREAT|O_TRUNC : file exists and is empty *)
| OOpenW (n : string)                  (* openat O_WRONLY (file.IsWritable): content untouched *)
| OWrite (n : string) (x : content)    (* write(fd, x) on the descriptor of n: appended at the offset *)
| OFsync (n : string)
| ORename (a b : string)               (* rename a b: b is replaced atomically *)
| OUnlink (n : string).

Definition apply (o : op) (d : dir) : dir :=
  match o with
  | OCreate n => set n [] d
  | OOpenW n => d
  | OWrite n x =>
      match get n d with
      | Some c => set n (c ++ x)%list d
      | None => d          (* descriptor of a file no longer linked: the directory does not change *)
      end
  | OFsync n => d
  | ORename a b =>
      match get a d with
      | Some c => remove a (set b c d)
      | None => d          (* ENOENT *)
      end
  | OUnlink n => remove n d
  end.

Definition run (ops : list op) (d : dir) : dir := fold_left (fun d o => apply o d) ops d.

(* Ordered-write crash model: the first k operations took effect in full; if
   the next one is a data write, any prefix of its bytes (cut = 0 .. all) may
   have reached the file. k >= length ops is the completed save. *)
Definition crash (ops : list op) (k cut : nat) (d : dir) : dir :=
  let d' := run (firstn k ops) d in
  match nth_error ops k with
  | Some (OWrite n x) => apply (OWrite n (firstn cut x)) d'
  | _ => d'
  end.

(* ------------------------------------------------------------- the save *)

(* tmpname := filename + ".tmp." + sha256(data).Hex()[:8] ; the hash is data
   of the model (h), constrained by [hex8b]. *)
Definition tmp_name (name h : string) : string := name ++ ".tmp." ++ h.

(* file.SaveBinary after the fix (commit 3148cc2b5): write tmp, fsync, rename over the target *)
Definition save_ops (name h : string) (data : content) : list op :=
  let t := tmp_name name h in
  [OCreate t; OWrite t data; OFsync t; ORename t name].

(* file.SaveBinary of the unchanged tree: write tmp, rewrite the target in place, remove tmp *)
Definition save_ops_v0 (name h : string) (data : content) : list op :=
  let t := tmp_name name h in
  [OCreate t; OWrite t data; OCreate name; OWrite name data; OUnlink t].

(* What a service operation does on the directory: NewAddresses/ScanAddresses
   call file.IsWritable on the wallet file first. *)
Definition service_ops (checks_writable : bool) (name h : string) (data : content) : list op :=
  ((if checks_writable then [OOpenW name] else []) ++ save_ops name h data)%list.
(* The tmp file can only be created when its name fits the file system's limit
   (NAME_MAX = 255 bytes; ".tmp." + 8 hex digits add 13). When it cannot, the
   open fails (ENAMETOOLONG), SaveBinary returns the error and nothing is
   written: the save consists of the IsWritable probe only. *)
Definition tmp_creatable (name : string) : bool := (Z.of_nat (String.length name) + 13 <=? 255)%Z.
Definition service_ops_fs (checks_writable : bool) (name h : string) (data : content) : list op :=
  if tmp_creatable name then service_ops checks_writable name h data
  else (if checks_writable then [OOpenW name] else []).

(* unchanged tree: IsWritable opened with O_CREATE|O_TRUNC *)
Definition service_ops_v0 (checks_writable : bool) (name h : string) (data : content) : list op :=
  ((if checks_writable then [OCreate name] else []) ++ save_ops_v0 name h data)%list.

(* ------------------------------------------------------------- names *)

(* strings.HasSuffix(s, suf) *)
Fixpoint suffixb (suf s : string) : bool :=
  match s with
  | EmptyString => String.eqb suf s
  | String _ r => String.eqb suf s || suffixb suf r
  end.

Definition is_hex (c : ascii) : bool :=
  let n := nat_of_ascii c in
  (((48 <=? n) && (n <=? 57)) || ((97 <=? n) && (n <=? 102)))%nat.    (* 0-9 a-f *)
Fixpoint all_chars (p : ascii -> bool) (s : string) : bool :=
  match s with EmptyString => true | String c r => p c && all_chars p r end.
Definition hex8b (h : string) : bool := (String.length h =? 8)%nat && all_chars is_hex h.

(* the files the wallet service looks at: loadWallets takes every name ending
   in WalletExt = "wlt" (no dot), removeBackupFiles takes *.wlt.bak (and looks
   up the *.wlt beside it) *)
Definition wlt_visible (n : string) : bool := suffixb "wlt" n || suffixb ".wlt.bak" n.

Definition vis (P : string -> bool) (d : dir) : dir := filter (fun p => P (fst p)) d.

(* ioutil.ReadDir returns the entries sorted by name *)
Definition name_leb (a b : string) : bool :=
  match String.compare a b with Gt => false | _ => true end.
Fixpoint insert_sorted (p : string * content) (l : dir) : dir :=
  match l with
  | [] => [p]
  | q :: r => if name_leb (fst p) (fst q) then p :: l else q :: insert_sorted p r
  end.
Definition readdir (d : dir) : dir := fold_right insert_sorted [] d.

Definition strip_bak (n : string) : string := substring 0 (String.length n - 4)%nat n.

(* ------------------------------------------------------------- loaders *)

Inductive parsed (W : Type) : Type :=
| PErr               (* LoadJSON / loader / validation error *)
| PSkip              (* unknown wallet type: Load returns (nil, nil), file skipped *)
| POk (w : W).
Arguments PErr {W}. Arguments PSkip {W}. Arguments POk {W} w.

Inductive started (W : Type) : Type :=
| Abort                                   (* NewService returns an error: the node does not start *)
| Started (ws : list (string * W)).
Arguments Abort {W}. Arguments Started {W} ws.

Section WalletLoader.
  Variable W : Type.
  Variable parse : content -> parsed W.          (* wallet.Load on the file content *)
  Variable meta_ok : content -> bool.            (* loadWalletMeta succeeds *)
  Variable accept : list (string * W) -> bool.   (* no duplicate fingerprint, no empty wallet, coin type *)

  Fixpoint load_all (l : dir) : option (list (string * W)) :=
    match l with
    | [] => Some []
    | (n, c) :: r =>
        if suffixb "wlt" n then
          match parse c with
          | PErr => None
          | PSkip => load_all r
          | POk w => match load_all r with Some ws => Some ((n, w) :: ws) | None => None end
          end
        else load_all r
    end.

  (* removeBackupFiles: for every x.wlt.bak with an x.wlt beside it the meta of
     x.wlt is read; a read error aborts the start *)
  Definition bak_phase_ok (v : dir) : bool :=
    forallb (fun p : string * content =>
               if suffixb ".wlt.bak" (fst p) then
                 match get (strip_bak (fst p)) v with
                 | Some c => if suffixb ".wlt" (strip_bak (fst p)) then meta_ok c else true
                 | None => true
                 end
               else true) v.

  (* wallet.NewService as a function of the visible files of the directory *)
  Definition start_of (v : dir) : started W :=
    if bak_phase_ok v then
      match load_all (readdir v) with
      | None => Abort
      | Some ws => if accept ws then Started ws else Abort
      end
    else Abort.

  Definition wallet_start (d : dir) : started W := start_of (vis wlt_visible d).
End WalletLoader.

Inductive kv_started (K : Type) : Type :=
| KvLoaded (m : K)       (* file parsed *)
| KvInitEmpty            (* no file: initEmptyStorage, empty map *)
| KvResetCorrupt.        (* LoadJSON failed: file renamed to .corrupt.<hash>, storage starts EMPTY *)
Arguments KvLoaded {K} m. Arguments KvInitEmpty {K}. Arguments KvResetCorrupt {K}.

Section KvLoader.
  Variable K : Type.
  Variable parsekv : content -> option K.
  (* Manager.LoadStorage + newKVStorage on <type>.json *)
  Definition kv_start (name : string) (d : dir) : kv_started K :=
    match get name d with
    | None => KvInitEmpty
    | Some c => match parsekv c with Some m => KvLoaded m | None => KvResetCorrupt end
    end.
End KvLoader.

(* ------------------------------------------------------------- evaluation helpers
   (used by the cases files: equality of directories up to order, and the
   instance of the loaders used for the correspondence: a content parses iff it
   is one of the contents the real loader accepted on a clean directory) *)

Definition eqb_content (a b : content) : bool := eqb_list Z.eqb a b.

Definition dir_subb (a b : dir) : bool :=
  forallb (fun p : string * content =>
             match get (fst p) b with Some c => eqb_content c (snd p) | None => false end) a.
Definition dir_eqb (a b : dir) : bool :=
  dir_subb a b && dir_subb b a && (List.length a =? List.length b)%nat.

Definition eqb_op (a b : op) : bool :=
  match a, b with
  | OCreate n, OCreate m => String.eqb n m
  | OOpenW n, OOpenW m => String.eqb n m
  | OWrite n x, OWrite m y => String.eqb n m && eqb_content x y
  | OFsync n, OFsync m => String.eqb n m
  | ORename a1 b1, ORename a2 b2 => String.eqb a1 a2 && String.eqb b1 b2
  | OUnlink n, OUnlink m => String.eqb n m
  | _, _ => false
  end.

Definition parse_known (valid : list content) (c : content) : parsed content :=
  if existsb (eqb_content c) valid then POk c else PErr.
Definition parsekv_known (valid : list content) (c : content) : option content :=
  if existsb (eqb_content c) valid then Some c else None.

(* ------------------------------------------------------------- cases-file vocabulary
   (Corr/C20_corr.v, Corr/C20_prop.v; the data is written by harness/c20) *)

(* what the implementation shows after a start on a directory *)
Inductive obs : Type :=
| ObsAbort                               (* NewService / NewManager returned an error (or panicked) *)
| ObsWallets (l : list (string * Z))     (* loaded wallets sorted by file name; Z = id of the wallet's digest *)
| ObsKv (id : Z).                        (* id of the loaded map's digest; 0 = empty map; -1 = reset as corrupt *)

Definition eqb_obs (a b : obs) : bool :=
  match a, b with
  | ObsAbort, ObsAbort => true
  | ObsWallets x, ObsWallets y => eqb_list (eqb_pair String.eqb Z.eqb) x y
  | ObsKv x, ObsKv y => Z.eqb x y
  | _, _ => false
  end.

(* one traced save: the directory before, the new content, the strace skeleton
   of the real operation, the parse oracle (content -> digest id as the real
   loader computed it on that content alone; -1 = the loader skips the file;
   absent = the loader reports an error) and what the real service shows on the
   clean old / new directories *)
Record scen : Type := mk_scen {
  s_kv : bool; s_w : bool; s_name : string; s_hash : string;
  s_old : dir; s_new : content;
  s_valid : list (content * Z);
  s_traced : list op;
  s_obs_old : obs; s_obs_new : obs }.

Fixpoint lookup_content (c : content) (t : list (content * Z)) : option Z :=
  match t with
  | [] => None
  | (x, i) :: r => if eqb_content c x then Some i else lookup_content c r
  end.

Definition parse_tbl (t : list (content * Z)) (c : content) : parsed Z :=
  match lookup_content c t with
  | None => PErr
  | Some i => if (i <? 0)%Z then PSkip else POk i
  end.
Definition meta_tbl (t : list (content * Z)) (c : content) : bool :=
  match lookup_content c t with None => false | Some _ => true end.
Definition parsekv_tbl (t : list (content * Z)) (c : content) : option Z := lookup_content c t.

(* the model's prediction of the observable *)
Definition model_obs (s : scen) (d : dir) : obs :=
  if s_kv s then
    match kv_start Z (parsekv_tbl (s_valid s)) (s_name s) d with
    | KvLoaded i => ObsKv i
    | KvInitEmpty => ObsKv 0
    | KvResetCorrupt => ObsKv (-1)
    end
  else
    match wallet_start Z (parse_tbl (s_valid s)) (meta_tbl (s_valid s)) (fun _ => true) d with
    | Abort => ObsAbort
    | Started ws => ObsWallets ws
    end.

(* file contents that are printable text are written as string literals in the
   cases files (long list literals are slow to type-check) *)
Fixpoint bytes_of_string (s : string) : content :=
  match s with
  | EmptyString => []
  | String c r => Z.of_N (N_of_ascii c) :: bytes_of_string r
  end.

(* compact description of a file content seen in a materialised directory *)
Inductive cdesc : Type :=
| CNew (n : Z)            (* the first n bytes of the new content (Z: no big nat literals in cases files) *)
| COld (n : string)       (* the content file n had before the save *)
| CRaw (c : content).

Fixpoint decode_dir (s : scen) (l : list (string * cdesc)) : option dir :=
  match l with
  | [] => Some []
  | (n, x) :: r =>
      let c := match x with
               | CNew k => Some (firstn (Z.to_nat k) (s_new s))
               | COld m => get m (s_old s)
               | CRaw c => Some c
               end in
      match c, decode_dir s r with
      | Some c, Some d => Some ((n, c) :: d)
      | _, _ => None
      end
  end.

(* a segment of a content, with Z bounds *)
Definition seg (off n : Z) (c : content) : content := firstn (Z.to_nat n) (skipn (Z.to_nat off) c).

Definition scen_ops (s : scen) : list op := service_ops_fs (s_w s) (s_name s) (s_hash s) (s_new s).
