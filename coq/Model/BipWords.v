(* Model/BipWords.v — the English BIP39 word list used by the model: the list
   regenerated from src/cipher/bip39/wordlists/english.go (Gen/Bip39Words.v) as byte strings. *)
From Coq Require Import ZArith List String.
From Sky Require Import Model.Bip Gen.Bip39Words.
Definition english_words : list (list Z) := List.map bytes_of_string go_english.
