(* Model/WalletCrypt.v — property C18.
   (1) byte-level framing of Sha256Xor.Decrypt and ScryptChacha20poly1305.Decrypt
       (src/cipher/encrypt) as total functions to `res dres`, `Panic` exactly where
       the Go code would panic; hashes / key derivation / AEAD / JSON / base64 are
       oracles (Section variables).
   (2) wallet Lock / Unlock (deterministic, bip44, collection wallets) over an
       abstract cipher enc/dec.
   Definitions only. *)
From Coq Require Import ZArith List Bool String.
From Sky Require Import Base.Uint.
Import ListNotations.
Open Scope Z_scope.

Definition bytes := list Z.
Definition bytes_eqb : bytes -> bytes -> bool := eqb_list Z.eqb.
Definition len {A} (l : list A) : Z := Z.of_nat (List.length l).

(* result of a Decrypt call that returned: plaintext or an error class *)
Inductive dres := DOk (plain : bytes) | DErr (e : string).

Definition dres_eqb (a b : dres) : bool :=
  match a, b with
  | DOk x, DOk y => bytes_eqb x y
  | DErr x, DErr y => String.eqb x y
  | _, _ => false
  end.

(* bytes.Buffer.Read(p) with len(p) = n > 0: io.EOF on an empty buffer, else up to n bytes *)
Definition buf_read (n : nat) (b : bytes) : option (bytes * bytes) :=
  match b with
  | [] => None
  | _ => Some (firstn n b, skipn n b)
  end.

(* little endian *)
Definition le_uint (b : bytes) : Z := fold_right (fun x acc => x + 256 * acc) 0 b.
Definition le32 (n : Z) : bytes :=
  [n mod 256; (n / 256) mod 256; (n / 65536) mod 256; (n / 16777216) mod 256].

Definition xor_bytes (a b : bytes) : bytes :=
  map (fun p => Z.lxor (fst p) (snd p)) (combine a b).

(* ------------------------------------------------------------------ sha256xor *)
Section Sha256Xor.
  Variable H : bytes -> bytes.          (* cipher.SumSHA256 *)
  Variable KS : bytes -> Z -> bytes.    (* nonce -> block index -> hashKeyIndexNonce(key(password), i, H nonce) *)

  (* for { n, err := buf.Read(block[:]); if err == io.EOF { break };
           if n != 32 { return ErrInvalidBlockSize }; decode; i++ }
     None = ErrInvalidBlockSize; running out of fuel is Panic (shown impossible) *)
  Fixpoint sha_blocks (fuel : nat) (nonce : bytes) (i : Z) (b : bytes) : res (option bytes) :=
    match b with
    | [] => Val (Some [])
    | _ =>
      match fuel with
      | O => Panic
      | S fuel' =>
        let blk := firstn 32 b in
        if negb (len blk =? 32) then Val None
        else match sha_blocks fuel' nonce (i + 1) (skipn 32 b) with
             | Panic => Panic
             | Val None => Val None
             | Val (Some r) => Val (Some (xor_bytes blk (KS nonce i) ++ r))
             end
      end
    end.

  (* Sha256Xor.Decrypt; dec = result of base64 decoding (None = error) *)
  Definition sha_decrypt (pw_empty : bool) (dec : option bytes) : res dres :=
    if pw_empty then Val (DErr "ErrMissingPassword") else
    match dec with
    | None => Val (DErr "Base64")
    | Some enc =>
      match buf_read 32 enc with
      | None => Val (DErr "EOF")
      | Some (cs, rest) =>
        if negb (len cs =? 32) then Val (DErr "ErrInvalidChecksumLength") else
        if negb (bytes_eqb (H rest) cs) then Val (DErr "ErrInvalidChecksum") else
        match buf_read 32 rest with
        | None => Val (DErr "EOF")
        | Some (nonce, rest2) =>
          if negb (len nonce =? 32) then Val (DErr "ErrInvalidNonceLength") else
          match sha_blocks (S (List.length rest2)) nonce 0 rest2 with
          | Panic => Panic
          | Val None => Val (DErr "ErrInvalidBlockSize")
          | Val (Some dd) =>
            match buf_read 32 dd with
            | None => Val (DErr "read data hash failed")
            | Some (dh, body) =>
              if negb (len dh =? 32) then Val (DErr "ErrReadDataHashFailed") else
              if negb (bytes_eqb dh (H body)) then Val (DErr "ErrInvalidPassword") else
              match buf_read 4 body with
              | None => Val (DErr "EOF")
              | Some (lb, body2) =>
                if negb (len lb =? 4) then Val (DErr "ErrReadDataLengthFailed") else
                let l := le_uint lb in
                if len body2 >? 4294967295 then Val (DErr "ErrDataTooLarge") else
                if l >? len body2 then Val (DErr "ErrInvalidDataLength") else
                (* rawData := make([]byte, l); buf.Read(rawData): l <= buf.Len() so
                   no EOF (Read with len(p) = 0 returns 0, nil) and n = l *)
                Val (DOk (firstn (Z.to_nat l) body2))
              end
            end
          end
        end
      end
    end.

  (* Sha256Xor.Encrypt with the nonce made explicit; result before base64 *)
  Definition pad32 (b : bytes) : bytes :=
    let m := (List.length b mod 32)%nat in
    if (m =? 0)%nat then b else b ++ repeat 0 (32 - m).
  Fixpoint xor_blocks (fuel : nat) (nonce : bytes) (i : Z) (b : bytes) : bytes :=
    match fuel with
    | O => []
    | S fuel' =>
      match b with
      | [] => []
      | _ => xor_bytes (firstn 32 b) (KS nonce i) ++ xor_blocks fuel' nonce (i + 1) (skipn 32 b)
      end
    end.
  Definition sha_encrypt (nonce data : bytes) : bytes :=
    let ldata := pad32 (le32 (len data) ++ data) in
    let body := H ldata ++ ldata in
    let nd := nonce ++ xor_blocks (S (List.length body)) nonce 0 body in
    H nd ++ nd.
End Sha256Xor.

(* ------------------------------------------------- scrypt-chacha20poly1305 *)
Record smeta := { m_n : Z; m_r : Z; m_p : Z; m_keylen : Z; m_salt : bytes; m_nonce : bytes }.

Definition maxInt : Z := 9223372036854775807.

(* parameter checks at the head of scrypt.Key (src/cipher/scrypt/scrypt.go), Go
   `int` = int64, uint64(x) = wrap 64 x, `/` truncates; a zero divisor panics.
   Val None = parameters accepted. *)
Definition scrypt_check (N r p : Z) : res (option string) :=
  if (N <=? 1) || negb (Z.land N (N - 1) =? 0) then Val (Some "scrypt: N must be > 1 and a power of 2"%string)
  else if 1073741824 <=? wrap 64 (wrap 64 r * wrap 64 p) then Val (Some "scrypt: parameters are too large"%string)
  else if p =? 0 then Panic
  else if r >? Z.quot (Z.quot maxInt 128) p then Val (Some "scrypt: parameters are too large"%string)
  else if r >? Z.quot maxInt 256 then Val (Some "scrypt: parameters are too large"%string)
  else if r =? 0 then Panic
  else if N >? Z.quot (Z.quot maxInt 128) r then Val (Some "scrypt: parameters are too large"%string)
  else Val None.

(* bytes scrypt.Key allocates for accepted parameters: xy, v, and the pbkdf2 block *)
Definition scrypt_mem (N r p : Z) : Z := 128 * r * (N + p + 2).

Section Scrypt.
  Variable J : bytes -> option smeta.   (* json.Unmarshal into the meta struct; None = error *)
  (* scrypt.Key + chacha20poly1305 Open for the call's password: metadata, ciphertext,
     additional data -> plaintext; None = message authentication failed *)
  Variable aead_open : smeta -> bytes -> bytes -> option bytes.
  (* bytes the process may still allocate: a larger request ends the process
     (makeslice panic above the runtime's maximum, fatal out-of-memory below it) *)
  Variable mem_limit : Z.

  (* ScryptChacha20poly1305.Decrypt as it is in the tree now (after the F4 fix) *)
  Definition scrypt_decrypt (pw_empty : bool) (dec : option bytes) : res dres :=
    if pw_empty then Val (DErr "missing password") else
    match dec with
    | None => Val (DErr "Base64")
    | Some enc =>
      if len enc <? 2 then Val (DErr "invalid data length") else
      let length := le_uint (firstn 2 enc) in
      if 2 + length >? len enc then Val (DErr "invalid metadata length") else
      match J (firstn (Z.to_nat length) (skipn 2 enc)) with
      | None => Val (DErr "Json")
      | Some m =>
        if negb (len (m_nonce m) =? 12) then Val (DErr "invalid nonce length") else
        if (m_r m <=? 0) || (m_p m <=? 0) || negb (m_keylen m =? 32)
        then Val (DErr "invalid scrypt parameters") else
        match scrypt_check (m_n m) (m_r m) (m_p m) with
        | Panic => Panic
        | Val (Some e) => Val (DErr e)
        | Val None =>
          if scrypt_mem (m_n m) (m_r m) (m_p m) >? mem_limit then Panic else
          match aead_open m (skipn (Z.to_nat (2 + length)) enc) (firstn (Z.to_nat (2 + length)) enc) with
          | None => Val (DErr "chacha20poly1305: message authentication failed")
          | Some p => Val (DOk p)
          end
        end
      end
    end.

  (* the same function before the F4 fix (commit 1b56d06cd and earlier), kept to
     state what was wrong: cap = capacity of the decode buffer
     (base64 DecodedLen of the input length); bytes between len and cap are zero *)
  Definition scrypt_decrypt_v0 (pw_empty : bool) (dec : option bytes) (cap : Z) : res dres :=
    if pw_empty then Val (DErr "missing password") else
    match dec with
    | None => Val (DErr "Base64")
    | Some enc =>
      if cap <? 2 then Panic else                                   (* encData[:2] beyond capacity *)
      let length := le_uint (firstn 2 (enc ++ [0; 0])) in
      let hi := wrap 16 (2 + length) in                            (* uint16 addition wraps *)
      if hi >? len enc then Val (DErr "invalid metadata length") else
      if hi <? 2 then Panic else                                    (* encData[2:hi] with hi < 2 *)
      match J (firstn (Z.to_nat (hi - 2)) (skipn 2 enc)) with
      | None => Val (DErr "Json")
      | Some m =>
        match scrypt_check (m_n m) (m_r m) (m_p m) with
        | Panic => Panic
        | Val (Some e) => Val (DErr e)
        | Val None =>
          if scrypt_mem (m_n m) (m_r m) (m_p m) >? mem_limit then Panic else
          if m_keylen m <? 0 then Panic else                        (* pbkdf2.Key: makeslice / dk[:keyLen] *)
          if m_keylen m >? mem_limit then Panic else
          if negb (m_keylen m =? 32) then Val (DErr "chacha20poly1305: bad key length") else
          if negb (len (m_nonce m) =? 12) then Panic else           (* aead.Open: bad nonce length *)
          match aead_open m (skipn (Z.to_nat hi) enc) (firstn (Z.to_nat hi) enc) with
          | None => Val (DErr "chacha20poly1305: message authentication failed")
          | Some p => Val (DOk p)
          end
        end
      end
    end.
End Scrypt.

(* --------------------------------------------------------- wallet lock / unlock *)
Definition secrets := list (string * string).   (* wallet.Secrets; most recent binding first *)
Fixpoint sget (k : string) (ss : secrets) : option string :=
  match ss with
  | [] => None
  | (k', v) :: r => if String.eqb k k' then Some v else sget k r
  end.
Definition sset (k v : string) (ss : secrets) : secrets := (k, v) :: ss.

Inductive wkind := KDet | KBip44 | KColl.
Definition wkind_eqb (a b : wkind) : bool :=
  match a, b with KDet, KDet | KBip44, KBip44 | KColl, KColl => true | _, _ => false end.

(* e_sec = hex of the stored secret key, "" = null key; e_osec = the secret key the
   bip44 account key derives for this entry (secretFromPrivateKey), used by syncSecrets *)
Record entry := { e_addr : string; e_sec : string; e_osec : string }.
Definition set_sec (e : entry) (s : string) : entry :=
  {| e_addr := e_addr e; e_sec := s; e_osec := e_osec e |}.

Section WalletLock.
  Variable C : Type.                                (* ciphertexts *)
  Variable enc : string -> Z -> secrets -> C.        (* password, nonce, data *)
  Variable dec : string -> C -> option secrets.

  Record wallet := {
    w_kind : wkind;
    w_temp : bool;
    w_seed : string;
    w_lastseed : string;
    w_pass : string;                          (* bip39 seed passphrase *)
    w_xprv : list (string * string);          (* per bip44 account: secrets key name, serialised account private key ("" = nil) *)
    w_chains : list (list entry);             (* det / collection: one chain; bip44: external, change per account *)
    w_enc : bool;
    w_ct : option C                           (* meta "secrets" *)
  }.

  Definition all_entries (w : wallet) : list entry := List.concat (w_chains w).

  Definition pack_entries (es : list entry) (ss : secrets) : secrets :=
    fold_left (fun ss e => sset (e_addr e) (e_sec e) ss) es ss.
  Definition pack_xprv (xs : list (string * string)) (ss : secrets) : secrets :=
    fold_left (fun ss x => if String.eqb (snd x) "" then ss else sset (fst x) (snd x) ss) xs ss.

  Definition pack (w : wallet) : secrets :=
    match w_kind w with
    | KDet => pack_entries (all_entries w) (sset "lastSeed" (w_lastseed w) (sset "seed" (w_seed w) []))
    | KBip44 => pack_entries (all_entries w)
                  (pack_xprv (w_xprv w) (sset "seedPassphrase" (w_pass w) (sset "seed" (w_seed w) [])))
    | KColl => pack_entries (all_entries w) []
    end.

  Definition erase_chains (cs : list (list entry)) : list (list entry) :=
    map (map (fun e => set_sec e "")) cs.

  (* Wallet.Erase of each type *)
  Definition erase (w : wallet) : wallet :=
    match w_kind w with
    | KDet => {| w_kind := w_kind w; w_temp := w_temp w; w_seed := ""; w_lastseed := ""; w_pass := w_pass w;
                 w_xprv := w_xprv w; w_chains := erase_chains (w_chains w); w_enc := w_enc w; w_ct := w_ct w |}
    | KBip44 => {| w_kind := w_kind w; w_temp := w_temp w; w_seed := ""; w_lastseed := w_lastseed w; w_pass := "";
                   w_xprv := map (fun x => (fst x, ""%string)) (w_xprv w);
                   w_chains := erase_chains (w_chains w); w_enc := w_enc w; w_ct := w_ct w |}
    | KColl => {| w_kind := w_kind w; w_temp := w_temp w; w_seed := w_seed w; w_lastseed := w_lastseed w; w_pass := w_pass w;
                  w_xprv := w_xprv w; w_chains := erase_chains (w_chains w); w_enc := w_enc w; w_ct := w_ct w |}
    end.

  Definition set_encrypted (w : wallet) (c : C) : wallet :=
    {| w_kind := w_kind w; w_temp := w_temp w; w_seed := w_seed w; w_lastseed := w_lastseed w; w_pass := w_pass w;
       w_xprv := w_xprv w; w_chains := w_chains w; w_enc := true; w_ct := Some c |}.
  Definition set_decrypted (w : wallet) : wallet :=
    {| w_kind := w_kind w; w_temp := w_temp w; w_seed := w_seed w; w_lastseed := w_lastseed w; w_pass := w_pass w;
       w_xprv := w_xprv w; w_chains := w_chains w; w_enc := false; w_ct := None |}.

  (* Wallet.Lock: new wallet state, error *)
  Definition lock (pw : string) (nonce : Z) (w : wallet) : wallet * error :=
    if w_temp w then (w, Some "ErrEncryptTempWallet"%string)
    else if String.eqb pw "" then (w, Some "ErrMissingPassword"%string)
    else if w_enc w then (w, Some "ErrWalletEncrypted"%string)
    else (erase (set_encrypted w (enc pw nonce (pack w))), None).

  Fixpoint unpack_entries (ss : secrets) (es : list entry) : option (list entry) :=
    match es with
    | [] => Some []
    | e :: r =>
      match sget (e_addr e) ss with
      | None => None
      | Some v =>
        match unpack_entries ss r with
        | None => None
        | Some r' => Some (set_sec e v :: r')
        end
      end
    end.
  Fixpoint unpack_chains (ss : secrets) (cs : list (list entry)) : option (list (list entry)) :=
    match cs with
    | [] => Some []
    | c :: r =>
      match unpack_entries ss c with
      | None => None
      | Some c' =>
        match unpack_chains ss r with
        | None => None
        | Some r' => Some (c' :: r')
        end
      end
    end.
  Fixpoint unpack_xprv (ss : secrets) (xs : list (string * string)) : option (list (string * string)) :=
    match xs with
    | [] => Some []
    | x :: r =>
      match sget (fst x) ss with
      | None => None
      | Some v =>
        match unpack_xprv ss r with
        | None => None
        | Some r' => Some ((fst x, v) :: r')
        end
      end
    end.

  (* bip44 syncSecrets: every account key must be present; entries whose address
     has no secret (generated while locked) get the derived one *)
  Definition sync_entries (es : list entry) (ss : secrets) : secrets :=
    fold_left (fun ss e => match sget (e_addr e) ss with
                           | Some _ => ss
                           | None => sset (e_addr e) (e_osec e) ss
                           end) es ss.
  Definition missing_any (es : list entry) (ss : secrets) : bool :=
    existsb (fun e => match sget (e_addr e) ss with Some _ => false | None => true end) es.

  Inductive ures := UOk (w : wallet) | UErr (e : string).

  Definition unpack (w : wallet) (ss : secrets) : ures :=
    match w_kind w with
    | KDet =>
      match sget "seed" ss, sget "lastSeed" ss with
      | Some sd, Some ls =>
        match unpack_chains ss (w_chains w) with
        | Some cs => UOk {| w_kind := w_kind w; w_temp := w_temp w; w_seed := sd; w_lastseed := ls; w_pass := w_pass w;
                            w_xprv := w_xprv w; w_chains := cs; w_enc := false; w_ct := None |}
        | None => UErr "other"
        end
      | _, _ => UErr "other"
      end
    | KBip44 =>
      match sget "seed" ss with
      | Some sd =>
        let pp := match sget "seedPassphrase" ss with Some p => p | None => ""%string end in
        match unpack_xprv ss (w_xprv w) with
        | Some xs =>
          match unpack_chains ss (w_chains w) with
          | Some cs => UOk {| w_kind := w_kind w; w_temp := w_temp w; w_seed := sd; w_lastseed := w_lastseed w; w_pass := pp;
                              w_xprv := xs; w_chains := cs; w_enc := false; w_ct := None |}
          | None => UErr "other"
          end
        | None => UErr "other"
        end
      | None => UErr "other"
      end
    | KColl =>
      match unpack_chains ss (w_chains w) with
      | Some cs => UOk {| w_kind := w_kind w; w_temp := w_temp w; w_seed := w_seed w; w_lastseed := w_lastseed w; w_pass := w_pass w;
                          w_xprv := w_xprv w; w_chains := cs; w_enc := false; w_ct := None |}
      | None => UErr "other"
      end
    end.

  (* Wallet.Unlock: the (possibly re-encrypted) locked wallet, and the result *)
  Definition unlock (pw : string) (nonce : Z) (w : wallet) : wallet * ures :=
    if negb (w_enc w) then (w, UErr "ErrWalletNotEncrypted")
    else if String.eqb pw "" then (w, UErr "ErrMissingPassword")
    else match w_ct w with
    | None => (w, UErr "other")
    | Some c =>
      match dec pw c with
      | None => (w, UErr "ErrInvalidPassword")
      | Some ss =>
        match w_kind w with
        | KBip44 =>
          if negb (forallb (fun x => match sget (fst x) ss with Some _ => true | None => false end) (w_xprv w))
          then (w, UErr "other")
          else
            let ss' := sync_entries (all_entries w) ss in
            let w' := if missing_any (all_entries w) ss then set_encrypted w (enc pw nonce ss') else w in
            (w', unpack w ss')
        | _ => (w, unpack w ss)
        end
      end
    end.

  (* generating entries on chain c (bip44 works while locked: public derivation) *)
  Fixpoint app_chain (c : nat) (es : list entry) (cs : list (list entry)) : option (list (list entry)) :=
    match cs, c with
    | [], _ => None
    | ch :: r, O => Some ((ch ++ es) :: r)
    | ch :: r, S c' => match app_chain c' es r with Some r' => Some (ch :: r') | None => None end
    end.
  Definition gen (c : nat) (es : list entry) (w : wallet) : wallet * error :=
    match w_kind w with
    | KBip44 =>
      let es' := if w_enc w then map (fun e => set_sec e "") es else map (fun e => set_sec e (e_osec e)) es in
      match app_chain c es' (w_chains w) with
      | Some cs => ({| w_kind := w_kind w; w_temp := w_temp w; w_seed := w_seed w; w_lastseed := w_lastseed w; w_pass := w_pass w;
                       w_xprv := w_xprv w; w_chains := cs; w_enc := w_enc w; w_ct := w_ct w |}, None)
      | None => (w, Some "other"%string)
      end
    | _ => (w, Some "unsupported"%string)
    end.

  (* the serialised wallet: every field of the JSON file that can hold a secret,
     by JSON key, plus the addresses and the ciphertext *)
  Inductive fval := FStr (s : string) | FCipher (c : option C).
  Definition ser_entry (e : entry) : list (string * fval) :=
    [("address"%string, FStr (e_addr e)); ("secret"%string, FStr (e_sec e))].
  Definition serialize (w : wallet) : list (string * fval) :=
    [("seed"%string, FStr (w_seed w)); ("lastSeed"%string, FStr (w_lastseed w));
     ("seedPassphrase"%string, FStr (w_pass w)); ("secrets"%string, FCipher (w_ct w))]
    ++ map (fun x => ("private_key"%string, FStr (snd x))) (w_xprv w)
    ++ flat_map ser_entry (all_entries w).
  Definition secret_key (k : string) : bool :=
    String.eqb k "seed" || String.eqb k "lastSeed" || String.eqb k "seedPassphrase"
    || String.eqb k "private_key" || String.eqb k "secret".
  Definition is_cipher_field (f : string * fval) : bool := String.eqb (fst f) "secrets".

  (* what of a wallet is public: everything but the secret values *)
  Definition public_part (w : wallet) :=
    (w_kind w, w_temp w, map fst (w_xprv w), map (map (fun e => (e_addr e, e_osec e))) (w_chains w)).

  (* the serialised form of a locked wallet as a function of the public part and
     the ciphertext alone (theorem lock_serialization_public) *)
  Definition locked_view (pp : wkind * bool * list string * list (list (string * string))) (c : C)
    : list (string * fval) :=
    let '(_, _, xn, chs) := pp in
    [("seed"%string, FStr ""); ("lastSeed"%string, FStr ""); ("seedPassphrase"%string, FStr "");
     ("secrets"%string, FCipher (Some c))]
    ++ map (fun _ : string => ("private_key"%string, FStr "")) xn
    ++ flat_map (fun a : string * string => [("address"%string, FStr (fst a)); ("secret"%string, FStr "")]) (List.concat chs).

  (* fields a wallet type does not have are empty (holds for every wallet the
     constructors and loaders build) *)
  Definition wf_kind (w : wallet) : Prop :=
    match w_kind w with
    | KDet => w_pass w = ""%string /\ w_xprv w = []
    | KBip44 => w_lastseed w = ""%string
    | KColl => w_seed w = ""%string /\ w_lastseed w = ""%string /\ w_pass w = ""%string /\ w_xprv w = []
    end.
  Definition wf_kindb (w : wallet) : bool :=
    match w_kind w with
    | KDet => String.eqb (w_pass w) "" && match w_xprv w with [] => true | _ => false end
    | KBip44 => String.eqb (w_lastseed w) ""
    | KColl => String.eqb (w_seed w) "" && String.eqb (w_lastseed w) "" && String.eqb (w_pass w) ""
               && match w_xprv w with [] => true | _ => false end
    end.

  (* the names under which secrets are stored do not clash: reserved names and
     account-key names are not addresses, account-key names are distinct and not
     reserved, equal addresses carry equal secrets; an unlocked bip44 wallet holds
     every account key *)
  Definition reserved (k : string) : bool :=
    String.eqb k "seed" || String.eqb k "lastSeed" || String.eqb k "seedPassphrase".
  Definition names_ok (w : wallet) : Prop :=
    (forall e, In e (all_entries w) -> reserved (e_addr e) = false /\ ~ In (e_addr e) (map fst (w_xprv w)))
    /\ (forall e1 e2, In e1 (all_entries w) -> In e2 (all_entries w) -> e_addr e1 = e_addr e2 -> e_sec e1 = e_sec e2)
    /\ NoDup (map fst (w_xprv w))
    /\ (forall x, In x (w_xprv w) -> reserved (fst x) = false /\ snd x <> ""%string).

  (* operations of the correspondence runs *)
  Inductive wop :=
  | OLock (pw : string) (nonce : Z)
  | OUnlock (pw : string) (nonce : Z) (keep : bool)   (* keep = stay with the locked wallet *)
  | OGen (c : nat) (es : list entry)
  | OReload.                                          (* Serialize, then Load: the same wallet *)

  Definition wstep (w : wallet) (o : wop) : wallet * error :=
    match o with
    | OLock pw n => lock pw n w
    | OUnlock pw n keep =>
      match unlock pw n w with
      | (w', UOk u) => (if keep then w' else u, None)
      | (w', UErr e) => (w', Some e)
      end
    | OGen c es => gen c es w
    | OReload => (w, None)
    end.

  Fixpoint wrun (w : wallet) (ops : list wop) : list (wallet * error) :=
    match ops with
    | [] => []
    | o :: r => let '(w', e) := wstep w o in (w', e) :: wrun w' r
    end.
End WalletLock.

Arguments UOk {C} w.
Arguments UErr {C} e.
Arguments FStr {C} s.
Arguments FCipher {C} c.

(* ideal cipher used to run the wallet model in the correspondence: the
   ciphertext is the pair (password, data) *)
Definition ideal_C : Type := string * secrets.
Definition ideal_enc (pw : string) (_ : Z) (d : secrets) : ideal_C := (pw, d).
Definition ideal_dec (pw : string) (c : ideal_C) : option secrets :=
  if String.eqb pw (fst c) then Some (snd c) else None.
