(* Model/Sync.v — C33: a follower node receiving GiveBlocks messages.
   Mirrors daemon.GiveBlocksMessage.process (src/daemon/messages.go) and
   visor.ExecuteSignedBlock as seen from the sync layer. Definitions only.

   The publisher's chain is blocks 1..n (block 0, genesis, is configured).
   A delivered block is described by its sequence number and what it is:
     Genuine      the publisher's block with that seq and the publisher's signature
     BadSig       any block whose signature does not verify under the publisher key
                  (signed by another key, corrupted signature, header field changed)
     BadBody      the genuine signed header with a body that does not hash to BodyHash
                  (the body of another block: its transactions are not valid here)
     AltBody      the genuine signed header with a DIFFERENT body whose transactions are
                  all valid against the unspent set at that height (the signature covers
                  the header only: the body-hash comparison is what rejects it)
     OtherKeySig  the genuine block (same header, same body) with a signature made by
                  another key over that header
     PrevVariant  the genuine block with another PrevHash in the header, signed by the
                  publisher key over that header (defect F1: ExecuteBlock overwrites
                  PrevHash before checking it; whether the tree accepts it is the
                  parameter f1, probed on the implementation at every run) *)
From Sky Require Import Base.Uint.
Open Scope Z_scope.

Inductive bkind := Genuine | BadSig | BadBody | PrevVariant | AltBody | OtherKeySig.
Record dblock := mkd { d_seq : Z; d_kind : bkind }.

Definition sig_ok (b : dblock) : bool :=
  match d_kind b with BadSig | OtherKeySig => false | _ => true end.
Definition content_ok (f1 : bool) (b : dblock) : bool :=
  match d_kind b with Genuine => true | PrevVariant => f1 | _ => false end.
Definition valid (f1 : bool) (b : dblock) : bool := sig_ok b && content_ok f1 b.

(* follower state: blocks held above genesis, oldest first *)
Definition head_of (held : list dblock) : Z := Z.of_nat (List.length held).

(* Visor.ExecuteSignedBlock: signature, then header (BkSeq = head+1, body hash ...) *)
Definition exec_ok (f1 : bool) (held : list dblock) (b : dblock) : bool :=
  valid f1 b && (d_seq b =? head_of held + 1).

(* the loop of GiveBlocksMessage.process: maxSeq is the head as read at entry *)
Fixpoint exec_loop (f1 : bool) (maxseq : Z) (held : list dblock) (processed : Z)
         (bs : list dblock) : list dblock * Z :=
  match bs with
  | [] => (held, processed)
  | b :: r =>
      if d_seq b <=? maxseq then exec_loop f1 maxseq held processed r
      else if exec_ok f1 held b then exec_loop f1 maxseq (held ++ [b]) (processed + 1) r
      else (held, processed)       (* break at the first failure *)
  end.

Inductive reply := Announce (h : Z) | Request (last n : Z).

(* What the node ACCEPTS from a message depends on nothing but the message and the
   blocks it holds: no cut at its own GetBlocksRequestCount / MaxGetBlocksResponseCount
   (reqn only appears inside the Request it sends), whatever the length of the message
   and however many known blocks precede the new ones. *)
Definition deliver (f1 : bool) (reqn : Z) (held : list dblock) (msg : list dblock)
  : list dblock * list reply :=
  let '(held', p) := exec_loop f1 (head_of held) held 0 msg in
  (held', if p =? 0 then [] else [Announce (head_of held'); Request (head_of held') reqn]).

(* a schedule is a list of messages; the trace records head and replies after each *)
Fixpoint run (f1 : bool) (reqn : Z) (held : list dblock) (sched : list (list dblock))
  : list dblock * list (Z * list reply) :=
  match sched with
  | [] => (held, [])
  | m :: r =>
      let '(held', rep) := deliver f1 reqn held m in
      let '(heldf, tr) := run f1 reqn held' r in
      (heldf, (head_of held', rep) :: tr)
  end.
Definition final (f1 : bool) (reqn : Z) (held : list dblock) (sched : list (list dblock)) : list dblock :=
  fst (run f1 reqn held sched).

(* ---- declarative side *)

(* seqs 1..n *)
Fixpoint seqs_from (k : Z) (n : nat) : list Z :=
  match n with O => [] | S n' => k :: seqs_from (k + 1) n' end.

(* block k was given to the node in valid form somewhere in the schedule *)
Definition delivered_valid (f1 : bool) (sched : list (list dblock)) (k : Z) : Prop :=
  exists m b, In m sched /\ In b m /\ d_seq b = k /\ valid f1 b = true.
Definition delivered_valid_b (f1 : bool) (sched : list (list dblock)) (k : Z) : bool :=
  existsb (fun m => existsb (fun b => (d_seq b =? k) && valid f1 b) m) sched.

(* the longest gap-free prefix 1..g of the valid blocks given *)
Definition gapfree (f1 : bool) (sched : list (list dblock)) (g : Z) : Prop :=
  0 <= g /\ (forall k, 1 <= k <= g -> delivered_valid f1 sched k) /\ ~ delivered_valid f1 sched (g + 1).
Fixpoint extend (S : Z -> bool) (h : Z) (fuel : nat) : Z :=
  match fuel with O => h | Datatypes.S f => if S (h + 1) then extend S (h + 1) f else h end.
Definition gapfree_fn (f1 : bool) (sched : list (list dblock)) : Z :=
  extend (delivered_valid_b f1 sched) 0 (List.length (List.concat sched)).

(* what one message does, stated without the loop: the blocks above the head read
   at entry are taken in message order for as long as each is the valid next block *)
Fixpoint take_chain (f1 : bool) (held : list dblock) (bs : list dblock) : list dblock :=
  match bs with
  | [] => held
  | b :: r => if exec_ok f1 held b then take_chain f1 (held ++ [b]) r else held
  end.
Definition above (h : Z) (bs : list dblock) : list dblock := filter (fun b => negb (d_seq b <=? h)) bs.

(* a clean re-delivery: genuine blocks 1..g in order, in one message / one per message *)
Definition redeliver_one (g : nat) : list (list dblock) := [map (fun k => mkd k Genuine) (seqs_from 1 g)].
Definition redeliver_each (g : nat) : list (list dblock) := map (fun k => [mkd k Genuine]) (seqs_from 1 g).

(* the replies after each message: nothing when the head did not move, otherwise an
   announcement of the new head and a request for the blocks above it *)
Fixpoint trace_ok (reqn prev : Z) (tr : list (Z * list reply)) : Prop :=
  match tr with
  | [] => True
  | (h, rep) :: r =>
      prev <= h /\
      rep = (if h =? prev then [] else [Announce h; Request h reqn]) /\
      trace_ok reqn h r
  end.

(* ---- the request / response cycle with an honest peer holding the chain 1..n
   GetBlocksMessage.process on the peer: the blocks after `last`, at most
   min(requested, MaxGetBlocksResponseCount) and no more than it has; no reply when none *)
Definition peer_reply (n cap last requested : Z) : list dblock :=
  let cnt := Z.min (Z.min requested cap) (Z.max 0 (n - last)) in
  map (fun k => mkd k Genuine) (seqs_from (last + 1) (Z.to_nat cnt)).

(* the follower has sent Request (head) ; each round: the peer replies, the follower
   processes the reply and, on progress, requests again. Returns the final state
   and the head after each round. *)
Fixpoint sync_loop (f1 : bool) (reqn n cap : Z) (fuel : nat) (held : list dblock)
  : list dblock * list Z :=
  match fuel with
  | O => (held, [])
  | Datatypes.S f =>
      match peer_reply n cap (head_of held) reqn with
      | [] => (held, [])
      | m =>
          let '(held', rep) := deliver f1 reqn held m in
          match rep with
          | [] => (held', [head_of held'])
          | _ => let '(hf, hs) := sync_loop f1 reqn n cap f held' in (hf, head_of held' :: hs)
          end
      end
  end.

(* boolean helpers for the cases files *)
Definition eqb_kind (a b : bkind) : bool :=
  match a, b with
  | Genuine, Genuine | BadSig, BadSig | BadBody, BadBody | PrevVariant, PrevVariant | AltBody, AltBody | OtherKeySig, OtherKeySig => true
  | _, _ => false
  end.
Definition eqb_reply (a b : reply) : bool :=
  match a, b with
  | Announce x, Announce y => x =? y
  | Request x n, Request y m => (x =? y) && (n =? m)
  | _, _ => false
  end.

(* a case of the cases files: f1, request count, schedule, observed trace, ids of the
   blocks held, stored signature verifies?, the re-delivery, its trace, ids held after *)
Definition sync_case := (bool * Z * list (list dblock) * list (Z * list reply) * list Z * list bool *
                         list (list dblock) * list (Z * list reply) * list Z)%type.
