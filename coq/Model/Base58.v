(* Model/Base58.v — C15: base58 and skycoin address text at specification level
   (big-integer definition), executable. Definitions only.
   Byte strings and text are `list Z` of byte values 0..255 (Go `[]byte` and the
   bytes of a Go `string`; base58.Decode works on runes, but a string decodes
   only if every rune is ASCII, where runes and bytes coincide — a byte >= 0x80
   is part of a rune > 127 or of an invalid sequence (U+FFFD), both rejected). *)
From Sky Require Import Base.Uint.
From Coq Require Import Ascii.
Open Scope Z_scope.

Definition bytes_of_string (s : string) : list Z :=
  map (fun a => Z.of_N (N_of_ascii a)) (list_ascii_of_string s).

(* the bitcoin alphabet; compared on every run with the alphabet the Go code uses *)
Definition alphabet : list Z :=
  bytes_of_string "123456789ABCDEFGHJKLMNPQRSTUVWXYZabcdefghijkmnopqrstuvwxyz".

Inductive outcome (A : Type) : Type := Ok (a : A) | Err (e : string).
Arguments Ok {A} a.
Arguments Err {A} e.

(* ---- positional numerals, most significant digit first *)
Definition horner (base : Z) (ds : list Z) : Z :=
  fold_left (fun acc d => acc * base + d) ds 0.

(* least significant first; fuel = number of bits of v is always enough *)
Fixpoint digits_rev (base : Z) (fuel : nat) (v : Z) : list Z :=
  match fuel with
  | O => []
  | S f => if v <=? 0 then [] else
           let '(q, r) := Z.div_eucl v base in r :: digits_rev base f q
  end.
(* the shortest digit string of v (empty for 0) *)
Definition digits (base v : Z) : list Z :=
  rev (digits_rev base (S (Z.to_nat (Z.log2 v))) v).

Fixpoint lead_zeros (l : list Z) : nat :=
  match l with
  | 0 :: r => S (lead_zeros r)
  | _ => O
  end.

(* re-write a digit string from base b1 to base b2: every leading zero digit is
   kept as one zero digit, the rest is converted as an integer *)
Definition recode (b1 b2 : Z) (l : list Z) : list Z :=
  repeat 0 (lead_zeros l) ++ digits b2 (horner b1 l).

(* ---- alphabet *)
Fixpoint index_of (c : Z) (l : list Z) (i : Z) : option Z :=
  match l with
  | [] => None
  | x :: r => if x =? c then Some i else index_of c r (i + 1)
  end.
Definition digit_of_char (c : Z) : option Z := index_of c alphabet 0.
(* d is always a base-58 digit here; 0 (NUL, not in the alphabet) otherwise, so a
   digit out of range could only make the round-trip theorems fail, not hold *)
Definition char_of_digit (d : Z) : Z :=
  if (0 <=? d) && (d <? 58) then nth (Z.to_nat d) alphabet 0 else 0.

Fixpoint digits_of_text (s : list Z) : option (list Z) :=
  match s with
  | [] => Some []
  | c :: r =>
      match digit_of_char c, digits_of_text r with
      | Some d, Some ds => Some (d :: ds)
      | _, _ => None
      end
  end.

(* ---- base58: one '1' per leading zero byte, then the integer in base 58 *)
Definition b58enc (bs : list Z) : list Z := map char_of_digit (recode 256 58 bs).

Definition b58dec (s : list Z) : outcome (list Z) :=
  match s with
  | [] => Err "ErrInvalidString"
  | _ =>
      match digits_of_text s with
      | None => Err "ErrInvalidChar"
      | Some ds => Ok (recode 58 256 ds)
      end
  end.

Definition is_byte (b : Z) : Prop := 0 <= b < 256.
Definition in_alphabet (c : Z) : Prop := In c alphabet.

(* ---- addresses: 20 key bytes, version, first 4 bytes of sha256(key ‖ version).
   sha256 is a parameter (an oracle: the harness supplies the digests as data) *)
Record address := { a_version : Z; a_key : list Z }.

Section Addr.
  Variable sha : list Z -> list Z.

  Definition addr_checksum (a : address) : list Z := firstn 4 (sha (a_key a ++ [a_version a])).
  Definition addr_bytes (a : address) : list Z := a_key a ++ [a_version a] ++ addr_checksum a.
  Definition addr_encode (a : address) : list Z := b58enc (addr_bytes a).

  Definition addr_from_bytes (b : list Z) : outcome address :=
    if negb (Nat.eqb (List.length b) 25) then Err "ErrAddressInvalidLength"
    else
      match skipn 20 b with
      | v :: chk =>
          let a := {| a_version := v; a_key := firstn 20 b |} in
          if negb (eqb_list Z.eqb chk (addr_checksum a)) then Err "ErrAddressInvalidChecksum"
          else if negb (v =? 0) then Err "ErrAddressInvalidVersion"
          else Ok a
      | [] => Err "ErrAddressInvalidLength"
      end.

  Definition addr_decode (s : list Z) : outcome address :=
    match b58dec s with
    | Err e => Err e
    | Ok b => addr_from_bytes b
    end.
End Addr.

Definition wf_address (a : address) : Prop :=
  List.length (a_key a) = 20%nat /\ Forall is_byte (a_key a) /\ is_byte (a_version a).

(* ---- decidable helpers for the cases files *)
Definition eqb_zl := eqb_list Z.eqb.
Definition eqb_outcome_bytes (a b : outcome (list Z)) : bool :=
  match a, b with
  | Ok x, Ok y => eqb_zl x y
  | Err e, Err f => String.eqb e f
  | _, _ => false
  end.
Definition eqb_address (a b : address) : bool :=
  (a_version a =? a_version b) && eqb_zl (a_key a) (a_key b).
Definition eqb_outcome_addr (a b : outcome address) : bool :=
  match a, b with
  | Ok x, Ok y => eqb_address x y
  | Err e, Err f => String.eqb e f
  | _, _ => false
  end.

(* compact form of an observed Decode result, one integer per case:
   -1 ErrInvalidString, -2 ErrInvalidChar, -3 any other error, -4 panic,
   otherwise 256^len + value (big endian), which determines the byte string *)
Definition pack_outcome (o : outcome (list Z)) : Z :=
  match o with
  | Ok bs => 256 ^ Z.of_nat (List.length bs) + horner 256 bs
  | Err e => if String.eqb e "ErrInvalidString" then -1
             else if String.eqb e "ErrInvalidChar" then -2 else -3
  end.

(* all strings of exactly k symbols / of at most k symbols over `syms` (a symbol
   is a byte sequence), in lexicographic order of symbol indices *)
Fixpoint words (syms : list (list Z)) (k : nat) : list (list Z) :=
  match k with
  | O => [[]]
  | S k' => flat_map (fun s => map (fun w => s ++ w) (words syms k')) syms
  end.
Fixpoint words_upto (syms : list (list Z)) (k : nat) : list (list Z) :=
  match k with
  | O => [[]]
  | S k' => words_upto syms k' ++ words syms k
  end.

(* ---- the property, decided on observed results *)
Definition not_in_alphabet (c : Z) : bool :=
  match digit_of_char c with None => true | Some _ => false end.

(* Encode(bs) = obs, and Decode(obs) observed (packed) = rt: obs is text over the
   alphabet whose base-58 value is the big-endian value of bs, with exactly one
   leading '1' per leading zero byte (which makes it the only such text), and it
   decodes back to bs (except that Encode([]) = "" does not decode) *)
Definition enc_prop (c : list Z * list Z * Z) : bool :=
  let '(bs, obs, rt) := c in
  match digits_of_text obs with
  | Some ds =>
      (horner 58 ds =? horner 256 bs) && Nat.eqb (lead_zeros ds) (lead_zeros bs) &&
      (rt =? match bs with [] => -1 | _ => pack_outcome (Ok bs) end)
  | None => false
  end.

Definition encx_prop (c : list Z * list Z) : bool :=
  let '(bs, obs) := c in
  match digits_of_text obs with
  | Some ds => (horner 58 ds =? horner 256 bs) && Nat.eqb (lead_zeros ds) (lead_zeros bs)
  | None => false
  end.

(* Decode(text) observed (packed) = obs: fails exactly on "" and on text with a
   byte outside the alphabet; otherwise one zero byte per leading '1' followed
   by the shortest big-endian form of the base-58 value *)
Definition decx_prop (c : list Z * Z) : bool :=
  let '(text, obs) := c in
  match text with
  | [] => obs =? -1
  | _ =>
      match digits_of_text text with
      | None => (obs =? -2) && existsb not_in_alphabet text
      | Some ds =>
          let v := horner 58 ds in
          negb (existsb not_in_alphabet text) &&
          (obs =? 256 ^ Z.of_nat (lead_zeros ds + List.length (digits 256 v)) + v)
      end
  end.
(* ... and Encode of the decoded bytes = reenc gives the text back (canonical) *)
Definition dec_prop (c : list Z * Z * list Z) : bool :=
  let '(text, obs, reenc) := c in
  decx_prop (text, obs) && ((obs <? 0) || eqb_zl reenc text).

(* symbol sets of the exhaustive sweeps *)
Fixpoint zupto (lo : Z) (k : nat) : list Z :=
  match k with O => [] | S k' => lo :: zupto (lo + 1) k' end.
Definition byte_syms : list (list Z) := map (fun b => [b]) (zupto 0 256).
Definition dec_syms : list (list Z) :=
  map (fun c => [c]) alphabet ++ [[48]; [79]; [73]; [108]; [32]; [128]; [195; 169]].

(* DecodeBase58Address(text) observed = obs; restr = String() of the decoded
   address; digest = sha256 of the first 21 decoded bytes (supplied as data) *)
Definition addr_valid_text (digest : list Z) (text : list Z) : bool :=
  match b58dec text with
  | Ok b =>
      Nat.eqb (List.length b) 25 &&
      match skipn 20 b with
      | v :: _ =>
          (v =? 0) && eqb_zl (addr_encode (fun _ => digest) {| a_version := v; a_key := firstn 20 b |}) text
      | [] => false
      end
  | Err _ => false
  end.
Definition addr_prop (c : list Z * list Z * outcome address * list Z) : bool :=
  let '(text, digest, obs, restr) := c in
  match obs with
  | Ok a => (a_version a =? 0) && Nat.eqb (List.length (a_key a)) 20 && eqb_zl restr text &&
            eqb_zl (addr_encode (fun _ => digest) a) text
  | Err _ => negb (addr_valid_text digest text)
  end.

(* AddressFromBytes(b) observed = obs: accepted iff b is 25 bytes, version 0,
   last four bytes = first four digest bytes, and then the address is (0, first 20 bytes) *)
Definition addr_valid_bytes (digest b : list Z) : bool :=
  Nat.eqb (List.length b) 25 &&
  match skipn 20 b with
  | v :: chk => (v =? 0) && eqb_zl chk (firstn 4 digest)
  | [] => false
  end.
Definition addrb_prop (c : list Z * list Z * outcome address) : bool :=
  let '(b, digest, obs) := c in
  match obs with
  | Ok a => addr_valid_bytes digest b && (a_version a =? 0) && eqb_zl (a_key a) (firstn 20 b) &&
            eqb_zl (addr_bytes (fun _ => digest) a) b
  | Err _ => negb (addr_valid_bytes digest b)
  end.

(* ---- bitcoin addresses (cipher.BitcoinAddress): version ‖ key ‖ first 4 bytes
   of sha256(sha256(version ‖ key)); `sha2` stands for the double hash *)
Section Btc.
  Variable sha2 : list Z -> list Z.
  Definition btc_checksum (a : address) : list Z := firstn 4 (sha2 (a_version a :: a_key a)).
  Definition btc_bytes (a : address) : list Z := a_version a :: a_key a ++ btc_checksum a.
  Definition btc_encode (a : address) : list Z := b58enc (btc_bytes a).
  Definition btc_from_bytes (b : list Z) : outcome address :=
    if negb (Nat.eqb (List.length b) 25) then Err "ErrAddressInvalidLength"
    else
      match b with
      | v :: r =>
          let a := {| a_version := v; a_key := firstn 20 r |} in
          if negb (eqb_zl (skipn 20 r) (btc_checksum a)) then Err "ErrAddressInvalidChecksum"
          else if negb (v =? 0) then Err "ErrAddressInvalidVersion"
          else Ok a
      | [] => Err "ErrAddressInvalidLength"
      end.
  Definition btc_decode (s : list Z) : outcome address :=
    match b58dec s with Err e => Err e | Ok b => btc_from_bytes b end.
End Btc.

Definition btc_valid_bytes (digest b : list Z) : bool :=
  Nat.eqb (List.length b) 25 &&
  match b with
  | v :: r => (v =? 0) && eqb_zl (skipn 20 r) (firstn 4 digest)
  | [] => false
  end.
Definition btcb_prop (c : list Z * list Z * outcome address) : bool :=
  let '(b, digest, obs) := c in
  match obs with
  | Ok a => btc_valid_bytes digest b && (a_version a =? 0) &&
            eqb_zl (btc_bytes (fun _ => digest) a) b
  | Err _ => negb (btc_valid_bytes digest b)
  end.
Definition btc_prop (c : list Z * list Z * outcome address * list Z) : bool :=
  let '(text, digest, obs, restr) := c in
  let valid := match b58dec text with
               | Ok b => btc_valid_bytes digest b && eqb_zl (b58enc b) text
               | Err _ => false
               end in
  match obs with
  | Ok a => valid && (a_version a =? 0) && Nat.eqb (List.length (a_key a)) 20 && eqb_zl restr text &&
            eqb_zl (btc_encode (fun _ => digest) a) text
  | Err _ => negb valid
  end.

(* ---- address texts at the HTTP API: (endpoint id, tokens (text, digest of the
   first 21 decoded bytes), observed verdict: 1 accepted / 0 rejected / 2 other).
   A single-address parameter is one token; a list parameter is split by the
   harness at commas and white space (as the API documents). The API accepts iff
   there is at least one token and every token is the canonical text of a
   version-0 address with a correct checksum. *)
Definition api_prop (c : Z * list (list Z * list Z) * Z) : bool :=
  let '(_, toks, verdict) := c in
  let ok := negb (Nat.eqb (List.length toks) 0) &&
            forallb (fun t : list Z * list Z => addr_valid_text (snd t) (fst t)) toks in
  verdict =? (if ok then 1 else 0).
Definition api_model (c : Z * list (list Z * list Z) * Z) : bool :=
  let '(_, toks, verdict) := c in
  let ok := negb (Nat.eqb (List.length toks) 0) &&
            forallb (fun t : list Z * list Z =>
                       match addr_decode (fun _ => snd t) (fst t) with Ok _ => true | Err _ => false end) toks in
  verdict =? (if ok then 1 else 0).
