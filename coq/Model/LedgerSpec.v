(* Model/LedgerSpec.v — the notions the theorems of C01/C02/C04 are stated
   with: ids created / spent by a chain, the premises (amounts are 64-bit
   values; the id table of the history is consistent), a linked chain.
   Definitions only. *)
From Sky Require Import Base.Uint Model.Ledger.
Open Scope Z_scope.

Definition out_ids (ts : list txn) : list Z := map o_id (flat_map t_outs ts).
(* ids of all outputs created / all inputs spent by the blocks of a chain
   (the genesis block, last in the list, included) *)
Definition created_ids (c : list block) : list Z := flat_map (fun b => out_ids (b_txns b)) c.
Definition spent_ids (c : list block) : list Z := flat_map (fun b => all_ins (b_txns b)) c.
Definition list_minus (a b : list Z) : list Z := filter (fun x => negb (memZ x b)) a.

Definition op_block (o : op) : block := match o with ExecBlock b => b end.
Definition ops_txns (ops : list op) : list txn := flat_map (fun o => b_txns (op_block o)) ops.

(* Go's type system: amounts are uint64 *)
Definition block_in_range (b : block) : Prop :=
  Forall (fun t => Forall (fun o => in_u 64 (o_coins o)) (t_outs t)) (b_txns b).
Definition ops_in_range (ops : list op) : Prop := Forall (fun o => block_in_range (op_block o)) ops.
(* the configured genesis block (coin.NewGenesisBlock): amounts in range,
   distinct output ids, no inputs *)
Definition genesis_wf (g : block) : Prop :=
  block_in_range g /\ NoDup (out_ids (b_txns g)) /\ all_ins (b_txns g) = [].

(* The id table of a history is consistent (SHA-256 collision freedom + the
   harness's injective id assignment): an output id determines the hash of its
   source transaction, a transaction hash determines the inputs, and the ids
   of the genesis outputs (null source hash) are not ids of later outputs. *)
Definition ids_consistent (g : block) (U : list txn) : Prop :=
  (forall t1 t2 o1 o2, In t1 U -> In t2 U -> In o1 (t_outs t1) -> In o2 (t_outs t2) ->
     o_id o1 = o_id o2 -> t_hash t1 = t_hash t2) /\
  (forall t1 t2, In t1 U -> In t2 U -> t_hash t1 = t_hash t2 -> t_ins t1 = t_ins t2) /\
  (forall t o, In t U -> In o (t_outs t) -> ~ In (o_id o) (out_ids (b_txns g))).

(* a chain (head first) whose every block extends its predecessor and is signed *)
Definition extends (prev b : block) : Prop :=
  b_sig_ok b = true /\
  h_seq (b_head b) = wrap 64 (h_seq (b_head prev) + 1) /\
  h_time (b_head prev) < h_time (b_head b) /\
  h_prev (b_head b) = b_hash prev /\
  b_body_actual b = h_body (b_head b).
Fixpoint linked (c : list block) : Prop :=
  match c with
  | b :: ((p :: _) as r) => extends p b /\ linked r
  | _ => True
  end.
