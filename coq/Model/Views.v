(* Model/Views.v — C07: derived indexes and query views of a visor node.
   Definitions only (proofs: Proofs/ViewsProofs.v, statements: Properties/C07.v).

   Part 1  the accepted chain as data, and every view defined FROM FIRST PRINCIPLES
           (filters / sums over the chain and the pool).
   Part 2  the incremental state the code maintains (mirror of
           blockdb.Unspents.ProcessBlock / poolAddrIndex.adjust / buildAddrIndex /
           MaybeBuildIndexes, historydb.HistoryDB.ParseBlock / NeedsReset,
           visor.initHistory) and the query functions on that state (mirror of
           Visor.GetUnspentsOfAddrs, AddressCount, GetBalanceOfAddresses,
           GetUxOutByID, GetTransactions, block queries).
   All hashes are small integers assigned by the harness (0 is never an id);
   the unspent-set checksum uses the real 256-bit SnapshotHash values as Z. *)
From Sky Require Import Base.Uint Gen.Mathutil Gen.CoinHours.
From Coq Require Import List Permutation.
Import ListNotations.
Open Scope Z_scope.

(* ------------------------------------------------------------------ data *)

Record txout := mk_txout { o_id : Z; o_addr : Z; o_coins : Z; o_hours : Z; o_snap : Z }.
Record txn := mk_txn { t_id : Z; t_ins : list Z; t_outs : list txout }.
(* b_uxhash: the header's UxHash = checksum of the unspent set before the block *)
Record block := mk_block { b_id : Z; b_seq : Z; b_time : Z; b_uxhash : Z; b_txns : list txn }.
Definition chain := list block.

Record uxout := mk_ux { ux_id : Z; ux_time : Z; ux_seq : Z; ux_src : Z; ux_addr : Z;
                        ux_coins : Z; ux_hours : Z; ux_snap : Z }.

(* coin.CreateUnspents: the genesis block uses the null hash as source *)
Definition mkux (b : block) (t : txn) (o : txout) : uxout :=
  mk_ux (o_id o) (b_time b) (b_seq b) (if b_seq b =? 0 then 0 else t_id t)
        (o_addr o) (o_coins o) (o_hours o) (o_snap o).

Definition is_empty {A} (l : list A) : bool := match l with [] => true | _ => false end.
Definition memZ (x : Z) (l : list Z) : bool := existsb (Z.eqb x) l.
(* keep the first occurrence of each element, in order *)
Definition dedup (l : list Z) : list Z :=
  fold_left (fun acc x => if memZ x acc then acc else acc ++ [x]) l [].
Fixpoint nodup_b (l : list Z) : bool :=
  match l with [] => true | x :: r => negb (memZ x r) && nodup_b r end.

(* ------------------------------------------------ part 1: first principles *)

Definition txn_uxs (b : block) (t : txn) : list uxout := map (mkux b t) (t_outs t).
Definition block_uxs (b : block) : list uxout := flat_map (txn_uxs b) (b_txns b).
Definition block_ins (b : block) : list Z := flat_map t_ins (b_txns b).
(* every output ever created / every output id ever spent, in chain order *)
Definition created (c : chain) : list uxout := flat_map block_uxs c.
Definition spent_ids (c : chain) : list Z := flat_map block_ins c.

(* the unspent set: created and never spent *)
Definition utxo_of (c : chain) : list uxout :=
  filter (fun u => negb (memZ (ux_id u) (spent_ids c))) (created c).
Definition addr_index_of (c : chain) (a : Z) : list Z :=
  map ux_id (filter (fun u => ux_addr u =? a) (utxo_of c)).
Definition addr_count_of (c : chain) : Z :=
  Z.of_nat (List.length (dedup (map ux_addr (utxo_of c)))).
Definition xor_list (l : list Z) (x : Z) : Z := fold_left Z.lxor l x.
Definition xor_of (c : chain) : Z := xor_list (map ux_snap (utxo_of c)) 0.

(* history: who spent what *)
Definition block_spends (b : block) : list (Z * Z * Z) :=
  flat_map (fun t => map (fun i => (i, t_id t, b_seq b)) (t_ins t)) (b_txns b).
Definition spends (c : chain) : list (Z * Z * Z) := flat_map block_spends c.
Definition find_ux (c : chain) (id : Z) : option uxout := find (fun u => ux_id u =? id) (created c).
(* (spending transaction, block seq); (0, 0) = not spent, as the code stores it *)
Definition spender (c : chain) (id : Z) : Z * Z :=
  match find (fun s => fst (fst s) =? id) (spends c) with
  | Some (_, t, q) => (t, q)
  | None => (0, 0)
  end.
Definition hist_of (c : chain) (id : Z) : option (uxout * (Z * Z)) :=
  match find_ux c id with Some u => Some (u, spender c id) | None => None end.
Definition block_txns (b : block) : list (txn * Z) := map (fun t => (t, b_seq b)) (b_txns b).
Definition txns_of (c : chain) : list (txn * Z) := flat_map block_txns c.
Definition txn_of (c : chain) (tid : Z) : option (txn * Z) :=
  find (fun p => t_id (fst p) =? tid) (txns_of c).
(* addresses a transaction touches: owners of its inputs, then receivers of its outputs *)
Definition txn_addrs (c : chain) (t : txn) : list Z :=
  flat_map (fun i => match find_ux c i with Some u => [ux_addr u] | None => [] end) (t_ins t)
  ++ map o_addr (t_outs t).
Definition touches (c : chain) : list (Z * Z) :=
  flat_map (fun p => map (fun a => (a, t_id (fst p))) (txn_addrs c (fst p))) (txns_of c).
(* transactions of address a: in chain order, each once *)
Definition addr_txns_of (c : chain) (a : Z) : list Z :=
  dedup (map snd (filter (fun p => fst p =? a) (touches c))).
(* every output address a ever received *)
Definition addr_uxs_of (c : chain) (a : Z) : list Z :=
  map ux_id (filter (fun u => ux_addr u =? a) (created c)).

Definition head_seq (c : chain) : Z := Z.of_nat (List.length c) - 1.
Definition head_time (c : chain) : Z := match rev c with b :: _ => b_time b | [] => 0 end.

(* the unconfirmed pool as the node reports it: transactions whose outputs carry the
   ids of the unspents predicted at the current head (CreateUnspents(head, txn)) *)
Definition pool := list txn.
Definition pool_ins (p : pool) : list Z := flat_map t_ins p.
Definition pred_ux (c : chain) (t : txn) (o : txout) : uxout :=
  mk_ux (o_id o) (head_time c) (head_seq c) (if head_seq c =? 0 then 0 else t_id t)
        (o_addr o) (o_coins o) (o_hours o) (o_snap o).
Definition pool_uxs (c : chain) (p : pool) : list uxout :=
  flat_map (fun t => map (pred_ux c t) (t_outs t)) p.

(* balances from first principles, as mathematical sums (no machine arithmetic) *)
Definition sumZ (l : list Z) : Z := fold_right Z.add 0 l.
Definition confirmed_uxs (c : chain) (a : Z) : list uxout := filter (fun u => ux_addr u =? a) (utxo_of c).
(* predicted = confirmed - spent by the pool + created by the pool *)
Definition predicted_uxs (c : chain) (p : pool) (a : Z) : list uxout :=
  filter (fun u => negb (memZ (ux_id u) (pool_ins p))) (confirmed_uxs c a)
  ++ filter (fun u => ux_addr u =? a) (pool_uxs c p).
Definition coins_of (l : list uxout) : Z := sumZ (map ux_coins l).

(* block queries from first principles *)
Definition blocks_between (c : chain) (lo hi : Z) : list Z :=
  map b_id (filter (fun b => (lo <=? b_seq b) && (b_seq b <=? hi)) c).

(* -------------------------------- part 2: the state the code maintains *)

(* association lists keyed by Z: a bolt bucket *)
Definition amap (V : Type) := list (Z * V).
Fixpoint aget {V} (k : Z) (m : amap V) : option V :=
  match m with [] => None | (k', v) :: r => if k =? k' then Some v else aget k r end.
Fixpoint aput {V} (k : Z) (v : V) (m : amap V) : amap V :=
  match m with
  | [] => [(k, v)]
  | (k', v') :: r => if k =? k' then (k, v) :: r else (k', v') :: aput k v r
  end.
Fixpoint adel {V} (k : Z) (m : amap V) : amap V :=
  match m with [] => [] | (k', v') :: r => if k =? k' then adel k r else (k', v') :: adel k r end.
Definition aget_list (k : Z) (m : amap (list Z)) : list Z :=
  match aget k m with Some l => l | None => [] end.

Fixpoint ofold {A S} (f : S -> A -> option S) (l : list A) (s : S) : option S :=
  match l with [] => Some s | a :: r => match f s a with Some s' => ofold f r s' | None => None end end.

(* --- blockdb.Unspents *)
Record ustate := mk_us { u_pool : list uxout;          (* unspent_pool bucket *)
                         u_idx : amap (list Z);        (* unspent_pool_addr_index bucket *)
                         u_xor : Z;                    (* unspent_meta/xorhash *)
                         u_height : option Z }.        (* unspent_meta/addr_index_height *)
Definition us_empty : ustate := mk_us [] [] 0 None.

Definition pool_get (p : list uxout) (id : Z) : option uxout := find (fun u => ux_id u =? id) p.
Definition pool_del (p : list uxout) (id : Z) : list uxout := filter (fun u => negb (ux_id u =? id)) p.
(* Unspents.GetArray: error if any is missing *)
Fixpoint get_array (p : list uxout) (ids : list Z) : option (list uxout) :=
  match ids with
  | [] => Some []
  | i :: r => match pool_get p i, get_array p r with
              | Some u, Some l => Some (u :: l)
              | _, _ => None
              end
  end.

(* poolAddrIndex.adjust; None = one of its errors *)
Fixpoint add_all (cur rms adds : list Z) : option (list Z) :=
  match adds with
  | [] => Some cur
  | h :: r => if memZ h rms then None else if memZ h cur then None else add_all (cur ++ [h]) rms r
  end.
Definition adjust (idx : amap (list Z)) (a : Z) (adds rms : list Z) : option (amap (list Z)) :=
  if is_empty adds && is_empty rms then Some idx
  else
    let existing := aget_list a idx in
    if negb (nodup_b rms) then None
    else if (List.length existing <? List.length rms)%nat then None
    else
      let kept := filter (fun h => negb (memZ h rms)) existing in
      if negb (List.length existing - List.length kept =? List.length rms)%nat then None
      else match add_all kept rms adds with
           | None => None
           | Some [] => Some (adel a idx)
           | Some new => Some (aput a new idx)
           end.

Definition ids_at (a : Z) (l : list uxout) : list Z := map ux_id (filter (fun u => ux_addr u =? a) l).

(* Unspents.ProcessBlock (the iteration order over addresses, a Go map, is the
   order of first appearance here; it only affects the key order of the bucket) *)
Definition process_block (s : ustate) (b : block) : option ustate :=
  let new := block_uxs b in
  match get_array (u_pool s) (block_ins b) with
  | None => None
  | Some uxs =>
      let xor1 := xor_list (map ux_snap uxs) (u_xor s) in
      let pool1 := fold_left (fun p u => pool_del p (ux_id u)) uxs (u_pool s) in
      if existsb (fun u => match pool_get pool1 (ux_id u) with Some _ => true | None => false end) new then None
      else
        let pool2 := pool1 ++ new in
        let xor2 := xor_list (map ux_snap new) xor1 in
        let addrs := dedup (map ux_addr uxs ++ map ux_addr new) in
        match ofold (fun idx a => adjust idx a (ids_at a new) (ids_at a uxs)) addrs (u_idx s) with
        | None => None
        | Some idx' =>
            let ok := if b_seq b =? 0
                      then match u_height s with None => true | Some _ => false end
                      else b_seq b =? (match u_height s with Some h => h | None => 0 end) + 1 in
            if ok then Some (mk_us pool2 idx' xor2 (Some (b_seq b))) else None
        end
  end.

(* Unspents.buildAddrIndex: reset the bucket, regroup the pool (iterated in bolt key
   order = `order`, the ids sorted by their real hash, given by the harness) *)
Definition idx_add (idx : amap (list Z)) (a id : Z) : amap (list Z) := aput a (aget_list a idx ++ [id]) idx.
Definition build_index (p : list uxout) (order : list Z) : amap (list Z) * option Z :=
  fold_left (fun '(idx, mx) id =>
               match pool_get p id with
               | Some u => (idx_add idx (ux_addr u) id,
                            Some (match mx with Some m => Z.max m (ux_seq u) | None => Z.max 0 (ux_seq u) end))
               | None => (idx, mx)
               end) order ([], None).
(* Unspents.MaybeBuildIndexes *)
Definition maybe_build (s : ustate) (head : Z) (order : list Z) : ustate :=
  match u_height s with
  | Some h => if h =? head then s
              else let '(idx, mx) := build_index (u_pool s) order in
                   mk_us (u_pool s) idx (u_xor s) (match mx with Some m => Some m | None => u_height s end)
  | None => let '(idx, mx) := build_index (u_pool s) order in
            mk_us (u_pool s) idx (u_xor s) (match mx with Some m => Some m | None => u_height s end)
  end.

(* --- historydb.HistoryDB *)
Record hout := mk_hout { ho_ux : uxout; ho_spent_txn : Z; ho_spent_seq : Z }.
Record hstate := mk_hs { h_outs : amap hout;             (* uxouts bucket *)
                         h_txns : amap (txn * Z);        (* transactions bucket *)
                         h_addr_ux : amap (list Z);      (* address_in bucket *)
                         h_addr_txns : amap (list Z);    (* address_txns bucket *)
                         h_parsed : option Z }.          (* history_meta/parsed_height *)
Definition hs_empty : hstate := mk_hs [] [] [] [] None.

(* ParseBlock's loop nest, flattened: for each txn { put txn; for each input {..};
   for each created output {..} } *)
Inductive event :=
| ETxn (t : txn) (seq : Z)
| ESpend (id tid seq : Z)
| ECreate (u : uxout) (tid : Z).
Definition txn_events (b : block) (t : txn) : list event :=
  ETxn t (b_seq b) :: map (fun i => ESpend i (t_id t) (b_seq b)) (t_ins t)
  ++ map (fun u => ECreate u (t_id t)) (txn_uxs b t).
Definition block_events (b : block) : list event := flat_map (txn_events b) (b_txns b).

(* addressTxns.add / addressUx.add: append unless already there *)
Definition add_once (k v : Z) (m : amap (list Z)) : amap (list Z) :=
  let l := aget_list k m in if memZ v l then m else aput k (l ++ [v]) m.

Definition apply_event (h : hstate) (e : event) : option hstate :=
  match e with
  | ETxn t q => Some (mk_hs (h_outs h) (aput (t_id t) (t, q) (h_txns h)) (h_addr_ux h) (h_addr_txns h) (h_parsed h))
  | ESpend id tid q =>
      match aget id (h_outs h) with
      | None => None      (* "transaction input not found in outputs bucket" *)
      | Some o =>
          Some (mk_hs (aput id (mk_hout (ho_ux o) tid q) (h_outs h)) (h_txns h) (h_addr_ux h)
                      (add_once (ux_addr (ho_ux o)) tid (h_addr_txns h)) (h_parsed h))
      end
  | ECreate u tid =>
      Some (mk_hs (aput (ux_id u) (mk_hout u 0 0) (h_outs h)) (h_txns h)
                  (add_once (ux_addr u) (ux_id u) (h_addr_ux h))
                  (add_once (ux_addr u) tid (h_addr_txns h)) (h_parsed h))
  end.
Definition parse_block (h : hstate) (b : block) : option hstate :=
  match ofold apply_event (block_events b) h with
  | Some h' => Some (mk_hs (h_outs h') (h_txns h') (h_addr_ux h') (h_addr_txns h') (Some (b_seq b)))
  | None => None
  end.
(* HistoryDB.NeedsReset *)
Definition needs_reset (h : hstate) : bool :=
  match h_parsed h with
  | None => true
  | Some _ => is_empty (h_addr_txns h) || is_empty (h_addr_ux h) || is_empty (h_txns h) || is_empty (h_outs h)
  end.
(* --- the node *)
Record node := mk_node { n_chain : chain; n_us : ustate; n_hs : hstate }.
Definition node_empty : node := mk_node [] us_empty hs_empty.

(* Visor.executeSignedBlockUnsafe as far as the derived data goes: ProcessBlock, then ParseBlock *)
Definition exec_block (n : node) (b : block) : option node :=
  match process_block (n_us n) b with
  | None => None
  | Some us => match parse_block (n_hs n) b with
               | None => None
               | Some hs => Some (mk_node (n_chain n ++ [b]) us hs)
               end
  end.

(* what the harness did to the closed file before reopening *)
Inductive idx_wipe := IdxKeep | IdxSet (garbage : amap (list Z)) (height : option Z).
Inductive hist_wipe := HistKeep | HistNoParsed | HistNoTxns | HistNoOuts | HistNoAddrUx | HistNoAddrTxns.
Definition wipe_idx (w : idx_wipe) (s : ustate) : ustate :=
  match w with IdxKeep => s | IdxSet g h => mk_us (u_pool s) g (u_xor s) h end.
Definition wipe_hist (w : hist_wipe) (h : hstate) : hstate :=
  match w with
  | HistKeep => h
  | HistNoParsed => mk_hs (h_outs h) (h_txns h) (h_addr_ux h) (h_addr_txns h) None
  | HistNoTxns => mk_hs (h_outs h) [] (h_addr_ux h) (h_addr_txns h) (h_parsed h)
  | HistNoOuts => mk_hs [] (h_txns h) (h_addr_ux h) (h_addr_txns h) (h_parsed h)
  | HistNoAddrUx => mk_hs (h_outs h) (h_txns h) [] (h_addr_txns h) (h_parsed h)
  | HistNoAddrTxns => mk_hs (h_outs h) (h_txns h) (h_addr_ux h) [] (h_parsed h)
  end.
(* initHistory after Erase: every block from genesis to the head is parsed again *)
Definition reparse (c : chain) : option hstate := ofold parse_block c hs_empty.

Inductive op :=
| OBlock (b : block)
| OReopen (iw : idx_wipe) (hw : hist_wipe) (order : list Z).

(* visor.New on an existing file: MaybeBuildIndexes, initHistory *)
Definition reopen (n : node) (iw : idx_wipe) (hw : hist_wipe) (order : list Z) : option node :=
  let us := maybe_build (wipe_idx iw (n_us n)) (head_seq (n_chain n)) order in
  let h0 := wipe_hist hw (n_hs n) in
  if needs_reset h0
  then match reparse (n_chain n) with
       | Some hs => Some (mk_node (n_chain n) us hs)
       | None => None
       end
  else Some (mk_node (n_chain n) us h0).

Definition step (n : node) (o : op) : option node :=
  match o with
  | OBlock b => exec_block n b
  | OReopen iw hw order => reopen n iw hw order
  end.
Definition run_ops (ops : list op) : option node := ofold step ops node_empty.

(* ------------------------------------------------ queries on the state *)

(* Visor.GetUnspentsOfAddrs (ids, in index order) ; AddressCount *)
Definition q_unspents (n : node) (a : Z) : option (list Z) :=
  match get_array (u_pool (n_us n)) (aget_list a (u_idx (n_us n))) with
  | Some uxs => Some (map ux_id uxs)
  | None => None
  end.
Definition q_addr_count (n : node) : Z := Z.of_nat (List.length (u_idx (n_us n))).
(* the checksum a new block would carry *)
Definition q_uxhash (n : node) : Z := u_xor (n_us n).
(* Visor.GetUxOutByID *)
Definition q_uxout (n : node) (id : Z) : option hout := aget id (h_outs (n_hs n)).
(* HistoryDB.GetOutputsForAddress (Visor.GetSpentOutputsForAddresses) *)
Definition q_addr_outs (n : node) (a : Z) : list Z := aget_list a (h_addr_ux (n_hs n)).
(* confirmed transactions of ONE address, in history order (confirmedTxnsGetter, len(addrs)=1) *)
Definition q_addr_txns (n : node) (a : Z) : list (Z * Z) :=
  flat_map (fun tid => match aget tid (h_txns (n_hs n)) with Some (_, q) => [(tid, q)] | None => [] end)
           (aget_list a (h_addr_txns (n_hs n))).
(* unconfirmed transactions "of" an address: those with an output to it (unconfirmed.GetUnspentsOfAddr) *)
Definition q_pool_txns (p : pool) (a : Z) : list Z :=
  dedup (map t_id (filter (fun t => memZ a (map o_addr (t_outs t))) p)).
Definition q_txn (n : node) (tid : Z) : option (txn * Z) := aget tid (h_txns (n_hs n)).

(* UxArray.Coins / UxArray.CoinHours *)
Fixpoint ua_coins (acc : Z) (l : list uxout) : res (Z * error) :=
  match l with
  | [] => Val (acc, None)
  | u :: r => bind (AddUint64 acc (ux_coins u)) (fun '(c, e) =>
              if is_err e then Val (0, Some "UxArray.Coins addition overflow"%string) else ua_coins c r)
  end.
Fixpoint ua_hours (t acc : Z) (l : list uxout) : res (Z * error) :=
  match l with
  | [] => Val (acc, None)
  | u :: r => bind (UxOut_CoinHours (ux_time u) (ux_coins u) (ux_hours u) t) (fun '(h, e) =>
              if is_err e then Val (0, e)
              else bind (AddUint64 acc h) (fun '(s, e2) =>
                   if is_err e2 then Val (0, Some "UxArray.CoinHours addition overflow"%string) else ua_hours t s r))
  end.
(* UxArray.Sub / Add (membership by hash) *)
Definition ua_sub (a b : list uxout) : list uxout := filter (fun u => negb (memZ (ux_id u) (map ux_id b))) a.
Definition ua_add (a b : list uxout) : list uxout :=
  a ++ filter (fun u => negb (memZ (ux_id u) (map ux_id a))) b.

Definition E_ADD : string := "ErrAddEarnedCoinHoursAdditionOverflow".
Inductive balres := BalErr (what : string) | BalOk (l : list (Z * Z * Z * Z)).

(* one address of Visor.GetBalanceOfAddresses. `typo` selects the code as written
   (the predicted-overflow branch assigns the CONFIRMED hours variable) or as
   evidently intended (it assigns the predicted one). *)
Definition bal_one (typo : bool) (t : Z) (uxs outs ins : list uxout) : res (string + (Z * Z * Z * Z)) :=
  let predicted := ua_add (ua_sub uxs outs) ins in
  bind (ua_coins 0 uxs) (fun '(coins, e) =>
  if is_err e then Val (inl "uxs.Coins failed"%string) else
  bind (ua_hours t 0 uxs) (fun '(hours0, e) =>
  let r1 := match e with
            | None => inr hours0
            | Some m => if String.eqb m E_ADD then inr 0 else inl "uxs.CoinHours failed"%string
            end in
  match r1 with
  | inl m => Val (inl m)
  | inr hours =>
      bind (ua_coins 0 predicted) (fun '(pcoins, e) =>
      if is_err e then Val (inl "predictedUxs.Coins failed"%string) else
      bind (ua_hours t 0 predicted) (fun '(phours0, e) =>
      match e with
      | None => Val (inr (coins, hours, pcoins, phours0))
      | Some m => if String.eqb m E_ADD
                  then (if typo then Val (inr (coins, 0, pcoins, phours0))      (* coinHours = 0 *)
                        else Val (inr (coins, hours, pcoins, 0)))               (* pcoinHours = 0 *)
                  else Val (inl "predictedUxs.CoinHours failed"%string)
      end))
  end)).

Fixpoint bal_all (typo : bool) (t : Z) (us : ustate) (spend recv : list uxout) (addrs : list Z)
  : res (string + list (Z * Z * Z * Z)) :=
  match addrs with
  | [] => Val (inr [])
  | a :: r =>
      match get_array (u_pool us) (aget_list a (u_idx us)) with
      | None => Val (inl "GetUnspentsOfAddrs failed"%string)
      | Some uxs =>
          bind (bal_one typo t uxs (filter (fun u => ux_addr u =? a) spend) (filter (fun u => ux_addr u =? a) recv))
               (fun x => match x with
                         | inl m => Val (inl m)
                         | inr q => bind (bal_all typo t us spend recv r) (fun y =>
                                    match y with inl m => Val (inl m) | inr l => Val (inr (q :: l)) end)
                         end)
      end
  end.

(* Visor.GetBalanceOfAddresses. The per-address unspents are all fetched before any
   arithmetic, so a missing pool input / index error comes first. *)
Definition q_balance (typo : bool) (n : node) (p : pool) (addrs : list Z) : res (string + list (Z * Z * Z * Z)) :=
  match addrs with
  | [] => Val (inr [])
  | _ =>
      let c := n_chain n in
      match get_array (u_pool (n_us n)) (pool_ins p) with
      | None => Val (inl "GetArray failed when checking addresses balance"%string)
      | Some spend =>
          if existsb (fun a => match get_array (u_pool (n_us n)) (aget_list a (u_idx (n_us n))) with
                               | Some _ => false | None => true end) addrs
          then Val (inl "GetUnspentsOfAddrs failed"%string)
          else bal_all typo (head_time c) (n_us n) spend (pool_uxs c p) addrs
      end
  end.

(* block queries: Visor.GetSignedBlockBySeq / GetBlocksInRange / GetLastBlocks / GetSignedBlocksSince *)
Definition q_block_by_seq (n : node) (k : Z) : option Z :=
  match find (fun b => b_seq b =? k) (n_chain n) with Some b => Some (b_id b) | None => None end.
Fixpoint range_loop (c : chain) (i : Z) (fuel : nat) : list Z :=
  match fuel with
  | O => []
  | Datatypes.S f => match find (fun b => b_seq b =? i) c with
             | Some b => b_id b :: range_loop c (i + 1) f
             | None => []
             end
  end.
Definition q_blocks_in_range (n : node) (lo hi : Z) : list Z :=
  if hi <? lo then [] else range_loop (n_chain n) lo (Z.to_nat (hi - lo + 1)).
(* start := int(end-num) + 1 on uint64/int64 *)
Definition q_last_blocks (n : node) (num : Z) : list Z :=
  if num =? 0 then [] else
  let e := head_seq (n_chain n) in
  if e <? 0 then [] else
  let start := swrap 64 (swrap 64 (wrap 64 (e - num)) + 1) in
  let start := if start <? 0 then 0 else start in
  q_blocks_in_range n start e.
Definition q_blocks_since (n : node) (seq ct : Z) : list Z :=
  let e := head_seq (n_chain n) in
  let avail := if seq <? e then e - seq else 0 in
  let ct := Z.min ct avail in
  if ct =? 0 then [] else range_loop (n_chain n) (seq + 1) (Z.to_nat ct).

(* -------------------------------- well-formedness of an accepted chain (what C02/C04 establish) *)

(* block b extends prefix p: numbered, its inputs are distinct unspent outputs of
   p, its outputs and transactions carry fresh distinct ids, it creates something *)
Definition wf_block_b (p : chain) (b : block) : bool :=
  (b_seq b =? Z.of_nat (List.length p)) &&
  nodup_b (block_ins b) &&
  forallb (fun i => memZ i (map ux_id (utxo_of p))) (block_ins b) &&
  nodup_b (map ux_id (block_uxs b)) &&
  forallb (fun u => negb (memZ (ux_id u) (map ux_id (created p)))) (block_uxs b) &&
  nodup_b (map t_id (b_txns b)) &&
  forallb (fun t => negb (memZ (t_id t) (map (fun q => t_id (fst q)) (txns_of p)))) (b_txns b) &&
  negb (is_empty (block_uxs b)) &&
  forallb (fun t => negb (is_empty (t_outs t))) (b_txns b).
Fixpoint wf_from_b (p : chain) (rest : chain) : bool :=
  match rest with [] => true | b :: r => wf_block_b p b && wf_from_b (p ++ [b]) r end.
Definition wf_chain_b (c : chain) : bool := wf_from_b [] c.

(* sorting helpers for canonical comparison in the cases files *)
Fixpoint insZ (x : Z) (l : list Z) : list Z :=
  match l with [] => [x] | y :: r => if x <=? y then x :: l else y :: insZ x r end.
Definition sortZ (l : list Z) : list Z := fold_right insZ [] l.

(* ------------------------------------------------ observations (harness data) *)

(* GetUxOutByID result: (id, time, bkseq, src txn, addr, coins, hours, spent txn, spent seq) *)
Definition uxobs := (Z * Z * Z * Z * Z * Z * Z * Z * Z)%type.
Definition hout_obs (o : hout) : uxobs :=
  let u := ho_ux o in
  (ux_id u, ux_time u, ux_seq u, ux_src u, ux_addr u, ux_coins u, ux_hours u, ho_spent_txn o, ho_spent_seq o).
Definition eqb_uxobs (a b : uxobs) : bool :=
  let '(a1, a2, a3, a4, a5, a6, a7, a8, a9) := a in
  let '(b1, b2, b3, b4, b5, b6, b7, b8, b9) := b in
  (a1 =? b1) && (a2 =? b2) && (a3 =? b3) && (a4 =? b4) && (a5 =? b5) && (a6 =? b6) && (a7 =? b7) && (a8 =? b8) && (a9 =? b9).

(* ---- block queries with full content (Visor.GetBlocks[Verbose], GetBlocksInRange[Verbose],
   GetLastBlocks[Verbose], GetSignedBlockBySeq[Verbose], GetSignedBlockByHash[Verbose], GetBlock).
   A returned block is (block id = header hash, its transaction ids, and for the verbose
   forms per transaction the inputs: spent output id, owner, coins, initial hours,
   CalculatedHours). RULE (visor.getBlockInputs / NewTransactionInput): CalculatedHours of
   an input of block k is UxOut.CoinHours of the spent output at the time of block k-1 of
   the CHAIN (the head when the block was made), 0 if that computation reports any error;
   the genesis block has one transaction with no inputs. *)
Definition inrow := (Z * Z * Z * Z * Z)%type.
Definition brow := (Z * list Z * list (list inrow))%type.
Definition calc_hours (u : uxout) (t : Z) : Z :=
  match UxOut_CoinHours (ux_time u) (ux_coins u) (ux_hours u) t with
  | Val (h, None) => h
  | _ => 0
  end.
Definition parent_time (c : chain) (b : block) : option Z :=
  match find (fun p => b_seq p =? b_seq b - 1) c with Some p => Some (b_time p) | None => None end.
(* None = the query fails (missing parent / missing output) *)
Definition block_inputs (lookup : Z -> option uxout) (c : chain) (b : block) : option (list (list inrow)) :=
  if b_seq b =? 0 then Some [[]]
  else match parent_time c b with
       | None => None
       | Some t =>
           ofold (fun acc tx =>
                    match ofold (fun rows i => match lookup i with
                                               | Some u => Some (rows ++ [(ux_id u, ux_addr u, ux_coins u, ux_hours u, calc_hours u t)])
                                               | None => None
                                               end) (t_ins tx) [] with
                    | Some rows => match rows with [] => None | _ => Some (acc ++ [rows]) end   (* "inputs is empty" error *)
                    | None => None
                    end) (b_txns b) []
       end.
Definition block_row (lookup : Z -> option uxout) (c : chain) (verbose : bool) (b : block) : option brow :=
  if verbose then match block_inputs lookup c b with Some i => Some (b_id b, map t_id (b_txns b), i) | None => None end
  else Some (b_id b, map t_id (b_txns b), []).
Fixpoint all_some {A} (l : list (option A)) : option (list A) :=
  match l with
  | [] => Some []
  | Some x :: r => match all_some r with Some y => Some (x :: y) | None => None end
  | None :: r => None
  end.
(* Blockchain.GetBlocks: every seq must exist, in the order asked *)
Definition blocks_by_seqs (c : chain) (seqs : list Z) : option (list block) :=
  all_some (map (fun k => find (fun b => b_seq b =? k) c) seqs).
Fixpoint range_loop_b (c : chain) (i : Z) (fuel : nat) : list block :=
  match fuel with
  | O => []
  | Datatypes.S f => match find (fun b => b_seq b =? i) c with
             | Some b => b :: range_loop_b c (i + 1) f
             | None => []
             end
  end.
Definition range_b (c : chain) (lo hi : Z) : list block :=
  if hi <? lo then [] else range_loop_b c lo (Z.to_nat (hi - lo + 1)).
Definition last_b (c : chain) (num : Z) : list block :=
  if num =? 0 then [] else
  let e := head_seq c in
  if e <? 0 then [] else
  let start := swrap 64 (swrap 64 (wrap 64 (e - num)) + 1) in
  let start := if start <? 0 then 0 else start in
  range_b c start e.
(* api: 0 GetBlocksVerbose seqs | 1 GetBlocksInRangeVerbose [lo;hi] | 2 GetLastBlocksVerbose [n]
        3 GetSignedBlockBySeqVerbose [k] | 4 GetSignedBlockByHashVerbose [block id]
        5 GetBlocks seqs | 6 GetBlock [k] (error above the head) | 7 GetSignedBlockByHash [block id]
        8 GetBlocksInRange [lo;hi] | 9 GetLastBlocks [n] *)
Definition bq_select (c : chain) (api : Z) (args : list Z) : option (list block) :=
  let one (o : option block) := match o with Some b => Some [b] | None => Some [] end in
  match api, args with
  | 0, _ | 5, _ => blocks_by_seqs c args
  | 1, [lo; hi] | 8, [lo; hi] => Some (range_b c lo hi)
  | 2, [n] | 9, [n] => Some (last_b c n)
  | 3, [k] => one (find (fun b => b_seq b =? k) c)
  | 4, [i] | 7, [i] => one (find (fun b => b_id b =? i) c)
  | 6, [k] => if head_seq c <? k then None else one (find (fun b => b_seq b =? k) c)
  | _, _ => None
  end.
Definition bq_answer (lookup : Z -> option uxout) (c : chain) (api : Z) (args : list Z) : option (list brow) :=
  match bq_select c api args with
  | None => None
  | Some bs => all_some (map (block_row lookup c (api <=? 4)) bs)
  end.
(* on the maintained state: outputs come from the history bucket (history.GetUxOuts) *)
Definition q_bq (n : node) (api : Z) (args : list Z) : option (list brow) :=
  bq_answer (fun i => match aget i (h_outs (n_hs n)) with Some o => Some (ho_ux o) | None => None end) (n_chain n) api args.
(* from first principles: outputs looked up among everything the chain created *)
Definition spec_bq (c : chain) (api : Z) (args : list Z) : option (list brow) := bq_answer (find_ux c) c api args.
Definition eqb_inrow (a b : inrow) : bool :=
  let '(a1, a2, a3, a4, a5) := a in let '(b1, b2, b3, b4, b5) := b in
  (a1 =? b1) && (a2 =? b2) && (a3 =? b3) && (a4 =? b4) && (a5 =? b5).
Definition eqb_brow (a b : brow) : bool :=
  let '(a1, a2, a3) := a in let '(b1, b2, b3) := b in
  (a1 =? b1) && eqb_list Z.eqb a2 b2 && eqb_list (eqb_list eqb_inrow) a3 b3.

(* a transaction query: kind 0 = all, 1 = confirmed only, 2 = unconfirmed only; address filter;
   result rows (txn id, confirmed, block seq) canonically ordered; whether the
   confirmed rows came back in non-decreasing block order *)
Definition txrow := (Z * bool * Z)%type.
Record obs := mk_obs {
  ob_head : Z;
  ob_count : Z;
  ob_unspents : list (Z * option (list Z));                         (* address -> sorted unspent ids *)
  ob_bal : list (list Z * (string + list (Z * Z * Z * Z)));         (* address list -> error class / pairs *)
  ob_ux : list (Z * option uxobs);                                  (* id -> GetUxOutByID *)
  ob_aouts : list (Z * list Z);                                     (* address -> every output it received, history order *)
  ob_txq : list (Z * list Z * list txrow * bool);
  ob_bseq : list (Z * option Z);                                    (* GetSignedBlockBySeq *)
  ob_brange : list (Z * Z * list Z);                                (* GetBlocksInRange *)
  ob_blast : list (Z * list Z);                                     (* GetLastBlocks *)
  ob_bsince : list (Z * Z * list Z);                                (* GetSignedBlocksSince *)
  ob_bq : list (Z * list Z * option (list brow)) }.                 (* every block query API, see bq_select *)

(* one step of a history: what happened, the pool afterwards, what the node answered *)
Inductive hop := HBlock (b : block) | HReopen (iw : idx_wipe) (hw : hist_wipe) (order : list Z) | HPool.
Definition hstep := (hop * pool * obs)%type.

(* canonical row order: confirmed by (seq, id), then unconfirmed by id *)
Definition row_le (a b : txrow) : bool :=
  let '(ia, ca, sa) := a in let '(ib, cb, sb) := b in
  match ca, cb with
  | true, false => true
  | false, true => false
  | true, true => (sa <? sb) || ((sa =? sb) && (ia <=? ib))
  | false, false => ia <=? ib
  end.
Fixpoint ins_row (x : txrow) (l : list txrow) : list txrow :=
  match l with [] => [x] | y :: r => if row_le x y then x :: l else y :: ins_row x r end.
Definition sort_rows (l : list txrow) : list txrow := fold_right ins_row [] l.
Definition eqb_row (a b : txrow) : bool :=
  let '(ia, ca, sa) := a in let '(ib, cb, sb) := b in (ia =? ib) && Bool.eqb ca cb && (sa =? sb).

(* transactionModel.GetTransactions on the state (rows, canonical order) *)
Definition q_txns (n : node) (p : pool) (kind : Z) (addrs : list Z) : list txrow :=
  let conf :=
    match addrs with
    | [] => map (fun e => (fst e, true, snd (snd e))) (h_txns (n_hs n))
    | _ => map (fun r => (fst r, true, snd r))
               (flat_map (fun tid => match aget tid (h_txns (n_hs n)) with Some (_, q) => [(tid, q)] | None => [] end)
                         (dedup (flat_map (fun a => aget_list a (h_addr_txns (n_hs n))) addrs)))
    end in
  let unconf :=
    match addrs with
    | [] => map (fun t => (t_id t, false, 0)) p
    | _ => map (fun tid => (tid, false, 0)) (dedup (flat_map (q_pool_txns p) addrs))
    end in
  sort_rows ((if kind =? 2 then [] else conf) ++ (if kind =? 1 then [] else unconf)).

(* the same from first principles *)
Definition spec_txns (c : chain) (p : pool) (kind : Z) (addrs : list Z) : list txrow :=
  let conf :=
    match addrs with
    | [] => map (fun e => (t_id (fst e), true, snd e)) (txns_of c)
    | _ => map (fun e => (t_id (fst e), true, snd e))
               (filter (fun e => existsb (fun a => memZ a (txn_addrs c (fst e))) addrs) (txns_of c))
    end in
  let unconf :=
    match addrs with
    | [] => map (fun t => (t_id t, false, 0)) p
    | _ => map (fun tid => (tid, false, 0))
               (dedup (map t_id (filter (fun t => existsb (fun a => memZ a (map o_addr (t_outs t))) addrs) p)))
    end in
  sort_rows ((if kind =? 2 then [] else conf) ++ (if kind =? 1 then [] else unconf)).

(* a pool transaction whose input is no longer unspent (a block spent it) *)
Definition pool_stale (c : chain) (p : pool) : bool :=
  negb (forallb (fun i => memZ i (map ux_id (utxo_of c))) (pool_ins p)).

(* ---- concurrency group: queries issued WHILE blocks / injections are being executed.
   steps = every operation of the round with the pool after it; a query is recorded with the
   number of operations completed when it started (lo) and started when it returned (hi); its
   answer must be the view of ONE state k, lo <= k <= hi (a single snapshot, never a mixture) *)
Inductive cq :=
| CQBal (addrs : list Z) (r : string + list (Z * Z * Z * Z))
| CQTx (kind : Z) (addrs : list Z) (rows : list txrow).
Definition conc_case := (list (hop * pool) * list (Z * Z * cq))%type.
(* state after k operations, k = 0.. ; None where the model cannot follow *)
Fixpoint conc_states (n : node) (steps : list (hop * pool)) : list (option (node * pool)) :=
  match steps with
  | [] => []
  | (hop, p) :: r =>
      let next := match hop with
                  | HBlock b => step n (OBlock b)
                  | HReopen iw hw order => step n (OReopen iw hw order)
                  | HPool => Some n
                  end in
      match next with
      | Some n' => Some (n', p) :: conc_states n' r
      | None => [None]
      end
  end.
Fixpoint zrange (lo : Z) (n : nat) : list Z := match n with O => [] | Datatypes.S m => lo :: zrange (lo + 1) m end.
Definition exists_state (states : list (option (node * pool))) (lo hi : Z) (test : node -> pool -> bool) : bool :=
  existsb (fun k => match nth_error states (Z.to_nat (k - 1)) with
                    | Some (Some (n, p)) => test n p
                    | _ => false
                    end) (zrange (Z.max 1 lo) (Z.to_nat (hi - Z.max 1 lo + 1))).

(* helpers shared by the cases templates *)
Definition eqb_optl (a b : option (list Z)) : bool := eqb_option (eqb_list Z.eqb) a b.
Definition eqb_quad (a b : Z * Z * Z * Z) : bool :=
  let '(a1, a2, a3, a4) := a in let '(b1, b2, b3, b4) := b in (a1 =? b1) && (a2 =? b2) && (a3 =? b3) && (a4 =? b4).
Definition chk (code : Z) (b : bool) : list Z := if b then [] else [code].

(* ------------------------- agreement of the maintained state with the first-principles views *)

Definition wf_block (p : chain) (b : block) : Prop := wf_block_b p b = true.
Definition wf_chain (c : chain) : Prop := wf_chain_b c = true.

Definition some_head (c : chain) : option Z := match c with [] => None | _ => Some (head_seq c) end.

Definition uagree (s : ustate) (c : chain) : Prop :=
  u_pool s = utxo_of c /\
  (forall a, Permutation (aget_list a (u_idx s)) (addr_index_of c a)) /\
  NoDup (map fst (u_idx s)) /\ (forall a, aget a (u_idx s) <> Some []) /\
  u_xor s = xor_of c /\
  u_height s = some_head c.

Definition hagree (h : hstate) (c : chain) : Prop :=
  (forall id, aget id (h_outs h) =
              match hist_of c id with Some (u, (t, q)) => Some (mk_hout u t q) | None => None end) /\
  (forall tid, aget tid (h_txns h) = txn_of c tid) /\
  (forall a, aget_list a (h_addr_ux h) = addr_uxs_of c a) /\
  (forall a, aget_list a (h_addr_txns h) = addr_txns_of c a) /\
  h_parsed h = some_head c.

Definition nagree (n : node) (c : chain) : Prop :=
  n_chain n = c /\ uagree (n_us n) c /\ hagree (n_hs n) c.

(* an operation sequence a node can go through: accepted blocks, and reopenings
   (after genesis) where `order` enumerates the unspent pool and a damaged index
   marker never equals the head (the code trusts a marker that equals the head) *)
Fixpoint wf_ops_from (c : chain) (ops : list op) : Prop :=
  match ops with
  | [] => True
  | OBlock b :: r => wf_block c b /\ wf_ops_from (c ++ [b]) r
  | OReopen iw hw order :: r =>
      c <> [] /\ Permutation order (map ux_id (utxo_of c)) /\
      match iw with IdxKeep => True | IdxSet _ h => h <> Some (head_seq c) end /\
      wf_ops_from c r
  end.
Fixpoint chain_of (ops : list op) : chain :=
  match ops with
  | [] => []
  | OBlock b :: r => b :: chain_of r
  | OReopen _ _ _ :: r => chain_of r
  end.
