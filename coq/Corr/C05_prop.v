(* the property itself, decided on the implementation's own output: the observed
   block satisfies block_spec_b (valid only, sorted by fee/kB then hash, within
   the size limits, conflict-free, every left-out valid transaction inside the
   cut lost to an earlier included one), the follower and the publisher accepted it *)
Definition pf_c05 := Eval vm_compute in failing prop_ok cases_c05.
Print pf_c05.
