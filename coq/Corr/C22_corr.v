
(* correspondence: Model/Framing.v vs the observed behaviour of gnet on the same inputs *)
Definition eqb_obs (a b : list bytes * bytes * Z) : bool :=
  let '(d1, b1, c1) := a in let '(d2, b2, c2) := b in
  eqb_frames d1 d2 && eqb_bytes b1 b2 && (c1 =? c2).
Definition model_stream (c : Z * Z * list bytes * list bytes * (list bytes * bytes * Z) * option (list bytes * bytes * Z)) : list bytes * bytes * Z :=
  let '(kind, max, chunks, intended, obs, obs2) := c in
  let '(d, b, st) := run max [] chunks in (d, b, status_code st).
(* obs = decodeData driven over one persistent buffer through the hook;
   obs2 = the same reads through the REAL readLoop (None: byte-identical to obs) *)
Definition mism_stream := Eval vm_compute in
  failing (fun c => let '(_, _, _, _, obs, obs2) := c in
           eqb_obs (model_stream c) obs &&
           match obs2 with None => true | Some o2 => eqb_obs (model_stream c) o2 end) cases_stream.
Print mism_stream.

Definition conv_code (r : res (bytes * bytes + reason)) : Z :=
  match r with Panic => 98 | Val (inl _) => 0 | Val (inr e) => reason_code e end.
Definition mism_convert := Eval vm_compute in
  failing (fun c : bytes * decoded * Z * bool * bool => let '(f, dec, code, same, handler_ok) := c in
           conv_code (convert (daemon_msg_ids ++ test_ids) dec f) =? code) cases_convert.
Print mism_convert.

(* the registry of the running daemon is the table of the model *)
Definition subset (a b : list bytes) : bool := forallb (fun x => id_known b x) a.
Definition mism_table := Eval vm_compute in
  failing (fun t : list bytes => subset t daemon_msg_ids && subset daemon_msg_ids t
             && (Z.of_nat (List.length t) =? Z.of_nat (List.length daemon_msg_ids))) [obs_table].
Print mism_table.
Definition mism_consts := Eval vm_compute in
  failing (fun c : Z * Z => let '(minl, pre) := c in (minl =? MIN_LENGTH) && (pre =? LEN_PREFIX_SIZE)) obs_consts.
Print mism_consts.

(* real ConnectionPool over net.Pipe: frames handled in order and the disconnect reason *)
Definition model_pool (c : Z * list bytes * list (bytes * decoded) * Z * (list bytes * Z)) : option (list bytes * Z) :=
  let '(max, chunks, fds, fault, obs) := c in
  let '(d, b, st) := run max [] chunks in
  if negb (is_prefix d (map fst fds)) then None
  else match receive (daemon_msg_ids ++ test_ids) (firstn (List.length d) fds) with
       | Panic => None
       | Val (ms, Some e) => Some (map (fun m => fst m ++ snd m) ms, reason_code e)
       | Val (ms, None) => Some (map (fun m => fst m ++ snd m) ms, status_code st)
       end.
Definition mism_pool := Eval vm_compute in
  failing (fun c => let '(_, _, _, _, obs) := c in
           match model_pool c with
           | Some (h, code) => eqb_frames h (fst obs) && (code =? snd obs)
           | None => false
           end) cases_pool.
Print mism_pool.

(* large frames (payloads regenerated from their seed) through the real readLoop
   and through a real ConnectionPool over net.Pipe; frames are compared as
   (length, fingerprint) *)
Definition eqb_zz (a b : Z * Z) : bool := (fst a =? fst b) && (snd a =? snd b).
Definition big_frame (p : Z * Z) : bytes := [84; 83; 84; 65] ++ le_bytes 4 (snd p) ++ gen_bytes (fst p) (snd p).
Definition len_fp (f : bytes) : Z * Z := (blen f, fingerprint f).
Definition model_big (c : Z * list (Z * Z) * list (Z * Z) * (list (Z * Z) * Z * Z) * (list (Z * Z) * Z))
  : list (Z * Z) * Z * Z :=
  let '(max, specs, lens, obs, pobs) := c in
  let stream := concat_tr (map (fun p => enc_frame (big_frame p)) specs) in
  let '(d, b, st) := run max [] (split_by (expand_rle lens) stream) in
  (map len_fp d, blen b, status_code st).
Definition mism_big := Eval vm_compute in
  failing (fun c => let '(_, _, _, obs, pobs) := c in
           let '(d, bl, code) := model_big c in
           let '(od, obl, ocode) := obs in
           eqb_list eqb_zz d od && (bl =? obl) && (code =? ocode)
           (* every frame is a registered message whose decoder uses the whole body: the pool handles what readLoop delivers *)
           && eqb_list eqb_zz d (fst pobs) && (code =? snd pobs)) cases_big.
Print mism_big.
