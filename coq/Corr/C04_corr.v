
(* correspondence, header level (C04): on every recorded history the model's
   signature / second-genesis / header / checksum / duplicate-hash verdicts
   (error class) and the stored head (seq, hash, time, stored header hash,
   stored signature validity) are compared with the implementation's, op by op *)
Definition mism_ops := Eval vm_compute in flat_fail replay_hdr_mism cases_hist 0.
Print mism_ops.
Definition premises_ok := Eval vm_compute in forallb premises_b cases_hist.
Print premises_ok.
