
(* correspondence: Model/Truncate.v vs the constructors / truncate helpers of daemon/messages.go *)
Definition expand (r : list (Z * Z)) : list Z := flat_map (fun p => repeat (fst p) (Z.to_nat (snd p))) r.
Definition model_msg (kc : Z) (direct : bool) (xs : list Z) (max : Z) : res (Z * Z * Z) :=
  let k := kind_of_code kc in
  let r := if direct
           then (if is_hash_kind k
                 then match truncate_hashes (Z.of_nat (List.length xs)) max with Panic => Panic | Val n => Val (Z.to_nat n) end
                 else truncate_loop xs max)
           else new_message k xs max in
  match r with
  | Panic => Panic
  | Val n => Val (Z.of_nat n, encoded_len xs n, if send_refused xs n max then 1 else 0)
  end.
Definition mism_msg := Eval vm_compute in
  failing (fun c : Z * bool * list (Z * Z) * Z * res (Z * bool * Z * Z) =>
    let '(kc, direct, rl, max, obs) := c in
    match model_msg kc direct (expand rl) max, obs with
    | Panic, Panic => true
    | Val (n, el, v), Val (kept, pre, enclen, verdict) => (n =? kept) && (el =? enclen) && (v =? verdict)
    | _, _ => false
    end) cases_msg.
Print mism_msg.

(* call sites: every daemon path that builds one of these messages passes the
   configured MaxOUTGOINGMessageLength to the constructor (whatever the incoming limit is) *)
Definition mism_site := Eval vm_compute in
  failing (fun c : Z * list (Z * Z) * Z * Z * res (Z * bool * Z * Z) =>
    let '(kc, rl, max_out, max_in, obs) := c in
    match model_msg kc false (expand rl) max_out, obs with
    | Panic, Panic => true
    | Val (n, el, v), Val (kept, pre, enclen, verdict) => (n =? kept) && (el =? enclen) && (v =? verdict)
    | _, _ => false
    end) cases_site.
Print mism_site.

(* translation validation: the Gallina regenerated from daemon/messages.go
   (Gen/MsgTruncate.v) on the same item sizes vs the number of items the
   implementation kept. Non-direct cases go through the constructor, which caps
   the item list first (firstn item_limit). 4 = EncodeSize() of an empty message
   (the observed encoded length 12 + sum of the kept sizes is checked by pf_msg). *)
Definition gen_msg (kc : Z) (direct : bool) (xs : list Z) (max : Z) : res Z :=
  let k := kind_of_code kc in
  let ys := if direct then xs else firstn (item_limit k) xs in
  match k with
  | GivePeers => truncateGivePeersMessage 4 ys max
  | GiveBlocks => truncateGiveBlocksMessage 4 ys max
  | GiveTxns => truncateGiveTxnsMessage 4 ys max
  | AnnounceTxns => truncateAnnounceTxnsHashes 4 (Z.of_nat (List.length ys)) max
  | GetTxns => truncateGetTxnsHashes 4 (Z.of_nat (List.length ys)) max
  end.
Definition mism_gen := Eval vm_compute in
  failing (fun c : Z * bool * list (Z * Z) * Z * res (Z * bool * Z * Z) =>
    let '(kc, direct, rl, max, obs) := c in
    match gen_msg kc direct (expand rl) max, obs with
    | Panic, Panic => true
    | Val n, Val (kept, pre, enclen, verdict) => n =? kept
    | _, _ => false
    end) cases_msg.
Print mism_gen.
