
(* C01 decided on the implementation's own outputs: after every op the unspent
   coins sum (in Z) to the genesis volume; every transaction of an accepted
   block has input coins (as the node listed them before the block) equal to
   output coins, below 2^64 *)
Definition pf_c01 := Eval vm_compute in flat_fail pf_c01_hist cases_hist 0.
Print pf_c01.
