
(* the property itself, decided on the implementation's own outputs *)
Definition pf_encx := Eval vm_compute in
  failing encx_prop (combine (words_upto byte_syms encx_k) cases_encx).
Print pf_encx.
Definition pf_decx := Eval vm_compute in
  failing decx_prop (combine (words_upto dec_syms decx_k) cases_decx).
Print pf_decx.
Definition pf_enc := Eval vm_compute in failing enc_prop cases_enc.
Print pf_enc.
Definition pf_dec := Eval vm_compute in failing dec_prop cases_dec.
Print pf_dec.
Definition pf_addr := Eval vm_compute in failing addr_prop cases_addr.
Print pf_addr.
Definition pf_addrb := Eval vm_compute in failing addrb_prop cases_addrb.
Print pf_addrb.
Definition pf_btc := Eval vm_compute in failing btc_prop cases_btc.
Print pf_btc.
Definition pf_btcb := Eval vm_compute in failing btcb_prop cases_btcb.
Print pf_btcb.
Definition pf_api := Eval vm_compute in failing api_prop cases_api.
Print pf_api.
