
(* C20 correspondence: Model/SaveFile.v vs the implementation.
   mism_scen   : the strace skeleton of the real service operation differs from
                 the model's op list [scen_ops], or the tmp-name hash is not 8
                 hex digits (premise of the theorem).
   mism_crash  : the directory obtained by replaying the traced system calls up
                 to (k, cut) on the real file system differs from the model's
                 crash state, or the real loader started on it shows something
                 else than the model's loader predicts.
   mism_loader : same for hand-damaged directories (loader model alone). *)
Definition corr_scen (s : scen) : bool :=
  eqb_list eqb_op (s_traced s) (scen_ops s) && hex8b (s_hash s).
Definition mism_scen := Eval vm_compute in failing corr_scen cases_scen.
Print mism_scen.

Definition corr_crash (c : scen * Z * Z * list (string * cdesc) * obs) : bool :=
  let '(s, k, cut, l, o) := c in
  let m := crash (scen_ops s) (Z.to_nat k) (Z.to_nat cut) (s_old s) in
  match decode_dir s l with
  | Some d => dir_eqb m d && eqb_obs (model_obs s m) o
  | None => false
  end.
Definition mism_crash := Eval vm_compute in failing corr_crash cases_crash.
Print mism_crash.

Definition corr_loader (c : scen * list (string * cdesc) * obs) : bool :=
  let '(s, l, o) := c in
  match decode_dir s l with
  | Some d => eqb_obs (model_obs s d) o
  | None => false
  end.
Definition mism_loader := Eval vm_compute in failing corr_loader cases_loader.
Print mism_loader.
