
(* C09 property, decided on the implementation's own outputs:
   - the facts handed over meet the theorem's premises (facts_consistent),
   - Verify / VerifyUnsigned return nil exactly when the documented rule set
     (well_formed_b, written independently of `verify`) holds, and never panic,
   - DeserializeTransaction never panics and, when it succeeds, re-encoding gives
     the input bytes (compared in Go and again here) of the layout's length. *)
Definition is_ok (o : res error) : bool := match o with Val None => true | _ => false end.
Definition is_panic {A} (o : res A) : bool := match o with Panic => true | _ => false end.
Definition c09_prop (wf : bool -> txn -> bool) (fc : txn -> bool) (c : txn * list (bool * res error)) : bool :=
  let '(t, calls) := c in
  let wt := wf true t in
  let wu := wf false t in
  fc t &&
  (* every call of the history, whatever was verified before it *)
  forallb (fun k : bool * res error =>
    negb (is_panic (snd k)) && Bool.eqb (if fst k then wt else wu) (is_ok (snd k))) calls.
Definition pf_txn := Eval vm_compute in failing (c09_prop well_formed_b (facts_consistent_b 300)) cases_txn.
Print pf_txn.
Definition pf_big := Eval vm_compute in
  failing (c09_prop well_formed_fast_b
     (fun t => facts_consistent_b 0 t && ids_consistent_fast_b t &&
               forallb (fun o => (0 <=? o_addr o) && (0 <=? o_coins o) && (0 <=? o_hours o)) (t_outs t))) cases_big.
Print pf_big.
(* VerifyInputSignatures: when the prelude holds the result is nil exactly when
   every input is signed, valid and recovers the owner's address; when it does
   not hold the call panics (DebugLevel2) *)
Definition vis_prelude (t : txn) (ux : list (Z * Z)) : bool :=
  (len (t_ins t) =? len ux) && (len (t_ins t) =? len (t_sigs t)) &&
  opt_eqb (t_inner_actual t) (t_inner t) && eqb_list Z.eqb (t_ins t) (map fst ux).
Definition vis_all (t : txn) (ux : list (Z * Z)) : bool :=
  forallb (fun p : sigfact * (Z * Z) => negb (sf_null (fst p)) && negb (is_err (sf_verr (fst p))) && (sf_addr (fst p) =? snd (snd p)))
          (combine (t_sigs t) ux).
Definition txn_at (i : Z) : option txn :=
  match nth_error cases_txn (Z.to_nat i) with Some (t, _) => Some t | None => None end.
Definition pf_vis := Eval vm_compute in
  failing (fun c : Z * list (Z * Z) * res error =>
    let '(i, ux, o) := c in
    match txn_at i with
    | Some t => if vis_prelude t ux then negb (is_panic o) && Bool.eqb (vis_all t ux) (is_ok o) else is_panic o
    | None => false
    end) cases_vis.
Print pf_vis.
Definition pf_dec := Eval vm_compute in
  failing (fun c : Z * bool * bool * bool * bool * Z * Z * Z * list Z * list Z =>
    let '(n, decoded, panicked, canon, with_bytes, ns, ni, no, inb, reb) := c in
    negb panicked &&
    (negb decoded ||
     (canon && (n =? 49 + 65 * ns + 32 * ni + 37 * no) &&
      (negb with_bytes || eqb_list Z.eqb inb reb && (len inb =? n))))) cases_dec.
Print pf_dec.
(* how many explored cases meet the premises / are accepted (non-vacuity) *)
Definition n_accepted := Eval vm_compute in
  [count_true (fun c : txn * list (bool * res error) => existsb (fun k => fst k && is_ok (snd k)) (snd c)) cases_txn;
   count_true (fun c : txn * list (bool * res error) => existsb (fun k => negb (fst k) && is_ok (snd k)) (snd c)) cases_txn;
   count_true (fun c : Z * bool * bool * bool * bool * Z * Z * Z * list Z * list Z =>
      let '(_, decoded, _, _, _, _, _, _, _, _) := c in decoded) cases_dec].
Print n_accepted.
