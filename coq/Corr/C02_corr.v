
(* correspondence, transaction level (C01/C02): on every recorded history the
   model's processTransactions verdict (error class) and the unspent set after
   apply_block are compared with the implementation's, op by op; the model state
   follows the implementation's accepted blocks. Only the error classes of the
   checks this property's proof rests on are compared
   (C02: inputs unspent / not spent twice / created ids new);
   signature / format / coin-hour / header differences belong to other properties *)
Definition mism_ops := Eval vm_compute in flat_fail (replay_txn_mism rel_c02) cases_hist 0.
Print mism_ops.
(* the premises of the theorems hold on what was explored *)
Definition premises_ok := Eval vm_compute in forallb premises_b cases_hist.
Print premises_ok.
