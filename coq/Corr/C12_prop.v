
(* C12 property decided on the implementation's own outputs *)
Definition nowrap (uxa : list ux) : bool :=
  (zsum (map u_coins uxa) <? 2 ^ 64) && (zsum (map u_hours uxa) <? 2 ^ 64).
Definition pf_create := Eval vm_compute in
  failing (fun c : Z * params * list ux * R created * error =>
    let '(burn, p, uxb, obs, vu) := c in
    match obs with
    | Panic => false
    | Val (inr cr) => negb (is_err vu) && sound_b burn p uxb cr      (* VerifyUnsigned accepts it; sound *)
    | Val (inl e) =>
        negb (nowrap uxb) ||
        complete_b burn uxb (zsum (map o_coins (p_to p))) (zsum (map o_hours (p_to p))) e
    end) cases_create.
Print pf_create.
Definition pf_choose := Eval vm_compute in
  failing (fun c : bool * Z * list ux * Z * Z * R (list ux) =>
    let '(maximize, burn, uxa, coins, hours, obs) := c in
    match obs with
    | Panic => existsb (fun u => u_coins u =? 0) uxa || negb (nodupb Z.eqb (map u_hash uxa))
    | Val (inr sp) =>
        negb (nowrap uxa) ||
        forallb (fun i => existsb (ux_eqb i) uxa) sp && nodupb Z.eqb (map u_hash sp) &&
        (coins <=? zsum (map u_coins sp)) && (hours <=? remaining_of burn (zsum (map u_hours sp)))
    | Val (inl e) => negb (nowrap uxa) || complete_b burn uxa coins hours e
    end) cases_choose.
Print pf_choose.
Definition pf_dist := Eval vm_compute in
  failing (fun c : list Z * Z * R (list Z) =>
    let '(coins, hours, obs) := c in
    match obs with
    | Panic => false
    | Val (inr hs) => (zsum hs =? hours) && (len hs =? len coins)
    | Val (inl _) => true
    end) cases_dist.
Print pf_dist.
Definition n_created := Eval vm_compute in
  count_true (fun c : Z * params * list ux * R created * error =>
    let '(_, _, _, obs, _) := c in match obs with Val (inr _) => true | _ => false end) cases_create.
Print n_created.
