(* correspondence: Gen/FieldLimbs.v (regenerated from secp256k1-go2/field.go) vs
   what the real methods of secp256k1go.Field returned on the same limbs, and the
   decidable form of the limb-level theorems on the implementation's own outputs *)
Definition l10 (t : Z * Z * Z * Z * Z * Z * Z * Z * Z * Z) : list Z :=
  let '(a0, a1, a2, a3, a4, a5, a6, a7, a8, a9) := t in [a0; a1; a2; a3; a4; a5; a6; a7; a8; a9].
Definition eql (a b : list Z) : bool := eqb_list Z.eqb a b.
Definition same10 (r : res (Z * Z * Z * Z * Z * Z * Z * Z * Z * Z)) (obs : list Z) : bool :=
  match r with Val t => eql (l10 t) obs | Panic => false end.
Definition t10 (l : list Z) : option (Z * Z * Z * Z * Z * Z * Z * Z * Z * Z) :=
  match l with [a0; a1; a2; a3; a4; a5; a6; a7; a8; a9] => Some (a0, a1, a2, a3, a4, a5, a6, a7, a8, a9) | _ => None end.

Definition mism_fl_norm := Eval vm_compute in
  failing (fun c : list Z * list Z => let '(i, o) := c in
    match t10 i with
    | Some (a0, a1, a2, a3, a4, a5, a6, a7, a8, a9) => same10 (Field_Normalize a0 a1 a2 a3 a4 a5 a6 a7 a8 a9) o
    | None => false end) cases_fl_norm.
Print mism_fl_norm.
Definition mism_fl_add := Eval vm_compute in
  failing (fun c : list Z * list Z * list Z => let '(i, j, o) := c in
    match t10 i, t10 j with
    | Some (a0, a1, a2, a3, a4, a5, a6, a7, a8, a9), Some (b0, b1, b2, b3, b4, b5, b6, b7, b8, b9) =>
        same10 (Field_SetAdd a0 a1 a2 a3 a4 a5 a6 a7 a8 a9 b0 b1 b2 b3 b4 b5 b6 b7 b8 b9) o
    | _, _ => false end) cases_fl_add.
Print mism_fl_add.
Definition mism_fl_mul := Eval vm_compute in
  failing (fun c : list Z * Z * list Z => let '(i, k, o) := c in
    match t10 i with
    | Some (a0, a1, a2, a3, a4, a5, a6, a7, a8, a9) => same10 (Field_MulInt a0 a1 a2 a3 a4 a5 a6 a7 a8 a9 k) o
    | None => false end) cases_fl_mul.
Print mism_fl_mul.
Definition mism_fl_neg := Eval vm_compute in
  failing (fun c : list Z * Z * list Z => let '(i, m, o) := c in
    match t10 i with
    | Some (a0, a1, a2, a3, a4, a5, a6, a7, a8, a9) => same10 (Field_Negate a0 a1 a2 a3 a4 a5 a6 a7 a8 a9 m) o
    | None => false end) cases_fl_neg.
Print mism_fl_neg.
Definition mism_fl_pred := Eval vm_compute in
  failing (fun c : list Z * list Z * bool * bool * bool => let '(i, j, odd, zero, eq) := c in
    match t10 i, t10 j with
    | Some (a0, a1, a2, a3, a4, a5, a6, a7, a8, a9), Some (b0, b1, b2, b3, b4, b5, b6, b7, b8, b9) =>
        eqb_res Bool.eqb (Field_IsOdd a0 a1 a2 a3 a4 a5 a6 a7 a8 a9) (Val odd) &&
        eqb_res Bool.eqb (Field_IsZero a0 a1 a2 a3 a4 a5 a6 a7 a8 a9) (Val zero) &&
        eqb_res Bool.eqb (Field_Equals a0 a1 a2 a3 a4 a5 a6 a7 a8 a9 b0 b1 b2 b3 b4 b5 b6 b7 b8 b9) (Val eq)
    | _, _ => false end) cases_fl_pred.
Print mism_fl_pred.
Definition mism_fl_setint := Eval vm_compute in
  failing (fun c : Z * list Z => let '(k, o) := c in same10 (Field_SetInt k) o) cases_fl_setint.
Print mism_fl_setint.
Definition mism_fl_setb32 := Eval vm_compute in
  failing (fun c : list Z * list Z => let '(b, o) := c in
    match b with
    | [b0; b1; b2; b3; b4; b5; b6; b7; b8; b9; b10; b11; b12; b13; b14; b15; b16; b17; b18; b19; b20; b21; b22; b23;
       b24; b25; b26; b27; b28; b29; b30; b31] =>
        same10 (Field_SetB32 b0 b1 b2 b3 b4 b5 b6 b7 b8 b9 b10 b11 b12 b13 b14 b15 b16 b17 b18 b19 b20 b21 b22 b23
                  b24 b25 b26 b27 b28 b29 b30 b31) o
    | _ => false end) cases_fl_setb32.
Print mism_fl_setb32.
Definition mism_fl_getb32 := Eval vm_compute in
  failing (fun c : list Z * list Z => let '(i, o) := c in
    match t10 i with
    | Some (a0, a1, a2, a3, a4, a5, a6, a7, a8, a9) =>
        match Field_GetB32 a0 a1 a2 a3 a4 a5 a6 a7 a8 a9 with
        | Val (r0, r1, r2, r3, r4, r5, r6, r7, r8, r9, r10, r11, r12, r13, r14, r15, r16, r17, r18, r19, r20, r21,
               r22, r23, r24, r25, r26, r27, r28, r29, r30, r31) =>
            eql [r0; r1; r2; r3; r4; r5; r6; r7; r8; r9; r10; r11; r12; r13; r14; r15; r16; r17; r18; r19; r20; r21;
                 r22; r23; r24; r25; r26; r27; r28; r29; r30; r31] o
        | Panic => false end
    | None => false end) cases_fl_getb32.
Print mism_fl_getb32.

Definition mism_fl_fmul := Eval vm_compute in
  failing (fun c : list Z * list Z * list Z => let '(i, j, o) := c in
    match t10 i, t10 j with
    | Some (a0, a1, a2, a3, a4, a5, a6, a7, a8, a9), Some (b0, b1, b2, b3, b4, b5, b6, b7, b8, b9) =>
        same10 (Field_Mul a0 a1 a2 a3 a4 a5 a6 a7 a8 a9 b0 b1 b2 b3 b4 b5 b6 b7 b8 b9) o
    | _, _ => false end) cases_fl_fmul.
Print mism_fl_fmul.
Definition mism_fl_sqr := Eval vm_compute in
  failing (fun c : list Z * list Z => let '(i, o) := c in
    match t10 i with
    | Some (a0, a1, a2, a3, a4, a5, a6, a7, a8, a9) => same10 (Field_Sqr a0 a1 a2 a3 a4 a5 a6 a7 a8 a9) o
    | None => false end) cases_fl_sqr.
Print mism_fl_sqr.

(* the theorems' statements, decided on the implementation's own outputs
   (Model/FieldSpec.v only, no translated code): whenever the premise of
   C14_Normalize_correct holds of the input, the observed limbs are canonical and
   stand for the same value modulo p; Negate(m) of magnitude-m limbs is (m+1) p - a *)
Definition val_l (l : list Z) : Z := match t10 l with Some t => val t | None => -1 end.
Definition norm_preb (l : list Z) : bool :=
  match l with
  | n0 :: r => (0 <=? n0) && (n0 <? 2 ^ 32) && forallb (fun x => (0 <=? x) && (x <=? 2 ^ 32 - 64)) r
  | [] => false end.
Definition canonb (l : list Z) : bool :=
  match l with
  | [a0; a1; a2; a3; a4; a5; a6; a7; a8; a9] =>
      forallb (fun x => (0 <=? x) && (x <=? 67108863)) [a0; a1; a2; a3; a4; a5; a6; a7; a8] &&
      (0 <=? a9) && (a9 <=? 4194303) && (val_l l <? p)
  | _ => false end.
Definition pf_fl_norm := Eval vm_compute in
  failing (fun c : list Z * list Z => let '(i, o) := c in
    negb (norm_preb i) || (canonb o && (val_l o =? val_l i mod p))) cases_fl_norm.
Print pf_fl_norm.
Definition magb (m : Z) (l : list Z) : bool :=
  match l with
  | [a0; a1; a2; a3; a4; a5; a6; a7; a8; a9] =>
      forallb (fun x => (0 <=? x) && (x <=? m * 67108863)) [a0; a1; a2; a3; a4; a5; a6; a7; a8] &&
      (0 <=? a9) && (a9 <=? m * 4194303)
  | _ => false end.
Definition pf_fl_neg := Eval vm_compute in
  failing (fun c : list Z * Z * list Z => let '(i, m, o) := c in
    negb ((0 <=? m) && (m <=? 63) && magb m i) || (magb (m + 1) o && (val_l o =? (m + 1) * p - val_l i))) cases_fl_neg.
Print pf_fl_neg.
Definition n_fl_norm_in_premise := Eval vm_compute in count_true (fun c : list Z * list Z => norm_preb (fst c)) cases_fl_norm.
Print n_fl_norm_in_premise.

(* Mul / Sqr on the implementation's outputs: for inputs of magnitude <= 8 the result
   stands for the product modulo p and has magnitude 1 except for limb 2 (<= 2^26 + 2^18 - 1 + 1 = 67371008, the bound proved in C14_Mul_correct) *)
Definition mul_outb (l : list Z) : bool :=
  match l with
  | [a0; a1; a2; a3; a4; a5; a6; a7; a8; a9] =>
      forallb (fun x => (0 <=? x) && (x <=? 67108863)) [a0; a1; a3; a4; a5; a6; a7; a8] &&
      (0 <=? a2) && (a2 <=? 67371008) && (0 <=? a9) && (a9 <=? 4194303)
  | _ => false end.
Definition pf_fl_fmul := Eval vm_compute in
  failing (fun c : list Z * list Z * list Z => let '(i, j, o) := c in
    negb (magb 8 i && magb 8 j) || (mul_outb o && (val_l o mod p =? (val_l i * val_l j) mod p))) cases_fl_fmul.
Print pf_fl_fmul.
Definition pf_fl_sqr := Eval vm_compute in
  failing (fun c : list Z * list Z => let '(i, o) := c in
    negb (magb 8 i) || (mul_outb o && (val_l o mod p =? (val_l i * val_l i) mod p))) cases_fl_sqr.
Print pf_fl_sqr.
Definition n_fl_fmul_in_premise := Eval vm_compute in
  count_true (fun c : list Z * list Z * list Z => let '(i, j, o) := c in magb 8 i && magb 8 j) cases_fl_fmul.
Print n_fl_fmul_in_premise.
