
(* failing transitions as flat indices  state * |universe| + operation  (tail recursive) *)
Fixpoint c24_flat (i : Z) (l : list (list bool)) (acc : list Z) : list Z :=
  match l with
  | [] => firstn 200 (rev_append acc [])
  | bs :: r => c24_flat (i + 1) r
      (rev_append (map (fun j => i * Z.of_nat (List.length universe) + j) (failing (fun b : bool => b) bs)) acc)
  end.

(* correspondence: Model/Conns.v vs the observed behaviour of daemon.Connections.
   bfs: in every explored state (reached by `path`), every operation of the
   universe: same error class, same five maps afterwards, same freshness verdict.
   rand: the same after every event of a random sequence. *)
(* the maps after operation number j: listed in `changes` when they changed *)
Definition c24_post (changes : list (Z * st)) (j : Z) : option st := aget Z.eqb j changes.
Fixpoint c24_zip3 (j : Z) (ops : list op) (ts : list (res err * bool)) : list (Z * op * (res err * bool)) :=
  match ops, ts with
  | o :: ops', t :: ts' => (j, o, t) :: c24_zip3 (j + 1) ops' ts'
  | _, _ => []
  end.
Definition c24_trans_ok (s pre : st) (changes : list (Z * st)) (x : Z * op * (res err * bool)) : bool :=
  let '(j, o, (e, fr)) := x in
  Bool.eqb fr (fresh_b s o) &&
  match step s o, e with
  | Panic, Panic => true
  | Val (s', e'), Val e0 =>
      err_eqb e' e0 && match c24_post changes j with Some d => st_eqb s' d | None => st_eqb s' pre end
  | _, _ => false
  end.
Definition c24_bfs_case (c : list op * st * list (res err * bool) * list (Z * st)) : list bool :=
  let '(path, pre, trans, changes) := c in
  match run init path with
  | Val s =>
      if st_eqb s pre && Nat.eqb (List.length trans) (List.length universe)
      then map (c24_trans_ok s pre changes) (c24_zip3 0 universe trans)
      else map (fun _ => false) universe
  | Panic => map (fun _ => false) universe
  end.
Definition mism_bfs := Eval vm_compute in c24_flat 0 (map c24_bfs_case cases_bfs) [].
Print mism_bfs.

Fixpoint c24_rand_steps (s : st) (l : list (op * res err * st)) : bool :=
  match l with
  | [] => true
  | (o, e, d) :: r =>
      match step s o, e with
      | Val (s', e'), Val e0 => err_eqb e' e0 && st_eqb s' d && c24_rand_steps s' r
      | _, _ => false   (* no operation of the explored sequences panics *)
      end
  end.
Definition c24_rand_case (c : bool * list (op * res err * st)) : bool :=
  let '(fr, l) := c in
  Bool.eqb fr (fresh_run_b init (map (fun x : op * res err * st => fst (fst x)) l)) && c24_rand_steps init l.
Definition mism_rand := Eval vm_compute in failing c24_rand_case cases_rand.
Print mism_rand.
