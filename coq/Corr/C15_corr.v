
(* correspondence: the specification-level model vs the observed behaviour of
   base58.Encode/Decode, DecodeBase58Address, AddressFromBytes, Address.String/Bytes *)
Definition alphabet_ok := Eval vm_compute in eqb_zl go_alphabet alphabet.
Print alphabet_ok.
Definition encx_len_ok := Eval vm_compute in
  Nat.eqb (List.length cases_encx) (List.length (words_upto byte_syms encx_k)).
Print encx_len_ok.
Definition decx_len_ok := Eval vm_compute in
  Nat.eqb (List.length cases_decx) (List.length (words_upto dec_syms decx_k)).
Print decx_len_ok.
Definition mism_encx := Eval vm_compute in
  failing (fun c : list Z * list Z => let '(w, obs) := c in eqb_zl (b58enc w) obs)
          (combine (words_upto byte_syms encx_k) cases_encx).
Print mism_encx.
Definition mism_decx := Eval vm_compute in
  failing (fun c : list Z * Z => let '(w, obs) := c in pack_outcome (b58dec w) =? obs)
          (combine (words_upto dec_syms decx_k) cases_decx).
Print mism_decx.
Definition mism_enc := Eval vm_compute in
  failing (fun c : list Z * list Z * Z => let '(bs, obs, rt) := c in
             eqb_zl (b58enc bs) obs && (pack_outcome (b58dec obs) =? rt)) cases_enc.
Print mism_enc.
Definition mism_dec := Eval vm_compute in
  failing (fun c : list Z * Z * list Z => let '(text, obs, reenc) := c in
             (pack_outcome (b58dec text) =? obs) &&
             match b58dec text with Ok b => eqb_zl (b58enc b) reenc | Err _ => eqb_zl reenc [] end) cases_dec.
Print mism_dec.
Definition mism_addr := Eval vm_compute in
  failing (fun c : list Z * list Z * outcome address * list Z => let '(text, digest, obs, restr) := c in
             eqb_outcome_addr (addr_decode (fun _ => digest) text) obs &&
             match obs with Ok a => eqb_zl (addr_encode (fun _ => digest) a) restr | Err _ => true end) cases_addr.
Print mism_addr.
Definition mism_addrb := Eval vm_compute in
  failing (fun c : list Z * list Z * outcome address => let '(b, digest, obs) := c in
             eqb_outcome_addr (addr_from_bytes (fun _ => digest) b) obs) cases_addrb.
Print mism_addrb.
Definition mism_addre := Eval vm_compute in
  failing (fun c : address * list Z * list Z * list Z => let '(a, digest, s, bs) := c in
             eqb_zl (addr_encode (fun _ => digest) a) s && eqb_zl (addr_bytes (fun _ => digest) a) bs) cases_addre.
Print mism_addre.
Definition mism_btc := Eval vm_compute in
  failing (fun c : list Z * list Z * outcome address * list Z => let '(text, digest, obs, restr) := c in
             eqb_outcome_addr (btc_decode (fun _ => digest) text) obs &&
             match obs with Ok a => eqb_zl (btc_encode (fun _ => digest) a) restr | Err _ => true end) cases_btc.
Print mism_btc.
Definition mism_btcb := Eval vm_compute in
  failing (fun c : list Z * list Z * outcome address => let '(b, digest, obs) := c in
             eqb_outcome_addr (btc_from_bytes (fun _ => digest) b) obs) cases_btcb.
Print mism_btcb.
Definition mism_api := Eval vm_compute in failing api_model cases_api.
Print mism_api.
