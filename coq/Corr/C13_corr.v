
(* C13 correspondence: Model/Sign.v (with the concrete test signature scheme
   t_sign / t_verify) vs the observables of wallet.SignTransaction: error class,
   or per position (signature changed?, null?, verifies against the owner's address?) *)
Definition model_obs (w : wallet) (t : stx) (idxs owners : list Z) : R (list (bool * bool * bool)) :=
  match sign_tx t_sign t_addr_of t_msg_of w t idxs owners with
  | Panic => Panic
  | Val (inl e) => Val (inl e)
  | Val (inr t') => Val (inr (sig_obs t_verify t_msg_of t (s_sigs t') owners))
  end.
Definition obs_eqb (a b : list (bool * bool * bool)) : bool :=
  eqb_list (fun x y : bool * bool * bool =>
    let '(x1, x2, x3) := x in let '(y1, y2, y3) := y in Bool.eqb x1 y1 && Bool.eqb x2 y2 && Bool.eqb x3 y3) a b.
Definition mism_sign := Eval vm_compute in
  failing (fun c : wallet * stx * list Z * list Z * R (list (bool * bool * bool)) * bool * bool =>
    let '(w, t, idxs, owners, obs, _, _) := c in R_matches obs_eqb (model_obs w t idxs owners) obs) cases_sign.
Print mism_sign.
