
(* the property decided on the implementation's own outputs.
   val: validateAddress accepts exactly the strings whose whitespace-stripped form
        is "a.b.c.d:port" (octets 0..255 without leading zeros, global unicast or
        allowed loopback, 1024 <= port <= 65535) and returns that stripped form.
   ops: after every operation every address in the peer list has that form; the
        list does not grow beyond Max (> 0) when it was within Max before; a
        trusted peer is still there and trusted unless the operation was
        RemovePeer of that address or setAllUntrusted. *)
Definition pf_val := Eval vm_compute in
  failing (fun c : str * bool * vres => let '(s, allow, r) := c in
             match r with
             | VAccept clean => valid_form_b allow (strip s) && str_eqb clean (strip s)
             | VReject _ => negb (valid_form_b allow (strip s))
             end) cases_val.
Print pf_val.

Definition c26_trusted_kept (o : op) (pre post : pl) : bool :=
  match o with
  | SetAllUntrusted => true
  | _ =>
    forallb (fun e : str * peer =>
      negb (p_trusted (snd e))
      || (match o with RemovePeer a => str_eqb a (fst e) | _ => false end)
      || match pget (fst e) post with Some q => p_trusted q | None => false end) pre
  end.
Fixpoint c26_steps_pf (max : Z) (allow : bool) (pre : pl) (steps : list (op * out * pl)) : bool :=
  match steps with
  | [] => true
  | (o, r, d) :: rest =>
      forallb (fun e : str * peer => valid_form_b allow (fst e)) d
      && (negb ((0 <? max) && (plen pre <=? max)) || (plen d <=? max))
      && c26_trusted_kept o pre d
      && c26_steps_pf max allow d rest
  end.
Definition pf_ops := Eval vm_compute in
  failing (fun c : Z * bool * list (op * out * pl) => let '(max, allow, steps) := c in c26_steps_pf max allow [] steps) cases_ops.
Print pf_ops.
