
(* the property decided on the implementation's own outputs.
   val: validateAddress accepts exactly the strings whose whitespace-stripped form
        is "a.b.c.d:port" (octets 0..255 without leading zeros, global unicast or
        allowed loopback, 1024 <= port <= 65535) and returns that stripped form.
   ops: after every operation every address in the peer list has that form; the
        list does not grow beyond Max (> 0) when it was within Max before; a
        trusted peer is still there and trusted unless the operation was
        RemovePeer of that address or setAllUntrusted. *)
Definition pf_val := Eval vm_compute in
  failing (fun c : str * bool * vres => let '(s, allow, r) := c in
             match r with
             | VAccept clean => valid_form_b allow (strip s) && str_eqb clean (strip s)
             | VReject _ => negb (valid_form_b allow (strip s))
             end) cases_val.
Print pf_val.

Definition c26_trusted_kept (o : xop) (pre post : pl) : bool :=
  match o with
  | Restart _ _ _ _ _ => true          (* a restart re-derives trust from the default connections *)
  | Op SetAllUntrusted => true
  | Download _ _ _ => forallb (fun e : str * peer => negb (p_trusted (snd e)) || match pget (fst e) post with Some q => p_trusted q | None => false end) pre
  | Op o' =>
    forallb (fun e : str * peer =>
      negb (p_trusted (snd e))
      || (match o' with RemovePeer a => str_eqb a (fst e) | _ => false end)
      || match pget (fst e) post with Some q => p_trusted q | None => false end) pre
  end.
Definition c26_list_ok (max : Z) (allow : bool) (d : pl) : bool :=
  forallb (fun e : str * peer => valid_form_b allow (fst e)) d.
Fixpoint c26_steps_pf (max : Z) (allow : bool) (pre : pl) (steps : list (xop * out * pl)) : bool :=
  match steps with
  | [] => true
  | (o, r, d) :: rest =>
      c26_list_ok max allow d
      && (negb ((0 <? max) && (plen pre <=? max)) || (plen d <=? max))
      && c26_trusted_kept o pre d
      && c26_steps_pf max allow d rest
  end.
(* start: whatever the cache file holds, the list only has addresses valid under
   the configured localhost policy, and at most Max of them *)
Definition pf_start := Eval vm_compute in
  failing (fun c : Z * bool * bool * list fentry * list str * list str * option str * Z * option pl =>
             let '(max, allow, disable, es, kept, defaults, custom, now, d) := c in
             match d with
             | Some d' => c26_list_ok max allow d' && (negb (0 <? max) || (plen d' <=? max))
             | None => true
             end) cases_start.
Print pf_start.
Definition pf_ops := Eval vm_compute in
  failing (fun c : Z * bool * pl * list (xop * out * pl) => let '(max, allow, l0, steps) := c in c26_steps_pf max allow l0 steps) cases_ops.
Print pf_ops.

(* conc (run-time check on the implementation, no model): after overlapping
   AddPeers / AddPeer calls from several goroutines the list holds at most Max
   valid addresses, and it never held more while they ran (sampled) *)
Definition pf_conc := Eval vm_compute in
  failing (fun c : Z * pl * Z => let '(max, d, seen) := c in
             c26_list_ok max false d && (plen d <=? max) && (seen <=? max)) cases_conc.
Print pf_conc.
