
(* C03, the property itself decided on the implementation's own outputs
   (Model/HoursSpec.v only: no translated code, no proofs). Every list must
   print [] except pf_witness, whose single case is the recorded finding F14. *)
Definition c_tx := (Z * list uxin * list txout * error * (res error * res error * res (Z * error)) * res verdict)%type.
Definition wf_case (T : Z) (ins : list uxin) (outs : list txout) : bool :=
  in_ub 64 T && forallb wf_inb ins && forallb wf_outb outs.
Definition accepted_e (r : res error) : bool := match r with Val None => true | _ => false end.
Definition accepted_v (r : res verdict) : bool := match r with Val None => true | _ => false end.
Definition hard_or_none (r : res verdict) : bool :=
  match r with Val None => true | Val (Some (Hard, _)) => true | _ => false end.

(* block-level rule: accepted => no input with an intermediate overflow, the
   inputs' effective hours fit, and the (partial) no-creation statement *)
Definition pf_hs := Eval vm_compute in
  failing (fun c : c_tx => let '(T, ins, outs, pre, (ohs, ocs, ooh), osg) := c in
    negb (wf_case T ins outs) || negb (accepted_e ohs) ||
    (forallb (acc_mid_ok T) ins && (in_eff_sum T ins <? 2 ^ 64) && not_created_partial T ins outs)) cases_tx.
Print pf_hs.
(* no coins created or destroyed *)
Definition pf_cs := Eval vm_compute in
  failing (fun c : c_tx => let '(T, ins, outs, pre, (ohs, ocs, ooh), osg) := c in
    negb (wf_case T ins outs) || negb (accepted_e ocs) || coins_ok ins outs) cases_tx.
Print pf_cs.
(* OutputHours: the true sum when it fits, an error exactly when it does not *)
Definition pf_oh := Eval vm_compute in
  failing (fun c : c_tx => let '(T, ins, outs, pre, (ohs, ocs, ooh), osg) := c in
    negb (wf_case T ins outs) ||
    match ooh with
    | Val (h, None) => (h =? out_sum outs) && (out_sum outs <? 2 ^ 64)
    | Val (_, Some _) => 2 ^ 64 <=? out_sum outs
    | Panic => false
    end) cases_tx.
Print pf_oh.
(* admission to the pool: accepted => output hours do not overflow and the FULL
   no-creation statement with no exception; every error is tagged hard *)
Definition pf_single := Eval vm_compute in
  failing (fun c : c_tx => let '(T, ins, outs, pre, (ohs, ocs, ooh), osg) := c in
    negb (wf_case T ins outs) ||
    (hard_or_none osg &&
     (negb (accepted_v osg) || (pool_hours_ok T ins outs && coins_ok ins outs && not_created_full T ins outs)))) cases_tx.
Print pf_single.
Definition pf_block := Eval vm_compute in
  failing (fun c : (Z * list uxin * list txout * error * res verdict)%type => let '(T, ins, outs, pre, ob) := c in
    negb (wf_case T ins outs) ||
    (hard_or_none ob &&
     (negb (accepted_v ob) ||
      (forallb (acc_mid_ok T) ins && (in_eff_sum T ins <? 2 ^ 64) && not_created_partial T ins outs && coins_ok ins outs)))) cases_block.
Print pf_block.
(* the FULL statement on the witness: fails on the unchanged tree (known finding F14) *)
Definition pf_witness := Eval vm_compute in
  failing (fun c : (Z * list uxin * list txout * res error * res verdict)%type => let '(T, ins, outs, ohs, ob) := c in
    (negb (accepted_e ohs) && negb (accepted_v ob)) || not_created_full T ins outs) cases_witness.
Print pf_witness.
(* accrued hours: value, monotone in time, errors persist *)
Definition pf_mono := Eval vm_compute in
  failing (fun c : (uxin * Z * Z * res (Z * error) * res (Z * error))%type => let '(i, t1, t2, o1, o2) := c in
    negb (wf_inb i && in_ub 64 t1 && in_ub 64 t2 && (t1 <=? t2)) ||
    match o1, o2 with
    | Val (h1, None), Val (h2, None) =>
        (h1 <=? h2) && (h1 =? acc_hours t1 i) && (h2 =? acc_hours t2 i) && (h2 <? 2 ^ 64)
    | Val (h1, None), Val (_, Some _) => (h1 =? acc_hours t1 i) && negb (acc_ok t2 i)
    | Val (_, Some _), Val (_, Some _) => negb (acc_ok t1 i)
    | Val (_, Some _), Val (_, None) => t1 <? i_time i   (* impossible from the creation time on *)
    | _, _ => false
    end) cases_mono.
Print pf_mono.
(* premises of the theorems are met by what was explored *)
Definition n_wf := Eval vm_compute in
  count_true (fun c : c_tx => let '(T, ins, outs, pre, (ohs, ocs, ooh), osg) := c in wf_case T ins outs) cases_tx.
Print n_wf.
(* node level, first clause of the property: every transaction of every block the
   node STORED creates no coin hours (PARTIAL form, as the theorem states it) and
   no coins; nothing is stored that was not offered *)
Definition pf_chain := Eval vm_compute in
  failing (fun c : (bool * Z * list (list uxin * list txout * bool) * Z)%type => let '(arb, T, txs, extra) := c in
    (extra =? 0) &&
    forallb (fun t : list uxin * list txout * bool => let '(ins, outs, stored) := t in
      negb stored || negb (wf_case T ins outs) ||
      (forallb (acc_mid_ok T) ins && (in_eff_sum T ins <? 2 ^ 64) && not_created_partial T ins outs && coins_ok ins outs)) txs) cases_chain.
Print pf_chain.
(* the hours held by the unspent set, valued at the previous head time (a new
   output counts its initial hours), never grow when a block is accepted *)
Definition pf_supply := Eval vm_compute in
  failing (fun c : (Z * list uxin * list uxin)%type => let '(T, before, after) := c in
    in_eff_sum T after <=? in_eff_sum T before) cases_supply.
Print pf_supply.
