
(* correspondence: Model/Sync.v vs the real follower visor driven by the real
   daemon.GiveBlocksMessage.process (heads and replies after every message,
   blocks held at the end, same again after the sorted re-delivery), and the
   request/response cycle against the publisher's GetBlocksMessage.process *)
Definition eqb_trace (a b : list (Z * list reply)) : bool :=
  eqb_list (fun x y => (fst x =? fst y) && eqb_list eqb_reply (snd x) (snd y)) a b.
Definition corr_sync (c : sync_case) : bool :=
  let '(f1, reqn, sched, tr, ids, sigs, re, tr2, ids2) := c in
  let '(held, mtr) := run f1 reqn [] sched in
  let '(held2, mtr2) := run f1 reqn held re in
  eqb_trace mtr tr && eqb_list Z.eqb (map d_seq held) ids &&
  eqb_trace mtr2 tr2 && eqb_list Z.eqb (map d_seq held2) ids2.
Definition mism_sync := Eval vm_compute in failing corr_sync cases_sync.
Print mism_sync.
Definition corr_loop (c : Z * Z * Z * Z * list Z) : bool :=
  let '(n, reqn, cap, pre, heads) := c in
  let held := map (fun k => mkd k Genuine) (seqs_from 1 (Z.to_nat pre)) in
  eqb_list Z.eqb (snd (sync_loop false reqn n cap 200 held)) heads.
Definition mism_loop := Eval vm_compute in failing corr_loop cases_loop.
Print mism_loop.
