(* correspondence: the model's block (Model/BlockCreate.v: create_block) vs the
   block the real publisher node created from the same pool; a case also
   counts as failing when the facts handed to the model do not satisfy the
   theorems' hypotheses (hyps_ok) *)
Definition mism_c05 := Eval vm_compute in failing (fun c => hyps_ok c && corr_ok c) cases_c05.
Print mism_c05.
Definition n_hyps_ok_c05 := Eval vm_compute in count_true hyps_ok cases_c05.
Print n_hyps_ok_c05.
