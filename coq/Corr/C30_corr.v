
(* correspondence: the string-level model vs the observed droplet.FromString / ToString *)
Definition mism_from := Eval vm_compute in
  failing (fun c : list Z * outcome Z => let '(s, o) := c in eqb_outcome_Z (from_string s) o) cases_from.
Print mism_from.
Definition mism_to := Eval vm_compute in
  failing (fun c : Z * outcome (list Z) * outcome Z => let '(n, o, back) := c in
             eqb_outcome_bytes (to_string n) o &&
             match o with Ok s => eqb_outcome_Z (from_string s) back | Err _ => true end) cases_to.
Print mism_to.
