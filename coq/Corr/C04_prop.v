
(* C04 decided on the implementation's own outputs: an accepted block is signed,
   extends the head (seq, time, parent hash, body hash, checksum), is not a second
   genesis and is stored under the submitted header with a verifying signature;
   a rejected block leaves the whole projected state (digest) unchanged; the
   database check passes after every op *)
Definition pf_c04 := Eval vm_compute in flat_fail pf_c04_hist cases_hist 0.
Print pf_c04.
