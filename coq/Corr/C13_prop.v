
(* C13 property decided on the implementation's own observables:
   - the caller's transaction is untouched whatever happens (fail_atomic),
   - on success inputs / outputs / inner hash are unchanged; exactly the requested
     (or, if none are named, all unsigned) positions changed; no non-null
     signature was overwritten; every new signature is non-null and verifies
     against the owner's address; untouched positions keep their state,
   - an xpub or encrypted wallet never signs; a transaction whose InnerHash field
     is not the hash of its body (null, another transaction's, corrupted) is
     never signed; signatures are verified over the FINAL inner hash,
   - no panic when the signature array matches the inputs. *)
Definition old_null (t : stx) (i : Z) : bool :=
  match znth (s_sigs t) i with Some s => s =? 0 | None => false end.
Definition pf_sign := Eval vm_compute in
  failing (fun c : wallet * stx * list Z * list Z * R (list (bool * bool * bool)) * bool * bool =>
    let '(w, t, idxs, owners, obs, untouched, kept) := c in
    untouched &&
    match obs with
    | Panic => negb (len (s_sigs t) =? len (s_ins t))
    | Val (inl _) => true
    | Val (inr l) =>
        kept &&
        (s_inner t =? s_inner_actual t) &&                           (* only a transaction whose InnerHash is the hash of its body is signed *)
        negb (match w_kind w with KXPub => true | _ => false end) && negb (w_encrypted w) &&
        (len l =? len (s_sigs t)) &&
        let tg := targets t idxs in
        forallb (fun ix : Z * (bool * bool * bool) =>
          let '(i, (changed, null, ver)) := ix in
          if existsb (Z.eqb i) tg
          then old_null t i && changed && negb null && ver           (* requested: was unsigned, now a valid signature of the owner *)
          else negb changed)                                           (* anything else: untouched *)
          (combine (zrange 0 (len l)) l)
    end) cases_sign.
Print pf_sign.
Definition n_signed := Eval vm_compute in
  count_true (fun c : wallet * stx * list Z * list Z * R (list (bool * bool * bool)) * bool * bool =>
    let '(_, _, _, _, obs, _, _) := c in match obs with Val (inr _) => true | _ => false end) cases_sign.
Print n_signed.
