
(* C19 correspondence: Model/WalletService.v vs the real wallet.Service.
   For every recorded history the model is run from the empty service; after
   every operation the model's error class, memory map and fresh-start result
   must equal what the implementation showed. *)
Definition eqb_view (a b : list wallet) : bool :=
  eq_map a b && (List.length a =? List.length b)%nat.
Definition eqb_reloaded (a b : reloaded) : bool :=
  match a, b with
  | RAbort, RAbort => true
  | RLoaded x, RLoaded y => eqb_view x y
  | _, _ => false
  end.
(* index of the first step on which model and implementation differ (-1: none) *)
Fixpoint first_diff (i : Z) (s : st) (l : list (op * error * list wallet * reloaded * bool)) : Z :=
  match l with
  | [] => -1
  | (o, e, m, r, sok) :: rest =>
      let '(s', e') := step s o in
      if eqb_error e' e && eqb_view (mem s') m && eqb_reloaded (reload (disk s')) r
      then first_diff (i + 1) s' rest else i
  end.
Definition corr_seq (l : list (op * error * list wallet * reloaded * bool)) : bool := first_diff 0 init l =? -1.
Definition mism_seq := Eval vm_compute in failing corr_seq cases_seq.
Print mism_seq.
Definition mism_seq_steps := Eval vm_compute in map (first_diff 0 init) (filter (fun l => negb (corr_seq l)) cases_seq).
Print mism_seq_steps.
(* the harness's id tables (fingerprint <-> seed id) must be consistent *)
Definition mism_tables := Eval vm_compute in failing (fun _ : string => false) id_table_inconsistencies.
Print mism_tables.
