
(* C09 correspondence: model (Model/TxVerify.v) vs the observed verdicts of
   coin.Transaction.Verify / VerifyUnsigned / VerifyInputSignatures *)
Definition c09_corr (c : txn * res error * res error) : bool :=
  let '(t, os, ou) := c in
  res_e_matches (verify true t) os && res_e_matches (verify false t) ou.
Definition mism_txn := Eval vm_compute in failing c09_corr cases_txn.
Print mism_txn.
Definition mism_big := Eval vm_compute in failing c09_corr cases_big.
Print mism_big.
(* VerifyInputSignatures cases refer to the transaction of cases_txn by index *)
Definition txn_at (i : Z) : option txn :=
  match nth_error cases_txn (Z.to_nat i) with Some (t, _, _) => Some t | None => None end.
Definition mism_vis := Eval vm_compute in
  failing (fun c : Z * list (Z * Z) * res error =>
    let '(i, ux, o) := c in
    match txn_at i with Some t => res_e_matches (verify_input_sigs t ux) o | None => false end) cases_vis.
Print mism_vis.
(* the encoded size reported by the implementation follows the wire layout *)
Definition mism_size := Eval vm_compute in
  failing (fun c : txn * res error * res error =>
    let '(t, _, _) := c in
    match t_size t with
    | Some s => s =? 49 + 65 * len (t_sigs t) + 32 * len (t_ins t) + 37 * len (t_outs t)
    | None => true
    end) (cases_txn ++ cases_big).
Print mism_size.
