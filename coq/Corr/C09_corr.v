
(* C09 correspondence: model (Model/TxVerify.v) vs the observed verdicts of
   coin.Transaction.Verify / VerifyUnsigned / VerifyInputSignatures *)
(* a case is a transaction and a HISTORY of verifier calls (signed?, result) made on
   it in that order (with other transactions verified before and after): the model
   is a pure function, every call must give its verdict for that call alone *)
Definition c09_corr (c : txn * list (bool * res error)) : bool :=
  let '(t, calls) := c in
  let vt := verify true t in
  let vf := verify false t in
  forallb (fun k : bool * res error => res_e_matches (if fst k then vt else vf) (snd k)) calls.
Definition mism_txn := Eval vm_compute in failing c09_corr cases_txn.
Print mism_txn.
Definition mism_big := Eval vm_compute in failing c09_corr cases_big.
Print mism_big.
(* VerifyInputSignatures cases refer to the transaction of cases_txn by index *)
Definition txn_at (i : Z) : option txn :=
  match nth_error cases_txn (Z.to_nat i) with Some (t, _) => Some t | None => None end.
Definition mism_vis := Eval vm_compute in
  failing (fun c : Z * list (Z * Z) * res error =>
    let '(i, ux, o) := c in
    match txn_at i with Some t => res_e_matches (verify_input_sigs t ux) o | None => false end) cases_vis.
Print mism_vis.
(* the encoded size reported by the implementation follows the wire layout *)
Definition mism_size := Eval vm_compute in
  failing (fun c : txn * list (bool * res error) =>
    let '(t, _) := c in
    match t_size t with
    | Some s => s =? 49 + 65 * len (t_sigs t) + 32 * len (t_ins t) + 37 * len (t_outs t)
    | None => true
    end) (cases_txn ++ cases_big).
Print mism_size.
