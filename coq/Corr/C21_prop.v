
(* the property on the implementation's own outputs: generated codec and
   reference encoder agree; exact decoding is canonical; nothing panics *)
Definition no_panic_b (a : cres (list Z)) : bool := match a with CErr EPanic => false | _ => true end.
Definition no_panic_d (a : cres (val * Z)) : bool := match a with CErr EPanic => false | _ => true end.
Definition decz_eqb (a b : cres (val * Z)) : bool :=
  match a, b with
  | COk (v, n), COk (v', n') => val_eqb v v' && (n =? n')
  | CErr e, CErr f => cerr_eqb e f
  | _, _ => false
  end.

Definition enc_prop (c : nat * val * cres (list Z) * option Z * Z * Z) : bool :=
  let '(i, v, gen, ref, gsz, rsz) := c in
  no_panic_b gen && (gsz =? rsz) &&
  match gen, ref with
  | COk g, None => Z.of_nat (List.length g) =? gsz   (* None: reference bytes identical *)
  | CErr EMaxLen, Some rlen => rlen =? rsz  (* over-long value: only the generated encoder checks maxlen;
                                     the reference output is then rejected by both decoders (dec cases) *)
  | _, _ => false
  end.
Definition pf_enc := Eval vm_compute in failing enc_prop cases_enc.
Print pf_enc.

Definition dec_prop (c : nat * list Z * cres (val * Z) * option (cres (val * Z)) * cres unit * option (cres (list Z))) : bool :=
  let '(i, bs, gen, ref, exact, reenc) := c in
  no_panic_d gen &&
  match ref with None => true | Some _ => false end &&      (* reference decoder: same value, same rest, same failure kind *)
  match exact with
  | COk _ => match reenc with None => true | Some _ => false end   (* canonical: re-encoding gives the same bytes *)
  | CErr EPanic => false
  | CErr EOther => false
  | CErr _ => true
  end.
Definition pf_dec := Eval vm_compute in failing dec_prop cases_dec.
Print pf_dec.

(* the generated and the reference decoder also agree (failure kind, value) when
   both decode into objects left by the same earlier decode *)
Definition reuse_prop (c : nat * bool * bool) : bool := let '(i, g, r) := c in g && r.
Definition pf_reuse := Eval vm_compute in failing reuse_prop cases_reuse.
Print pf_reuse.
