
(* correspondence of the crash model with the restarted implementation *)
Definition abs_of (s : dbstate) : bool * Z * Z :=
  (buckets s, Z.of_nat (List.length (chain s)), Z.of_nat (List.length (pool s))).
Definition abs_eqb (a b : bool * Z * Z) : bool :=
  let '(x1, y1, z1) := a in let '(x2, y2, z2) := b in Bool.eqb x1 x2 && (y1 =? y2) && (z1 =? z2).
Fixpoint dedup (l : list (bool * Z * Z)) : list (bool * Z * Z) :=
  match l with
  | a :: ((b :: _) as r) => if abs_eqb a b then dedup r else a :: dedup r
  | _ => l
  end.
(* abstract states at the commit boundaries = states of the life-cycle model
   after each prefix of the script (consecutive duplicates removed on both sides:
   the real initialisation uses a few more commits than the model's two) *)
Definition model_abs : list (bool * Z * Z) :=
  let sc := script 0 c08_work in
  dedup (map (fun k => abs_of (run empty_db (firstn k sc))) (seq 1 (List.length sc))).
(* ... and the work list satisfies the premise of C08_crash_between_commits *)
Definition mism_abs := Eval vm_compute in
  ((if eqb_list abs_eqb model_abs (dedup cases_abs) then [] else [0]) ++
   (if wf_work 1 c08_work then [] else [1])).
Print mism_abs.

(* page-level model instantiated on a synthetic commit with the observed number
   of dirty pages: which snapshot does recovery yield? *)
Definition synth_commit (k np : Z) : commit :=
  let dirty := map (fun i => (2000 + Z.of_nat i, k + 1)) (seq 0 (Z.to_nat np)) in
  {| c_old := k; c_new := k + 1; c_txid := k + 10;
     c_old_reach := [(1000, k); (1001, k)];
     c_new_reach := (1000, k) :: dirty;
     c_dirty := dirty |}.
Definition synth_store (k : Z) : store :=
  let mold := {| m_txid := k + 9; m_snap := k; m_ok := true |} in
  let mprev := {| m_txid := k + 8; m_snap := k - 1; m_ok := true |} in
  if slot_of (k + 10)
  then {| pages := [(1000, k); (1001, k)]; meta0 := mold; meta1 := mprev |}
  else {| pages := [(1000, k); (1001, k)]; meta0 := mprev; meta1 := mold |}.
Definition model_recovered (k np j : Z) (mw : meta_write) : option Z :=
  let c := synth_commit k np in
  if cow c && pre_ok (synth_store k) c
  then recover (crash_state (synth_store k) c (Z.to_nat j) mw) else None.
Definition crash_ok (c : Z * Z * Z * meta_write * Z * bool * bool * bool * bool * Z) : bool :=
  let '(k, np, j, mw, rec, opened, checkok, hung, finaleq, chainlen) := c in
  match model_recovered k np j mw with
  | Some r => r =? rec
  | None => false
  end.
Definition mism_crash := Eval vm_compute in failing crash_ok cases_crash.
Print mism_crash.
