
(* correspondence: regenerated Gallina (Gen/*.v) vs the observed behaviour of
   the implementation on the same inputs *)
Definition t2 (f : Z -> Z -> res (Z * error)) (c : Z * Z * res (Z * error)) : bool :=
  let '(a, b, o) := c in res_ze_matches (f a b) o.
Definition t1 (f : Z -> res (Z * error)) (c : Z * res (Z * error)) : bool :=
  let '(a, o) := c in res_ze_matches (f a) o.
Definition mism_add64 := Eval vm_compute in failing (t2 AddUint64) cases_add64.
Print mism_add64.
Definition mism_mul64 := Eval vm_compute in failing (t2 MultUint64) cases_mul64.
Print mism_mul64.
Definition mism_add32 := Eval vm_compute in failing (t2 AddUint32) cases_add32.
Print mism_add32.
Definition mism_u2i := Eval vm_compute in failing (t1 Uint64ToInt64) cases_u2i.
Print mism_u2i.
Definition mism_i2u := Eval vm_compute in failing (t1 Int64ToUint64) cases_i2u.
Print mism_i2u.
Definition mism_int2u32 := Eval vm_compute in failing (t1 IntToUint32) cases_int2u32.
Print mism_int2u32.
Definition mism_reqfee := Eval vm_compute in
  failing (fun c : Z * Z * res Z => let '(h, b, o) := c in res_z_matches (RequiredFee h b) o) cases_reqfee.
Print mism_reqfee.
Definition mism_remaining := Eval vm_compute in
  failing (fun c : Z * Z * res Z => let '(h, b, o) := c in res_z_matches (RemainingHours h b) o) cases_remaining.
Print mism_remaining.
Definition mism_vfee := Eval vm_compute in
  failing (fun c : Z * Z * Z * res error => let '(h, f, b, o) := c in res_e_matches (VerifyTransactionFeeForHours h f b) o) cases_vfee.
Print mism_vfee.
Definition mism_coinhours := Eval vm_compute in
  failing (fun c : Z * Z * Z * Z * res (Z * error) => let '(tm, co, ho, t, o) := c in res_ze_matches (UxOut_CoinHours tm co ho t) o) cases_coinhours.
Print mism_coinhours.

(* ---- loops over slices of structs (Gen/CoinLoops.v, Gen/FeeTxn.v): the regenerated
   Gallina on the projections named in the translator's manifest
   (inputs: (Head.Time, Body.Coins, Body.Hours); outputs: Coins / Hours) vs what
   the six Go functions returned on the same (head time, inputs, outputs) *)
Definition lcase := (Z * list (Z * Z * Z) * list (Z * Z) * res (Z * error) * res (Z * error) *
  res (Z * error) * res error * res error * res (Z * error) * Z * Z * res error)%type.
Definition lp_in_coins (ins : list (Z * Z * Z)) : list Z := map (fun i => snd (fst i)) ins.
Definition mism_l_oh := Eval vm_compute in
  failing (fun c : lcase => let '(T, ins, outs, oh, uxc, uxh, vcs, vhs, fe, vf, burn, vtf) := c in
    res_ze_matches (CoinLoops.Transaction_OutputHours (map snd outs)) oh) cases_loops.
Print mism_l_oh.
Definition mism_l_uxcoins := Eval vm_compute in
  failing (fun c : lcase => let '(T, ins, outs, oh, uxc, uxh, vcs, vhs, fe, vf, burn, vtf) := c in
    res_ze_matches (CoinLoops.UxArray_Coins (lp_in_coins ins)) uxc) cases_loops.
Print mism_l_uxcoins.
Definition mism_l_uxhours := Eval vm_compute in
  failing (fun c : lcase => let '(T, ins, outs, oh, uxc, uxh, vcs, vhs, fe, vf, burn, vtf) := c in
    res_ze_matches (CoinLoops.UxArray_CoinHours ins T) uxh) cases_loops.
Print mism_l_uxhours.
Definition mism_l_vcs := Eval vm_compute in
  failing (fun c : lcase => let '(T, ins, outs, oh, uxc, uxh, vcs, vhs, fe, vf, burn, vtf) := c in
    res_e_matches (CoinLoops.VerifyTransactionCoinsSpending (lp_in_coins ins) (map fst outs)) vcs) cases_loops.
Print mism_l_vcs.
Definition mism_l_vhs := Eval vm_compute in
  failing (fun c : lcase => let '(T, ins, outs, oh, uxc, uxh, vcs, vhs, fe, vf, burn, vtf) := c in
    res_e_matches (CoinLoops.VerifyTransactionHoursSpending T ins (map snd outs)) vhs) cases_loops.
Print mism_l_vhs.
Definition mism_l_txfee := Eval vm_compute in
  failing (fun c : lcase => let '(T, ins, outs, oh, uxc, uxh, vcs, vhs, fe, vf, burn, vtf) := c in
    res_ze_matches (FeeTxn.TransactionFee (map snd outs) T ins) fe) cases_loops.
Print mism_l_txfee.
Definition mism_l_vtf := Eval vm_compute in
  failing (fun c : lcase => let '(T, ins, outs, oh, uxc, uxh, vcs, vhs, fe, vf, burn, vtf) := c in
    res_e_matches (FeeTxn.VerifyTransactionFee (map snd outs) vf burn) vtf) cases_loops.
Print mism_l_vtf.

(* coin.Transactions.TruncateBytesTo (Gen/CoinTruncate.v): the list is what Size()
   returned for each transaction; observable = number of transactions kept, error *)
Definition mism_l_trunc := Eval vm_compute in
  failing (fun c : list (Z * error) * Z * res (Z * error) => let '(l, size, o) := c in
    match Transactions_TruncateBytesTo l size, o with
    | Panic, Panic => true
    | Val (kept, e), Val (n, e') => (Z.of_nat (List.length kept) =? n) && err_matches e e'
    | _, _ => false
    end) cases_trunc.
Print mism_l_trunc.
