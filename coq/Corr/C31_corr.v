
(* correspondence: regenerated Gallina (Gen/*.v) vs the observed behaviour of
   the implementation on the same inputs *)
Definition t2 (f : Z -> Z -> res (Z * error)) (c : Z * Z * res (Z * error)) : bool :=
  let '(a, b, o) := c in res_ze_matches (f a b) o.
Definition t1 (f : Z -> res (Z * error)) (c : Z * res (Z * error)) : bool :=
  let '(a, o) := c in res_ze_matches (f a) o.
Definition mism_add64 := Eval vm_compute in failing (t2 AddUint64) cases_add64.
Print mism_add64.
Definition mism_mul64 := Eval vm_compute in failing (t2 MultUint64) cases_mul64.
Print mism_mul64.
Definition mism_add32 := Eval vm_compute in failing (t2 AddUint32) cases_add32.
Print mism_add32.
Definition mism_u2i := Eval vm_compute in failing (t1 Uint64ToInt64) cases_u2i.
Print mism_u2i.
Definition mism_i2u := Eval vm_compute in failing (t1 Int64ToUint64) cases_i2u.
Print mism_i2u.
Definition mism_int2u32 := Eval vm_compute in failing (t1 IntToUint32) cases_int2u32.
Print mism_int2u32.
Definition mism_reqfee := Eval vm_compute in
  failing (fun c : Z * Z * res Z => let '(h, b, o) := c in res_z_matches (RequiredFee h b) o) cases_reqfee.
Print mism_reqfee.
Definition mism_remaining := Eval vm_compute in
  failing (fun c : Z * Z * res Z => let '(h, b, o) := c in res_z_matches (RemainingHours h b) o) cases_remaining.
Print mism_remaining.
Definition mism_vfee := Eval vm_compute in
  failing (fun c : Z * Z * Z * res error => let '(h, f, b, o) := c in res_e_matches (VerifyTransactionFeeForHours h f b) o) cases_vfee.
Print mism_vfee.
Definition mism_coinhours := Eval vm_compute in
  failing (fun c : Z * Z * Z * Z * res (Z * error) => let '(tm, co, ho, t, o) := c in res_ze_matches (UxOut_CoinHours tm co ho t) o) cases_coinhours.
Print mism_coinhours.
