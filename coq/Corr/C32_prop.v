
(* the property itself, decided on the observed run: it terminated within the
   watchdog, nothing panicked, no connection is left registered after Shutdown,
   every call returned a value or pool-closed, a call returned pool-closed only
   after Shutdown had started, a value only after Run had been called, and no call that started after Shutdown had
   returned got a value *)
Fixpoint check_log (codes : list Z) (shut_started shut_returned run_started : bool) : bool :=
  match codes with
  | [] => shut_returned
  | c :: r =>
    let k := (c mod 16) / 2 in
    let ran := Z.odd c in
    if k =? 0 then (if ran then negb shut_returned else true) && check_log r shut_started shut_returned run_started
    else if k =? 1 then (if ran then run_started else shut_started) && check_log r shut_started shut_returned run_started
    else if k =? 2 then negb shut_started && check_log r true shut_returned run_started
    else if k =? 3 then shut_started && negb shut_returned && check_log r shut_started true run_started
    else if k =? 4 then negb run_started && check_log r shut_started shut_returned true
    else run_started && check_log r shut_started shut_returned run_started
  end.
Definition prop_trace (c : list Z * list Z * bool * Z * Z) : bool :=
  let '(per_thread, codes, hang, size, panics) := c in
  negb hang && (panics =? 0) && (size =? 0) && check_log codes false false false.
Definition pf_trace := Eval vm_compute in failing prop_trace cases_trace.
Print pf_trace.
