(* the property, decided on the node's own outputs (no model state): after every
   operation the pool keys are strictly increasing (no duplicates); a
   transaction entered only if the hard rules held (user submissions: user,
   hard and soft rules), with flag = soft verdict; known transactions are
   reported and not duplicated; an accepted block's transactions left the pool
   and nothing else did; after Refresh flags = fresh re-check; after
   RemoveInvalid exactly the hard-invalid entries are gone. *)
Definition pf_c06 := Eval vm_compute in failing prop_ok cases_c06.
Print pf_c06.
Definition first_bad_c06 := Eval vm_compute in
  map (fun h => first_bad 0 [] (h_steps h)) (filter (fun h => negb (prop_ok h)) cases_c06).
Print first_bad_c06.
