
(* C17 correspondence: Model/Wallets.v against the wallets of the implementation,
   state by state. The derivation oracle (`step`, `child`) is a table computed with
   the cipher primitives directly; positions beyond the table yield "?". *)
Definition eqb_strs : list string -> list string -> bool := eqb_list String.eqb.
Definition det_case : Type :=
  list string * (nat * nat * (string -> bool)) * list (dop string) * list (nat * list string) * list string * bool.
Definition det_model (c : det_case) : list (nat * list string) :=
  let '(table, (gn, sn, act0), ops, _, _, _) := c in
  let w0 := d_new nat string (step_of table) 0 gn sn act0 in
  map (fun w => (d_last w, d_entries w)) (w0 :: d_trace nat string (step_of table) ops w0).
Definition det_obs_eqb (a b : nat * list string) : bool := Nat.eqb (fst a) (fst b) && eqb_strs (snd a) (snd b).
Definition mism_det := Eval vm_compute in
  failing (fun c : det_case => let '(_, _, _, obs, _, _) := c in eqb_list det_obs_eqb (det_model c) obs) cases_det.
Print mism_det.

Definition idx_case : Type :=
  list (list string) * nat * list (iop string) * list (iop string) * list (list (list string)) * list (list string) * bool.
Definition idx_model (c : idx_case) : list (list (list string)) :=
  let '(tables, nchains, init_ops, ops, _, _, _) := c in
  let w0 := i_run string (child_of tables) init_ops (repeat [] nchains) in
  w0 :: i_trace string (child_of tables) ops w0.
Definition mism_idx := Eval vm_compute in
  failing (fun c : idx_case => let '(_, _, _, _, obs, _, _) := c in eqb_list (eqb_list eqb_strs) (idx_model c) obs) cases_idx.
Print mism_idx.
