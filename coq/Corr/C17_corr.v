
(* C17 correspondence: Model/Wallets.v against the wallets of the implementation,
   state by state. The derivation oracle (`step`, `child`) is a table computed with
   the cipher primitives directly; positions beyond the table yield "?". *)
Definition eqb_strs : list string -> list string -> bool := eqb_list String.eqb.
Definition det_case : Type :=
  coin * list string * (nat * nat * (string -> bool)) * list (dop string) * list (nat * list string) * list string * bool.
(* the wallet carries its coin; entries are shown through the coin's address
   function: the table holds the addresses in the text form of the case's coin *)
Definition key_in (cn : coin) (c : coin) (k : string) : string := if coin_eqb c cn then k else "?"%string.
Definition det_model (c : det_case) : list (nat * list string) :=
  let '(cn, table, (gn, sn, act0), ops, _, _, _) := c in
  let w0 := d_new nat string (step_of table) 0 gn sn act0 in
  map (fun w => (d_last w, cd_entries nat string string (key_in cn) {| cd_coin := cn; cd_w := w |}))
      (w0 :: d_trace nat string (step_of table) ops w0).
Definition det_obs_eqb (a b : nat * list string) : bool := Nat.eqb (fst a) (fst b) && eqb_strs (snd a) (snd b).
Definition mism_det := Eval vm_compute in
  failing (fun c : det_case => let '(_, _, _, _, obs, _, _) := c in eqb_list det_obs_eqb (det_model c) obs) cases_det.
Print mism_det.

Definition idx_case : Type :=
  coin * list (list string) * nat * list (iop string) * list (iop string) * list (list (list string)) * list (list string) * bool.
Definition child_in (cn : coin) (tables : list (list string)) (c : coin) : nat -> nat -> string :=
  if coin_eqb c cn then child_of tables else child_of [].
Definition idx_model (c : idx_case) : list (list (list string)) :=
  let '(cn, tables, nchains, init_ops, ops, _, _, _) := c in
  let w0 := cw_run string (child_in cn tables) init_ops {| cw_coin := cn; cw_chains := repeat [] nchains |} in
  map cw_chains (w0 :: cw_trace string (child_in cn tables) ops w0).
Definition mism_idx := Eval vm_compute in
  failing (fun c : idx_case => let '(_, _, _, _, _, obs, _, _) := c in eqb_list (eqb_list eqb_strs) (idx_model c) obs) cases_idx.
Print mism_idx.
