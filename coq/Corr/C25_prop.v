
(* the property decided on the implementation's own outputs.
   verify: Verify never panics and returns nil exactly when the message is not a
           self connection, has a supported version, carries this network's
           blockchain pubkey, valid verify-txn params, a user agent that decodes
           (<= 256 bytes, inside Extra) and is valid, and nothing or >= 32 bytes
           after it (intro_ok_b, the declarative condition).
   gate:   while the connection exists and is not introduced, any message other
           than INTR / DISC / GIVP makes the daemon queue exactly one
           DisconnectMessage(NoIntroduction) and leaves the state unchanged; the
           connection is introduced afterwards only if it was before or the
           message is an introduction that Verify accepts. *)
Definition pf_verify := Eval vm_compute in
  failing (fun c : intro_msg * option (bytes * bool) * res verdict => let '(m, orc, r) := c in
             match r with
             | Panic => false
             | Val (Accept _) => intro_ok_b (oracle_of orc) the_cfg m
             | Val (Reject _) => negb (intro_ok_b (oracle_of orc) the_cfg m)
             end) cases_verify.
Print pf_verify.

Definition c25_event_passes (e : gate_event) : bool :=
  match e with GIntro _ _ => true | GOther k => passes_gate k end.
(* pre = (exists, introduced) as observed after the previous message *)
Fixpoint c25_gate_pf (ex intro : bool) (l : list (gate_event * bool * list sent * bool * bool * bool)) : bool :=
  match l with
  | [] => true
  | (e, accepts, snt, ex', intro', panicked) :: r =>
      negb panicked
      && (negb (ex && negb intro && negb (c25_event_passes e))
          || (eqb_list sent_eqb snt [SDisconnect RNoIntroduction] && ex' && negb intro'))
      && (negb intro' || intro || (match e with GIntro _ _ => accepts | _ => false end))
      && c25_gate_pf ex' intro' r
  end.
Definition pf_gate := Eval vm_compute in failing (c25_gate_pf true false) cases_gate.
Print pf_gate.
