
(* the property itself, decided on the implementation's own outputs *)

(* kind 0: a stream built from frames of acceptable length: every chunking
   delivers exactly those frames and leaves the buffer empty.
   kind 1: arbitrary bytes: delivery equals the content of the whole stream
   (chunking independence); an invalid length => disconnect, and only frames in
   front of it were delivered. *)
Definition prop_stream_obs (kind max : Z) (chunks intended : list bytes) (obs : list bytes * bytes * Z) : bool :=
  let '(d, b, code) := obs in
  if kind =? 0 then
    forallb (frame_okb max) intended
    && eqb_bytes (concat chunks) (concat (map enc_frame intended))
    && eqb_frames d intended && eqb_bytes b [] && (code =? 0)
  else
    match parse max (concat chunks) with
    | (fs, Wait rest) => eqb_frames d fs && eqb_bytes b rest && (code =? 0)
    | (fs, Bad) => (code =? 1) && is_prefix d fs
    | (_, NoFuel) => false
    end.
(* obs: decodeData over a persistent buffer; obs2: the same reads through the real
   readLoop (None = byte-identical to obs). Both must satisfy the property. *)
Definition prop_stream (c : Z * Z * list bytes * list bytes * (list bytes * bytes * Z) * option (list bytes * bytes * Z)) : bool :=
  let '(kind, max, chunks, intended, obs, obs2) := c in
  prop_stream_obs kind max chunks intended obs
  && match obs2 with None => true | Some o2 => prop_stream_obs kind max chunks intended o2 end.
Definition pf_stream := Eval vm_compute in failing prop_stream cases_stream.
Print pf_stream.

(* convertToMessage: never panics; a message results exactly when the id is
   registered and the decoder consumed exactly the body; otherwise a disconnect
   reason (unknown id / undecodable / trailing bytes); a message built by the
   node re-encodes to the same frame *)
(* handler_ok: the message convertToMessage produced was handed to its real Handle
   and process (recording daemoner) and they returned without a panic. Handler
   totality is observed on the implementation at run time, it is not a theorem. *)
Definition prop_convert (c : bytes * decoded * Z * bool * bool) : bool :=
  let '(f, dec, code, same, handler_ok) := c in
  handler_ok &&
  let known := id_known (obs_table ++ test_ids) (firstn 4 f) in
  let body := skipn 4 f in
  (negb (code =? 98) && negb (code =? 97) && same &&
  (if blen f <? 4 then code =? 2
   else if negb known then code =? 3
   else match dec with
        | DecPanic | DecErr => code =? 4
        | DecOk used => if used =? blen body then code =? 0 else code =? 5
        end)).
Definition pf_convert := Eval vm_compute in failing prop_convert cases_convert.
Print pf_convert.

(* pool: without a fault every frame is handled, in order, and the peer is not
   disconnected for a protocol reason; with a faulty frame at index k exactly the
   k frames before it are handled and the peer is disconnected with the reason of
   that frame; with an invalid length prefix after the frames (fault = number of
   frames) the peer is disconnected for the invalid length and what was handled
   is a prefix of the frames (frames that arrived in the same read as the
   invalid prefix are dropped with it) *)
Definition prop_pool (c : Z * list bytes * list (bytes * decoded) * Z * (list bytes * Z)) : bool :=
  let '(max, chunks, fds, fault, obs) := c in
  let '(h, code) := obs in
  let frames := map fst fds in
  if fault <? 0 then eqb_frames h frames && (code =? 0)
  else if fault =? Z.of_nat (List.length frames) then is_prefix h frames && (code =? 1)
  else eqb_frames h (firstn (Z.to_nat fault) frames) && (2 <=? code) && (code <=? 5).
Definition pf_pool := Eval vm_compute in failing prop_pool cases_pool.
Print pf_pool.

(* large frames: a stream of well-formed messages, one of them above 32 KiB and
   followed at once by further ones, every read boundary inside a frame: the real
   readLoop delivers, and the real pool handles, exactly those messages in order
   (compared as length + fingerprint), nothing is left in the buffer, no disconnect *)
Definition eqb_zz (a b : Z * Z) : bool := (fst a =? fst b) && (snd a =? snd b).
Definition big_frame (p : Z * Z) : bytes := [84; 83; 84; 65] ++ le_bytes 4 (snd p) ++ gen_bytes (fst p) (snd p).
Definition len_fp (f : bytes) : Z * Z := (blen f, fingerprint f).
Definition prop_big (c : Z * list (Z * Z) * list (Z * Z) * (list (Z * Z) * Z * Z) * (list (Z * Z) * Z)) : bool :=
  let '(max, specs, lens, obs, pobs) := c in
  let frames := map big_frame specs in
  let expected := map len_fp frames in
  let '(od, obl, ocode) := obs in
  forallb (frame_okb max) frames
  && eqb_list eqb_zz od expected && (obl =? 0) && (ocode =? 0)
  && eqb_list eqb_zz (fst pobs) expected && (snd pobs =? 0).
Definition pf_big := Eval vm_compute in failing prop_big cases_big.
Print pf_big.
