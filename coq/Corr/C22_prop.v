
(* the property itself, decided on the implementation's own outputs *)

(* kind 0: a stream built from frames of acceptable length: every chunking
   delivers exactly those frames and leaves the buffer empty.
   kind 1: arbitrary bytes: delivery equals the content of the whole stream
   (chunking independence); an invalid length => disconnect, and only frames in
   front of it were delivered. *)
Definition prop_stream (c : Z * Z * list bytes * list bytes * (list bytes * bytes * Z)) : bool :=
  let '(kind, max, chunks, intended, obs) := c in
  let '(d, b, code) := obs in
  if kind =? 0 then
    forallb (frame_okb max) intended
    && eqb_bytes (concat chunks) (concat (map enc_frame intended))
    && eqb_frames d intended && eqb_bytes b [] && (code =? 0)
  else
    match parse max (concat chunks) with
    | (fs, Wait rest) => eqb_frames d fs && eqb_bytes b rest && (code =? 0)
    | (fs, Bad) => (code =? 1) && is_prefix d fs
    | (_, NoFuel) => false
    end.
Definition pf_stream := Eval vm_compute in failing prop_stream cases_stream.
Print pf_stream.

(* convertToMessage: never panics; a message results exactly when the id is
   registered and the decoder consumed exactly the body; otherwise a disconnect
   reason (unknown id / undecodable / trailing bytes); a message built by the
   node re-encodes to the same frame *)
Definition prop_convert (c : bytes * decoded * Z * bool) : bool :=
  let '(f, dec, code, same) := c in
  let known := id_known (obs_table ++ test_ids) (firstn 4 f) in
  let body := skipn 4 f in
  negb (code =? 98) && negb (code =? 97) && same &&
  (if blen f <? 4 then code =? 2
   else if negb known then code =? 3
   else match dec with
        | DecPanic | DecErr => code =? 4
        | DecOk used => if used =? blen body then code =? 0 else code =? 5
        end).
Definition pf_convert := Eval vm_compute in failing prop_convert cases_convert.
Print pf_convert.

(* pool: without a fault every frame is handled, in order, and the peer is not
   disconnected for a protocol reason; with a faulty frame at index k exactly the
   k frames before it are handled and the peer is disconnected with the reason of
   that frame; with an invalid length prefix after the frames (fault = number of
   frames) the peer is disconnected for the invalid length and what was handled
   is a prefix of the frames (frames that arrived in the same read as the
   invalid prefix are dropped with it) *)
Definition prop_pool (c : Z * list bytes * list (bytes * decoded) * Z * (list bytes * Z)) : bool :=
  let '(max, chunks, fds, fault, obs) := c in
  let '(h, code) := obs in
  let frames := map fst fds in
  if fault <? 0 then eqb_frames h frames && (code =? 0)
  else if fault =? Z.of_nat (List.length frames) then is_prefix h frames && (code =? 1)
  else eqb_frames h (firstn (Z.to_nat fault) frames) && (2 <=? code) && (code <=? 5).
Definition pf_pool := Eval vm_compute in failing prop_pool cases_pool.
Print pf_pool.
