
(* C03 correspondence: the executable model (Model/Hours.v over the regenerated
   Gen/CoinHours.v, Gen/Mathutil.v) against what the implementation returned
   on the same inputs. Every list must print []. *)
Definition c_tx := (Z * list uxin * list txout * error * (res error * res error * res (Z * error)) * res verdict)%type.
Definition mism_hs := Eval vm_compute in
  failing (fun c : c_tx => let '(T, ins, outs, pre, (ohs, ocs, ooh), osg) := c in
    res_e_matches (VerifyTransactionHoursSpending T ins outs) ohs) cases_tx.
Print mism_hs.
Definition mism_cs := Eval vm_compute in
  failing (fun c : c_tx => let '(T, ins, outs, pre, (ohs, ocs, ooh), osg) := c in
    res_e_matches (VerifyTransactionCoinsSpending ins outs) ocs) cases_tx.
Print mism_cs.
Definition mism_oh := Eval vm_compute in
  failing (fun c : c_tx => let '(T, ins, outs, pre, (ohs, ocs, ooh), osg) := c in
    res_ze_matches (Transaction_OutputHours outs) ooh) cases_tx.
Print mism_oh.
Definition mism_single := Eval vm_compute in
  failing (fun c : c_tx => let '(T, ins, outs, pre, (ohs, ocs, ooh), osg) := c in
    res_verdict_matches (VerifySingleTxnHardConstraints pre T ins outs) osg) cases_tx.
Print mism_single.
Definition mism_block := Eval vm_compute in
  failing (fun c : (Z * list uxin * list txout * error * res verdict)%type => let '(T, ins, outs, pre, ob) := c in
    res_verdict_matches (VerifyBlockTxnConstraints pre T ins outs) ob) cases_block.
Print mism_block.
(* the witness of C03_hours_block_wrap_refuted: the model accepts it; so must the
   implementation (a silent repair upstream shows here) *)
Definition mism_witness := Eval vm_compute in
  failing (fun c : (Z * list uxin * list txout * res error * res verdict)%type => let '(T, ins, outs, ohs, ob) := c in
    res_e_matches (VerifyTransactionHoursSpending T ins outs) ohs &&
    res_verdict_matches (VerifyBlockTxnConstraints None T ins outs) ob) cases_witness.
Print mism_witness.
Definition mism_mono := Eval vm_compute in
  failing (fun c : (uxin * Z * Z * res (Z * error) * res (Z * error))%type => let '(i, t1, t2, o1, o2) := c in
    res_ze_matches (coin_hours t1 i) o1 && res_ze_matches (coin_hours t2 i) o2) cases_mono.
Print mism_mono.
