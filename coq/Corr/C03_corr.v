
(* C03 correspondence: the executable model (Model/Hours.v over the regenerated
   Gen/CoinHours.v, Gen/Mathutil.v) against what the implementation returned
   on the same inputs. Every list must print []. *)
Definition c_tx := (Z * list uxin * list txout * error * (res error * res error * res (Z * error)) * res verdict)%type.
Definition mism_hs := Eval vm_compute in
  failing (fun c : c_tx => let '(T, ins, outs, pre, (ohs, ocs, ooh), osg) := c in
    res_e_matches (VerifyTransactionHoursSpending T ins outs) ohs) cases_tx.
Print mism_hs.
Definition mism_cs := Eval vm_compute in
  failing (fun c : c_tx => let '(T, ins, outs, pre, (ohs, ocs, ooh), osg) := c in
    res_e_matches (VerifyTransactionCoinsSpending ins outs) ocs) cases_tx.
Print mism_cs.
Definition mism_oh := Eval vm_compute in
  failing (fun c : c_tx => let '(T, ins, outs, pre, (ohs, ocs, ooh), osg) := c in
    res_ze_matches (Transaction_OutputHours outs) ooh) cases_tx.
Print mism_oh.
Definition mism_single := Eval vm_compute in
  failing (fun c : c_tx => let '(T, ins, outs, pre, (ohs, ocs, ooh), osg) := c in
    res_verdict_matches (VerifySingleTxnHardConstraints pre T ins outs) osg) cases_tx.
Print mism_single.
Definition mism_block := Eval vm_compute in
  failing (fun c : (Z * list uxin * list txout * error * res verdict)%type => let '(T, ins, outs, pre, ob) := c in
    res_verdict_matches (VerifyBlockTxnConstraints pre T ins outs) ob) cases_block.
Print mism_block.
(* the witness of C03_hours_block_wrap_refuted: the model accepts it; so must the
   implementation (a silent repair upstream shows here) *)
Definition mism_witness := Eval vm_compute in
  failing (fun c : (Z * list uxin * list txout * res error * res verdict)%type => let '(T, ins, outs, ohs, ob) := c in
    res_e_matches (VerifyTransactionHoursSpending T ins outs) ohs &&
    res_verdict_matches (VerifyBlockTxnConstraints None T ins outs) ob) cases_witness.
Print mism_witness.
Definition mism_mono := Eval vm_compute in
  failing (fun c : (uxin * Z * Z * res (Z * error) * res (Z * error))%type => let '(i, t1, t2, o1, o2) := c in
    res_ze_matches (coin_hours t1 i) o1 && res_ze_matches (coin_hours t2 i) o2) cases_mono.
Print mism_mono.
(* node level: which transactions of an offered block end up in the block the node
   STORED (re-read from the database). A follower stores the block iff every
   transaction passes the block rules; an arbitrating publisher stores exactly the
   transactions that pass them (its fee-sorting step also drops a transaction
   whose fee is not computable). All offered transactions are structurally valid,
   correctly signed and spend distinct existing outputs (pre = None). *)
Definition block_rule_ok (T : Z) (ins : list uxin) (outs : list txout) : bool :=
  match VerifyBlockTxnConstraints None T ins outs with Val None => true | _ => false end.
Definition fee_computable (T : Z) (ins : list uxin) (outs : list txout) : bool :=
  match UxArray_CoinHours T ins, Transaction_OutputHours outs with
  | Val (hin, None), Val (hout, None) => hout <=? hin
  | _, _ => false
  end.
Definition mism_chain := Eval vm_compute in
  failing (fun c : (bool * Z * list (list uxin * list txout * bool) * Z)%type => let '(arb, T, txs, extra) := c in
    let ok := map (fun t : list uxin * list txout * bool => let '(ins, outs, _) := t in
                     block_rule_ok T ins outs && (negb arb || fee_computable T ins outs)) txs in
    let expected := if arb then ok else map (fun _ => forallb (fun b => b) ok) ok in
    eqb_list Bool.eqb expected (map (fun t : list uxin * list txout * bool => snd t) txs) && (extra =? 0)) cases_chain.
Print mism_chain.
