
(* the property on the implementation's own behaviour: every crash image opens,
   passes forced verification in bounded time, recovers the state before or
   after the interrupted commit, and after re-delivery equals the node that
   never crashed *)
Definition crash_prop (c : Z * Z * Z * meta_write * Z * bool * bool * bool * bool * Z) : bool :=
  let '(k, np, j, mw, rec, opened, checkok, hung, finaleq, chainlen) := c in
  opened && checkok && negb hung && finaleq && ((rec =? k) || (rec =? k + 1)).
Definition pf_crash := Eval vm_compute in failing crash_prop cases_crash.
Print pf_crash.

(* restart right after the stop: while the old process still holds the file lock
   for less than the node's lock timeout (5 s), OpenDB waits and opens *)
Definition lock_prop (c : Z * bool * Z) : bool :=
  let '(held, opened, waited) := c in (5000 <=? held) || (opened && (waited <? 5000 + held)).
Definition pf_lock := Eval vm_compute in failing lock_prop cases_lock.
Print pf_lock.
