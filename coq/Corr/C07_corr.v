
(* correspondence: the incremental state of Model/Views.v (mirror of
   Unspents.ProcessBlock / buildAddrIndex / HistoryDB.ParseBlock / initHistory and of
   the Visor query methods) vs what the real visor answered after every step *)
Definition bal_matches (m : res (string + list (Z * Z * Z * Z))) (o : string + list (Z * Z * Z * Z)) : bool :=
  match m, o with
  | Val (inl x), inl y => String.eqb x y
  | Val (inr x), inr y => eqb_list eqb_quad x y
  | _, _ => false
  end.
(* codes of the query classes, for the diagnostics: chk in Model/Views.v *)
Definition model_check (n : node) (p : pool) (o : obs) : list Z :=
  chk 1 (head_seq (n_chain n) =? ob_head o) ++
  chk 2 (q_addr_count n =? ob_count o) ++
  chk 3 (forallb (fun '(a, r) => eqb_optl (option_map sortZ (q_unspents n a)) r) (ob_unspents o)) ++
  chk 4 (forallb (fun '(addrs, r) => bal_matches (q_balance true n p addrs) r) (ob_bal o)) ++
  chk 5 (forallb (fun '(id, r) => eqb_option eqb_uxobs (option_map hout_obs (q_uxout n id)) r) (ob_ux o)) ++
  chk 6 (forallb (fun '(a, l) => eqb_list Z.eqb (q_addr_outs n a) l) (ob_aouts o)) ++
  chk 7 (forallb (fun '(kind, addrs, rows, ordered) => eqb_list eqb_row (q_txns n p kind addrs) rows && ordered) (ob_txq o)) ++
  chk 8 (forallb (fun '(k, r) => eqb_option Z.eqb (q_block_by_seq n k) r) (ob_bseq o) &&
         forallb (fun '(lo, hi, l) => eqb_list Z.eqb (q_blocks_in_range n lo hi) l) (ob_brange o) &&
         forallb (fun '(num, l) => eqb_list Z.eqb (q_last_blocks n num) l) (ob_blast o) &&
         forallb (fun '(sq, ct, l) => eqb_list Z.eqb (q_blocks_since n sq ct) l) (ob_bsince o)) ++
  chk 11 (forallb (fun '(api, args, r) => eqb_option (eqb_list eqb_brow) (q_bq n api args) r) (ob_bq o)).
(* runs a history; returns (step index, failing codes) of the first step that differs *)
Fixpoint model_steps (i : Z) (n : node) (steps : list hstep) : list (Z * list Z) :=
  match steps with
  | [] => []
  | (hop, p, o) :: r =>
      let next := match hop with
                  | HBlock b => if b_uxhash b =? q_uxhash n then step n (OBlock b) else None
                  | HReopen iw hw order => step n (OReopen iw hw order)
                  | HPool => Some n
                  end in
      match next with
      | None => [(i, [0])]          (* the model rejects what the node accepted / checksum in the header differs *)
      | Some n' => match model_check n' p o with
                   | [] => model_steps (i + 1) n' r
                   | bad => [(i, bad)]
                   end
      end
  end.
Definition corr_hist (h : list hstep) : bool := is_empty (model_steps 0 node_empty h).
Definition mism_hist := Eval vm_compute in failing corr_hist cases_hist.
Print mism_hist.
Definition diag_mism_hist := Eval vm_compute in
  map (fun i => (i, model_steps 0 node_empty (nth (Z.to_nat i) cases_hist []))) mism_hist.
Print diag_mism_hist.
(* the state in which the pool holds a transaction with an already spent input: the
   model (as the code) answers every balance query with the GetArray error *)
Definition mism_stale := Eval vm_compute in failing (fun c : Z * Z * bool => snd c) cases_stale.
Print mism_stale.

(* concurrency group: every answer given while blocks were being executed equals the
   model's answer in ONE of the states the node went through during the call *)
Definition conc_q_model (states : list (option (node * pool))) (q : Z * Z * cq) : bool :=
  let '(lo, hi, c) := q in
  match c with
  | CQBal addrs r => exists_state states lo hi (fun n p => bal_matches (q_balance true n p addrs) r)
  | CQTx kind addrs rows => exists_state states lo hi (fun n p => eqb_list eqb_row (q_txns n p kind addrs) rows)
  end.
Definition corr_conc (c : conc_case) : bool :=
  let states := conc_states node_empty (fst c) in forallb (conc_q_model states) (snd c).
Definition mism_conc := Eval vm_compute in failing corr_conc cases_conc.
Print mism_conc.
