
(* the property on the implementation's own answers.  A request's observable is
   (code, alive): code = HTTP status, 0 = handler panic (recovered by the
   harness's middleware; 599 is its marker status), -1 = no answer within the
   watchdog, -2 = transport error (dropped connection); alive = the node still
   answered /version, /blockchain/metadata and /wallets afterwards. *)
Definition answered (code : Z) : bool := (100 <=? code) && (code <? 599).
Definition pf_requests := Eval vm_compute in
  failing (fun c : Z * Z => let '(code, alive) := c in answered code && (alive =? 1)) cases_requests.
Print pf_requests.
(* "verifying any encoded transaction returns a verdict" *)
Definition pf_vtv := Eval vm_compute in
  failing (fun c : vfacts * Z => let '(_, code) := c in is_verdict code) cases_vtv.
Print pf_vtv.
(* requests whose work is proportional to an unbounded count parameter *)
Definition pf_unbounded_count := Eval vm_compute in failing answered cases_unbounded_count.
Print pf_unbounded_count.
Definition pf_alive := Eval vm_compute in (if alive_at_end then [] else [0]) : list Z.
Print pf_alive.
(* concurrency phase (run-time check only): concurrent clients against a node in a child
   process; 1 = every request answered and the process still answering afterwards *)
Definition pf_concurrency := Eval vm_compute in failing (fun c : Z => c =? 1) cases_concurrency.
Print pf_concurrency.
(* what was explored: how many verify requests were in the situation of F6 *)
Definition n_double_spend := Eval vm_compute in
  count_true (fun c : vfacts * Z => let '(f, _) := c in
     negb (all_unspent (f_inputs f)) && all_in_history (f_inputs f) && match f_hist_txn f with LNil => true | _ => false end) cases_vtv.
Print n_double_spend.
