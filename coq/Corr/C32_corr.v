
(* correspondence: each observed log of a run of the real pool is replayed on
   Model/StrandPool.v (every logged event inside its real interval); the model
   must accept it, end with every caller finished with exactly the observed
   results, Shutdown returned, and no connection registered — as observed *)
Definition decode_event (c : Z) : event :=
  let i := Z.to_nat (c / 16) in
  let k := (c mod 16) / 2 in
  let ran := Z.odd c in
  if k =? 0 then ECallStart i ran
  else if k =? 1 then ECallReturn i ran
  else if k =? 2 then EShutStart
  else if k =? 3 then EShutReturn
  else if k =? 4 then ERunStart else ERunFail.
Definition observed_results (nthreads : nat) (evs : list event) : list (list result) :=
  map (fun i => rev (flat_map (fun e => match e with
                                   | ECallReturn j ran => if Nat.eqb i j then [if ran then ROk else RClosed] else []
                                   | _ => [] end) evs))
      (seq 0 nthreads).
Definition eqb_result (a b : result) : bool :=
  match a, b with ROk, ROk | RClosed, RClosed => true | _, _ => false end.
Definition trace_allowed (c : list Z * list Z * bool * Z * Z) : bool :=
  let '(per_thread_z, codes, hang, size, panics) := c in
  let per_thread := map Z.to_nat per_thread_z in
  let evs := map decode_event codes in
  match replay per_thread evs with
  | None => false
  | Some s =>
    forallb finished (callers s)
    && eqb_list (eqb_list eqb_result) (map results (callers s)) (observed_results (List.length per_thread) evs)
    && match shut s with SFinished => true | _ => false end
    && (Z.of_nat (List.length (conns s)) =? size)
    && negb hang
  end.
Definition mism_trace := Eval vm_compute in failing trace_allowed cases_trace.
Print mism_trace.
