
(* C18 correspondence: the hand-written model (Model/WalletCrypt.v) against the
   observed behaviour of the implementation on the same inputs. Oracle tables
   hold true facts computed with the implementation's own primitives; a missing
   entry yields an empty answer, which can only produce a mismatch, never hide one. *)
Definition lookup_h (t : list (list Z * list Z)) (x : list Z) : list Z :=
  match find (fun p => bytes_eqb (fst p) x) t with Some p => snd p | None => [] end.
Definition res_dres_eqb : res dres -> res dres -> bool := eqb_res dres_eqb.

(* csh = SHA256 of the input after its first 32 bytes; htab = further (input, SHA256)
   pairs; ksl = keystream blocks for the nonce found at bytes 32..64 of the input *)
Definition sha_model (c : bool * option (list Z) * list Z * list (list Z * list Z) * list (list Z) * (Z * list Z) * res dres) : res dres :=
  let '(pwe, dec, csh, htab, ksl, _, _) := c in
  let raw := match dec with Some r => r | None => [] end in
  let H := fun x => if bytes_eqb x (skipn 32 raw) then csh else lookup_h htab x in
  let KS := fun n i => if bytes_eqb n (firstn 32 (skipn 32 raw))
                       then match nth_error ksl (Z.to_nat i) with Some k => k | None => [] end else [] in
  sha_decrypt H KS pwe dec.
Definition mism_sha := Eval vm_compute in failing (fun c => res_dres_eqb (sha_model c) (snd c)) cases_sha.
Print mism_sha.

(* the JSON oracle answers for the segment the harness parsed, identified by its length *)
Definition j_of (t : list (Z * option smeta)) (x : list Z) : option smeta :=
  match find (fun p => fst p =? len x) t with Some p => snd p | None => None end.
Definition scrypt_model (c : bool * option (list Z) * Z * list (Z * option smeta) * option (list Z) * (Z * list Z) * res dres) : res dres :=
  let '(pwe, dec, _, jtab, aead, _, _) := c in
  scrypt_decrypt (j_of jtab) (fun _ _ _ => aead) c18_mem_limit pwe dec.
Definition mism_scrypt := Eval vm_compute in failing (fun c => res_dres_eqb (scrypt_model c) (snd c)) cases_scrypt.
Print mism_scrypt.

Definition eqb_sp (a b : string * string) : bool := String.eqb (fst a) (fst b) && String.eqb (snd a) (snd b).
Definition obs_t : Type := error * bool * string * string * string * list string * list (list (string * string)) * bool.
Definition wallet_obs_eqb (w : wallet ideal_C) (e : error) (o : obs_t) : bool :=
  let '(oe, oenc, oseed, olast, opass, oxprv, ochains, _) := o in
  eqb_error e oe && Bool.eqb (w_enc _ w) oenc && String.eqb (w_seed _ w) oseed && String.eqb (w_lastseed _ w) olast
  && String.eqb (w_pass _ w) opass && eqb_list String.eqb (map snd (w_xprv _ w)) oxprv
  && eqb_list (eqb_list eqb_sp) (map (map (fun e => (e_addr e, e_sec e))) (w_chains _ w)) ochains.
Fixpoint trace_eqb (m : list (wallet ideal_C * error)) (o : list obs_t) : bool :=
  match m, o with
  | [], [] => true
  | (w, e) :: m', x :: o' => wallet_obs_eqb w e x && trace_eqb m' o'
  | _, _ => false
  end.
Definition mism_wallet := Eval vm_compute in
  failing (fun c : wallet ideal_C * list wop * list obs_t =>
             let '(w0, ops, obs) := c in trace_eqb (wrun ideal_C ideal_enc ideal_dec w0 ops) obs) cases_wallet.
Print mism_wallet.
