
(* correspondence: Model/Pex.v vs daemon/pex.
   val: validateAddress — same accept / error class and the same cleaned string;
        also the decidable form valid_form_b agrees with the model on every string.
   ops: same result and same peer list after every operation. *)
Definition c26_accepts (r : vres) : bool := match r with VAccept _ => true | VReject _ => false end.
Definition mism_val := Eval vm_compute in
  failing (fun c : str * bool * vres => let '(s, allow, r) := c in
             vres_eqb (validate_address s allow) r
             && Bool.eqb (valid_form_b allow (strip s)) (c26_accepts (validate_address s allow))) cases_val.
Print mism_val.

Fixpoint c26_steps (max : Z) (allow : bool) (l : pl) (steps : list (xop * out * pl)) : bool :=
  match steps with
  | [] => true
  | (o, r, d) :: rest =>
      let '(l', r') := xstep max allow l o in
      out_eqb r' r && pl_eqb l' d && c26_steps max allow l' rest
  end.
(* start: the list pex.New builds from the cache file = the model's `start` *)
Definition mism_start := Eval vm_compute in
  failing (fun c : Z * bool * bool * list fentry * list str * list str * option str * Z * option pl =>
             let '(max, allow, disable, es, kept, defaults, custom, now, d) := c in
             match start max allow disable es kept defaults custom now, d with
             | Some l, Some d' => pl_eqb l d'
             | None, None => true          (* pex.New refuses to start *)
             | _, _ => false
             end) cases_start.
Print mism_start.
Definition mism_ops := Eval vm_compute in
  failing (fun c : Z * bool * pl * list (xop * out * pl) => let '(max, allow, l0, steps) := c in c26_steps max allow l0 steps) cases_ops.
Print mism_ops.
