
(* the property itself, decided on the implementation's own outputs *)
Definition pf_from := Eval vm_compute in failing from_prop cases_from.
Print pf_from.
Definition pf_to := Eval vm_compute in failing to_prop cases_to.
Print pf_to.
