
(* correspondence: regenerated Gallina (Gen/Page.v) and the Pagination model
   over it vs the observed behaviour of the implementation *)
Definition mism_cal := Eval vm_compute in
  failing (fun c : Z * Z * Z * error * res (Z * Z * Z * error) =>
    let '(size, pageN, len, new_err, o) := c in
    let '(me, mo) := cal_via_new size pageN len in
    eqb_error me new_err && (is_err me || eqb_cal mo o)) cases_cal.
Print mism_cal.
Definition mism_calraw := Eval vm_compute in
  failing (fun c : Z * Z * Z * res (Z * Z * Z * error) =>
    let '(size, pageN, len, o) := c in eqb_cal (PageIndex_Cal size pageN len) o) cases_calraw.
Print mism_calraw.
Definition mism_page := Eval vm_compute in
  failing (fun c : Z * Z * Z * res (list Z * Z * error) =>
    let '(len, size, pageN, o) := c in eqb_page (page (zseq 0 (Z.to_nat len)) size pageN) o) cases_page.
Print mism_page.
Definition mism_query := Eval vm_compute in failing session_matches cases_query.
Print mism_query.
Definition mism_apipage := Eval vm_compute in failing apipage_model cases_apipage.
Print mism_apipage.
