
(* correspondence: generic codec model instantiated with the regenerated
   schemas (Gen/Schemas.v) vs the generated codecs' observed behaviour *)
Definition schema_at (i : nat) : option msg_schema := option_map snd (nth_error all_schemas i).
Fixpoint names_eqb (a b : list string) : bool :=
  match a, b with
  | [], [] => true
  | x :: a', y :: b' => String.eqb x y && names_eqb a' b'
  | _, _ => false
  end.
(* the harness's registry of generated codecs is exactly the regenerated table *)
Definition names_agree := Eval vm_compute in names_eqb type_names (map fst all_schemas).
Print names_agree.
Definition all_wf := Eval vm_compute in forallb (fun p => wf_msg (snd p)) all_schemas.
Print all_wf.

Definition dec_eqb (a : cres (val * list Z)) (b : cres (val * Z)) : bool :=
  match a, b with
  | COk (v, rest), COk (v', n) => val_eqb v v' && (Z.of_nat (List.length rest) =? n)
  | CErr e, CErr f => cerr_eqb e f
  | _, _ => false
  end.

Definition enc_ok (c : nat * val * cres (list Z) * option Z * Z * Z) : bool :=
  let '(i, v, gen, ref, gsz, rsz) := c in
  match schema_at i with
  | None => false
  | Some m =>
      cres_bytes_eqb (encode_msg m v) gen &&
      (* the size function agrees with the model whenever the value is well typed *)
      (csize_msg m v =? gsz)
  end.
Definition mism_enc := Eval vm_compute in failing enc_ok cases_enc.
Print mism_enc.

Definition exact_kind_eqb (a : cres val) (b : cres unit) : bool :=
  match a, b with
  | COk _, COk _ => true
  | CErr e, CErr f => cerr_eqb e f
  | _, _ => false
  end.
Definition dec_ok (c : nat * list Z * cres (val * Z) * option (cres (val * Z)) * cres unit * option (cres (list Z))) : bool :=
  let '(i, bs, gen, ref, exact, reenc) := c in
  match schema_at i with
  | None => false
  | Some m => dec_eqb (decode_msg m bs) gen && exact_kind_eqb (decode_msg_exact m bs) exact
  end.
Definition mism_dec := Eval vm_compute in failing dec_ok cases_dec.
Print mism_dec.
