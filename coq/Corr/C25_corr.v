
(* correspondence: Model/Intro.v vs the implementation.
   verify: same verdict (reason class; on accept the recorded verify-txn params,
           user agent string and genesis hash), no panic on either side, and the
           user agent oracle was built for the string the model asks about.
   gate:   per delivered message, the same messages queued for the peer and the
           same connection state (exists / introduced) afterwards. *)
Definition c25_res_eqb (x y : res verdict) : bool :=
  match x, y with
  | Val a, Val b => verdict_eqb a b
  | Panic, Panic => true
  | _, _ => false
  end.
Definition mism_verify := Eval vm_compute in
  failing (fun c : intro_msg * option (bytes * bool) * res verdict => let '(m, orc, r) := c in
             c25_res_eqb (intro_verify (oracle_of orc) the_cfg m) r && oracle_covers orc the_cfg m) cases_verify.
Print mism_verify.

Definition c25_kind_of (e : gate_event) : option kind :=
  match e with
  | GOther k => Some k
  | GIntro m orc => match intro_verify (oracle_of orc) the_cfg m with Val v => Some (KIntro v) | Panic => None end
  end.
Fixpoint c25_gate_steps (c : cstate) (l : list (gate_event * bool * list sent * bool * bool * bool)) : bool :=
  match l with
  | [] => true
  | (e, _, snt, ex, intro, panicked) :: r =>
      match c25_kind_of e with
      | None => false
      | Some k =>
          let '(c', out) := gate_step c k in
          negb panicked && eqb_list sent_eqb out snt && Bool.eqb (alive c') ex
          && Bool.eqb (alive c' && introduced c') intro && c25_gate_steps c' r
      end
  end.
Definition mism_gate := Eval vm_compute in failing (c25_gate_steps fresh_conn) cases_gate.
Print mism_gate.
