
(* failing transitions as flat indices  state * |universe| + operation  (tail recursive) *)
Fixpoint c24_flat (i : Z) (l : list (list bool)) (acc : list Z) : list Z :=
  match l with
  | [] => firstn 200 (rev_append acc [])
  | bs :: r => c24_flat (i + 1) r
      (rev_append (map (fun j => i * Z.of_nat (List.length universe) + j) (failing (fun b : bool => b) bs)) acc)
  end.

(* the property, decided on the dumps of the implementation's own maps:
   after every operation of a fresh history the bookkeeping invariant holds
   (Model.Conns.inv_b: ipCounts = count per ip, mirrors = introduced (ip,mirror)
   pairs, gnetIDs / listenAddrs derived from the live connections, no two
   introduced connections share ip and mirror); a connection is introduced
   afterwards only if it was before, or the operation was `introduced` on a
   connected connection with the same gnet id; no live connection => all maps
   observationally empty. *)
Definition c24_op_addr (o : op) : addr :=
  match o with
  | Pending a | Connected a _ | Introduced a _ _ _ | Remove a _ | SetHeight a _ _ => a
  end.
Definition c24_is_intro (c : option conn) : bool :=
  match c with Some c => introduced_b c | None => false end.
Definition c24_intro_from_connected (pre post : st) (o : op) (e : res err) : bool :=
  forallb (fun p : addr * conn =>
    negb (introduced_b (snd p)) ||
    match aget addr_eqb (fst p) (conns pre) with
    | Some c0 =>
        (introduced_b c0 && (c_gid c0 =? c_gid (snd p))) ||
        match o, e with
        | Introduced a id _ _, Val OK =>
            addr_eqb a (fst p) && cstate_eqb (c_state c0) SConnected && (c_gid c0 =? id) && (c_gid (snd p) =? id)
        | _, _ => false
        end
    | None => false
    end) (conns post).
Definition c24_state_ok (d : st) : bool :=
  inv_b d && (match conns d with [] => all_empty_b d | _ => true end).
Fixpoint c24_zip3 (j : Z) (ops : list op) (ts : list (res err * bool)) : list (Z * op * (res err * bool)) :=
  match ops, ts with
  | o :: ops', t :: ts' => (j, o, t) :: c24_zip3 (j + 1) ops' ts'
  | _, _ => []
  end.
Definition c24_bfs_pf (c : list op * st * list (res err * bool) * list (Z * st)) : list bool :=
  let '(path, pre, trans, changes) := c in
  map (fun x : Z * op * (res err * bool) =>
         let '(j, o, (e, fr)) := x in
         negb fr ||
         match aget Z.eqb j changes with
         | Some d => c24_state_ok d && c24_intro_from_connected pre d o e
         | None => c24_state_ok pre
         end) (c24_zip3 0 universe trans).
Definition pf_bfs := Eval vm_compute in c24_flat 0 (map c24_bfs_pf cases_bfs) [].
Print pf_bfs.

Fixpoint c24_rand_pf (pre : st) (l : list (op * res err * st)) : bool :=
  match l with
  | [] => all_empty_b pre          (* every sequence ends by removing every connection *)
  | (o, e, d) :: r => c24_state_ok d && c24_intro_from_connected pre d o e && c24_rand_pf d r
  end.
Definition pf_rand := Eval vm_compute in
  failing (fun c : bool * list (op * res err * st) => negb (fst c) || c24_rand_pf init (snd c)) cases_rand.
Print pf_rand.
(* non-vacuity: number of explored states / transitions that satisfy the theorem's premise *)
Definition c24_fresh_transitions := Eval vm_compute in
  count_true (fun t : res err * bool => snd t)
    (List.concat (map (fun c : list op * st * list (res err * bool) * list (Z * st) => snd (fst c)) cases_bfs)).
Print c24_fresh_transitions.
