
(* C18, the property itself decided on the implementation's own outputs.
   Decrypt: never a panic; a ciphertext produced by Encrypt decrypts to its
   plaintext under the same password; a damaged ciphertext or another password
   gives an error. *)
Definition pf_dec (exp : Z * list Z) (obs : res dres) : bool :=
  match obs with
  | Panic => false
  | Val (DOk p) => if fst exp =? 1 then bytes_eqb p (snd exp) else negb (fst exp =? 2)
  | Val (DErr _) => negb (fst exp =? 1)
  end.
Definition pf_sha := Eval vm_compute in
  failing (fun c : bool * option (list Z) * list Z * list (list Z * list Z) * list (list Z) * (Z * list Z) * res dres =>
             pf_dec (snd (fst c)) (snd c)) cases_sha.
Print pf_sha.
Definition pf_scrypt := Eval vm_compute in
  failing (fun c : bool * option (list Z) * Z * list (Z * option smeta) * option (list Z) * (Z * list Z) * res dres =>
             pf_dec (snd (fst c)) (snd c)) cases_scrypt.
Print pf_scrypt.

(* Wallets: the ideal functionality. A wallet is either unlocked (all secrets
   present, equal to the true ones) or locked under one password (every secret
   field of the serialised wallet blank, no secret occurs in the serialised
   bytes); Lock/Unlock move between the two exactly when the password rules say so. *)
Definition obs_t : Type := error * bool * string * string * string * list string * list (list (string * string)) * bool.
Definition eqb_sp (a b : string * string) : bool := String.eqb (fst a) (fst b) && String.eqb (snd a) (snd b).
Definition spec_st : Type := option string * list (list entry).
Definition spec_step (w0 : wallet ideal_C) (st : spec_st) (o : wop) : spec_st * error :=
  let '(lk, cs) := st in
  match o with
  | OLock pw _ =>
    if w_temp _ w0 then (st, Some "ErrEncryptTempWallet"%string)
    else if String.eqb pw "" then (st, Some "ErrMissingPassword"%string)
    else match lk with Some _ => (st, Some "ErrWalletEncrypted"%string) | None => ((Some pw, cs), None) end
  | OUnlock pw _ keep =>
    match lk with
    | None => (st, Some "ErrWalletNotEncrypted"%string)
    | Some lpw =>
      if String.eqb pw "" then (st, Some "ErrMissingPassword"%string)
      else if negb (String.eqb pw lpw) then (st, Some "ErrInvalidPassword"%string)
      else ((if keep then lk else None, cs), None)
    end
  | OGen c es =>
    match app_chain c es cs with
    | Some cs' => ((lk, cs'), None)
    | None => (st, Some "other"%string)
    end
  | OReload => (st, None)
  end.
Definition spec_obs_ok (w0 : wallet ideal_C) (st : spec_st) (e : error) (o : obs_t) : bool :=
  let '(oe, oenc, oseed, olast, opass, oxprv, ochains, leak) := o in
  eqb_error e oe &&
  match fst st with
  | Some _ =>
    oenc && String.eqb oseed "" && String.eqb olast "" && String.eqb opass ""
    && forallb (fun x => String.eqb x "") oxprv
    && eqb_list (eqb_list eqb_sp) (map (map (fun e => (e_addr e, ""%string))) (snd st)) ochains
    && negb leak
  | None =>
    negb oenc && String.eqb oseed (w_seed _ w0) && String.eqb olast (w_lastseed _ w0) && String.eqb opass (w_pass _ w0)
    && eqb_list String.eqb (map snd (w_xprv _ w0)) oxprv
    && eqb_list (eqb_list eqb_sp) (map (map (fun e => (e_addr e, e_osec e))) (snd st)) ochains
  end.
Fixpoint spec_run (w0 : wallet ideal_C) (st : spec_st) (ops : list wop) (obs : list obs_t) : bool :=
  match ops, obs with
  | [], [] => true
  | o :: ops', x :: obs' =>
    let '(st', e) := spec_step w0 st o in spec_obs_ok w0 st' e x && spec_run w0 st' ops' obs'
  | _, _ => false
  end.

(* premises of the theorems, evaluated on the generated wallets (non-vacuity):
   wf_kind, and the naming conditions of unlock_restores *)
Definition reserved_b (k : string) : bool :=
  String.eqb k "seed" || String.eqb k "lastSeed" || String.eqb k "seedPassphrase".
Fixpoint nodup_b (l : list string) : bool :=
  match l with [] => true | x :: r => negb (existsb (String.eqb x) r) && nodup_b r end.
Definition names_ok_b (w : wallet ideal_C) : bool :=
  let es := all_entries _ w in
  let xn := map fst (w_xprv _ w) in
  forallb (fun e => negb (reserved_b (e_addr e)) && negb (existsb (String.eqb (e_addr e)) xn)) es
  && forallb (fun e1 => forallb (fun e2 => negb (String.eqb (e_addr e1) (e_addr e2)) || String.eqb (e_sec e1) (e_sec e2)) es) es
  && nodup_b xn
  && forallb (fun x => negb (reserved_b (fst x)) && negb (String.eqb (snd x) "")) (w_xprv _ w).

Definition pf_wallet := Eval vm_compute in
  failing (fun c : wallet ideal_C * list wop * list obs_t =>
             let '(w0, ops, obs) := c in
             wf_kindb _ w0 && names_ok_b w0 && negb (w_enc _ w0)
             && spec_run w0 (None, w_chains _ w0) ops obs) cases_wallet.
Print pf_wallet.

(* xpub wallets hold no secret: Lock and Unlock are refused, nothing is encrypted,
   no secret of the originating seed wallet occurs in the file *)
Definition pf_xpub := Eval vm_compute in
  failing (fun c : bool * bool * bool * bool * bool =>
             let '(panicked, lock_err, unlock_err, enc, leak) := c in
             negb panicked && lock_err && unlock_err && negb enc && negb leak) cases_xpub.
Print pf_xpub.

(* wallet.Service on encrypted wallets of every type: after every service call the
   locked wallet in memory and its file hold no secret, Unlock with the right
   password restores a valid secret for every entry, a wrong password is refused *)
Definition pf_service := Eval vm_compute in
  failing (fun c : bool * bool * bool * bool * bool =>
             let '(panicked, leak_mem, leak_file, restore_ok, wrong_refused) := c in
             negb panicked && negb leak_mem && negb leak_file && restore_ok && wrong_refused) cases_service.
Print pf_service.
