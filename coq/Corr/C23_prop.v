
(* the property itself, decided on the implementation's own outputs: for every
   maximum >= 12 (the size of a message without items on the wire) the message
   built is accepted by sendMessage's length test, its items are a prefix of the
   requested ones, at most the item limit, and one more item would not fit *)
Definition expand (r : list (Z * Z)) : list Z := flat_map (fun p => repeat (fst p) (Z.to_nat (snd p))) r.
Definition prop_msg (c : Z * bool * list (Z * Z) * Z * res (Z * bool * Z * Z)) : bool :=
  let '(kc, direct, rl, max, obs) := c in
  let xs := expand rl in
  let k := kind_of_code kc in
  let avail := if direct then List.length xs else Nat.min (item_limit k) (List.length xs) in
  if max <? 12 then true
  else match obs with
       | Panic => false
       | Val (kept, pre, enclen, verdict) =>
         let n := Z.to_nat kept in
         sizes_okb xs && pre && (0 <=? kept) && (verdict =? 0)
         && (enclen =? 12 + sum (firstn n xs)) && (enclen <=? max)
         && Nat.leb n avail
         && (Nat.eqb n avail || (12 + sum (firstn (S n) xs) >? max))
       end.
Definition pf_msg := Eval vm_compute in failing prop_msg cases_msg.
Print pf_msg.

(* the same property at the call sites: whatever the daemon hands to
   sendMessage / broadcastMessage fits MaxOutgoingMessageLength (>= 12) — independently
   of MaxIncomingMessageLength — and holds the longest fitting prefix of what was requested *)
Definition pf_site := Eval vm_compute in
  failing (fun c : Z * list (Z * Z) * Z * Z * res (Z * bool * Z * Z) =>
    let '(kc, rl, max_out, max_in, obs) := c in prop_msg (kc, false, rl, max_out, obs)) cases_site.
Print pf_site.
