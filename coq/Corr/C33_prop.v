
(* the property itself, decided on what the implementation did *)
Fixpoint trace_ok_b (reqn prev : Z) (tr : list (Z * list reply)) : bool :=
  match tr with
  | [] => true
  | (h, rep) :: r =>
      (prev <=? h) &&
      eqb_list eqb_reply rep (if h =? prev then [] else [Announce h; Request h reqn]) &&
      trace_ok_b reqn h r
  end.
Fixpoint sigs_ok_b (f1 : bool) (sched : list (list dblock)) (k : Z) (sigs : list bool) : bool :=
  match sigs with
  | [] => true
  | s :: r =>
      (* a PrevVariant accepted under F1 is stored under the repaired header, its
         signature no longer verifies: that is C04's finding F1, not counted here *)
      (s || (f1 && existsb (existsb (fun b => (d_seq b =? k) && eqb_kind (d_kind b) PrevVariant)) sched)) &&
      sigs_ok_b f1 sched (k + 1) r
  end.
Definition last_head (dflt : Z) (tr : list (Z * list reply)) : Z := fst (last tr (dflt, [])).
Definition prop_sync (c : sync_case) : bool :=
  let '(f1, reqn, sched, tr, ids, sigs, re, tr2, ids2) := c in
  let head := Z.of_nat (List.length ids) in
  let g := gapfree_fn f1 sched in
  eqb_list Z.eqb ids (seqs_from 1 (List.length ids)) &&          (* every held block IS the publisher's block of that seq: header hash AND body hash (id 0 otherwise) *)
  (last_head 0 tr =? head) &&
  forallb (delivered_valid_b f1 sched) ids &&                     (* only blocks it was given *)
  (head <=? g) &&                                                 (* never beyond the longest gap-free prefix *)
  sigs_ok_b f1 sched 1 sigs &&                                    (* the STORED signature of every held block verifies under the publisher key *)
  trace_ok_b reqn 0 tr && trace_ok_b reqn head tr2 &&             (* announces and requests above its head on progress *)
  eqb_list Z.eqb ids2 (seqs_from 1 (Z.to_nat g)).                 (* after re-delivery: exactly the longest gap-free prefix *)
Definition pf_sync := Eval vm_compute in failing prop_sync cases_sync.
Print pf_sync.
Fixpoint increasing (prev : Z) (l : list Z) : bool :=
  match l with [] => true | h :: r => (prev <? h) && increasing h r end.
Definition prop_loop (c : Z * Z * Z * Z * list Z) : bool :=
  let '(n, reqn, cap, pre, heads) := c in
  increasing pre heads && (last heads pre =? n).
Definition pf_loop := Eval vm_compute in failing prop_loop cases_loop.
Print pf_loop.
