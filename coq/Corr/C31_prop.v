
(* burn factor 0 is outside the property's domain (params validation rejects it;
   the division panics) and is only compared in the correspondence file.
   the property itself, decided on the implementation's own outputs: the
   observed result equals the mathematical specification (Model/ArithSpec.v) *)
Definition p2 (f : Z -> Z -> res (Z * error)) (c : Z * Z * res (Z * error)) : bool :=
  let '(a, b, o) := c in res_ze_matches (f a b) o.
Definition p1 (f : Z -> res (Z * error)) (c : Z * res (Z * error)) : bool :=
  let '(a, o) := c in res_ze_matches (f a) o.
Definition pf_add64 := Eval vm_compute in
  failing (p2 (fun a b => ret_or_err (a + b <? 2 ^ 64) (a + b) "ErrUint64AddOverflow")) cases_add64.
Print pf_add64.
Definition pf_mul64 := Eval vm_compute in
  failing (p2 (fun a b => ret_or_err (a * b <? 2 ^ 64) (a * b) "ErrUint64MultOverflow")) cases_mul64.
Print pf_mul64.
Definition pf_add32 := Eval vm_compute in
  failing (p2 (fun a b => ret_or_err (a + b <? 2 ^ 32) (a + b) "ErrUint32AddOverflow")) cases_add32.
Print pf_add32.
Definition pf_u2i := Eval vm_compute in
  failing (p1 (fun a => ret_or_err (a <? 2 ^ 63) a "ErrUint64OverflowsInt64")) cases_u2i.
Print pf_u2i.
Definition pf_i2u := Eval vm_compute in
  failing (p1 (fun a => ret_or_err (0 <=? a) a "ErrInt64UnderflowsUint64")) cases_i2u.
Print pf_i2u.
Definition pf_int2u32 := Eval vm_compute in failing (p1 IntToUint32_spec_fn) cases_int2u32.
Print pf_int2u32.
Definition pf_reqfee := Eval vm_compute in
  failing (fun c : Z * Z * res Z => let '(h, b, o) := c in (b =? 0) || res_z_matches (Val (ceil_div h b)) o) cases_reqfee.
Print pf_reqfee.
Definition pf_remaining := Eval vm_compute in
  failing (fun c : Z * Z * res Z => let '(h, b, o) := c in (b =? 0) || res_z_matches (Val (h - ceil_div h b)) o) cases_remaining.
Print pf_remaining.
Definition pf_vfee := Eval vm_compute in
  failing (fun c : Z * Z * Z * res error => let '(h, f, b, o) := c in (b =? 0) || res_e_matches (Val (fee_verdict h f b)) o) cases_vfee.
Print pf_vfee.
Definition pf_coinhours := Eval vm_compute in
  failing (fun c : Z * Z * Z * Z * res (Z * error) => let '(tm, co, ho, t, o) := c in res_ze_matches (coinhours_spec tm co ho t) o) cases_coinhours.
Print pf_coinhours.
