
(* burn factor 0 is outside the property's domain (params validation rejects it;
   the division panics) and is only compared in the correspondence file.
   the property itself, decided on the implementation's own outputs: the
   observed result equals the mathematical specification (Model/ArithSpec.v) *)
Definition p2 (f : Z -> Z -> res (Z * error)) (c : Z * Z * res (Z * error)) : bool :=
  let '(a, b, o) := c in res_ze_matches (f a b) o.
Definition p1 (f : Z -> res (Z * error)) (c : Z * res (Z * error)) : bool :=
  let '(a, o) := c in res_ze_matches (f a) o.
Definition pf_add64 := Eval vm_compute in
  failing (p2 (fun a b => ret_or_err (a + b <? 2 ^ 64) (a + b) "ErrUint64AddOverflow")) cases_add64.
Print pf_add64.
Definition pf_mul64 := Eval vm_compute in
  failing (p2 (fun a b => ret_or_err (a * b <? 2 ^ 64) (a * b) "ErrUint64MultOverflow")) cases_mul64.
Print pf_mul64.
Definition pf_add32 := Eval vm_compute in
  failing (p2 (fun a b => ret_or_err (a + b <? 2 ^ 32) (a + b) "ErrUint32AddOverflow")) cases_add32.
Print pf_add32.
Definition pf_u2i := Eval vm_compute in
  failing (p1 (fun a => ret_or_err (a <? 2 ^ 63) a "ErrUint64OverflowsInt64")) cases_u2i.
Print pf_u2i.
Definition pf_i2u := Eval vm_compute in
  failing (p1 (fun a => ret_or_err (0 <=? a) a "ErrInt64UnderflowsUint64")) cases_i2u.
Print pf_i2u.
Definition pf_int2u32 := Eval vm_compute in failing (p1 IntToUint32_spec_fn) cases_int2u32.
Print pf_int2u32.
Definition pf_reqfee := Eval vm_compute in
  failing (fun c : Z * Z * res Z => let '(h, b, o) := c in (b =? 0) || res_z_matches (Val (ceil_div h b)) o) cases_reqfee.
Print pf_reqfee.
Definition pf_remaining := Eval vm_compute in
  failing (fun c : Z * Z * res Z => let '(h, b, o) := c in (b =? 0) || res_z_matches (Val (h - ceil_div h b)) o) cases_remaining.
Print pf_remaining.
Definition pf_vfee := Eval vm_compute in
  failing (fun c : Z * Z * Z * res error => let '(h, f, b, o) := c in (b =? 0) || res_e_matches (Val (fee_verdict h f b)) o) cases_vfee.
Print pf_vfee.
Definition pf_coinhours := Eval vm_compute in
  failing (fun c : Z * Z * Z * Z * res (Z * error) => let '(tm, co, ho, t, o) := c in res_ze_matches (coinhours_spec tm co ho t) o) cases_coinhours.
Print pf_coinhours.

(* ---- the loop functions, decided on the implementation's own outputs against
   the mathematical quantities of Model/HoursSpec.v (true sums over Z, accrued
   hours, the legacy exception) — no translated code is used here *)
Definition lcase_p := (Z * list (Z * Z * Z) * list (Z * Z) * res (Z * error) * res (Z * error) *
  res (Z * error) * res error * res error * res (Z * error) * Z * Z * res error)%type.
Definition lp_in (i : Z * Z * Z) : uxin := let '(t, c, h) := i in mkIn t c h 0.
Definition lp_out (o : Z * Z) : txout := mkOut (fst o) (snd o).
Definition lp_is_errval (r : res (Z * error)) : bool :=
  match r with Val (0, Some _) => true | _ => false end.
Definition lp_accepts (r : res error) : bool := match r with Val None => true | _ => false end.
Definition lp_rejects (r : res error) : bool := match r with Val (Some _) => true | _ => false end.
Definition pf_l_oh := Eval vm_compute in
  failing (fun c : lcase_p => let '(T, ins, outs, oh, uxc, uxh, vcs, vhs, fe, vf, burn, vtf) := c in
    let s := out_sum (map lp_out outs) in
    res_ze_matches (ret_or_err (s <? 2 ^ 64) s "Transaction output hours overflow") oh) cases_loops.
Print pf_l_oh.
Definition pf_l_uxcoins := Eval vm_compute in
  failing (fun c : lcase_p => let '(T, ins, outs, oh, uxc, uxh, vcs, vhs, fe, vf, burn, vtf) := c in
    let s := in_coins (map lp_in ins) in
    res_ze_matches (ret_or_err (s <? 2 ^ 64) s "UxArray.Coins addition overflow") uxc) cases_loops.
Print pf_l_uxcoins.
Definition pf_l_uxhours := Eval vm_compute in
  failing (fun c : lcase_p => let '(T, ins, outs, oh, uxc, uxh, vcs, vhs, fe, vf, burn, vtf) := c in
    let i := map lp_in ins in
    if forallb (acc_ok T) i && (in_acc_sum T i <? 2 ^ 64)
    then res_ze_matches (Val (in_acc_sum T i, None)) uxh else lp_is_errval uxh) cases_loops.
Print pf_l_uxhours.
Definition pf_l_vcs := Eval vm_compute in
  failing (fun c : lcase_p => let '(T, ins, outs, oh, uxc, uxh, vcs, vhs, fe, vf, burn, vtf) := c in
    if coins_ok (map lp_in ins) (map lp_out outs) then lp_accepts vcs else lp_rejects vcs) cases_loops.
Print pf_l_vcs.
Definition pf_l_vhs := Eval vm_compute in
  failing (fun c : lcase_p => let '(T, ins, outs, oh, uxc, uxh, vcs, vhs, fe, vf, burn, vtf) := c in
    if block_hours_ok T (map lp_in ins) (map lp_out outs) then lp_accepts vhs else lp_rejects vhs) cases_loops.
Print pf_l_vhs.
Definition pf_l_txfee := Eval vm_compute in
  failing (fun c : lcase_p => let '(T, ins, outs, oh, uxc, uxh, vcs, vhs, fe, vf, burn, vtf) := c in
    let i := map lp_in ins in let o := map lp_out outs in
    if forallb (acc_ok T) i && (in_acc_sum T i <? 2 ^ 64) && (out_sum o <? 2 ^ 64) && (out_sum o <=? in_acc_sum T i)
    then res_ze_matches (Val (in_acc_sum T i - out_sum o, None)) fe else lp_is_errval fe) cases_loops.
Print pf_l_txfee.
(* fee.VerifyTransactionFee: output-hours overflow first, then the fee rule (burn 0 is outside the domain) *)
Definition pf_l_vtf := Eval vm_compute in
  failing (fun c : lcase_p => let '(T, ins, outs, oh, uxc, uxh, vcs, vhs, fe, vf, burn, vtf) := c in
    let s := out_sum (map lp_out outs) in
    (burn =? 0) ||
    (if s <? 2 ^ 64 then res_e_matches (Val (fee_verdict s vf burn)) vtf
     else res_e_matches (Val (Some "Transaction output hours overflow"%string)) vtf)) cases_loops.
Print pf_l_vtf.

(* TruncateBytesTo on the implementation's own output: the kept prefix fits, one
   more would not (or a Size() error inside the scanned part is returned with nothing kept) *)
Definition lp_sum (l : list (Z * error)) : Z := fold_right (fun p a => fst p + a) 0 l.
Definition lp_first_err (l : list (Z * error)) : error :=
  match filter (fun p => is_err (snd p)) l with [] => None | p :: _ => snd p end.
Fixpoint lp_scanned (size total : Z) (l : list (Z * error)) : list (Z * error) :=
  match l with
  | [] => []
  | p :: r => if is_err (snd p) then [p]
              else if total + fst p >? size then [] else p :: lp_scanned size (total + fst p) r
  end.
Definition pf_l_trunc := Eval vm_compute in
  failing (fun c : list (Z * error) * Z * res (Z * error) => let '(l, size, o) := c in
    match o with
    | Panic => false
    | Val (n, e) =>
      let sc := lp_scanned size 0 l in
      match lp_first_err sc with
      | Some m => (n =? 0) && err_matches (Some m) e
      | None => negb (is_err e) && (n =? Z.of_nat (List.length sc)) &&
                (lp_sum (firstn (Z.to_nat n) l) <=? size) &&
                ((n =? Z.of_nat (List.length l)) || (size <? lp_sum (firstn (Z.to_nat n + 1) l)))
      end
    end) cases_trunc.
Print pf_l_trunc.
