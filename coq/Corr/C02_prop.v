
(* C02 decided on the implementation's own outputs: the unspent ids equal
   created-minus-spent recomputed from the accepted blocks; accepted blocks spend
   only outputs unspent at the head, each once; created ids are new *)
Definition pf_c02 := Eval vm_compute in flat_fail pf_c02_hist cases_hist 0.
Print pf_c02.
