
(* C11, the property itself decided on the implementation's own outputs
   (Model/SoftSpec.v, Model/HoursSpec.v only: no translated code, no proofs).
   Every list must print []. *)
Definition c_soft := ((Z * error) * Z * list uxin * list txout * dist * vparams * error *
                      res verdict * res verdict * (res (Z * error) * res bool * error))%type.
Definition wf_case (T : Z) (ins : list uxin) (outs : list txout) : bool :=
  in_ub 64 T && forallb wf_inb ins && forallb wf_outb outs.
Definition in_domain (size : Z * error) (T : Z) (ins : list uxin) (outs : list txout) (d : dist) (p : vparams) : bool :=
  wf_case T ins outs && valid_paramsb p && valid_distb d && in_ub 32 (fst size).
Definition accepted_v (r : res verdict) : bool := match r with Val None => true | _ => false end.
Definition tagged (c : cls) (r : res verdict) : bool :=
  match r with Val None => true | Val (Some (c', _)) => cls_eqb c c' | Panic => false end.

(* the soft checker accepts exactly the transactions of the specification and
   reports the first failing rule in the documented order *)
Definition pf_soft := Eval vm_compute in
  failing (fun c : c_soft => let '(size, T, ins, outs, d, p, pre, osoft, ohard, (ofee, olock, oval)) := c in
    negb (in_domain size T ins outs d p) ||
    match osoft with
    | Val v => soft_verdict_eqb (classify (verdict_err v)) (soft_spec (is_err (snd size)) (fst size) T ins outs d p)
    | Panic => false
    end) cases_soft.
Print pf_soft.
(* soft failures are tagged soft, hard failures hard; once the hard rules pass,
   a soft failure is one of the five documented soft reasons *)
Definition pf_cross := Eval vm_compute in
  failing (fun c : c_soft => let '(size, T, ins, outs, d, p, pre, osoft, ohard, (ofee, olock, oval)) := c in
    negb (in_domain size T ins outs d p) ||
    (tagged Soft osoft && tagged Hard ohard &&
     (negb (accepted_v ohard) ||
      match osoft with
      | Val None => true
      | Val (Some (_, s)) => documented_soft (classify (Some s))
      | Panic => false
      end))) cases_soft.
Print pf_cross.
(* classes also outside the validated parameter range (whenever the checker returns) *)
Definition pf_hard := Eval vm_compute in
  failing (fun c : c_soft => let '(size, T, ins, outs, d, p, pre, osoft, ohard, (ofee, olock, oval)) := c in
    tagged Hard ohard && match osoft with Panic => true | _ => tagged Soft osoft end) cases_soft.
Print pf_hard.
(* the fee is input hours at the head time minus output hours *)
Definition pf_fee := Eval vm_compute in
  failing (fun c : c_soft => let '(size, T, ins, outs, d, p, pre, osoft, ohard, (ofee, olock, oval)) := c in
    negb (wf_case T ins outs) ||
    match ofee with
    | Val (f, None) => hours_computable T ins outs && (out_sum outs <=? in_acc_sum T ins) &&
                       (f =? in_acc_sum T ins - out_sum outs)
    | Val (_, Some _) => negb (hours_computable T ins outs) || (in_acc_sum T ins <? out_sum outs)
    | Panic => false
    end) cases_soft.
Print pf_fee.
Definition pf_locked := Eval vm_compute in
  failing (fun c : c_soft => let '(size, T, ins, outs, d, p, pre, osoft, ohard, (ofee, olock, oval)) := c in
    negb (valid_distb d) || res_b_matches (Val (spends_locked d ins)) olock) cases_soft.
Print pf_locked.
Definition pf_params := Eval vm_compute in
  failing (fun c : c_soft => let '(size, T, ins, outs, d, p, pre, osoft, ohard, (ofee, olock, oval)) := c in
    Bool.eqb (negb (is_err oval)) (valid_paramsb p)) cases_soft.
Print pf_params.
(* VerifyTransactionFee: no fee / insufficient fee / ok, by the ceiling rule *)
Definition pf_vfee := Eval vm_compute in
  failing (fun c : (list txout * Z * Z * res error)%type => let '(outs, f, burn, o) := c in
    negb (forallb wf_outb outs && in_ub 64 f && (2 <=? burn) && (burn <? 2 ^ 32)) ||
    match o with
    | Val e => if out_sum outs <? 2 ^ 64 then err_matches (fee_verdict (out_sum outs) f burn) e else is_err e
    | Panic => false
    end) cases_vfee.
Print pf_vfee.
(* premises of the theorems are met by what was explored *)
Definition n_in_domain := Eval vm_compute in
  count_true (fun c : c_soft => let '(size, T, ins, outs, d, p, pre, osoft, ohard, (ofee, olock, oval)) := c in
    in_domain size T ins outs d p) cases_soft.
Print n_in_domain.
(* call-site level: the verdict of each entry point is the specification
   instantiated with THAT entry point's parameter set (0 user: params.UserVerifyTxn,
   1 peer: Config.UnconfirmedVerifyTxn, 2 block creation: Config.CreateBlockVerifyTxn);
   a transaction failing the hard rules is reported hard by every entry point *)
Definition c_entry := (Z * (Z * error) * Z * list uxin * list txout * dist * (vparams * vparams * vparams) * error * res verdict)%type.
Definition pick_params (entry : Z) (ps : vparams * vparams * vparams) : vparams :=
  let '(pu, pn, pc) := ps in if entry =? 0 then pu else if entry =? 1 then pn else pc.
Definition pf_entry := Eval vm_compute in
  failing (fun c : c_entry => let '(entry, size, T, ins, outs, d, ps, pre, obs) := c in
    let p := pick_params entry ps in
    negb (in_domain size T ins outs d p) ||
    let hard_ok := negb (is_err pre) && pool_hours_ok T ins outs && coins_ok ins outs in
    let spec := soft_spec (is_err (snd size)) (fst size) T ins outs d p in
    match obs with
    | Panic => false
    | Val v =>
      if entry =? 2 then Bool.eqb (match v with None => true | _ => false end) (hard_ok && soft_verdict_eqb spec SAccept)
      else if hard_ok then tagged Soft obs && soft_verdict_eqb (classify (verdict_err v)) spec
      else match v with Some (Hard, _) => true | _ => false end
    end) cases_entry.
Print pf_entry.
