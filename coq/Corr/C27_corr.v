
(* a case is [path; cfg; method; host; origin; referer; chk; ctype; auth; token; acrm; status];
   every field but cfg and status is an index into one of the pools of the data part *)
Definition case_t : Type := (string * Z * request * Z)%type.
Definition at_ {A} (l : list A) (i : Z) : option A := if i <? 0 then None else nth_error l (Z.to_nat i).
Definition decode (c : list Z) : option case_t :=
  match c with
  | [p; ci; m; h; o; rf; ck; ct; au; tk; ac; st] =>
      match at_ pool_s p, at_ pool_s m, at_ pool_s h, at_ pool_s o, at_ pool_s rf with
      | Some p', Some m', Some h', Some o', Some rf' =>
          match at_ pool_chk ck, at_ pool_s ct, at_ pool_auth au, at_ pool_tok tk, at_ pool_s ac with
          | Some ck', Some ct', Some au', Some tk', Some ac' =>
              Some (p', ci, Build_request m' h' o' rf' ck' ct' au' tk' 0 ac', st)
          | _, _, _, _, _ => None
          end
      | _, _, _, _, _ => None
      end
  | _ => None
  end.
Definition cfg_at (i : Z) : option config := at_ cfgs i.
Definition on_case (f : config -> route -> request -> Z -> bool) (c : list Z) : bool :=
  match decode c with
  | Some (p, ci, q, st) =>
      match cfg_at ci, mux_lookup routes p with
      | Some cfg, Some r => f cfg r q st
      | _, _ => false
      end
  | None => false
  end.

(* correspondence: the model's verdict (Model/ApiAccess.v `decide` over the
   regenerated route table) against the status the real mux answered *)
Definition corr_ok := on_case (fun cfg r q st => obs_matches r (decide cfg r q) st).
Definition mism_access := Eval vm_compute in failing corr_ok cases_access.
Print mism_access.
Definition mism_csrf_old_token := Eval vm_compute in failing corr_ok cases_csrf_old_token.
Print mism_csrf_old_token.
(* request histories: each request against the verdict for that request alone at its own time *)
Definition mism_token_history := Eval vm_compute in failing corr_ok cases_token_history.
Print mism_token_history.
(* the patterns registered in the running mux are exactly the paths of the table
   (index i: a registered pattern missing from the table; 1000+i: a table path not registered) *)
Definition table_paths := map r_path routes.
Definition mism_patterns := Eval vm_compute in
  List.app (failing (fun p => mem p table_paths) cases_patterns)
           (map (fun i => 1000 + i) (failing (fun p => mem p cases_patterns) table_paths)).
Print mism_patterns.
