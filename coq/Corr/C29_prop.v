
(* the property itself, decided on the implementation's own outputs *)
Definition pf_cal := Eval vm_compute in failing cal_prop cases_cal.
Print pf_cal.
Definition pf_page := Eval vm_compute in failing page_prop cases_page.
Print pf_page.
Definition pf_partition := Eval vm_compute in failing partition_ok cases_partition.
Print pf_partition.
Definition pf_query := Eval vm_compute in failing partition_ok cases_query.
Print pf_query.
Definition pf_qorder := Eval vm_compute in failing order_ok cases_qorder.
Print pf_qorder.
Definition pf_apipage := Eval vm_compute in failing apipage_prop cases_apipage.
Print pf_apipage.
