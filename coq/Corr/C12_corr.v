
(* C12 correspondence: Model/Create.v vs transaction.Create / ChooseSpends* /
   DistributeCoinHoursProportional *)
Definition mism_create := Eval vm_compute in
  failing (fun c : Z * params * list ux * R created * error =>
    let '(burn, p, uxb, obs, _) := c in R_matches created_eqb (create burn p uxb) obs) cases_create.
Print mism_create.
Definition mism_choose := Eval vm_compute in
  failing (fun c : bool * Z * list ux * Z * Z * R (list ux) =>
    let '(maximize, burn, uxa, coins, hours, obs) := c in
    R_matches (eqb_list ux_eqb) (choose_spends (if maximize then low_to_high else high_to_low) burn uxa coins hours) obs) cases_choose.
Print mism_choose.
Definition mism_dist := Eval vm_compute in
  failing (fun c : list Z * Z * R (list Z) =>
    let '(coins, hours, obs) := c in R_matches (eqb_list Z.eqb) (distribute coins hours) obs) cases_dist.
Print mism_dist.
(* how many cases took the share-factor-1.0 fallback (second activation of create) *)
Definition n_fallback := Eval vm_compute in
  count_true (fun c : Z * params * list ux * R created * error =>
    let '(burn, p, uxb, _, _) := c in
    match create_step burn false p uxb with Val (inr (inr _)) => true | _ => false end) cases_create.
Print n_fallback.
