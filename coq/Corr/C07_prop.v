
(* the property itself, decided on what the node answered: every view equals the
   view defined from first principles over the accepted chain and the pool
   (Model/Views.v part 1) — no incremental state involved *)
(* hours of a set of outputs at time t, as a mathematical sum; None when the
   machine arithmetic would overflow somewhere (then the value is not specified here) *)
Definition hours_at (t : Z) (u : uxout) : option Z :=
  match coinhours_spec (ux_time u) (ux_coins u) (ux_hours u) t with
  | Val (h, None) => Some h
  | _ => None
  end.
Fixpoint spec_hours (t : Z) (l : list uxout) : option Z :=
  match l with
  | [] => Some 0
  | u :: r => match hours_at t u, spec_hours t r with
              | Some h, Some s => if h + s <? 2 ^ 64 then Some (h + s) else None
              | _, _ => None
              end
  end.
Definition spec_bal_one (c : chain) (p : pool) (a : Z) : option (Z * Z * Z * Z) :=
  let cu := confirmed_uxs c a in
  let pu := predicted_uxs c p a in
  match spec_hours (head_time c) cu, spec_hours (head_time c) pu with
  | Some h, Some ph => if (coins_of cu <? 2 ^ 64) && (coins_of pu <? 2 ^ 64) then Some (coins_of cu, h, coins_of pu, ph) else None
  | _, _ => None
  end.
Definition bal_ok (c : chain) (p : pool) (addrs : list Z) (r : string + list (Z * Z * Z * Z)) : bool :=
  if pool_stale c p then true else                     (* group `stale` *)
  if negb (nodup_b (map ux_id (utxo_of c) ++ map ux_id (pool_uxs c p))) then true else
  match r with
  | inl _ => negb (forallb (fun a => match spec_bal_one c p a with Some _ => true | None => false end) addrs)
  | inr rows =>
      (List.length rows =? List.length addrs)%nat &&
      forallb (fun '(a, row) => match spec_bal_one c p a with Some q => eqb_quad q row | None => true end) (combine addrs rows)
  end.
Definition spec_check (c : chain) (p : pool) (o : obs) : list Z :=
  let h := head_seq c in
  chk 1 (h =? ob_head o) ++
  chk 2 (addr_count_of c =? ob_count o) ++
  chk 3 (forallb (fun '(a, r) => eqb_optl (Some (sortZ (addr_index_of c a))) r) (ob_unspents o)) ++
  chk 4 (forallb (fun '(addrs, r) => bal_ok c p addrs r) (ob_bal o)) ++
  chk 5 (forallb (fun '(id, r) =>
           eqb_option eqb_uxobs
             (option_map (fun '(u, (t, q)) => (ux_id u, ux_time u, ux_seq u, ux_src u, ux_addr u, ux_coins u, ux_hours u, t, q)) (hist_of c id)) r)
         (ob_ux o)) ++
  chk 6 (forallb (fun '(a, l) => eqb_list Z.eqb (addr_uxs_of c a) l) (ob_aouts o)) ++
  chk 7 (forallb (fun '(kind, addrs, rows, ordered) => eqb_list eqb_row (spec_txns c p kind addrs) rows && ordered) (ob_txq o)) ++
  chk 8 (forallb (fun '(k, r) => eqb_list Z.eqb (blocks_between c k k) (match r with Some x => [x] | None => [] end)) (ob_bseq o) &&
         forallb (fun '(lo, hi, l) => eqb_list Z.eqb (blocks_between c lo hi) l) (ob_brange o) &&
         forallb (fun '(num, l) => (2 ^ 63 <=? num) || eqb_list Z.eqb (blocks_between c (h - num + 1) h) l) (ob_blast o) &&
         forallb (fun '(sq, ct, l) => eqb_list Z.eqb (blocks_between c (sq + 1) (sq + ct)) l) (ob_bsince o)) ++
  (* every block query API: blocks, their transactions and per input owner / coins / hours /
     CalculatedHours at the time of the block before the spending block, from the chain alone *)
  chk 11 (forallb (fun '(api, args, r) => eqb_option (eqb_list eqb_brow) (spec_bq c api args) r) (ob_bq o)).
Fixpoint spec_steps (i : Z) (c : chain) (steps : list hstep) : list (Z * list Z) :=
  match steps with
  | [] => []
  | (hop, p, o) :: r =>
      let c' := match hop with HBlock b => c ++ [b] | _ => c end in
      let pre := match hop with
                 | HBlock b => chk 9 (b_uxhash b =? xor_of c) ++ chk 10 (wf_block_b c b)
                 | _ => []
                 end in
      match pre ++ spec_check c' p o with
      | [] => spec_steps (i + 1) c' r
      | bad => [(i, bad)]
      end
  end.
Definition prop_hist (h : list hstep) : bool := is_empty (spec_steps 0 [] h).
Definition pf_hist := Eval vm_compute in failing prop_hist cases_hist.
Print pf_hist.
Definition diag_pf_hist := Eval vm_compute in
  map (fun i => (i, spec_steps 0 [] (nth (Z.to_nat i) cases_hist []))) pf_hist.
Print diag_pf_hist.
(* balances must be answered in every state of chain and pool *)
Definition pf_stale := Eval vm_compute in failing (fun c : Z * Z * bool => negb (snd c)) cases_stale.
Print pf_stale.

(* concurrency group, from first principles: the answer to a query that ran while the chain
   grew from lo to hi operations is the first-principles view of ONE of those states *)
Fixpoint conc_chains (c : chain) (steps : list (hop * pool)) : list (chain * pool) :=
  match steps with
  | [] => []
  | (hop, p) :: r => let c' := match hop with HBlock b => c ++ [b] | _ => c end in (c', p) :: conc_chains c' r
  end.
Definition exists_chain (states : list (chain * pool)) (lo hi : Z) (test : chain -> pool -> bool) : bool :=
  existsb (fun k => match nth_error states (Z.to_nat (k - 1)) with Some (c, p) => test c p | None => false end)
          (zrange (Z.max 1 lo) (Z.to_nat (hi - Z.max 1 lo + 1))).
Definition conc_q_spec (states : list (chain * pool)) (q : Z * Z * cq) : bool :=
  let '(lo, hi, c) := q in
  match c with
  | CQBal addrs r => exists_chain states lo hi (fun ch p => negb (pool_stale ch p) && bal_ok ch p addrs r)
                     || (match r with inl _ => exists_chain states lo hi (fun ch p => pool_stale ch p) | inr _ => false end)
  | CQTx kind addrs rows => exists_chain states lo hi (fun ch p => eqb_list eqb_row (spec_txns ch p kind addrs) rows)
  end.
Definition prop_conc (c : conc_case) : bool :=
  let states := conc_chains [] (fst c) in forallb (conc_q_spec states) (snd c).
Definition pf_conc := Eval vm_compute in failing prop_conc cases_conc.
Print pf_conc.
