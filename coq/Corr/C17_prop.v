
(* C17, the property itself decided on the implementation's own outputs: after
   every operation the wallet's addresses are the first `total` addresses of the
   one-shot derivation (the oracle table), `total` moves as the meaning of the
   operation says, lastSeed is the chain's seed at `total`; the final wallet
   equals a fresh wallet that generated `total` addresses in one call; every
   entry is coherent. *)
Definition eqb_strs : list string -> list string -> bool := eqb_list String.eqb.
Definition det_case : Type :=
  coin * list string * (nat * nat * (string -> bool)) * list (dop string) * list (nat * list string) * list string * bool.

Definition det_state_ok (table : list string) (total : nat) (o : nat * list string) : bool :=
  eqb_strs (snd o) (firstn total table) && Nat.eqb (List.length (snd o)) total
  && Nat.eqb (fst o) total.
Definition det_next (table : list string) (m : nat) (o : dop string) : nat :=
  match o with
  | DGen n => m + n
  | DScan n act => m + keep_num (map act (firstn n (skipn m table)))
  | DSaveReload | DLock | DUnlock | DFailed | DRead => m
  end.
Fixpoint det_walk (table : list string) (m : nat) (ops : list (dop string)) (obs : list (nat * list string)) : option nat :=
  match ops, obs with
  | [], [] => Some m
  | o :: ops', x :: obs' =>
    let m' := det_next table m o in
    if det_state_ok table m' x then det_walk table m' ops' obs' else None
  | _, _ => None
  end.
Definition det_ok (c : det_case) : bool :=
  let '(_, table, (gn, sn, act0), ops, obs, single, coherent) := c in
  match obs with
  | [] => false
  | x0 :: obs' =>
    let m0 := match sn with
              | 0 => gn
              | _ => det_next table gn (DScan (if gn <? sn then sn - gn else sn) act0)
              end in
    det_state_ok table m0 x0 &&
    match det_walk table m0 ops obs' with
    | Some total => eqb_strs single (firstn total table) && (total <=? List.length table) && coherent
    | None => false
    end
  end.
Definition pf_det := Eval vm_compute in failing det_ok cases_det.
Print pf_det.

Definition idx_case : Type :=
  coin * list (list string) * nat * list (iop string) * list (iop string) * list (list (list string)) * list (list string) * bool.
(* totals per chain *)
Fixpoint bump (j n : nat) (ms : list nat) : list nat :=
  match ms, j with
  | [], _ => []
  | m :: r, 0 => (m + n) :: r
  | m :: r, S j' => m :: bump j' n r
  end.
Fixpoint scan_tot (tables : list (list string)) (n : nat) (act : string -> bool) (ms : list nat) : list nat :=
  match ms, tables with
  | m :: r, t :: tr => (m + keep_num (map act (firstn n (skipn m t)))) :: scan_tot tr n act r
  | _, _ => ms
  end.
Definition idx_next (tables : list (list string)) (ms : list nat) (o : iop string) : list nat :=
  match o with
  | IGen j n => bump j n ms
  | IScan n act => match n with 0 => ms | _ => scan_tot tables n act ms end
  | ISaveReload => ms
  | ILock => ms
  | IUnlock => ms
  | IFailed => ms
  | INewAccount => ms ++ [0; 0]
  | IRead => ms
  end.
Fixpoint chains_are (tables : list (list string)) (ms : list nat) (cs : list (list string)) : bool :=
  match ms, tables, cs with
  | [], _, [] => true
  | m :: mr, t :: tr, c :: cr => eqb_strs c (firstn m t) && Nat.eqb (List.length c) m && chains_are tr mr cr
  | _, _, _ => false
  end.
Fixpoint idx_walk (tables : list (list string)) (ms : list nat) (ops : list (iop string)) (obs : list (list (list string))) : option (list nat) :=
  match ops, obs with
  | [], [] => Some ms
  | o :: ops', x :: obs' =>
    let ms' := idx_next tables ms o in
    if chains_are tables ms' x then idx_walk tables ms' ops' obs' else None
  | _, _ => None
  end.
Definition idx_ok (c : idx_case) : bool :=
  let '(_, tables, nchains, init_ops, ops, obs, single, coherent) := c in
  match obs with
  | [] => false
  | x0 :: obs' =>
    let ms0 := fold_left (idx_next tables) init_ops (repeat 0 nchains) in
    chains_are tables ms0 x0 &&
    match idx_walk tables ms0 ops obs' with
    | Some ms => chains_are tables ms single && coherent
    | None => false
    end
  end.
Definition pf_idx := Eval vm_compute in failing idx_ok cases_idx.
Print pf_idx.

(* collection wallets: the entries are the addresses of the given keys in the
   given order, before and after reloading, and coherent *)
Definition pf_coll := Eval vm_compute in
  failing (fun c : list string * list string * bool => let '(want, got, coherent) := c in eqb_strs want got && coherent) cases_coll.
Print pf_coll.
