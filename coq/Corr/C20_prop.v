
(* C20, decidable form on the implementation's own outputs: what the real
   service shows after a start on a crash directory is what it shows on the
   directory before the save or on the directory after the completed save
   (so: it starts whenever both of those start, nothing is lost, the kv
   storage is not reset). *)
Definition prop_crash (c : scen * Z * Z * list (string * cdesc) * obs) : bool :=
  let '(s, k, cut, l, o) := c in
  eqb_obs o (s_obs_old s) || eqb_obs o (s_obs_new s).
Definition pf_crash := Eval vm_compute in failing prop_crash cases_crash.
Print pf_crash.

(* premises of the theorem on the explored scenarios (non-vacuity): the service
   starts on the old and on the new directory, kv storage not reset *)
Definition obs_good (o : obs) : bool :=
  match o with ObsAbort => false | ObsKv i => (0 <=? i)%Z | ObsWallets _ => true end.
Definition premises_ok := Eval vm_compute in
  count_true (fun s => obs_good (s_obs_old s) && obs_good (s_obs_new s)) cases_scen.
Print premises_ok.
(* a crash state that is good although one could not tell from the file names:
   counted to show the explored states are not all trivial *)
Definition crash_states_with_partial_tmp := Eval vm_compute in
  count_true (fun c : scen * Z * Z * list (string * cdesc) * obs =>
     let '(s, k, cut, l, o) := c in
     existsb (fun p : string * cdesc => match snd p with CNew n => (0 <? n)%Z && (n <? Z.of_nat (List.length (s_new s)))%Z | _ => false end) l)
   cases_crash.
Print crash_states_with_partial_tmp.

(* the real service performed the traced operation (and started before it) on a
   directory holding valid files and harmless leftovers (tmp files of earlier
   crashes, backups, unrelated files) *)
Definition pf_setup := Eval vm_compute in failing (fun b : bool => b) cases_setup.
Print pf_setup.
