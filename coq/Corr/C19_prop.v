
(* C19, decidable form on the implementation's own outputs. After every
   operation of every recorded history:
   - a fresh service starts on the directory (reload_total),
   - what it loads, minus the wallets the history unloaded, equals the
     non-temporary wallets in memory (mem_eq_disk),
   - no two wallets in memory share a fingerprint (fingerprints_unique),
   - a failed operation left memory and directory views unchanged (failed_op_noop),
   - the serialised wallets (all fields, meta.secrets included) agree between memory and
     fresh start, and read-only / failed calls did not change any serialised wallet. *)
Definition eqb_view (a b : list wallet) : bool :=
  eq_map a b && (List.length a =? List.length b)%nat.
Definition eqb_reloaded (a b : reloaded) : bool :=
  match a, b with
  | RAbort, RAbort => true
  | RLoaded x, RLoaded y => eqb_view x y
  | _, _ => false
  end.
(* ghost: names unloaded by the history so far (from the ops and the observed results) *)
Definition unloaded_after (u : list string) (o : op) (e : error) (m_before : list wallet) : list string :=
  match o, e with
  | Unload n, _ => match find n m_before with Some _ => if mem_str n u then u else n :: u | None => u end
  | Create n _ _ _ _ _ _ _ false _, None => del_str n u
  | _, _ => u
  end.
Fixpoint first_bad (i : Z) (u : list string) (m0 : list wallet) (r0 : reloaded)
         (l : list (op * error * list wallet * reloaded * bool)) : Z :=
  match l with
  | [] => -1
  | (o, e, m, r, sok) :: rest =>
      let u' := unloaded_after u o e m0 in
      let ok :=
        match r with
        | RAbort => false
        | RLoaded ws => eqb_view (not_unloaded u' ws) (non_temp m)
        end
        && nodup_fps [] m
        (* sok: observed by the harness on the full serialised wallets (meta.secrets included):
           every wallet in memory that a fresh start also loads serialises to the same bytes,
           and a read-only or failed call left every serialised wallet in memory unchanged *)
        && sok
        && match e with None => true | Some msg => negb (String.eqb msg "PANIC") && eqb_view m m0 && eqb_reloaded r r0 end in
      if ok then first_bad (i + 1) u' m r rest else i
  end.
Definition prop_seq (l : list (op * error * list wallet * reloaded * bool)) : bool :=
  first_bad 0 [] [] (RLoaded []) l =? -1.
Definition pf_seq := Eval vm_compute in failing prop_seq cases_seq.
Print pf_seq.
Definition pf_seq_steps := Eval vm_compute in map (first_bad 0 [] [] (RLoaded [])) (filter (fun l => negb (prop_seq l)) cases_seq).
Print pf_seq_steps.
(* premise of the theorems on the explored histories (non-vacuity) *)
Definition premises_ok := Eval vm_compute in
  count_true (fun l : list (op * error * list wallet * reloaded * bool) => forallb (fun c => wf_op (fst (fst (fst (fst c))))) l) cases_seq.
Print premises_ok.
