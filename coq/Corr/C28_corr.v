
(* correspondence of the modelled decision logic with the running node *)
(* POST /api/v2/transaction/verify: status predicted by Model/ApiTotal.v from
   the lookup facts vs the status answered (0 = the handler panicked) *)
Definition vtv_ok (c : vfacts * Z) : bool :=
  let '(f, code) := c in
  match verify_status f false with
  | Panic => code =? 0
  | Val s => code =? s
  end.
Definition mism_vtv := Eval vm_compute in failing vtv_ok cases_vtv.
Print mism_vtv.
(* GET /api/v1/last_blocks?num=N: number of blocks returned *)
Definition mism_last_blocks := Eval vm_compute in
  failing (fun c : Z * Z * Z => let '(head, num, n) := c in last_blocks_count true head num =? n) cases_last_blocks.
Print mism_last_blocks.
(* GET /api/v1/blocks?start=S&end=E: number of blocks returned *)
Definition mism_blocks_range := Eval vm_compute in
  failing (fun c : Z * Z * Z * Z => let '(head, s, e, n) := c in blocks_in_range_count head s e =? n) cases_blocks_range.
Print mism_blocks_range.
