
(* a case is [path; cfg; method; host; origin; referer; chk; ctype; auth; token; acrm; status];
   every field but cfg and status is an index into one of the pools of the data part *)
Definition case_t : Type := (string * Z * request * Z)%type.
Definition at_ {A} (l : list A) (i : Z) : option A := if i <? 0 then None else nth_error l (Z.to_nat i).
Definition decode (c : list Z) : option case_t :=
  match c with
  | [p; ci; m; h; o; rf; ck; ct; au; tk; ac; st] =>
      match at_ pool_s p, at_ pool_s m, at_ pool_s h, at_ pool_s o, at_ pool_s rf with
      | Some p', Some m', Some h', Some o', Some rf' =>
          match at_ pool_chk ck, at_ pool_s ct, at_ pool_auth au, at_ pool_tok tk, at_ pool_s ac with
          | Some ck', Some ct', Some au', Some tk', Some ac' =>
              Some (p', ci, Build_request m' h' o' rf' ck' ct' au' tk' 0 ac', st)
          | _, _, _, _, _ => None
          end
      | _, _, _, _, _ => None
      end
  | _ => None
  end.
Definition cfg_at (i : Z) : option config := at_ cfgs i.
Definition on_case (f : config -> route -> request -> Z -> bool) (c : list Z) : bool :=
  match decode c with
  | Some (p, ci, q, st) =>
      match cfg_at ci, mux_lookup routes p with
      | Some cfg, Some r => f cfg r q st
      | _, _ => false
      end
  | None => false
  end.

(* the property itself, decided on the implementation's own answers: the
   endpoint's logic was reached iff every clause of the property holds
   (may_reachb is proved equivalent to the Prop form, C27_decidable_form) *)
Definition prop_ok := on_case prop_holds.
Definition pf_access := Eval vm_compute in failing prop_ok cases_access.
Print pf_access.
(* the same on request histories (token validity is a function of token, key and clock only) *)
Definition pf_token_history := Eval vm_compute in failing prop_ok cases_token_history.
Print pf_token_history.
(* "Requesting a new token invalidates earlier ones": a state-changing request
   that carries a token older than the newest one issued must be refused *)
Definition old_token_refused := on_case (fun cfg r q st =>
  negb (r_csrf r && negb (c_disable_csrf cfg) && state_changingb (q_meth q)) || negb (obs_reached r st)).
Definition pf_csrf_old_token := Eval vm_compute in failing old_token_refused cases_csrf_old_token.
Print pf_csrf_old_token.
(* premises of the theorems on what was explored *)
Definition hyp_routes_wf := Eval vm_compute in wf_tableb routes.
Print hyp_routes_wf.
Definition n_reached := Eval vm_compute in count_true (on_case (fun cfg r q st => obs_reached r st)) cases_access.
Print n_reached.
Definition n_undecodable := Eval vm_compute in count_true (fun c => match decode c with None => true | _ => false end) (cases_access ++ cases_csrf_old_token ++ cases_token_history).
Print n_undecodable.
