(* correspondence: the pool model (Model/Pool.v: step) is run over the same
   operations as the real node; after EVERY operation the model's answer and
   whole pool (hash, flag, in bucket order) must equal the node's, and the
   model's own "inputs unspent" computation must agree with the node's. A
   history also fails when a Refresh / RemoveInvalid verdict list does not cover
   the pool (hypothesis of the theorems). *)
Definition mism_c06 := Eval vm_compute in failing (fun h => hyps_ok h && corr_ok h) cases_c06.
Print mism_c06.
Definition first_diffs_c06 := Eval vm_compute in
  map (fun h => first_diff 0 (init (h_unspent h)) (h_steps h)) (filter (fun h => negb (corr_ok h)) cases_c06).
Print first_diffs_c06.
