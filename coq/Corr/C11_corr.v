
(* C11 correspondence: the executable model (Model/Soft.v, Model/Hours.v over the
   regenerated Gen/*.v) against what the implementation returned on the same
   inputs. Every list must print []. *)
Definition c_soft := ((Z * error) * Z * list uxin * list txout * dist * vparams * error *
                      res verdict * res verdict * (res (Z * error) * res bool * error))%type.
Definition mism_soft := Eval vm_compute in
  failing (fun c : c_soft => let '(size, T, ins, outs, d, p, pre, osoft, ohard, (ofee, olock, oval)) := c in
    res_verdict_matches (VerifySingleTxnSoftConstraints size T ins outs d p) osoft) cases_soft.
Print mism_soft.
Definition mism_hard := Eval vm_compute in
  failing (fun c : c_soft => let '(size, T, ins, outs, d, p, pre, osoft, ohard, (ofee, olock, oval)) := c in
    res_verdict_matches (Hours.VerifySingleTxnHardConstraints pre T ins outs) ohard) cases_soft.
Print mism_hard.
Definition mism_fee := Eval vm_compute in
  failing (fun c : c_soft => let '(size, T, ins, outs, d, p, pre, osoft, ohard, (ofee, olock, oval)) := c in
    res_ze_matches (TransactionFee T ins outs) ofee) cases_soft.
Print mism_fee.
Definition mism_locked := Eval vm_compute in
  failing (fun c : c_soft => let '(size, T, ins, outs, d, p, pre, osoft, ohard, (ofee, olock, oval)) := c in
    res_b_matches (TransactionIsLocked d ins) olock) cases_soft.
Print mism_locked.
(* translation validation of VerifyTxn.Validate *)
Definition mism_params := Eval vm_compute in
  failing (fun c : c_soft => let '(size, T, ins, outs, d, p, pre, osoft, ohard, (ofee, olock, oval)) := c in
    res_e_matches (VerifyTxn_Validate (p_burn p) (p_maxsize p) (p_prec p)) (Val oval)) cases_soft.
Print mism_params.
Definition mism_vfee := Eval vm_compute in
  failing (fun c : (list txout * Z * Z * res error)%type => let '(outs, f, burn, o) := c in
    res_e_matches (VerifyTransactionFee outs f burn) o) cases_vfee.
Print mism_vfee.
(* call-site level: each entry point of the node (0 user, 1 peer, 2 block
   creation) runs the hard rules, then the soft rules with ITS OWN parameter set
   (Blockchain.VerifySingleTxnSoftHardConstraints); [pre] is the verdict of the
   structural / signature / duplicate-output checks computed by the implementation *)
Definition c_entry := (Z * (Z * error) * Z * list uxin * list txout * dist * (vparams * vparams * vparams) * error * res verdict)%type.
Definition pick_params (entry : Z) (ps : vparams * vparams * vparams) : vparams :=
  let '(pu, pn, pc) := ps in if entry =? 0 then pu else if entry =? 1 then pn else pc.
Definition entry_model (entry : Z) (size : Z * error) (T : Z) (ins : list uxin) (outs : list txout)
    (d : dist) (ps : vparams * vparams * vparams) (pre : error) : res verdict :=
  bind (Hours.VerifySingleTxnHardConstraints pre T ins outs) (fun v =>
  match v with
  | Some _ => Val v
  | None => VerifySingleTxnSoftConstraints size T ins outs d (pick_params entry ps)
  end).
Definition mism_entry := Eval vm_compute in
  failing (fun c : c_entry => let '(entry, size, T, ins, outs, d, ps, pre, obs) := c in
    let m := entry_model entry size T ins outs d ps pre in
    if entry =? 2 then Bool.eqb (is_val_none m) (is_val_none obs) && negb (match obs with Panic => true | _ => false end)
    else res_verdict_matches m obs) cases_entry.
Print mism_entry.
