(* Specifications of the translated checked-arithmetic helpers
   (src/util/mathutil) — proved against Gen/Mathutil.v as regenerated. *)
From Sky Require Import Base.Uint Model.ArithSpec Gen.Mathutil Proofs.UintLemmas.
From Coq Require Import Lia ZifyBool.
Open Scope Z_scope.

Lemma AddUint64_spec a b : in_u 64 a -> in_u 64 b ->
  AddUint64 a b = ret_or_err (a + b <? 2 ^ 64) (a + b) "ErrUint64AddOverflow".
Proof.
  unfold in_u, AddUint64, ret_or_err. intros Ha Hb.
  destruct (a + b <? 2 ^ 64) eqn:E.
  - rewrite wrap_small by lia.
    destruct ((a + b <? a) || (a + b <? b)) eqn:E2; [lia|reflexivity].
  - rewrite wrap_add_over by lia.
    destruct ((a + b - 2 ^ 64 <? a) || (a + b - 2 ^ 64 <? b)) eqn:E2; [reflexivity|lia].
Qed.

Lemma AddUint32_spec a b : in_u 32 a -> in_u 32 b ->
  AddUint32 a b = ret_or_err (a + b <? 2 ^ 32) (a + b) "ErrUint32AddOverflow".
Proof.
  unfold in_u, AddUint32, ret_or_err. intros Ha Hb.
  destruct (a + b <? 2 ^ 32) eqn:E.
  - rewrite wrap_small by lia.
    destruct ((a + b <? a) || (a + b <? b)) eqn:E2; [lia|reflexivity].
  - rewrite wrap_add_over by lia.
    destruct ((a + b - 2 ^ 32 <? a) || (a + b - 2 ^ 32 <? b)) eqn:E2; [reflexivity|lia].
Qed.

Lemma MultUint64_spec a b : in_u 64 a -> in_u 64 b ->
  MultUint64 a b = ret_or_err (a * b <? 2 ^ 64) (a * b) "ErrUint64MultOverflow".
Proof.
  unfold in_u, MultUint64, ret_or_err. intros Ha Hb.
  destruct (a =? 0) eqn:Ea.
  - assert (a = 0) by lia. subst a. cbn [negb]. rewrite bind_val.
    replace (0 * b <? 2 ^ 64) with true by (symmetry; apply Z.ltb_lt; lia).
    rewrite Z.mul_0_l. unfold wrap. rewrite Z.mod_0_l by (rewrite pow64; lia). reflexivity.
  - cbn [negb]. rewrite udiv_nz by lia. rewrite !bind_val.
    destruct (a * b <? 2 ^ 64) eqn:E.
    + rewrite wrap_small by nia.
      rewrite Z.mul_comm, Z.div_mul by lia. rewrite Z.eqb_refl. reflexivity.
    + assert (Hc : 0 <= wrap 64 (a * b) < 2 ^ 64) by (apply wrap_range; lia).
      assert (Hlt : wrap 64 (a * b) / a < b).
      { apply Z.div_lt_upper_bound; [lia|]. nia. }
      replace (wrap 64 (a * b) / a =? b) with false by (symmetry; apply Z.eqb_neq; lia).
      reflexivity.
Qed.

Lemma swrap_small z : 0 <= z < 2 ^ 63 -> swrap 64 z = z.
Proof.
  intros H. unfold swrap. change (64 - 1) with 63. rewrite pow63 in *. rewrite pow64.
  rewrite Z.mod_small by lia. lia.
Qed.
Lemma swrap_big z : 2 ^ 63 <= z < 2 ^ 64 -> swrap 64 z = z - 2 ^ 64.
Proof.
  intros H. unfold swrap. change (64 - 1) with 63. rewrite pow63, pow64 in *.
  replace ((z + 9223372036854775808) mod 18446744073709551616) with (z + 9223372036854775808 - 18446744073709551616).
  - lia.
  - apply Z.mod_unique with 1; lia.
Qed.

Lemma Uint64ToInt64_spec a : in_u 64 a ->
  Uint64ToInt64 a = ret_or_err (a <? 2 ^ 63) a "ErrUint64OverflowsInt64".
Proof.
  unfold in_u, Uint64ToInt64, ret_or_err. intros Ha.
  destruct (a <? 2 ^ 63) eqn:E.
  - rewrite swrap_small by lia. destruct (a <? 0) eqn:E2; [lia|reflexivity].
  - rewrite swrap_big by lia. rewrite pow64, pow63 in *.
    destruct (a - 18446744073709551616 <? 0) eqn:E2; [reflexivity|lia].
Qed.

Lemma Int64ToUint64_spec a : in_s 64 a ->
  Int64ToUint64 a = ret_or_err (0 <=? a) a "ErrInt64UnderflowsUint64".
Proof.
  unfold in_s, Int64ToUint64, ret_or_err. change (64 - 1) with 63. rewrite pow63. intros Ha.
  destruct (a <? 0) eqn:E.
  - replace (0 <=? a) with false by lia. reflexivity.
  - replace (0 <=? a) with true by lia. rewrite wrap_small by (rewrite pow64; lia). reflexivity.
Qed.

(* Go `int` is 64 bits on every platform skycoin builds for. *)
Lemma IntToUint32_spec a : in_s 64 a ->
  IntToUint32 a = IntToUint32_spec_fn a.
Proof.
  unfold in_s, IntToUint32, IntToUint32_spec_fn. change (64 - 1) with 63. rewrite pow63. intros Ha.
  destruct (a <? 0) eqn:E; [reflexivity|].
  rewrite (wrap_small 64) by (rewrite pow64; lia).
  rewrite pow32.
  destruct (a >? 4294967295) eqn:E2; destruct (a <? 4294967296) eqn:E3; try lia; try reflexivity.
  rewrite wrap_small by (rewrite pow32; lia). reflexivity.
Qed.
