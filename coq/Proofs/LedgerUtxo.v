(* Proofs/LedgerUtxo.v — C02: the unspent set is exactly created minus spent;
   nothing is spent twice; created ids are new. *)
From Sky Require Import Base.Uint Model.Ledger Model.LedgerSpec Proofs.LedgerBasics Proofs.LedgerProofs.
From Coq Require Import Lia ZifyBool Permutation.
Open Scope Z_scope.

(* ---- unconditional consequences of acceptance (the model's guards) *)
Lemma accept_needs_unspent s b s' : step s (ExecBlock b) = (s', Accepted) ->
  incl (all_ins (b_txns b)) (ids (utxo s)).
Proof.
  cbn [step]. intros He.
  destruct (exec_accept_inv _ _ _ He) as [head [rest [spent [_ [_ [_ [_ [_ [_ [_ [Hg _]]]]]]]]]]].
  exact (get_array_incl _ _ _ Hg).
Qed.

Lemma no_intra_block_double_spend s b s' : step s (ExecBlock b) = (s', Accepted) ->
  NoDup (all_ins (b_txns b)).
Proof.
  cbn [step]. intros He.
  destruct (exec_accept_inv _ _ _ He) as [head [rest [spent [_ [_ [_ [_ [Hp _]]]]]]]].
  destruct (process_txns_inv _ _ _ Hp) as [_ [_ [_ [_ P4]]]]. exact P4.
Qed.

Lemma created_fresh_in_pool s b s' : step s (ExecBlock b) = (s', Accepted) ->
  NoDup (out_ids (b_txns b)) /\ forall x, In x (out_ids (b_txns b)) -> ~ In x (ids (utxo s)).
Proof.
  cbn [step]. intros He.
  destruct (exec_accept_inv _ _ _ He) as [head [rest [spent [_ [_ [_ [_ [Hp _]]]]]]]].
  destruct (process_txns_inv _ _ _ Hp) as [_ [_ [P2 [P3 _]]]].
  split; [assumption|]. rewrite Forall_forall in P3. exact P3.
Qed.

(* a block creating an id that is in the unspent set is refused, whatever the id table *)
Lemma collision_rejected s b x : In x (out_ids (b_txns b)) -> In x (ids (utxo s)) ->
  snd (step s (ExecBlock b)) <> Accepted.
Proof.
  intros Hx Hu He. destruct (step s (ExecBlock b)) as [s' o] eqn:E. cbn [snd] in He. subst o.
  destruct (created_fresh_in_pool _ _ _ E) as [_ H]. exact (H x Hx Hu).
Qed.

(* ---- ids created / spent by a chain *)
Lemma in_ids_remove hs pool x : In x (ids (remove_ids hs pool)) <-> In x (ids pool) /\ ~ In x hs.
Proof.
  unfold ids, remove_ids. split.
  - intros H. apply in_map_iff in H. destruct H as [u [Hu1 Hu2]]. apply filter_In in Hu2.
    destruct Hu2 as [Hu2 Hu3]. apply Bool.negb_true_iff in Hu3. apply memZ_false in Hu3. subst x.
    split; [apply in_map; assumption|assumption].
  - intros [H1 H2]. apply in_map_iff in H1. destruct H1 as [u [Hu1 Hu2]]. apply in_map_iff.
    exists u. split; [assumption|]. apply filter_In. split; [assumption|].
    apply Bool.negb_true_iff. apply memZ_false. subst x. assumption.
Qed.

Lemma in_out_ids ts x : In x (out_ids ts) <-> exists t o, In t ts /\ In o (t_outs t) /\ o_id o = x.
Proof.
  unfold out_ids. rewrite in_map_iff. split.
  - intros [o [Ho1 Ho2]]. apply in_flat_map in Ho2. destruct Ho2 as [t [Ht1 Ht2]]. exists t, o. auto.
  - intros [t [o [Ht [Ho Hx]]]]. exists o. split; [assumption|]. apply in_flat_map. exists t. auto.
Qed.
Lemma in_created_ids c x : In x (created_ids c) <-> exists b, In b c /\ In x (out_ids (b_txns b)).
Proof. unfold created_ids. apply in_flat_map. Qed.
Lemma in_spent_ids c x : In x (spent_ids c) <-> exists b, In b c /\ In x (all_ins (b_txns b)).
Proof. unfold spent_ids. apply in_flat_map. Qed.
Lemma in_all_ins ts x : In x (all_ins ts) <-> exists t, In t ts /\ In x (t_ins t).
Proof. unfold all_ins. apply in_flat_map. Qed.

(* ---- the invariant, relative to a consistent id table over the transactions U *)
Definition inv_utxo (g : block) (U : list txn) (s : state) : Prop :=
  NoDup (ids (utxo s)) /\
  NoDup (created_ids (chain s)) /\
  NoDup (spent_ids (chain s)) /\
  incl (spent_ids (chain s)) (created_ids (chain s)) /\
  (forall x, In x (ids (utxo s)) <-> In x (created_ids (chain s)) /\ ~ In x (spent_ids (chain s))) /\
  exists cs, chain s = cs ++ [g] /\ Forall (fun b0 => incl (b_txns b0) U) cs.

Lemma init_utxo g U : genesis_wf g -> inv_utxo g U (init_state g).
Proof.
  intros [_ [Hn Hi]]. unfold inv_utxo, init_state. cbn [utxo chain].
  unfold created_ids, spent_ids. cbn [flat_map]. rewrite !app_nil_r, Hi, created_ids_eq.
  split; [assumption|]. split; [assumption|]. split; [constructor|].
  split; [intros x Hx; contradiction|].
  split; [intros x; cbn [In]; tauto|].
  exists []. split; [reflexivity|constructor].
Qed.

(* a created id cannot have been created before: its source transaction would
   spend again an input that is already spent. Transaction-level facts only. *)
Lemma apply_fresh_ids_ok g U s b head spent :
  ids_consistent g U -> inv_utxo g U s -> incl (b_txns b) U ->
  txns_ok (utxo s) head (b_txns b) ->
  get_array (all_ins (b_txns b)) (utxo s) = Some spent ->
  forall x, In x (out_ids (b_txns b)) -> ~ In x (created_ids (chain s)).
Proof.
  intros [Ca [Cb Cc]] [I1 [I2 [I3 [I4 [I5 [cs [Ec Hcs]]]]]]] Hb [P1 _] Hg x Hx Hin.
  apply in_out_ids in Hx. destruct Hx as [t [o [Ht [Ho Hxo]]]].
  rewrite Ec in Hin. apply in_created_ids in Hin. destruct Hin as [b0 [Hb0 Hx0]].
  apply in_app_or in Hb0. destruct Hb0 as [Hb0|Hb0].
  - (* created by an earlier accepted block *)
    apply in_out_ids in Hx0. destruct Hx0 as [t0 [o0 [Ht0 [Ho0 Hxo0]]]].
    rewrite Forall_forall in Hcs. pose proof (Hcs b0 Hb0 t0 Ht0) as Hu0. pose proof (Hb t Ht) as Hu.
    assert (Hh : t_hash t0 = t_hash t) by (apply (Ca t0 t o0 o); auto; congruence).
    pose proof (Cb t0 t Hu0 Hu Hh) as Hins.
    rewrite Forall_forall in P1. destruct (block_txn_inv0 _ _ _ (P1 t Ht)) as [uxin [G1 [Hne _]]].
    destruct (t_ins t) as [|y ys] eqn:Ey; [congruence|].
    (* y is spent by the chain (through t0) and unspent now (t is accepted) *)
    assert (Hy1 : In y (spent_ids (chain s))).
    { rewrite Ec. apply in_spent_ids. exists b0. split; [apply in_or_app; left; assumption|].
      apply in_all_ins. exists t0. split; [assumption|]. rewrite Hins. left. reflexivity. }
    assert (Hy2 : In y (ids (utxo s))).
    { apply (get_array_incl _ _ _ Hg). apply in_all_ins. exists t. split; [assumption|].
      rewrite Ey. left. reflexivity. }
    apply I5 in Hy2. tauto.
  - (* created by the genesis block *)
    destruct Hb0 as [Hb0|[]]. subst b0. apply (Cc t o (Hb t Ht) Ho). rewrite Hxo. assumption.
Qed.

Lemma apply_fresh_ids g U s b head spent :
  ids_consistent g U -> inv_utxo g U s -> incl (b_txns b) U ->
  process_txns (utxo s) head (b_txns b) = Pass ->
  get_array (all_ins (b_txns b)) (utxo s) = Some spent ->
  forall x, In x (out_ids (b_txns b)) -> ~ In x (created_ids (chain s)).
Proof. intros Hc Hi Hb Hp. apply (apply_fresh_ids_ok g U s b head spent Hc Hi Hb). apply process_txns_ok. assumption. Qed.

Lemma new_ids_never_created g U s b s' :
  ids_consistent g U -> inv_utxo g U s -> incl (b_txns b) U ->
  exec_block s b = (s', Accepted) ->
  forall x, In x (out_ids (b_txns b)) -> ~ In x (created_ids (chain s)).
Proof.
  intros Hc Hinv Hb He.
  destruct (exec_accept_inv _ _ _ He) as [head [rest [spent [_ [_ [_ [_ [Hp [_ [_ [Hg _]]]]]]]]]]].
  exact (apply_fresh_ids _ _ _ _ _ _ Hc Hinv Hb Hp Hg).
Qed.

Lemma apply_preserves_utxo_ok g U s b head spent :
  ids_consistent g U -> incl (b_txns b) U ->
  txns_ok (utxo s) head (b_txns b) ->
  get_array (all_ins (b_txns b)) (utxo s) = Some spent ->
  insert_ok s b = true ->
  inv_utxo g U s -> inv_utxo g U (apply_block s b spent).
Proof.
  intros Hc Hb Hp Hg Hi Hinv.
  pose proof (apply_fresh_ids_ok _ _ _ _ _ _ Hc Hinv Hb Hp Hg) as Hnew.
  destruct Hinv as [I1 [I2 [I3 [I4 [I5 [cs [Ec Hcs]]]]]]].
  destruct Hp as [P1 [P2 [P3 P4]]].
  pose proof (get_array_incl _ _ _ Hg) as Hins. rewrite Forall_forall in P3.
  unfold inv_utxo, apply_block. cbn [utxo chain].
  assert (Ecr : created_ids (b :: chain s) = out_ids (b_txns b) ++ created_ids (chain s)) by reflexivity.
  assert (Esp : spent_ids (b :: chain s) = all_ins (b_txns b) ++ spent_ids (chain s)) by reflexivity.
  rewrite Ecr, Esp.
  split; [apply new_utxo_nodup; assumption|].
  split; [apply NoDup_app_intro; assumption|].
  split.
  { apply NoDup_app_intro; [assumption|assumption|]. intros x Hx. apply Hins in Hx. apply I5 in Hx. tauto. }
  split.
  { intros x Hx. apply in_app_or in Hx. apply in_or_app. destruct Hx as [Hx|Hx].
    - right. apply Hins in Hx. apply I5 in Hx. tauto.
    - right. auto. }
  split.
  { intros x. rewrite ids_app, created_ids_eq, !in_app_iff, in_ids_remove. split.
    - intros [[H1 H2]|H1].
      + apply I5 in H1. tauto.
      + split; [tauto|]. intros [H2|H2].
        * exact (P3 x H1 (Hins x H2)).
        * exact (Hnew x H1 (I4 x H2)).
    - intros [[H1|H1] H2]; [tauto|]. left. split; [|tauto]. apply I5. tauto. }
  exists (b :: cs). split; [rewrite Ec; reflexivity|constructor; assumption].
Qed.

Lemma apply_preserves_utxo g U s b head spent :
  ids_consistent g U -> incl (b_txns b) U ->
  process_txns (utxo s) head (b_txns b) = Pass ->
  get_array (all_ins (b_txns b)) (utxo s) = Some spent ->
  insert_ok s b = true ->
  inv_utxo g U s -> inv_utxo g U (apply_block s b spent).
Proof. intros Hc Hb Hp. apply apply_preserves_utxo_ok with (head := head); [assumption|assumption|]. apply process_txns_ok. assumption. Qed.

Lemma exec_preserves_utxo g U s b s' :
  ids_consistent g U -> exec_block s b = (s', Accepted) -> incl (b_txns b) U ->
  inv_utxo g U s -> inv_utxo g U s'.
Proof.
  intros Hc He Hb Hinv.
  destruct (exec_accept_inv _ _ _ He) as [head [rest [spent [_ [_ [_ [_ [Hp [_ [_ [Hg [Hi Es]]]]]]]]]]]].
  subst s'. exact (apply_preserves_utxo _ _ _ _ _ _ Hc Hb Hp Hg Hi Hinv).
Qed.

Lemma reachable_utxo g ops : genesis_wf g -> ids_consistent g (ops_txns ops) ->
  inv_utxo g (ops_txns ops) (run (init_state g) ops).
Proof.
  intros Hg Hc.
  apply (run_invariant (inv_utxo g (ops_txns ops)) (fun b => incl (b_txns b) (ops_txns ops))).
  - intros s b s' He Hq Hs. exact (exec_preserves_utxo _ _ _ _ _ Hc He Hq Hs).
  - apply init_utxo. assumption.
  - apply Forall_forall. intros o Ho t Ht. unfold ops_txns. apply in_flat_map. exists o. auto.
Qed.

(* ---- C02 *)
Lemma in_list_minus a b x : In x (list_minus a b) <-> In x a /\ ~ In x b.
Proof.
  unfold list_minus. rewrite filter_In, Bool.negb_true_iff, memZ_false. tauto.
Qed.

Lemma utxo_exact g ops : genesis_wf g -> ids_consistent g (ops_txns ops) ->
  let s := run (init_state g) ops in
  Permutation (ids (utxo s)) (list_minus (created_ids (chain s)) (spent_ids (chain s))).
Proof.
  intros Hg Hc s. destruct (reachable_utxo g ops Hg Hc) as [I1 [I2 [I3 [I4 [I5 _]]]]]. fold s in I1, I2, I3, I4, I5.
  apply NoDup_Permutation; [assumption|unfold list_minus; apply NoDup_filter; assumption|].
  intros x. rewrite in_list_minus. apply I5.
Qed.

Lemma spent_once g ops : genesis_wf g -> ids_consistent g (ops_txns ops) ->
  NoDup (spent_ids (chain (run (init_state g) ops))).
Proof. intros Hg Hc. destruct (reachable_utxo g ops Hg Hc) as [_ [_ [I3 _]]]. exact I3. Qed.

Lemma created_once g ops : genesis_wf g -> ids_consistent g (ops_txns ops) ->
  NoDup (created_ids (chain (run (init_state g) ops))).
Proof. intros Hg Hc. destruct (reachable_utxo g ops Hg Hc) as [_ [I2 _]]. exact I2. Qed.

Lemma unspent_ids_distinct g ops : genesis_wf g ->
  NoDup (ids (utxo (run (init_state g) ops))).
Proof. intros [_ [Hn _]]. apply reachable_nodup. exact Hn. Qed.
