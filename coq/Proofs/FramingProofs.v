(* Proofs/FramingProofs.v — lemmas for property C22 over Model/Framing.v *)
From Sky Require Import Base.Uint Model.Framing.
From Coq Require Import ZArith Lia Bool Arith ZifyBool List.
Import ListNotations.
Open Scope Z_scope.

(* ---------- lists ---------- *)

Lemma firstn_app_exact {A} (n : nat) (l r : list A) : length l = n -> firstn n (l ++ r) = l.
Proof.
  intros H. subst n. rewrite firstn_app, Nat.sub_diag, firstn_all. cbn [firstn]. apply app_nil_r.
Qed.

Lemma skipn_app_exact {A} (n : nat) (l r : list A) : length l = n -> skipn n (l ++ r) = r.
Proof.
  intros H. subst n. rewrite skipn_app, Nat.sub_diag, skipn_all. reflexivity.
Qed.

Lemma firstn_app_le {A} (n : nat) (l r : list A) : (n <= length l)%nat -> firstn n (l ++ r) = firstn n l.
Proof.
  intros H. rewrite firstn_app. replace (n - length l)%nat with 0%nat by lia. cbn [firstn]. apply app_nil_r.
Qed.

Lemma skipn_app_le {A} (n : nat) (l r : list A) : (n <= length l)%nat -> skipn n (l ++ r) = skipn n l ++ r.
Proof.
  intros H. rewrite skipn_app. replace (n - length l)%nat with 0%nat by lia. reflexivity.
Qed.

Lemma blen_app (a b : bytes) : blen (a ++ b) = blen a + blen b.
Proof. unfold blen. rewrite app_length. lia. Qed.

Lemma blen_nonneg (a : bytes) : 0 <= blen a.
Proof. unfold blen. lia. Qed.

(* ---------- little endian ---------- *)

Lemma le_bytes_length w z : length (le_bytes w z) = w.
Proof. revert z; induction w as [|w IH]; intros z; cbn [le_bytes length]; [reflexivity|now rewrite IH]. Qed.

Lemma le_val_le_bytes w z : 0 <= z < 256 ^ Z.of_nat w -> le_val (le_bytes w z) = z.
Proof.
  revert z; induction w as [|w IH]; intros z Hz.
  - cbn in *. lia.
  - cbn [le_bytes le_val]. rewrite IH.
    + pose proof (Z.div_mod z 256). lia.
    + rewrite Nat2Z.inj_succ, Z.pow_succ_r in Hz by lia.
      split; [apply Z.div_pos; lia | apply Z.div_lt_upper_bound; lia].
Qed.

(* ---------- one loop iteration ---------- *)

Lemma next_frame_enc max f t : frame_ok max f -> next_frame max (enc_frame f ++ t) = Frame f t.
Proof.
  intros (Hmin & Hmax & H32). unfold next_frame, enc_frame, MIN_LENGTH, LEN_PREFIX_SIZE in *.
  rewrite <- app_assoc.
  assert (Hl : length (le_bytes 4 (blen f)) = 4%nat) by apply le_bytes_length.
  rewrite (firstn_app_exact 4 _ (f ++ t) Hl), (skipn_app_exact 4 _ (f ++ t) Hl).
  rewrite le_val_le_bytes by (change (256 ^ Z.of_nat 4) with (2 ^ 32); pose proof (blen_nonneg f); lia).
  assert (Hb : blen (le_bytes 4 (blen f)) = 4) by (unfold blen at 1; rewrite Hl; reflexivity).
  rewrite !blen_app, !Hb.
  pose proof (blen_nonneg t) as Ht.
  destruct (4 + (blen f + blen t) >? 4) eqn:E1; [|lia].
  destruct (blen f <? 4) eqn:E2; [lia|].
  destruct (blen f >? max) eqn:E3; [lia|].
  destruct (4 + (blen f + blen t) - 4 <? blen f) eqn:E4; [lia|].
  assert (Hf : length f = Z.to_nat (blen f)) by (unfold blen; lia).
  rewrite (firstn_app_exact _ f t Hf), (skipn_app_exact _ f t Hf). reflexivity.
Qed.

Lemma next_frame_shrinks max s f r : next_frame max s = Frame f r -> (length r < length s)%nat.
Proof.
  unfold next_frame, MIN_LENGTH, LEN_PREFIX_SIZE, blen. intros H.
  remember (le_val (firstn 4 s)) as len eqn:Hlen. clear Hlen.
  destruct (Z.of_nat (length s) >? 4) eqn:E1; [|discriminate].
  destruct (len <? 4) eqn:E2; [discriminate|].
  destruct (len >? max) eqn:E3; [discriminate|].
  destruct (Z.of_nat (length s) - 4 <? len) eqn:E4; [discriminate|].
  assert (Hr : r = skipn (Z.to_nat len) (skipn 4 s)) by congruence. subst r.
  rewrite !skipn_length. lia.
Qed.

(* the decision taken on a buffer whose front frame is complete (or has a bad
   length) is not changed by bytes that arrive later *)
Lemma next_frame_app_frame max s e f r :
  next_frame max s = Frame f r -> next_frame max (s ++ e) = Frame f (r ++ e).
Proof.
  unfold next_frame, MIN_LENGTH, LEN_PREFIX_SIZE. intros H.
  destruct (blen s >? 4) eqn:E1; [|discriminate].
  assert (H4 : (4 <= length s)%nat) by (unfold blen in E1; lia).
  rewrite (firstn_app_le 4 s e H4), (skipn_app_le 4 s e H4).
  rewrite blen_app. pose proof (blen_nonneg e) as He.
  destruct (blen s + blen e >? 4) eqn:E1'; [|lia].
  destruct (le_val (firstn 4 s) <? 4) eqn:E2; [discriminate|].
  destruct (le_val (firstn 4 s) >? max) eqn:E3; [discriminate|].
  destruct (blen s - 4 <? le_val (firstn 4 s)) eqn:E4; [discriminate|].
  destruct (blen s + blen e - 4 <? le_val (firstn 4 s)) eqn:E4'; [lia|].
  assert (Hf : f = firstn (Z.to_nat (le_val (firstn 4 s))) (skipn 4 s)) by congruence.
  assert (Hr : r = skipn (Z.to_nat (le_val (firstn 4 s))) (skipn 4 s)) by congruence.
  subst f r. clear H.
  assert (Hl : (Z.to_nat (le_val (firstn 4 s)) <= length (skipn 4 s))%nat)
    by (rewrite skipn_length; unfold blen in *; lia).
  rewrite (firstn_app_le _ (skipn 4 s) e Hl), (skipn_app_le _ (skipn 4 s) e Hl). reflexivity.
Qed.

Lemma next_frame_app_bad max s e : next_frame max s = BadLength -> next_frame max (s ++ e) = BadLength.
Proof.
  unfold next_frame, MIN_LENGTH, LEN_PREFIX_SIZE. intros H.
  destruct (blen s >? 4) eqn:E1; [|discriminate].
  assert (H4 : (4 <= length s)%nat) by (unfold blen in E1; lia).
  rewrite (firstn_app_le 4 s e H4).
  rewrite blen_app. pose proof (blen_nonneg e) as He.
  destruct (blen s + blen e >? 4) eqn:E1'; [|lia].
  destruct (le_val (firstn 4 s) <? 4) eqn:E2; [reflexivity|].
  destruct (le_val (firstn 4 s) >? max) eqn:E3; [reflexivity|].
  destruct (blen s - 4 <? le_val (firstn 4 s)); discriminate.
Qed.

Lemma next_frame_bad_header max h t :
  length h = 4%nat -> t <> [] -> (le_val h < MIN_LENGTH \/ max < le_val h) ->
  next_frame max (h ++ t) = BadLength.
Proof.
  intros Hh Ht Hbad. unfold next_frame, MIN_LENGTH, LEN_PREFIX_SIZE in *.
  rewrite (firstn_app_exact 4 h t Hh), blen_app.
  assert (0 < blen t) by (unfold blen; destruct t; [congruence|cbn [length]; lia]).
  assert (blen h = 4) by (unfold blen; lia).
  destruct (blen h + blen t >? 4) eqn:E1; [|lia].
  destruct (le_val h <? 4) eqn:E2; [reflexivity|].
  destruct (le_val h >? max) eqn:E3; [reflexivity|lia].
Qed.

(* ---------- fuel ---------- *)

Lemma decode_loop_fuel keep max : forall fuel1 fuel2 s acc,
  (length s < fuel1)%nat -> (length s < fuel2)%nat ->
  decode_loop keep fuel1 max s acc = decode_loop keep fuel2 max s acc.
Proof.
  induction fuel1 as [|f1 IH]; intros fuel2 s acc H1 H2; [lia|].
  destruct fuel2 as [|f2]; [lia|].
  cbn [decode_loop]. destruct (next_frame max s) as [| | |f r] eqn:E; try reflexivity.
  apply next_frame_shrinks in E. apply IH; lia.
Qed.

Lemma parse_all_fuel max : forall fuel1 fuel2 s,
  (length s < fuel1)%nat -> (length s < fuel2)%nat ->
  parse_all fuel1 max s = parse_all fuel2 max s.
Proof.
  induction fuel1 as [|f1 IH]; intros fuel2 s H1 H2; [lia|].
  destruct fuel2 as [|f2]; [lia|].
  cbn [parse_all]. destruct (next_frame max s) as [| | |f r] eqn:E; try reflexivity.
  apply next_frame_shrinks in E. rewrite (IH f2 r) by lia. reflexivity.
Qed.

(* the accumulator only prefixes the result *)
Definition with_acc (acc : list bytes) (x : bytes * list bytes * status) : bytes * list bytes * status :=
  match x with
  | (s', d, Running) => (s', acc ++ d, Running)
  | (s', _, st) => (s', [], st)
  end.

Lemma decode_loop_acc max : forall fuel s acc,
  decode_loop true fuel max s acc = with_acc acc (decode_loop true fuel max s []).
Proof.
  induction fuel as [|fuel IH]; intros s acc; cbn [decode_loop].
  - reflexivity.
  - destruct (next_frame max s) as [| | |f r]; cbn [with_acc]; try (rewrite app_nil_r; reflexivity); try reflexivity.
    rewrite (IH r (acc ++ [f])), (IH r ([] ++ [f])).
    destruct (decode_loop true fuel max r []) as [[s' d] st].
    destruct st; cbn [with_acc app]; try reflexivity. rewrite <- app_assoc. reflexivity.
Qed.

(* fuel-free unfolding of decodeData and of the reference parser *)
Lemma decode_data_unfold max s :
  decode_data max s =
  match next_frame max s with
  | NeedHeader | NeedBody => (s, [], Running)
  | BadLength => (s, [], Disconnected InvalidMessageLength)
  | Frame f r => with_acc [f] (decode_data max r)
  end.
Proof.
  unfold decode_data, decode_data_gen.
  change (decode_loop true (S (length s)) max s []) with
    (match next_frame max s with
     | NeedHeader => (s, @nil bytes, Running)
     | BadLength => (s, [], Disconnected InvalidMessageLength)
     | NeedBody => (s, [], Running)
     | Frame f rest => decode_loop true (length s) max rest ([] ++ [f])
     end).
  destruct (next_frame max s) as [| | |f r] eqn:E; try reflexivity.
  apply next_frame_shrinks in E. cbn [app].
  rewrite decode_loop_acc. f_equal. apply decode_loop_fuel; lia.
Qed.

Lemma parse_unfold max s :
  parse max s =
  match next_frame max s with
  | NeedHeader | NeedBody => ([], Wait s)
  | BadLength => ([], Bad)
  | Frame f r => let '(fs, t) := parse max r in (f :: fs, t)
  end.
Proof.
  unfold parse.
  change (parse_all (S (length s)) max s) with
    (match next_frame max s with
     | NeedHeader | NeedBody => (@nil bytes, Wait s)
     | BadLength => ([], Bad)
     | Frame f rest => let '(fs, t) := parse_all (length s) max rest in (f :: fs, t)
     end).
  destruct (next_frame max s) as [| | |f r] eqn:E; try reflexivity.
  apply next_frame_shrinks in E. rewrite (parse_all_fuel max (length s) (S (length r)) r) by lia. reflexivity.
Qed.

(* strong induction on the buffer length *)
Lemma bytes_len_ind (P : bytes -> Prop) :
  (forall s, (forall r, (length r < length s)%nat -> P r) -> P s) -> forall s, P s.
Proof.
  intros H s. remember (length s) as n eqn:Hn. revert s Hn.
  induction n as [n IH] using lt_wf_ind. intros s Hn. apply H. intros r Hr. apply (IH (length r)); [lia|reflexivity].
Qed.

(* ---------- decodeData against the reference parser ---------- *)

Definition stable (max : Z) (s : bytes) : Prop :=
  next_frame max s = NeedHeader \/ next_frame max s = NeedBody.

Lemma parse_stable max s : stable max s -> parse max s = ([], Wait s).
Proof. intros [H|H]; rewrite parse_unfold, H; reflexivity. Qed.

(* what one decodeData call returns, in terms of the whole stream s ++ e
   (e = bytes that arrive later) *)
Lemma decode_data_spec max e : forall s,
  match decode_data max s with
  | (s', d, Running) =>
      stable max s' /\ parse max (s ++ e) = (let '(fs, t) := parse max (s' ++ e) in (d ++ fs, t))
  | (s', d, Disconnected r) =>
      r = InvalidMessageLength /\ d = [] /\ exists fs, parse max (s ++ e) = (fs, Bad)
  | (_, _, OutOfFuel) => False
  end.
Proof.
  induction s as [s IH] using bytes_len_ind.
  rewrite decode_data_unfold. destruct (next_frame max s) as [| | |f r] eqn:E.
  - split; [left; exact E|]. destruct (parse max (s ++ e)); reflexivity.
  - split; [reflexivity|]. split; [reflexivity|].
    exists []. rewrite parse_unfold, (next_frame_app_bad _ _ _ E). reflexivity.
  - split; [right; exact E|]. destruct (parse max (s ++ e)); reflexivity.
  - pose proof (next_frame_shrinks _ _ _ _ E) as Hlt. specialize (IH r Hlt).
    rewrite (parse_unfold max (s ++ e)), (next_frame_app_frame _ _ e _ _ E).
    destruct (decode_data max r) as [[s' d] st]. destruct st as [|rs|]; cbn [with_acc].
    + destruct IH as [Hst Hp]. split; [exact Hst|]. rewrite Hp.
      destruct (parse max (s' ++ e)) as [fs t]. reflexivity.
    + destruct IH as (Hr & Hd & fs & Hp). split; [exact Hr|]. split; [reflexivity|].
      exists (f :: fs). rewrite Hp. reflexivity.
    + exact IH.
Qed.

(* ---------- any chunking ---------- *)

Definition run_agrees (max : Z) (b : bytes) (chunks : list bytes) : Prop :=
  match parse max (b ++ concat chunks) with
  | (fs, Wait rest) => run max b chunks = (fs, rest, Running)
  | (fs, Bad) => exists d b' fs2, run max b chunks = (d, b', Disconnected InvalidMessageLength) /\ fs = d ++ fs2
  | (_, NoFuel) => False
  end.

Lemma run_agrees_gen max : forall chunks b, stable max b -> run_agrees max b chunks.
Proof.
  induction chunks as [|c cs IH]; intros b Hb; unfold run_agrees.
  - cbn [concat]. rewrite app_nil_r, (parse_stable _ _ Hb). reflexivity.
  - cbn [concat]. rewrite app_assoc.
    pose proof (decode_data_spec max (concat cs) (b ++ c)) as Hd.
    unfold run. cbn [run_gen]. unfold feed_gen. fold (decode_data max (b ++ c)).
    destruct (decode_data max (b ++ c)) as [[s' d] st]. destruct st as [|rs|]; [| |contradiction].
    + destruct Hd as [Hst Hp]. rewrite Hp. specialize (IH s' Hst). unfold run_agrees in IH.
      fold (run max s' cs).
      destruct (parse max (s' ++ concat cs)) as [fs t]. destruct t as [rest| |]; [| |contradiction].
      * rewrite IH. reflexivity.
      * destruct IH as (d2 & b2 & fs2 & Hrun & Hfs). rewrite Hrun.
        exists (d ++ d2), b2, fs2. split; [reflexivity|]. rewrite Hfs, app_assoc. reflexivity.
    + destruct Hd as (Hr & Hd0 & fs & Hp). subst rs d. rewrite Hp.
      exists [], s', fs. split; reflexivity.
Qed.

Lemma stable_nil max : stable max [].
Proof. left. reflexivity. Qed.

(* For every byte stream and every way of splitting it into reads, the read
   loop delivers exactly the frames of the whole stream and keeps the
   unfinished rest; if the stream holds an invalid length the loop disconnects
   having delivered only (a prefix of) the frames before it. *)
Theorem chunking_independent max chunks :
  match parse max (concat chunks) with
  | (fs, Wait rest) => run max [] chunks = (fs, rest, Running)
  | (fs, Bad) => exists d b fs2, run max [] chunks = (d, b, Disconnected InvalidMessageLength) /\ fs = d ++ fs2
  | (_, NoFuel) => False
  end.
Proof. exact (run_agrees_gen max chunks [] (stable_nil max)). Qed.

(* ---------- well-formed streams ---------- *)

Lemma parse_frames max fs t : Forall (frame_ok max) fs ->
  parse max (concat (map enc_frame fs) ++ t) = (let '(fs', tl) := parse max t in (fs ++ fs', tl)).
Proof.
  induction 1 as [|f fs Hf _ IH]; cbn [map concat app].
  - destruct (parse max t); reflexivity.
  - rewrite <- app_assoc, parse_unfold, (next_frame_enc _ _ _ Hf), IH.
    destruct (parse max t); reflexivity.
Qed.

Lemma parse_nil max : parse max [] = ([], Wait []).
Proof. reflexivity. Qed.

Theorem framing_correct max fs chunks :
  Forall (frame_ok max) fs ->
  concat chunks = concat (map enc_frame fs) ->
  run max [] chunks = (fs, [], Running).
Proof.
  intros Hok Hc. pose proof (chunking_independent max chunks) as H.
  rewrite Hc in H. rewrite <- (app_nil_r (concat (map enc_frame fs))) in H.
  rewrite (parse_frames max fs [] Hok), parse_nil, app_nil_r in H. exact H.
Qed.

Theorem bad_length_disconnects max fs h t chunks :
  Forall (frame_ok max) fs ->
  length h = 4%nat -> (le_val h < MIN_LENGTH \/ max < le_val h) -> t <> [] ->
  concat chunks = concat (map enc_frame fs) ++ h ++ t ->
  exists d b fs2, run max [] chunks = (d, b, Disconnected InvalidMessageLength) /\ fs = d ++ fs2.
Proof.
  intros Hok Hh Hbad Ht Hc. pose proof (chunking_independent max chunks) as H.
  rewrite Hc, (parse_frames max fs (h ++ t) Hok), parse_unfold in H.
  rewrite (next_frame_bad_header max h t Hh Ht Hbad), app_nil_r in H. exact H.
Qed.

(* a bad length at the front of a single read *)
Theorem bad_length_disconnects_now max buf :
  4 < blen buf -> (le_val (firstn 4 buf) < MIN_LENGTH \/ max < le_val (firstn 4 buf)) ->
  decode_data max buf = (buf, [], Disconnected InvalidMessageLength).
Proof.
  intros Hl Hbad. rewrite decode_data_unfold. unfold next_frame, MIN_LENGTH, LEN_PREFIX_SIZE in *.
  destruct (blen buf >? 4) eqn:E1; [|lia].
  destruct (le_val (firstn 4 buf) <? 4) eqn:E2; [reflexivity|].
  destruct (le_val (firstn 4 buf) >? max) eqn:E3; [reflexivity|lia].
Qed.

Theorem decode_never_out_of_fuel max s : snd (decode_data max s) <> OutOfFuel.
Proof.
  pose proof (decode_data_spec max [] s) as H.
  destruct (decode_data max s) as [[s' d] st]. cbn [snd]. destruct st; [discriminate|discriminate|contradiction].
Qed.

(* ---------- convertToMessage ---------- *)

Theorem convert_total table dec f : convert table dec f <> Panic.
Proof.
  unfold convert. destruct (blen f <? 4); [discriminate|].
  destruct (negb (id_known table (firstn 4 f))); [discriminate|].
  destruct dec as [| |used]; try discriminate. destruct (used =? blen (skipn 4 f)); discriminate.
Qed.

Theorem convert_ok_iff table dec f m :
  convert table dec f = Val (inl m) <->
  (4 <= blen f /\ id_known table (firstn 4 f) = true /\ dec = DecOk (blen (skipn 4 f)) /\ m = (firstn 4 f, skipn 4 f)).
Proof.
  unfold convert. split.
  - intros H. destruct (blen f <? 4) eqn:E1; [discriminate|].
    destruct (id_known table (firstn 4 f)) eqn:E2; cbn [negb] in H; [|discriminate].
    destruct dec as [| |used]; try discriminate.
    destruct (used =? blen (skipn 4 f)) eqn:E3; [|discriminate].
    injection H as <-. repeat split; try lia. f_equal. lia.
  - intros (H1 & H2 & -> & ->). destruct (blen f <? 4) eqn:E1; [lia|].
    rewrite H2. cbn [negb]. rewrite Z.eqb_refl. reflexivity.
Qed.

Theorem convert_truncated table dec f : blen f < 4 -> convert table dec f = Val (inr TruncatedMessageID).
Proof. intros H. unfold convert. destruct (blen f <? 4) eqn:E; [reflexivity|lia]. Qed.

Theorem convert_unknown_id table dec f :
  4 <= blen f -> id_known table (firstn 4 f) = false -> convert table dec f = Val (inr UnknownMessage).
Proof. intros H1 H2. unfold convert. destruct (blen f <? 4) eqn:E; [lia|]. rewrite H2. reflexivity. Qed.

Theorem convert_undecodable table dec f :
  4 <= blen f -> id_known table (firstn 4 f) = true -> (dec = DecErr \/ dec = DecPanic) ->
  convert table dec f = Val (inr MalformedMessage).
Proof.
  intros H1 H2 H3. unfold convert. destruct (blen f <? 4) eqn:E; [lia|]. rewrite H2. cbn [negb].
  destruct H3 as [-> | ->]; reflexivity.
Qed.

Theorem convert_trailing table used f :
  4 <= blen f -> id_known table (firstn 4 f) = true -> used <> blen (skipn 4 f) ->
  convert table (DecOk used) f = Val (inr MessageDecodeUnderflow).
Proof.
  intros H1 H2 H3. unfold convert. destruct (blen f <? 4) eqn:E; [lia|]. rewrite H2. cbn [negb].
  destruct (used =? blen (skipn 4 f)) eqn:E3; [lia|reflexivity].
Qed.

(* ---------- end to end: messages in = messages out ---------- *)

Definition msg_frame (m : bytes * bytes) : bytes := fst m ++ snd m.
Definition msg_ok (table : list bytes) (max : Z) (m : bytes * bytes) : Prop :=
  length (fst m) = 4%nat /\ id_known table (fst m) = true /\ frame_ok max (msg_frame m).
(* the decoder consumes exactly the body it was encoded from (C21 round trip) *)
Definition exact_dec (m : bytes * bytes) : decoded := DecOk (blen (snd m)).

Lemma receive_ok table max : forall msgs, Forall (msg_ok table max) msgs ->
  receive table (map (fun m => (msg_frame m, exact_dec m)) msgs) = Val (msgs, None).
Proof.
  induction 1 as [|m ms Hm _ IH]; cbn [map receive]; [reflexivity|].
  destruct Hm as (Hid & Hk & Hf). destruct m as [id body]. unfold msg_frame, exact_dec in *. cbn [fst snd] in *.
  assert (Hc : convert table (DecOk (blen body)) (id ++ body) = Val (inl (id, body))).
  { apply convert_ok_iff. rewrite (firstn_app_exact 4 id body Hid), (skipn_app_exact 4 id body Hid).
    destruct Hf as (Hmin & _). unfold MIN_LENGTH in Hmin. repeat split; try assumption. }
  rewrite Hc, IH. reflexivity.
Qed.

Theorem receive_correct table max msgs chunks :
  Forall (msg_ok table max) msgs ->
  concat chunks = concat (map (fun m => enc_frame (msg_frame m)) msgs) ->
  exists frames, run max [] chunks = (frames, [], Running) /\
    frames = map msg_frame msgs /\
    receive table (combine frames (map exact_dec msgs)) = Val (msgs, None).
Proof.
  intros Hok Hc. exists (map msg_frame msgs). split; [|split; [reflexivity|]].
  - apply framing_correct.
    + apply Forall_map. eapply Forall_impl; [|exact Hok]. intros m (_ & _ & H). exact H.
    + rewrite Hc, map_map. reflexivity.
  - rewrite <- (receive_ok table max msgs Hok). f_equal.
    clear. induction msgs as [|m ms IH]; cbn [map combine]; [reflexivity|]. rewrite IH. reflexivity.
Qed.
