(* Proofs/TruncateProofs.v — lemmas for property C23 over Model/Truncate.v *)
From Sky Require Import Base.Uint Model.Truncate.
From Coq Require Import ZArith Lia Bool Arith ZifyBool List.
Import ListNotations.
Open Scope Z_scope.

Lemma add64_small a b : 0 <= a + b < 2 ^ 64 -> add64 a b = a + b.
Proof. intros H. unfold add64, wrap. apply Z.mod_small. exact H. Qed.

Lemma sum_nonneg xs : Forall (fun x => 0 <= x) xs -> 0 <= sum xs.
Proof. induction 1 as [|x r Hx _ IH]; cbn [sum]; lia. Qed.

Lemma sum64_small xs : Forall (fun x => 0 <= x) xs -> sum xs < 2 ^ 64 -> sum64 xs = sum xs.
Proof.
  induction 1 as [|x r Hx Hr IH]; intros Hs; cbn [sum sum64] in *; [reflexivity|].
  pose proof (sum_nonneg r Hr). rewrite IH by lia. apply add64_small. lia.
Qed.

Lemma encode_size_small xs : sizes_ok xs -> encode_size xs = EMPTY_SIZE + sum xs.
Proof.
  intros [Hp Hs]. unfold encode_size. pose proof (sum_nonneg xs Hp). unfold EMPTY_SIZE in *.
  rewrite sum64_small by (assumption || lia). apply add64_small. lia.
Qed.

Lemma sum_firstn_le xs : Forall (fun x => 0 <= x) xs -> forall n, 0 <= sum (firstn n xs) <= sum xs.
Proof.
  induction 1 as [|x r Hx Hr IH]; intros n; destruct n; cbn [firstn sum]; try lia.
  - pose proof (sum_nonneg r Hr). lia.
  - specialize (IH n). lia.
Qed.

Lemma sum_firstn_mono xs : Forall (fun x => 0 <= x) xs ->
  forall i j, (i <= j)%nat -> sum (firstn i xs) <= sum (firstn j xs).
Proof.
  induction 1 as [|x r Hx Hr IH]; intros i j Hij.
  - rewrite !firstn_nil. lia.
  - destruct i, j; cbn [firstn sum]; try lia.
    + pose proof (sum_firstn_le r Hr j). lia.
    + specialize (IH i j). lia.
Qed.

(* the size loop keeps the longest prefix whose size, added to `size`, stays <= maxl *)
Lemma take_loop_spec maxl : forall xs size,
  Forall (fun x => 0 <= x) xs -> 0 <= size -> size + sum xs < 2 ^ 64 ->
  let k := take_loop maxl size xs in
  (k <= List.length xs)%nat /\
  (size <= maxl -> size + sum (firstn k xs) <= maxl) /\
  ((k < List.length xs)%nat -> size + sum (firstn (S k) xs) > maxl).
Proof.
  induction xs as [|x r IH]; intros size Hp Hs Hb; cbn [take_loop].
  - cbn [length firstn sum]. repeat split; lia.
  - inversion Hp as [|? ? Hx Hr]; subst. cbn [sum] in Hb. pose proof (sum_nonneg r Hr) as Hr0.
    rewrite add64_small by lia.
    destruct (size + x >? maxl) eqn:E.
    + cbn [length firstn sum]. repeat split; lia.
    + specialize (IH (size + x) Hr ltac:(lia) ltac:(lia)). cbn zeta in IH.
      destruct IH as (H1 & H2 & H3). cbn [length]. repeat split.
      * lia.
      * intros _. cbn [firstn sum]. specialize (H2 ltac:(lia)). lia.
      * intros Hk. change (firstn (S (S (take_loop maxl (size + x) r))) (x :: r))
          with (x :: firstn (S (take_loop maxl (size + x) r)) r). cbn [sum].
        specialize (H3 ltac:(lia)). lia.
Qed.

(* ---------- the loop-based truncation (peers, blocks, transactions) ---------- *)

Lemma truncate_loop_no_panic xs max : RESERVE <= max -> truncate_loop xs max <> Panic.
Proof.
  intros H. unfold truncate_loop, truncate_loop_gen.
  destruct (max <? RESERVE) eqn:E; [lia|]. destruct (encode_size xs <=? max - RESERVE); discriminate.
Qed.

Lemma truncate_loop_le xs max k : truncate_loop xs max = Val k -> sizes_ok xs -> (k <= List.length xs)%nat.
Proof.
  unfold truncate_loop, truncate_loop_gen. intros H [Hp Hs].
  destruct (max <? RESERVE); [discriminate|].
  destruct (encode_size xs <=? max - RESERVE).
  - injection H as <-. lia.
  - injection H as <-. apply (take_loop_spec (max - RESERVE) xs EMPTY_SIZE Hp); unfold EMPTY_SIZE in *; lia.
Qed.

Lemma truncate_loop_fits xs max k :
  sizes_ok xs -> WIRE_HEADER + EMPTY_SIZE <= max ->
  truncate_loop xs max = Val k -> encoded_len xs k <= max.
Proof.
  intros Hok Hmax H. pose proof (encode_size_small xs Hok) as He. destruct Hok as [Hp Hs].
  unfold truncate_loop, truncate_loop_gen, encoded_len, WIRE_HEADER, RESERVE, EMPTY_SIZE in *.
  destruct (max <? 8) eqn:E0; [discriminate|].
  destruct (encode_size xs <=? max - 8) eqn:E1.
  - injection H as <-. rewrite firstn_all. lia.
  - injection H as <-.
    pose proof (take_loop_spec (max - 8) xs 4 Hp ltac:(lia) Hs) as (_ & H2 & _). lia.
Qed.

Lemma truncate_loop_longest xs max k :
  sizes_ok xs -> truncate_loop xs max = Val k ->
  forall j, (j <= List.length xs)%nat -> encoded_len xs j <= max -> (j <= k)%nat.
Proof.
  intros Hok H j Hj Hfit. pose proof (encode_size_small xs Hok) as He. destruct Hok as [Hp Hs].
  unfold truncate_loop, truncate_loop_gen, encoded_len, WIRE_HEADER, RESERVE, EMPTY_SIZE in *.
  destruct (max <? 8) eqn:E0; [discriminate|].
  destruct (encode_size xs <=? max - 8) eqn:E1.
  - injection H as <-. exact Hj.
  - injection H as <-.
    pose proof (take_loop_spec (max - 8) xs 4 Hp ltac:(lia) Hs) as (H1 & _ & H3). cbn zeta in *.
    destruct (Nat.le_gt_cases j (take_loop (max - 8) 4 xs)) as [Hle|Hgt]; [exact Hle|].
    assert (Hk : (take_loop (max - 8) 4 xs < length xs)%nat) by lia.
    specialize (H3 Hk).
    pose proof (sum_firstn_mono xs Hp (S (take_loop (max - 8) 4 xs)) j ltac:(lia)). lia.
Qed.

(* ---------- the hash-list truncation ---------- *)

Lemma sum_all_eq c xs : Forall (fun x => x = c) xs -> forall n, (n <= List.length xs)%nat ->
  sum (firstn n xs) = c * Z.of_nat n.
Proof.
  induction 1 as [|x r Hx Hr IH]; intros n Hn.
  - cbn [length] in Hn. replace n with 0%nat by lia. cbn. lia.
  - destruct n; cbn [firstn sum]; [lia|]. cbn [length] in Hn. rewrite IH by lia. subst x. lia.
Qed.

Lemma truncate_hashes_spec count max n :
  0 <= count -> EMPTY_SIZE + HASH_SIZE * count < 2 ^ 64 ->
  truncate_hashes count max = Val n ->
  0 <= n <= count /\
  (WIRE_HEADER + EMPTY_SIZE <= max -> WIRE_HEADER + EMPTY_SIZE + HASH_SIZE * n <= max) /\
  (n < count -> WIRE_HEADER + EMPTY_SIZE + HASH_SIZE * (n + 1) > max).
Proof.
  intros Hc Hs H.
  unfold truncate_hashes, truncate_hashes_gen, WIRE_HEADER, RESERVE, EMPTY_SIZE, HASH_SIZE in *.
  destruct (max <? 8) eqn:E0; [discriminate|].
  assert (Hw : wrap 64 (32 * count) = 32 * count) by (unfold wrap; apply Z.mod_small; lia).
  rewrite Hw, add64_small in H by lia.
  destruct (4 + 32 * count <=? max - 8) eqn:E1.
  - injection H as <-. repeat split; lia.
  - destruct (max - 8 <? 4) eqn:E2; [discriminate|].
    destruct (count =? 0) eqn:E3; [injection H as <-; repeat split; lia|].
    pose proof (Z.div_mod (max - 8 - 4) 32 ltac:(lia)) as Hdm.
    pose proof (Z.mod_pos_bound (max - 8 - 4) 32 ltac:(lia)) as Hmb.
    assert (0 <= (max - 8 - 4) / 32) by (apply Z.div_pos; lia).
    destruct ((max - 8 - 4) / 32 >? count) eqn:E4; injection H as <-; repeat split; lia.
Qed.

Lemma truncate_hashes_no_panic count max :
  0 <= count -> EMPTY_SIZE + HASH_SIZE * count < 2 ^ 64 -> WIRE_HEADER + EMPTY_SIZE <= max ->
  truncate_hashes count max <> Panic.
Proof.
  intros Hc Hs Hm.
  unfold truncate_hashes, truncate_hashes_gen, WIRE_HEADER, RESERVE, EMPTY_SIZE, HASH_SIZE in *.
  destruct (max <? 8) eqn:E0; [lia|].
  destruct (add64 4 (wrap 64 (32 * count)) <=? max - 8); [discriminate|].
  destruct (max - 8 <? 4) eqn:E2; [lia|].
  destruct (count =? 0); [discriminate|]. destruct ((max - 8 - 4) / 32 >? count); discriminate.
Qed.

(* ---------- the five constructors ---------- *)

Definition kind_sizes_ok (k : kind) (xs : list Z) : Prop :=
  sizes_ok xs /\ (is_hash_kind k = true -> Forall (fun x => x = HASH_SIZE) xs).

Lemma sizes_ok_firstn xs n : sizes_ok xs -> sizes_ok (firstn n xs).
Proof.
  intros [Hp Hs]. split.
  - apply Forall_forall. intros x Hx. rewrite Forall_forall in Hp. apply Hp.
    rewrite <- (firstn_skipn n xs). apply in_or_app. left. exact Hx.
  - pose proof (sum_firstn_le xs Hp n). lia.
Qed.

Lemma firstn_firstn_le {A} (xs : list A) i j : (i <= j)%nat -> firstn i (firstn j xs) = firstn i xs.
Proof. intros H. rewrite firstn_firstn. f_equal. lia. Qed.

Lemma encoded_len_capped xs cap n : (n <= cap)%nat -> encoded_len (firstn cap xs) n = encoded_len xs n.
Proof. intros H. unfold encoded_len. rewrite firstn_firstn_le by exact H. reflexivity. Qed.

(* common characterisation of the result of any constructor *)
Lemma new_message_spec k xs max n :
  kind_sizes_ok k xs -> new_message k xs max = Val n ->
  let m := Nat.min (item_limit k) (List.length xs) in
  (n <= m)%nat /\
  (WIRE_HEADER + EMPTY_SIZE <= max -> encoded_len xs n <= max) /\
  (forall j, (j <= m)%nat -> encoded_len xs j <= max -> (j <= n)%nat).
Proof.
  intros [Hok Hh] H. cbn zeta.
  set (cap := item_limit k) in *. set (ys := firstn cap xs).
  assert (Hys : sizes_ok ys) by (apply sizes_ok_firstn; exact Hok).
  assert (Hlen : List.length ys = Nat.min cap (List.length xs)) by (apply firstn_length).
  unfold new_message, new_message_gen in H. fold cap in H. fold ys in H.
  destruct (is_hash_kind k) eqn:Ek.
  - (* hash kinds *)
    fold (truncate_hashes (Z.of_nat (length ys)) max) in H.
    destruct (truncate_hashes (Z.of_nat (length ys)) max) as [|z] eqn:Et; [discriminate|].
    injection H as <-.
    assert (Hall : Forall (fun x => x = HASH_SIZE) ys).
    { specialize (Hh eq_refl). apply Forall_forall. intros x Hx. rewrite Forall_forall in Hh. apply Hh.
      rewrite <- (firstn_skipn cap xs). apply in_or_app. left. exact Hx. }
    assert (Hsum : sum ys = HASH_SIZE * Z.of_nat (length ys)).
    { rewrite <- (firstn_all ys) at 1. apply sum_all_eq; [exact Hall|lia]. }
    destruct Hys as [Hp Hs].
    pose proof (truncate_hashes_spec (Z.of_nat (length ys)) max z ltac:(lia) ltac:(lia) Et) as (Hz & Hfit & Hlong).
    assert (Hn : (Z.to_nat z <= length ys)%nat) by lia.
    repeat split.
    + lia.
    + intros Hm. specialize (Hfit Hm). unfold encoded_len.
      rewrite <- (firstn_firstn_le xs (Z.to_nat z) cap) by lia. fold ys.
      rewrite (sum_all_eq HASH_SIZE ys Hall) by exact Hn. lia.
    + intros j Hj Hfj. unfold encoded_len in Hfj.
      rewrite <- (firstn_firstn_le xs j cap) in Hfj by lia. fold ys in Hfj.
      rewrite (sum_all_eq HASH_SIZE ys Hall) in Hfj by lia.
      destruct (Z_lt_le_dec z (Z.of_nat (length ys))) as [Hlt|Hge]; [|lia].
      specialize (Hlong Hlt). unfold HASH_SIZE in *. lia.
  - (* loop kinds *)
    fold (truncate_loop ys max) in H.
    pose proof (truncate_loop_le ys max n H Hys) as Hn.
    repeat split.
    + lia.
    + intros Hm. rewrite <- (encoded_len_capped xs cap n) by lia. fold ys.
      apply truncate_loop_fits; assumption.
    + intros j Hj Hfj. apply (truncate_loop_longest ys max n Hys H j); [lia|].
      unfold ys. rewrite encoded_len_capped by lia. exact Hfj.
Qed.

(* the message built always passes sendMessage's length test *)
Theorem truncate_fits k xs max n :
  kind_sizes_ok k xs -> WIRE_HEADER + EMPTY_SIZE <= max ->
  new_message k xs max = Val n -> send_refused xs n max = false.
Proof.
  intros Hok Hm H. pose proof (new_message_spec k xs max n Hok H) as (_ & Hfit & _).
  unfold send_refused. specialize (Hfit Hm). lia.
Qed.

(* it holds the longest prefix of the (capped) item list that fits *)
Theorem truncate_longest_prefix k xs max n :
  kind_sizes_ok k xs -> new_message k xs max = Val n ->
  forall j, (j <= Nat.min (item_limit k) (List.length xs))%nat -> send_refused xs j max = false -> (j <= n)%nat.
Proof.
  intros Hok H j Hj Hr. pose proof (new_message_spec k xs max n Hok H) as (_ & _ & Hl).
  apply Hl; [exact Hj|]. unfold send_refused in Hr. lia.
Qed.

Theorem item_cap k xs max n :
  kind_sizes_ok k xs -> new_message k xs max = Val n ->
  (n <= item_limit k)%nat /\ (n <= List.length xs)%nat.
Proof.
  intros Hok H. pose proof (new_message_spec k xs max n Hok H) as (Hn & _ & _). lia.
Qed.

Theorem new_message_no_panic k xs max :
  kind_sizes_ok k xs -> WIRE_HEADER + EMPTY_SIZE <= max -> new_message k xs max <> Panic.
Proof.
  intros [Hok Hh] Hm. unfold new_message, new_message_gen.
  set (ys := firstn (item_limit k) xs).
  assert (Hys : sizes_ok ys) by (apply sizes_ok_firstn; exact Hok).
  destruct (is_hash_kind k) eqn:Ek.
  - fold (truncate_hashes (Z.of_nat (length ys)) max).
    assert (Hall : Forall (fun x => x = HASH_SIZE) ys).
    { specialize (Hh eq_refl). apply Forall_forall. intros x Hx. rewrite Forall_forall in Hh. apply Hh.
      rewrite <- (firstn_skipn (item_limit k) xs). apply in_or_app. left. exact Hx. }
    assert (Hsum : sum ys = HASH_SIZE * Z.of_nat (length ys)).
    { rewrite <- (firstn_all ys) at 1. apply sum_all_eq; [exact Hall|lia]. }
    destruct Hys as [Hp Hs].
    pose proof (truncate_hashes_no_panic (Z.of_nat (length ys)) max ltac:(lia) ltac:(lia) Hm) as Hnp.
    destruct (truncate_hashes (Z.of_nat (length ys)) max); [contradiction|discriminate].
  - apply truncate_loop_no_panic. unfold WIRE_HEADER, EMPTY_SIZE, RESERVE in *. lia.
Qed.

(* no uint64 wrap-around in the size computations under the size bounds *)
Theorem no_u64_wrap xs : sizes_ok xs -> encode_size xs = EMPTY_SIZE + sum xs.
Proof. exact (encode_size_small xs). Qed.
