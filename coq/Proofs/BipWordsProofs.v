(* Proofs/BipWordsProofs.v — facts about the regenerated word list, by computation:
   2048 words, pairwise distinct, each a non-empty string of letters a..z. *)
From Coq Require Import ZArith List Bool Lia ZifyBool String.
From Sky Require Import Model.Secp Model.Bip Model.BipWords.
Import ListNotations.
Open Scope Z_scope.

Lemma bytes_eq_true_iff a b : bytes_eq a b = true <-> a = b.
Proof.
  revert b. induction a as [|x a IH]; intros [|y b]; cbn [bytes_eq]; split; try discriminate; try reflexivity.
  - intros H. apply andb_true_iff in H as [H1 H2]. apply Z.eqb_eq in H1. apply IH in H2. now subst.
  - intros H. injection H as -> ->. rewrite Z.eqb_refl. apply IH. reflexivity.
Qed.

Fixpoint memb (w : list Z) (l : list (list Z)) : bool :=
  match l with [] => false | x :: r => bytes_eq x w || memb w r end.
Fixpoint nodupb (l : list (list Z)) : bool :=
  match l with [] => true | x :: r => negb (memb x r) && nodupb r end.

Lemma memb_In w l : memb w l = true <-> In w l.
Proof.
  induction l as [|x r IH]; cbn [memb In]; [split; [discriminate|tauto]|].
  rewrite orb_true_iff, IH, bytes_eq_true_iff. tauto.
Qed.

Lemma nodupb_NoDup l : nodupb l = true -> NoDup l.
Proof.
  induction l as [|x r IH]; intros H; [constructor|].
  cbn [nodupb] in H. apply andb_true_iff in H as [H1 H2]. constructor; [|apply IH, H2].
  intros Hin. apply memb_In in Hin. rewrite Hin in H1. discriminate.
Qed.

Definition is_lower (b : Z) : bool := (97 <=? b) && (b <=? 122).
Definition word_ok (w : list Z) : bool := match w with [] => false | _ => forallb is_lower w end.

Lemma wordlist_length : List.length english_words = 2048%nat.
Proof. vm_compute. reflexivity. Qed.

Lemma wordlist_nodupb : nodupb english_words = true.
Proof. vm_compute. reflexivity. Qed.

Lemma wordlist_nodup : NoDup english_words.
Proof. apply nodupb_NoDup, wordlist_nodupb. Qed.

Lemma wordlist_words_ok : forallb word_ok english_words = true.
Proof. vm_compute. reflexivity. Qed.

Lemma wordlist_word_shape w : In w english_words -> w <> [] /\ Forall (fun b => 97 <= b <= 122) w.
Proof.
  intros Hin. pose proof wordlist_words_ok as H. rewrite forallb_forall in H. specialize (H w Hin).
  unfold word_ok in H. destruct w as [|b w]; [discriminate|]. split; [discriminate|].
  rewrite forallb_forall in H. apply Forall_forall. intros x Hx. specialize (H x Hx). unfold is_lower in H. lia.
Qed.

(* the first and the last word of the standard list *)
Lemma wordlist_ends : nth_error english_words 0 = Some (bytes_of_string "abandon"%string) /\
                      nth_error english_words 2047 = Some (bytes_of_string "zoo"%string).
Proof. vm_compute. split; reflexivity. Qed.
