(* Proofs for C13 (Model/Sign.v): a successful SignTransaction signs exactly the
   requested (or all unsigned) inputs with keys of the wallet that own them,
   leaves everything else as it was, and every new signature verifies. *)
From Sky Require Import Base.Uint Model.TxVerify Model.Create Model.Sign Proofs.UintLemmas Proofs.TxVerifyProofs Proofs.CreateProofs.
From Coq Require Import Lia ZifyBool.
Open Scope Z_scope.

(* ----------------------------------------------------------- list helpers *)
Lemma znth_some {A} (l : list A) i x : znth l i = Some x -> 0 <= i < len l.
Proof.
  unfold znth, len. destruct (i <? 0) eqn:E; [discriminate|]. intros H.
  assert (Hn : nth_error l (Z.to_nat i) <> None) by congruence. apply nth_error_Some in Hn. lia.
Qed.

Lemma znth_in_range {A} (l : list A) i : 0 <= i < len l -> exists x, znth l i = Some x.
Proof.
  intros H. unfold znth, len in *. replace (i <? 0) with false by lia.
  destruct (nth_error l (Z.to_nat i)) eqn:E; [eexists; reflexivity|]. apply nth_error_None in E. lia.
Qed.

Lemma set_nth_length {A} : forall (l : list A) n a, List.length (set_nth l n a) = List.length l.
Proof. induction l as [|x l IH]; intros [|n] a; cbn; try reflexivity. rewrite IH. reflexivity. Qed.

Lemma set_nth_same {A} : forall (l : list A) n a, (n < List.length l)%nat -> nth_error (set_nth l n a) n = Some a.
Proof. induction l as [|x l IH]; intros [|n] a H; cbn in *; try lia; [reflexivity|]. apply IH. lia. Qed.

Lemma set_nth_other {A} : forall (l : list A) n m a, n <> m -> nth_error (set_nth l n a) m = nth_error l m.
Proof.
  induction l as [|x l IH]; intros [|n] [|m] a H; cbn; try reflexivity; try congruence.
  apply IH. congruence.
Qed.

Lemma znth_set_same {A} (l : list A) i a : 0 <= i < len l -> znth (set_nth l (Z.to_nat i) a) i = Some a.
Proof. intros H. unfold znth, len in *. replace (i <? 0) with false by lia. apply set_nth_same. lia. Qed.

Lemma znth_set_other {A} (l : list A) i j a : 0 <= i -> i <> j -> znth (set_nth l (Z.to_nat i) a) j = znth l j.
Proof.
  intros Hi H. unfold znth. destruct (j <? 0) eqn:E; [reflexivity|]. apply set_nth_other. lia.
Qed.

(* -------------------------------------------------------- association maps *)
Lemma amap_find_in m : forall a l, amap_find m a = Some l -> In (a, l) m.
Proof.
  induction m as [|[b l0] r IH]; intros a l H; cbn [amap_find] in H; [discriminate|].
  destruct (b =? a) eqn:E.
  - injection H as <-. left. f_equal. lia.
  - right. apply IH. exact H.
Qed.

Lemma amap_in_find m : NoDup (map fst m) -> forall a l, In (a, l) m -> amap_find m a = Some l.
Proof.
  induction m as [|[b l0] r IH]; intros Hnd a l Hin; [contradiction|]. cbn [map fst] in Hnd.
  inversion Hnd as [|? ? Hnin Hnd']; subst. cbn [amap_find].
  destruct Hin as [Heq|Hin].
  - injection Heq as -> ->. rewrite Z.eqb_refl. reflexivity.
  - destruct (b =? a) eqn:E.
    + exfalso. apply Hnin. assert (b = a) by lia. subst b. apply (in_map fst) in Hin. exact Hin.
    + apply IH; assumption.
Qed.

Lemma amap_add_keys m a i : forall b, In b (map fst (amap_add m a i)) <-> In b (map fst m) \/ b = a.
Proof.
  induction m as [|[c l] r IH]; intros b; cbn [amap_add].
  - cbn. intuition.
  - destruct (c =? a) eqn:E; cbn [map fst In].
    + assert (c = a) by lia. subst c. intuition.
    + rewrite IH. intuition.
Qed.

Lemma amap_add_nodup m a i : NoDup (map fst m) -> NoDup (map fst (amap_add m a i)).
Proof.
  induction m as [|[c l] r IH]; intros Hnd; cbn [amap_add].
  - cbn. constructor; [intros []|constructor].
  - cbn [map fst] in Hnd. inversion Hnd as [|? ? Hnin Hnd']; subst.
    destruct (c =? a) eqn:E; cbn [map fst].
    + constructor; assumption.
    + constructor; [|apply IH; exact Hnd'].
      intros Hin. apply amap_add_keys in Hin. destruct Hin as [Hin| ->]; [contradiction|lia].
Qed.

Lemma amap_find_add m a i : forall b,
  amap_find (amap_add m a i) b =
  if b =? a then Some (match amap_find m a with Some l => l ++ [i] | None => [i] end) else amap_find m b.
Proof.
  induction m as [|[c l] r IH]; intros b; cbn [amap_add amap_find].
  - destruct (a =? b) eqn:E1, (b =? a) eqn:E2; try lia; reflexivity.
  - destruct (c =? a) eqn:Eca; cbn [amap_find].
    + assert (c = a) by lia. subst c.
      destruct (b =? a) eqn:Eba, (a =? b) eqn:Eab; try lia; reflexivity.
    + rewrite IH. destruct (b =? a) eqn:Eba.
      * assert (b = a) by lia. subst b. rewrite ?Eca. reflexivity.
      * reflexivity.
Qed.

Lemma amap_find_keys m a : In a (map fst m) <-> amap_find m a <> None.
Proof.
  induction m as [|[c l] r IH]; cbn [map fst In amap_find].
  - split; [intros []|congruence].
  - destruct (c =? a) eqn:E.
    + split; [discriminate|]. intros _. left. lia.
    + rewrite <- IH. split; [intros [H|H]; [lia|exact H]|intros H; right; exact H].
Qed.

Lemma kmap_find_set m k v : forall b,
  amap_find (kmap_set m k v) b = if b =? k then Some v else amap_find m b.
Proof.
  induction m as [|[c l] r IH]; intros b; cbn [kmap_set amap_find].
  - destruct (k =? b) eqn:E1, (b =? k) eqn:E2; try lia; reflexivity.
  - destruct (c =? k) eqn:Eck; cbn [amap_find].
    + assert (c = k) by lia. subst c. destruct (b =? k) eqn:Ebk.
      * replace (k =? b) with true by lia. reflexivity.
      * replace (k =? b) with false by lia. reflexivity.
    + rewrite IH. destruct (b =? k) eqn:Ebk; [|reflexivity].
      assert (b = k) by lia. subst b. rewrite Eck. reflexivity.
Qed.

Lemma kmap_set_keys m k v : forall b, In b (map fst (kmap_set m k v)) <-> In b (map fst m) \/ b = k.
Proof.
  intros b. rewrite !amap_find_keys, kmap_find_set. destruct (b =? k) eqn:E.
  - split; [intros _; right; lia|discriminate].
  - split; [intros H; left; exact H|intros [H|H]; [exact H|lia]].
Qed.

Lemma kmap_set_nodup m k v : NoDup (map fst m) -> NoDup (map fst (kmap_set m k v)).
Proof.
  induction m as [|[c l] r IH]; intros Hnd; cbn [kmap_set].
  - cbn. constructor; [intros []|constructor].
  - cbn [map fst] in Hnd. inversion Hnd as [|? ? Hnin Hnd']; subst.
    destruct (c =? k) eqn:E; cbn [map fst].
    + constructor; assumption.
    + constructor; [|apply IH; exact Hnd'].
      intros Hin. apply kmap_set_keys in Hin. destruct Hin as [Hin| ->]; [contradiction|lia].
Qed.

Lemma kmap_set_length m k v :
  List.length (kmap_set m k v) = if in_dec Z.eq_dec k (map fst m) then List.length m else S (List.length m).
Proof.
  induction m as [|[c l] r IH]; cbn [kmap_set].
  - destruct (in_dec Z.eq_dec k (map fst [])) as [[]|_]. reflexivity.
  - destruct (c =? k) eqn:E.
    + destruct (in_dec Z.eq_dec k (map fst ((c, l) :: r))) as [_|Hn]; [reflexivity|].
      exfalso. apply Hn. left. cbn. lia.
    + cbn [List.length]. rewrite IH.
      destruct (in_dec Z.eq_dec k (map fst r)) as [Hi|Hn], (in_dec Z.eq_dec k (map fst ((c, l) :: r))) as [Hi'|Hn']; try reflexivity.
      * exfalso. apply Hn'. right. exact Hi.
      * exfalso. destruct Hi' as [Hc|Hc]; [cbn in Hc; lia|contradiction].
Qed.

Section SignTheorems.
  Variable sign : Z -> Z -> Z.
  Variable addr_of : Z -> Z.
  Variable msg_of : Z -> Z -> Z.
  Variable verify : Z -> Z -> Z -> bool.
  (* laws of the signature scheme (premises of the theorems) *)
  Hypothesis sign_nonnull : forall k m, sign k m <> 0.
  Hypothesis addr_inj : forall k1 k2, addr_of k1 = addr_of k2 -> k1 = k2.
  Hypothesis sign_verifies : forall k m, verify (addr_of k) (sign k m) m = true.

  (* --------------------------------------------------- SignInput and loops *)
  Lemma sign_input_ok inner ins sigs k i sigs' :
    len sigs = len ins ->
    sign_input sign msg_of inner ins sigs k i = Val (inr sigs') ->
    0 <= i < len sigs /\ znth sigs i = Some 0 /\
    exists h, znth ins i = Some h /\ sigs' = set_nth sigs (Z.to_nat i) (sign k (msg_of inner h)).
  Proof.
    intros Hlen H. unfold sign_input in H.
    destruct ((i <? 0) || (i >=? len ins)) eqn:Er; [discriminate|].
    destruct (len sigs =? 0) eqn:E0; [lia|].
    destruct (negb (len ins =? len sigs)) eqn:El; [discriminate|].
    destruct (znth sigs i) as [s|] eqn:Es; [|discriminate].
    destruct (znth ins i) as [h|] eqn:Eh; [|discriminate].
    destruct (negb (s =? 0)) eqn:Ez; [discriminate|].
    injection H as <-. split; [lia|]. split; [f_equal; lia|]. exists h. split; reflexivity.
  Qed.

  Lemma sign_indexes_ok inner ins k : forall v sigs sigs',
    len sigs = len ins ->
    sign_indexes sign msg_of inner ins sigs k v = Val (inr sigs') ->
    len sigs' = len sigs /\
    (forall x, In x v -> znth sigs x = Some 0 /\ exists h, znth ins x = Some h /\ znth sigs' x = Some (sign k (msg_of inner h))) /\
    (forall j, ~ In j v -> znth sigs' j = znth sigs j).
  Proof.
    induction v as [|x r IH]; intros sigs sigs' Hlen H; cbn [sign_indexes] in H.
    - injection H as <-. split; [reflexivity|]. split; [intros x []|reflexivity].
    - destruct (znth sigs x) as [s|] eqn:Es; [|discriminate].
      destruct (negb (s =? 0)); [discriminate|].
      apply bindR_ok in H. destruct H as (sigs1 & H1 & H).
      apply sign_input_ok in H1; [|exact Hlen]. destruct H1 as (Hx & Hx0 & h & Hh & ->).
      assert (Hlen1 : len (set_nth sigs (Z.to_nat x) (sign k (msg_of inner h))) = len sigs)
        by (unfold len; rewrite set_nth_length; reflexivity).
      apply IH in H; [|lia]. destruct H as (Hl & Hin & Hout).
      assert (Hx1 : znth (set_nth sigs (Z.to_nat x) (sign k (msg_of inner h))) x = Some (sign k (msg_of inner h)))
        by (apply znth_set_same; lia).
      assert (Hxr : ~ In x r).
      { intros Hc. destruct (Hin x Hc) as [Hz _]. rewrite Hx1 in Hz. injection Hz as Hz. exact (sign_nonnull _ _ Hz). }
      split; [lia|]. split.
      + intros y [<-|Hy].
        * split; [exact Hx0|]. exists h. split; [exact Hh|]. rewrite (Hout x Hxr). exact Hx1.
        * destruct (Hin y Hy) as [Hz Hrest]. assert (x <> y) by (intros ->; contradiction).
          rewrite znth_set_other in Hz by lia. split; [exact Hz|exact Hrest].
      + intros j Hj. rewrite Hout by (intros Hc; apply Hj; right; exact Hc).
        apply znth_set_other; [lia|]. intros ->. apply Hj. left; reflexivity.
  Qed.

  Lemma sign_all_ok inner ins : forall ts sigs sigs',
    len sigs = len ins ->
    sign_all sign msg_of inner ins sigs ts = Val (inr sigs') ->
    len sigs' = len sigs /\
    (forall k v x, In (k, v) ts -> In x v ->
       znth sigs x = Some 0 /\ exists h, znth ins x = Some h /\ znth sigs' x = Some (sign k (msg_of inner h))) /\
    (forall j, (forall k v, In (k, v) ts -> ~ In j v) -> znth sigs' j = znth sigs j).
  Proof.
    induction ts as [|[k v] r IH]; intros sigs sigs' Hlen H; cbn [sign_all] in H.
    - injection H as <-. split; [reflexivity|]. split; [intros ? ? ? []|reflexivity].
    - apply bindR_ok in H. destruct H as (sigs1 & H1 & H).
      apply sign_indexes_ok in H1; [|exact Hlen]. destruct H1 as (Hl1 & Hin1 & Hout1).
      apply IH in H; [|lia]. destruct H as (Hl & Hin & Hout).
      split; [lia|]. split.
      + intros k' v' x [Heq|Hr] Hx.
        * injection Heq as <- <-. destruct (Hin1 x Hx) as (Hz & h & Hh & Hs1).
          split; [exact Hz|]. exists h. split; [exact Hh|].
          rewrite Hout; [exact Hs1|].
          intros k2 v2 Hkv Hc. destruct (Hin k2 v2 x Hkv Hc) as [Hz1 _]. rewrite Hs1 in Hz1.
          injection Hz1 as Hz1. exact (sign_nonnull _ _ Hz1).
        * destruct (Hin k' v' x Hr Hx) as (Hz1 & Hrest). split; [|exact Hrest].
          (* x was null after the first pair was processed, hence not one of its positions *)
          assert (Hnx : ~ In x v).
          { intros Hc. destruct (Hin1 x Hc) as (_ & h & _ & Hs1). rewrite Hs1 in Hz1. injection Hz1 as Hz1.
            exact (sign_nonnull _ _ Hz1). }
          rewrite <- (Hout1 x Hnx). exact Hz1.
      + intros j Hj. rewrite Hout by (intros k2 v2 Hkv; apply (Hj k2 v2); right; exact Hkv).
        apply Hout1. apply (Hj k v). left; reflexivity.
  Qed.

  (* ------------------------------------------------------------ addrsMap *)
  Definition am_inv (ow : Z -> option Z) (am : list (Z * list Z)) (T : list Z) : Prop :=
    (forall a l x, amap_find am a = Some l -> In x l -> In x T /\ ow x = Some a) /\
    (forall x, In x T -> exists a l, ow x = Some a /\ amap_find am a = Some l /\ In x l) /\
    NoDup (map fst am).

  Lemma am_inv_nil ow : am_inv ow [] [].
  Proof. split; [intros a l x H; discriminate|]. split; [intros x []|constructor]. Qed.

  Lemma am_inv_add ow am T a i : am_inv ow am T -> ow i = Some a -> am_inv ow (amap_add am a i) (T ++ [i]).
  Proof.
    intros (H1 & H2 & H3) Hi. split; [|split].
    - intros b l x Hf Hx. rewrite amap_find_add in Hf. destruct (b =? a) eqn:E.
      + assert (b = a) by lia. subst b. injection Hf as <-.
        destruct (amap_find am a) as [l0|] eqn:E0.
        * apply in_app_iff in Hx. destruct Hx as [Hx|[<-|[]]].
          -- destruct (H1 a l0 x E0 Hx) as [Hx1 Hx2]. split; [apply in_app_iff; left; exact Hx1|exact Hx2].
          -- split; [apply in_app_iff; right; left; reflexivity|exact Hi].
        * destruct Hx as [<-|[]]. split; [apply in_app_iff; right; left; reflexivity|exact Hi].
      + destruct (H1 b l x Hf Hx) as [Hx1 Hx2]. split; [apply in_app_iff; left; exact Hx1|exact Hx2].
    - intros x Hx. apply in_app_iff in Hx. destruct Hx as [Hx|[<-|[]]].
      + destruct (H2 x Hx) as (b & l & Hb & Hf & Hl). exists b.
        destruct (b =? a) eqn:E.
        * assert (b = a) by lia. subst b. exists (l ++ [i]). split; [exact Hb|]. rewrite amap_find_add, Z.eqb_refl, Hf.
          split; [reflexivity|apply in_app_iff; left; exact Hl].
        * exists l. split; [exact Hb|]. rewrite amap_find_add, E. split; [exact Hf|exact Hl].
      + exists a. rewrite amap_find_add, Z.eqb_refl. destruct (amap_find am a) as [l0|].
        * exists (l0 ++ [i]). split; [exact Hi|]. split; [reflexivity|apply in_app_iff; right; left; reflexivity].
        * exists [i]. split; [exact Hi|]. split; [reflexivity|left; reflexivity].
    - apply amap_add_nodup. exact H3.
  Qed.

  Lemma amap_of_indexes_ok sigs owners : forall idxs m am T0,
    amap_of_indexes sigs owners idxs m = Val (inr am) -> am_inv (znth owners) m T0 ->
    am_inv (znth owners) am (T0 ++ idxs) /\ forall i, In i idxs -> znth sigs i = Some 0.
  Proof.
    induction idxs as [|i r IH]; intros m am T0 H Hinv; cbn [amap_of_indexes] in H.
    - injection H as <-. rewrite app_nil_r. split; [exact Hinv|intros i []].
    - destruct (znth sigs i) as [s|] eqn:Es; [|discriminate].
      destruct (znth owners i) as [a|] eqn:Ea; [|discriminate].
      destruct (negb (s =? 0)) eqn:Ez; [discriminate|].
      apply (IH _ _ (T0 ++ [i])) in H; [|apply am_inv_add; assumption].
      rewrite <- app_assoc in H. cbn [app] in H. destruct H as [H1 H2]. split; [exact H1|].
      intros j [<-|Hj]; [rewrite Es; f_equal; lia|apply H2; exact Hj].
  Qed.

  Lemma amap_of_unsigned_ok ow : forall owners sigs i m am T0,
    amap_of_unsigned sigs owners i m = Val (inr am) -> am_inv ow m T0 ->
    (forall j a, znth owners j = Some a -> ow (i + j) = Some a) ->
    exists T, am_inv ow am T /\
      forall x, In x T <-> In x T0 \/ exists j, x = i + j /\ 0 <= j < len owners /\ znth sigs j = Some 0.
  Proof.
    induction owners as [|a r IH]; intros sigs i m am T0 H Hinv How.
    - assert (H' : ok m = Val (inr am)) by (destruct sigs; exact H). injection H' as <-.
      exists T0. split; [exact Hinv|]. intros x. split; [intros Hx; left; exact Hx|].
      intros [Hx|(j & _ & Hj & _)]; [exact Hx|]. unfold len in Hj. cbn in Hj. lia.
    - destruct sigs as [|s sr]; cbn [amap_of_unsigned] in H; [discriminate|].
      assert (Ha : ow i = Some a) by (specialize (How 0 a eq_refl); rewrite Z.add_0_r in How; exact How).
      assert (How' : forall j b, znth r j = Some b -> ow (i + 1 + j) = Some b).
      { intros j b Hj. replace (i + 1 + j) with (i + (j + 1)) by lia. apply How.
        pose proof (znth_some _ _ _ Hj) as Hr. unfold znth in *. replace (j + 1 <? 0) with false by lia.
        replace (j <? 0) with false in Hj by lia. replace (Z.to_nat (j + 1)) with (S (Z.to_nat j)) by lia. exact Hj. }
      destruct (s =? 0) eqn:Es.
      + apply (IH _ _ _ _ (T0 ++ [i])) in H; [|apply am_inv_add; assumption|exact How'].
        destruct H as (T & HT & Hiff). exists T. split; [exact HT|]. intros x. rewrite Hiff. split.
        * intros [Hx|(j & -> & Hj & Hz)].
          -- apply in_app_iff in Hx. destruct Hx as [Hx|[<-|[]]]; [left; exact Hx|].
             right. exists 0. split; [lia|]. split; [unfold len; cbn [List.length]; lia|]. cbn. f_equal. lia.
          -- right. exists (j + 1). split; [lia|]. split; [unfold len in *; cbn [List.length]; lia|].
             unfold znth in *. replace (j + 1 <? 0) with false by lia. replace (j <? 0) with false in Hz by lia.
             replace (Z.to_nat (j + 1)) with (S (Z.to_nat j)) by lia. exact Hz.
        * intros [Hx|(j & -> & Hj & Hz)]; [left; apply in_app_iff; left; exact Hx|].
          destruct (Z.eq_dec j 0) as [->|Hne].
          -- left. apply in_app_iff. right. left. lia.
          -- right. exists (j - 1). split; [lia|]. split; [unfold len in *; cbn [List.length] in Hj; lia|].
             unfold znth in *. replace (j <? 0) with false in Hz by lia. replace (j - 1 <? 0) with false by lia.
             replace (Z.to_nat j) with (S (Z.to_nat (j - 1))) in Hz by lia. exact Hz.
      + apply (IH _ _ _ _ T0) in H; [|exact Hinv|exact How'].
        destruct H as (T & HT & Hiff). exists T. split; [exact HT|]. intros x. rewrite Hiff. split.
        * intros [Hx|(j & -> & Hj & Hz)]; [left; exact Hx|].
          right. exists (j + 1). split; [lia|]. split; [unfold len in *; cbn [List.length]; lia|].
          unfold znth in *. replace (j + 1 <? 0) with false by lia. replace (j <? 0) with false in Hz by lia.
          replace (Z.to_nat (j + 1)) with (S (Z.to_nat j)) by lia. exact Hz.
        * intros [Hx|(j & -> & Hj & Hz)]; [left; exact Hx|].
          destruct (Z.eq_dec j 0) as [->|Hne].
          -- cbn in Hz. injection Hz as Hz. lia.
          -- right. exists (j - 1). split; [lia|]. split; [unfold len in *; cbn [List.length] in Hj; lia|].
             unfold znth in *. replace (j <? 0) with false in Hz by lia. replace (j - 1 <? 0) with false by lia.
             replace (Z.to_nat j) with (S (Z.to_nat (j - 1))) in Hz by lia. exact Hz.
  Qed.

  (* -------------------------------------------------------------- toSign *)
  Definition ts_inv (E : list Z) (am ts : list (Z * list Z)) : Prop :=
    NoDup (map fst ts) /\
    forall k v, amap_find ts k = Some v -> In k E /\ amap_find am (addr_of k) = Some v.

  Lemma scan_entries_ok E am : forall es ts, incl es E -> ts_inv E am ts ->
    ts_inv E am (scan_entries addr_of es am ts).
  Proof.
    induction es as [|k r IH]; intros ts Hin Hinv; cbn [scan_entries]; [exact Hinv|].
    destruct (len ts =? len am); [exact Hinv|].
    assert (Hr : incl r E) by (intros x Hx; apply Hin; right; exact Hx).
    destruct (amap_find am (addr_of k)) as [x|] eqn:Ef; [|apply IH; assumption].
    apply IH; [exact Hr|]. destruct Hinv as [Hnd Hf]. split; [apply kmap_set_nodup; exact Hnd|].
    intros b v Hb. rewrite kmap_find_set in Hb. destruct (b =? k) eqn:E1.
    - assert (b = k) by lia. subst b. injection Hb as <-. split; [apply Hin; left; reflexivity|exact Ef].
    - apply Hf. exact Hb.
  Qed.

  Lemma ts_cover E am ts : ts_inv E am ts -> NoDup (map fst am) -> List.length ts = List.length am ->
    forall a l, amap_find am a = Some l -> exists k, amap_find ts k = Some l /\ addr_of k = a /\ In k E.
  Proof.
    intros [Hnd Hf] Hnda Hlen a l Ha.
    set (K := map fst ts). set (A := map fst am).
    assert (HndK : NoDup (map addr_of K)).
    { apply FinFun.Injective_map_NoDup; [intros x y Hxy; apply addr_inj; exact Hxy|exact Hnd]. }
    assert (Hincl : incl (map addr_of K) A).
    { intros x Hx. apply in_map_iff in Hx. destruct Hx as (k & <- & Hk).
      apply amap_find_keys in Hk. destruct (amap_find ts k) as [v|] eqn:Ev; [|congruence].
      destruct (Hf k v Ev) as [_ Hfa]. apply amap_find_keys. rewrite Hfa. discriminate. }
    assert (Hle : (List.length A <= List.length (map addr_of K))%nat).
    { unfold A, K. rewrite !map_length. lia. }
    pose proof (NoDup_length_incl HndK Hle Hincl) as Hback.
    assert (HaA : In a A) by (apply amap_find_keys; rewrite Ha; discriminate).
    apply Hback in HaA. apply in_map_iff in HaA. destruct HaA as (k & Hk & HkK).
    apply amap_find_keys in HkK. destruct (amap_find ts k) as [v|] eqn:Ev; [|congruence].
    destruct (Hf k v Ev) as [HkE Hfa]. rewrite Hk, Ha in Hfa. injection Hfa as <-.
    exists k. split; [exact Ev|]. split; [exact Hk|exact HkE].
  Qed.

  (* ------------------------------------------------------------ main result *)
  Lemma targets_unsigned t : forall x,
    In x (filter (fun i => match znth (s_sigs t) i with Some s => s =? 0 | None => false end) (zrange 0 (len (s_sigs t))))
    <-> znth (s_sigs t) x = Some 0.
  Proof.
    intros x. rewrite filter_In. split.
    - intros [_ H]. destruct (znth (s_sigs t) x) as [s|]; [|discriminate]. f_equal. lia.
    - intros H. split; [|rewrite H; reflexivity].
      apply znth_some in H. unfold zrange.
      assert (Hg : forall n lo y, lo <= y < lo + Z.of_nat n -> In y (zrange_nat lo n)).
      { induction n as [|n IHn]; intros lo y Hy; [lia|]. cbn [zrange_nat].
        destruct (Z.eq_dec y lo) as [->|Hne]; [left; reflexivity|right; apply IHn; lia]. }
      apply Hg. unfold len in *. lia.
  Qed.

  Theorem sign_tx_spec w t idxs owners t' :
    len (s_sigs t) = len (s_ins t) ->
    sign_tx sign addr_of msg_of w t idxs owners = Val (inr t') ->
    w_kind w <> KXPub /\ w_encrypted w = false /\
    s_ins t' = s_ins t /\ s_outs t' = s_outs t /\ s_inner t' = s_inner t /\
    len (s_sigs t') = len (s_sigs t) /\
    (forall i, In i (targets t idxs) ->
       znth (s_sigs t) i = Some 0 /\
       exists k h, In k (w_entries w) /\ znth owners i = Some (addr_of k) /\ znth (s_ins t) i = Some h /\
                   znth (s_sigs t') i = Some (sign k (msg_of (s_inner t) h))) /\
    (forall i, ~ In i (targets t idxs) -> znth (s_sigs t') i = znth (s_sigs t) i).
  Proof.
    intros Hlen H. unfold sign_tx in H.
    assert (Hk : w_kind w <> KXPub) by (intros Hc; rewrite Hc in H; discriminate).
    assert (H' : (if w_encrypted w then fail ErrWalletEncrypted else
      if negb (s_inner_actual t =? s_inner t) then fail ESInner else
      if len (s_sigs t) =? 0 then fail ESNoSigs else
      if is_fully_signed (s_sigs t) then fail ESFullySigned else
      if len (s_ins t) =? 0 then fail ESNoInputs else
      if negb (len owners =? len (s_ins t)) then fail ESUxLen else
      match validate_idx idxs (len owners) with Some e => fail e | None =>
      let n_missing := len (filter (fun s => s =? 0) (s_sigs t)) in
      do am <- (if len idxs >? 0 then amap_of_indexes (s_sigs t) owners idxs []
                else amap_of_unsigned (s_sigs t) owners 0 []) ;;
      let ts := scan_entries addr_of (w_entries w) am [] in
      if negb (len ts =? len am) then fail ESCannot else
      do sigs' <- sign_all sign msg_of (s_inner t) (s_ins t) (s_sigs t) ts ;;
      if (len idxs =? 0) || (len idxs =? n_missing) then
        if negb (is_fully_signed sigs') then fail ESNotFully
        else ok (mk_stx (s_inner_actual t) (s_inner_actual t) sigs' (s_ins t) (s_outs t))
      else
        if is_fully_signed sigs' then fail ESFullyBut
        else ok (mk_stx (s_inner_actual t) (s_inner_actual t) sigs' (s_ins t) (s_outs t))
      end) = Val (inr t')) by (destruct (w_kind w); try exact H; congruence).
    clear H. rename H' into H.
    destruct (w_encrypted w) eqn:Eenc; [discriminate|].
    destruct (negb (s_inner_actual t =? s_inner t)) eqn:Einner; [discriminate|].
    destruct (len (s_sigs t) =? 0); [discriminate|].
    destruct (is_fully_signed (s_sigs t)); [discriminate|].
    destruct (len (s_ins t) =? 0); [discriminate|].
    destruct (negb (len owners =? len (s_ins t))) eqn:Eown; [discriminate|].
    destruct (validate_idx idxs (len owners)) eqn:Ev; [discriminate|]. cbv zeta in H.
    apply bindR_ok in H. destruct H as (am & Ham & H).
    set (ts := scan_entries addr_of (w_entries w) am []) in *.
    destruct (negb (len ts =? len am)) eqn:Elen; [discriminate|].
    apply bindR_ok in H. destruct H as (sigs' & Hsa & H).
    assert (Ht' : t' = mk_stx (s_inner_actual t) (s_inner_actual t) sigs' (s_ins t) (s_outs t)).
    { destruct ((len idxs =? 0) || (len idxs =? len (filter (fun s => s =? 0) (s_sigs t)))).
      - destruct (negb (is_fully_signed sigs')); [discriminate|]. injection H as <-. reflexivity.
      - destruct (is_fully_signed sigs'); [discriminate|]. injection H as <-. reflexivity. }
    subst t'. cbn [s_ins s_outs s_inner s_sigs]. clear H.
    (* addrsMap describes the targets *)
    assert (HAM : am_inv (znth owners) am (targets t idxs) \/
                  exists T, am_inv (znth owners) am T /\ forall x, In x T <-> In x (targets t idxs)).
    { unfold targets. destruct (len idxs >? 0) eqn:Ei.
      - left. apply amap_of_indexes_ok with (T0 := []) in Ham; [|apply am_inv_nil]. cbn [app] in Ham. apply Ham.
      - right. apply (amap_of_unsigned_ok (znth owners)) with (T0 := []) in Ham; [|apply am_inv_nil|intros j a Hj; exact Hj].
        destruct Ham as (T & HT & Hiff). exists T. split; [exact HT|]. intros x. rewrite Hiff, targets_unsigned.
        split.
        + intros [[]|(j & -> & Hj & Hz)]. rewrite Z.add_0_l. exact Hz.
        + intros Hz. right. exists x. split; [lia|]. split; [|exact Hz].
          apply znth_some in Hz. lia. }
    assert (HAM' : exists T, am_inv (znth owners) am T /\ forall x, In x T <-> In x (targets t idxs)).
    { destruct HAM as [HA|HA]; [exists (targets t idxs); split; [exact HA|tauto]|exact HA]. }
    clear HAM. destruct HAM' as (T & (HA1 & HA2 & HA3) & HT).
    (* targets are unsigned *)
    assert (Hnull : forall i, In i (targets t idxs) -> znth (s_sigs t) i = Some 0).
    { unfold targets. destruct (len idxs >? 0) eqn:Ei.
      - apply amap_of_indexes_ok with (T0 := []) in Ham; [|apply am_inv_nil]. apply Ham.
      - intros i Hi. apply targets_unsigned. exact Hi. }
    (* toSign *)
    assert (Hts : ts_inv (w_entries w) am ts).
    { apply scan_entries_ok; [apply incl_refl|]. split; [constructor|intros k v Hc; discriminate]. }
    assert (Hlen_ts : List.length ts = List.length am) by (unfold len in Elen; lia).
    apply sign_all_ok in Hsa; [|exact Hlen]. destruct Hsa as (Hl & Hin & Hout).
    assert (Einner' : s_inner_actual t = s_inner t) by lia.
    split; [exact Hk|]. split; [reflexivity|]. split; [reflexivity|]. split; [reflexivity|].
    split; [exact Einner'|]. split; [exact Hl|]. split.
    - intros i Hi. split; [apply Hnull; exact Hi|].
      apply HT in Hi. destruct (HA2 i Hi) as (a & l & Hoa & Hfa & Hil).
      destruct (ts_cover _ _ _ Hts HA3 Hlen_ts a l Hfa) as (k & Hfk & Hak & HkE).
      apply amap_find_in in Hfk.
      destruct (Hin k l i Hfk Hil) as (_ & h & Hh & Hs).
      exists k, h. split; [exact HkE|]. split; [rewrite Hak; exact Hoa|]. split; [exact Hh|exact Hs].
    - intros i Hni. apply Hout. intros k v Hkv Hiv.
      apply Hni. apply HT.
      destruct Hts as [Hnd Hf]. apply (amap_in_find _ Hnd) in Hkv. destruct (Hf k v Hkv) as [_ Hfa].
      apply (HA1 _ _ _ Hfa Hiv).
  Qed.

  (* never overwrites an existing signature *)
  Corollary no_overwrite w t idxs owners t' i s :
    len (s_sigs t) = len (s_ins t) ->
    sign_tx sign addr_of msg_of w t idxs owners = Val (inr t') ->
    znth (s_sigs t) i = Some s -> s <> 0 -> znth (s_sigs t') i = Some s.
  Proof.
    intros Hlen H Hs Hnz. destruct (sign_tx_spec _ _ _ _ _ Hlen H) as (_ & _ & _ & _ & _ & _ & Hin & Hout).
    rewrite <- Hs. apply Hout. intros Hc. destruct (Hin i Hc) as [Hz _]. congruence.
  Qed.

  (* every produced signature verifies against the address of the spent output *)
  Corollary all_verify w t idxs owners t' i :
    len (s_sigs t) = len (s_ins t) ->
    sign_tx sign addr_of msg_of w t idxs owners = Val (inr t') ->
    In i (targets t idxs) ->
    exists a h s', znth owners i = Some a /\ znth (s_ins t) i = Some h /\ znth (s_sigs t') i = Some s' /\
                   s' <> 0 /\ verify a s' (msg_of (s_inner t') h) = true.
  Proof.
    intros Hlen H Hi. destruct (sign_tx_spec _ _ _ _ _ Hlen H) as (_ & _ & _ & _ & Hinner & _ & Hin & _).
    destruct (Hin i Hi) as (_ & k & h & _ & Ho & Hh & Hs).
    exists (addr_of k), h, (sign k (msg_of (s_inner t) h)). rewrite Hinner.
    split; [exact Ho|]. split; [exact Hh|]. split; [exact Hs|]. split; [apply sign_nonnull|apply sign_verifies].
  Qed.
End SignTheorems.

(* an xpub (watch-only) or encrypted wallet never signs *)
Lemma cannot_sign (sign : Z -> Z -> Z) (addr_of : Z -> Z) (msg_of : Z -> Z -> Z) w t idxs owners :
  (w_kind w = KXPub -> sign_tx sign addr_of msg_of w t idxs owners = Val (inl ErrWalletCantSign)) /\
  (w_kind w <> KXPub -> w_encrypted w = true -> sign_tx sign addr_of msg_of w t idxs owners = Val (inl ErrWalletEncrypted)).
Proof.
  unfold sign_tx. split.
  - intros ->. reflexivity.
  - intros Hk He. rewrite He. destruct (w_kind w); try reflexivity. congruence.
Qed.

(* the header precondition, explicitly: SignTransaction succeeds only on a
   transaction whose InnerHash field is the hash of its body, and the result
   carries that same hash; any other InnerHash (null, of another transaction,
   corrupted) is refused before anything is signed *)
Lemma sign_tx_inner_ok (sign : Z -> Z -> Z) (addr_of : Z -> Z) (msg_of : Z -> Z -> Z) w t idxs owners t' :
  sign_tx sign addr_of msg_of w t idxs owners = Val (inr t') ->
  s_inner t = s_inner_actual t /\ s_inner t' = s_inner_actual t /\ s_inner_actual t' = s_inner_actual t.
Proof.
  unfold sign_tx. intros H.
  assert (Hk : w_kind w <> KXPub) by (intros Hc; rewrite Hc in H; discriminate).
  destruct (w_kind w); try congruence;
  (destruct (w_encrypted w); [discriminate|];
   destruct (negb (s_inner_actual t =? s_inner t)) eqn:Ei; [discriminate|];
   destruct (len (s_sigs t) =? 0); [discriminate|];
   destruct (is_fully_signed (s_sigs t)); [discriminate|];
   destruct (len (s_ins t) =? 0); [discriminate|];
   destruct (negb (len owners =? len (s_ins t))); [discriminate|];
   destruct (validate_idx idxs (len owners)); [discriminate|]; cbv zeta in H;
   apply bindR_ok in H; destruct H as (am & _ & H);
   destruct (negb (len (scan_entries addr_of (w_entries w) am []) =? len am)); [discriminate|];
   apply bindR_ok in H; destruct H as (sigs' & _ & H);
   destruct ((len idxs =? 0) || (len idxs =? len (filter (fun s => s =? 0) (s_sigs t))));
   [destruct (negb (is_fully_signed sigs')); [discriminate|]|destruct (is_fully_signed sigs'); [discriminate|]];
   injection H as <-; cbn [s_inner s_inner_actual]; repeat split; lia).
Qed.

Lemma sign_tx_bad_inner (sign : Z -> Z -> Z) (addr_of : Z -> Z) (msg_of : Z -> Z -> Z) w t idxs owners :
  w_kind w <> KXPub -> w_encrypted w = false -> s_inner t <> s_inner_actual t ->
  sign_tx sign addr_of msg_of w t idxs owners = Val (inl ESInner).
Proof.
  intros Hk He Hi. unfold sign_tx. rewrite He.
  replace (s_inner_actual t =? s_inner t) with false by lia. cbn [negb].
  destruct (w_kind w); try reflexivity. congruence.
Qed.
