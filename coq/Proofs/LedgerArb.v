(* Proofs/LedgerArb.v — the arbitrating mode of processTransactions (block
   publisher configuration): whatever it is offered, the transactions it keeps
   satisfy what the unspent-set update needs (txns_ok) and are among the offered
   ones; C01/C02/C04 for histories executed by an arbitrating node. *)
From Sky Require Import Base.Uint Model.Ledger Model.LedgerSpec
  Proofs.LedgerBasics Proofs.LedgerProofs Proofs.LedgerUtxo Proofs.LedgerAppend.
From Coq Require Import Lia ZifyBool Permutation.
Open Scope Z_scope.

(* ---- sorting keeps a subset of the offered transactions *)
Lemma sortable_incl pool ht ts : forall l, sortable pool ht ts = Val l ->
  forall kt, In kt l -> In (snd kt) ts.
Proof.
  induction ts as [|t r IH]; cbn [sortable]; intros l H kt Hin.
  - inversion H; subst. contradiction.
  - destruct (fee_of pool ht t) as [|[fee|]]; cbn [bind] in H; try discriminate.
    + destruct (fee_prio fee (t_size t)) as [|k]; cbn [bind] in H; [discriminate|].
      destruct (sortable pool ht r) as [|r']; cbn [bind] in H; [discriminate|].
      inversion H; subst. destruct Hin as [Hin|Hin].
      * subst kt. left. reflexivity.
      * right. exact (IH r' eq_refl kt Hin).
    + right. exact (IH l H kt Hin).
Qed.
Lemma insert_by_in x l y : In y (insert_by x l) -> y = x \/ In y l.
Proof.
  induction l as [|z r IH]; cbn [insert_by]; intros H.
  - destruct H as [H|[]]; auto.
  - destruct (less z x).
    + destruct H as [H|H]; [right; left; assumption|].
      destruct (IH H) as [H1|H1]; [left; assumption|right; right; assumption].
    + destruct H as [H|H]; [left; auto|right; assumption].
Qed.
Lemma isort_in l y : In y (fold_right insert_by [] l) -> In y l.
Proof.
  induction l as [|x r IH]; cbn [fold_right]; intros H; [contradiction|].
  destruct (insert_by_in _ _ _ H) as [H1|H1]; [left; auto|right; auto].
Qed.
Lemma sort_txns_incl pool ht ts sorted : sort_txns pool ht ts = Val sorted -> incl sorted ts.
Proof.
  unfold sort_txns. destruct (sortable pool ht ts) as [|l] eqn:E; cbn [bind]; [discriminate|].
  intros H. inversion H; subst. intros t Ht. apply in_map_iff in Ht. destruct Ht as [kt [Hk1 Hk2]].
  subst t. apply (sortable_incl _ _ _ _ E). apply isort_in. assumption.
Qed.

(* ---- first loop *)
Lemma outs_arb_false pool outs : forall seen seen', outs_arb pool seen outs = (false, seen') ->
  outs_unique pool seen outs = inr seen'.
Proof.
  induction outs as [|o r IH]; cbn [outs_arb outs_unique]; intros seen seen' H.
  - inversion H; subst. reflexivity.
  - destruct (memZ (o_id o) seen) eqn:E1; cbn [orb] in H; [discriminate|].
    destruct (memZ (o_id o) (ids pool)) eqn:E2; [discriminate|].
    exact (IH _ _ H).
Qed.
Lemma outs_arb_seen pool outs : forall seen, NoDup seen ->
  NoDup (snd (outs_arb pool seen outs)) /\ incl seen (snd (outs_arb pool seen outs)).
Proof.
  induction outs as [|o r IH]; cbn [outs_arb]; intros seen Hn.
  - cbn [snd]. split; [assumption|apply incl_refl].
  - destruct (memZ (o_id o) seen) eqn:E1; cbn [orb].
    + cbn [snd]. exact (IH seen Hn).
    + destruct (memZ (o_id o) (ids pool)) eqn:E2.
      * cbn [snd]. exact (IH seen Hn).
      * apply memZ_false in E1.
        destruct (IH (o_id o :: seen) (NoDup_cons _ E1 Hn)) as [H1 H2].
        split; [assumption|]. intros x Hx. apply H2. right. assumption.
Qed.

Lemma loop1_arb_spec pool head ts : forall seen l, loop1_arb pool head seen ts = Some l -> NoDup seen ->
  incl l ts /\
  Forall (fun t => block_txn_constraints pool head t = Pass) l /\
  NoDup (out_ids l) /\
  (forall x, In x (out_ids l) -> ~ In x seen) /\
  Forall (fun x => ~ In x (ids pool)) (out_ids l).
Proof.
  induction ts as [|t r IH]; cbn [loop1_arb]; intros seen l H Hn.
  - inversion H; subst. split; [intros x Hx; contradiction|]. split; [constructor|]. split; [constructor|].
    split; [intros x Hx; contradiction|constructor].
  - destruct (block_txn_constraints pool head t) eqn:Eb; [| |discriminate].
    + (* t passes its own checks *)
      destruct (outs_arb pool seen (t_outs t)) as [sk seen'] eqn:Eo. cbn [fst snd] in H.
      pose proof (outs_arb_seen pool (t_outs t) seen Hn) as Hs. rewrite Eo in Hs. cbn [snd] in Hs.
      destruct Hs as [Hn' Hinc].
      destruct (loop1_arb pool head seen' r) as [l0|] eqn:El; [|discriminate].
      destruct (IH _ _ El Hn') as [I1 [I2 [I3 [I4 I5]]]].
      destruct sk; inversion H; subst l.
      * (* skipped because of a duplicate output *)
        repeat split; try assumption.
        -- intros x Hx. right. apply I1. assumption.
        -- intros x Hx Hs. apply (I4 x Hx). apply Hinc. assumption.
      * (* kept *)
        pose proof (outs_arb_false _ _ _ _ Eo) as Hu.
        destruct (outs_unique_spec _ _ _ _ Hu) as [U1 [U2 U3]].
        assert (Hids : forall x, In x (map o_id (t_outs t)) -> In x seen').
        { intros x Hx. rewrite U1. apply in_or_app. left. apply in_rev in Hx. assumption. }
        assert (Hnd : NoDup (rev (map o_id (t_outs t)) ++ seen)) by (rewrite <- U1; assumption).
        repeat split.
        -- intros x [Hx|Hx]; [left; assumption|right; apply I1; assumption].
        -- constructor; assumption.
        -- rewrite out_ids_cons. apply NoDup_app_intro.
           ++ apply NoDup_rev_iff. exact (NoDup_app_l _ _ Hnd).
           ++ assumption.
           ++ intros x Hx Hx0. exact (I4 x Hx0 (Hids x Hx)).
        -- intros x Hx. rewrite out_ids_cons in Hx. apply in_app_or in Hx. destruct Hx as [Hx|Hx].
           ++ apply (NoDup_app_disj _ _ x Hnd). apply in_rev. rewrite rev_involutive. assumption.
           ++ intros Hs. apply (I4 x Hx). apply Hinc. assumption.
        -- rewrite out_ids_cons. apply Forall_app. split; [|assumption].
           apply Forall_forall. intros x Hx. apply in_map_iff in Hx. destruct Hx as [o [Ho1 Ho2]].
           subst x. rewrite Forall_forall in U3. auto.
    + (* t fails a hard constraint: skipped *)
      destruct (IH _ _ H Hn) as [I1 [I2 [I3 [I4 I5]]]].
      repeat split; try assumption. intros x Hx. right. apply I1. assumption.
Qed.

(* ---- second loop *)
Lemma out_ids_incl l l' : incl l' l -> incl (out_ids l') (out_ids l).
Proof.
  intros H x Hx. apply in_out_ids in Hx. destruct Hx as [t [o [Ht [Ho Hxo]]]].
  apply in_out_ids. exists t, o. auto.
Qed.
Lemma arb2_spec l : forall kept l', arb2 kept l = inr l' ->
  incl l' l /\
  (forall t s, In t l' -> In s kept -> shares_input s t = false) /\
  (NoDup (out_ids l) -> NoDup (out_ids l')) /\
  (Forall (fun t => NoDup (t_ins t)) l -> NoDup (all_ins l')).
Proof.
  induction l as [|t r IH]; cbn [arb2]; intros kept l' H.
  - inversion H; subst. split; [intros x Hx; contradiction|]. split; [intros t s Ht; contradiction|].
    split; intros _; constructor.
  - destruct (existsb (fun s => shares_input s t) kept) eqn:Ek.
    + destruct (IH _ _ H) as [I1 [I2 [I3 I4]]]. repeat split.
      * intros x Hx. right. apply I1. assumption.
      * assumption.
      * intros Hn. rewrite out_ids_cons in Hn. apply I3. exact (NoDup_app_r _ _ Hn).
      * intros Hf. inversion Hf; subst. auto.
    + destruct (existsb (fun u => t_hash t =? t_hash u) r); [discriminate|].
      destruct (arb2 (t :: kept) r) as [e|l''] eqn:Ea; [discriminate|].
      inversion H; subst l'. destruct (IH _ _ Ea) as [I1 [I2 [I3 I4]]]. repeat split.
      * intros x [Hx|Hx]; [left; assumption|right; apply I1; assumption].
      * intros u s [Hu|Hu] Hs.
        -- subst u. destruct (shares_input s t) eqn:E; [|reflexivity].
           assert (Hex : existsb (fun s0 => shares_input s0 t) kept = true)
             by (apply existsb_exists; exists s; auto). congruence.
        -- apply I2; [assumption|right; assumption].
      * intros Hn. rewrite out_ids_cons in *. apply NoDup_app_intro.
        -- exact (NoDup_app_l _ _ Hn).
        -- apply I3. exact (NoDup_app_r _ _ Hn).
        -- intros x Hx Hx'. apply (NoDup_app_disj _ _ x Hn Hx). exact (out_ids_incl _ _ I1 x Hx').
      * intros Hf. inversion Hf as [|? ? Ht Hr]; subst. cbn [all_ins flat_map]. apply NoDup_app_intro.
        -- assumption.
        -- exact (I4 Hr).
        -- intros a Ha Hin. apply in_all_ins in Hin. destruct Hin as [u [Hu Hau]].
           assert (Hsh : shares_input t u = false) by (apply I2; [assumption|left; reflexivity]).
           exact (shares_input_false _ _ Hsh a Ha Hau).
Qed.

Lemma process_txns_arb_ok pool head ts l : process_txns_arb pool head ts = ArbOk l ->
  txns_ok pool head l /\ incl l ts.
Proof.
  unfold process_txns_arb. destruct (sort_txns pool (h_time (b_head head)) ts) as [|sorted] eqn:Es; [discriminate|].
  destruct (loop1_arb pool head [] sorted) as [l1|] eqn:E1; [|discriminate].
  destruct (arb2 [] l1) as [e|l2] eqn:E2; [discriminate|].
  intros H. inversion H; subst l.
  destruct (loop1_arb_spec _ _ _ _ _ E1 (NoDup_nil _)) as [L1 [L2 [L3 [_ L5]]]].
  destruct (arb2_spec _ _ _ E2) as [A1 [_ [A3 A4]]].
  split.
  - unfold txns_ok. repeat split.
    + rewrite Forall_forall in *. intros t Ht. apply L2. apply A1. assumption.
    + exact (A3 L3).
    + rewrite Forall_forall in *. intros x Hx. apply L5. exact (out_ids_incl _ _ A1 x Hx).
    + apply A4. rewrite Forall_forall in *. intros t Ht.
      destruct (block_txn_inv0 _ _ _ (L2 t Ht)) as [u [_ [_ [N _]]]]. assumption.
  - intros t Ht. apply (sort_txns_incl _ _ _ _ Es). apply L1. apply A1. assumption.
Qed.

(* ------------------------------------------------------------------ exec_block_arb *)
Lemma exec_arb_accept_inv s b s' : exec_block_arb s b = (s', Accepted) ->
  exists head rest kept spent,
    chain s = head :: rest /\
    b_sig_ok b = true /\
    eqb_option Z.eqb (option_map b_hash (genesis_of (chain s))) (Some (b_hash b)) = false /\
    verify_header head b = Pass /\
    process_txns_arb (utxo s) head (b_txns b) = ArbOk kept /\
    h_uxhash (b_head b) = xorsum s /\
    ~ In (b_hash b) (map b_hash (chain s)) /\
    get_array (all_ins kept) (utxo s) = Some spent /\
    insert_ok s (set_txns b kept) = true /\
    s' = apply_block s (set_txns b kept) spent.
Proof.
  unfold exec_block_arb. destruct (chain s) as [|head rest] eqn:Ec; [intros H; inversion H|].
  cbv zeta.
  match goal with |- context [match ?c with Pass => _ | Fail _ => _ | Boom => _ end] => destruct c eqn:Hpre end;
    try (intros H; inversion H; fail).
  destruct (process_txns_arb (utxo s) head (b_txns b)) as [kept|e|] eqn:Ep; try (intros H; inversion H; fail).
  match goal with |- context [match ?c with Pass => _ | Fail _ => _ | Boom => _ end] => destruct c eqn:Hpost end;
    try (intros H; inversion H; fail).
  destruct (get_array (all_ins kept) (utxo s)) as [spent|] eqn:Ega; [|intros H; inversion H].
  change (forallb (fun u => negb (memZ (u_id u) (ids (remove_ids (all_ins kept) (utxo s))))) (created (set_txns b kept)))
    with (insert_ok s (set_txns b kept)).
  destruct (insert_ok s (set_txns b kept)) eqn:Eio; [|intros H; inversion H].
  intros H. inversion H; subst s'.
  chk_split Hpre. chk_split Hpost.
  apply guard_pass in Hc, Hc0, Hc1, Hpost.
  exists head, rest, kept, spent. repeat split; try assumption.
  - apply Bool.negb_true_iff in Hc0. exact Hc0.
  - lia.
  - apply Bool.negb_true_iff in Hpost. apply memZ_false in Hpost. exact Hpost.
Qed.

Lemma exec_arb_reject_noop s b s' o : exec_block_arb s b = (s', o) -> o <> Accepted -> s' = s.
Proof.
  unfold exec_block_arb. destruct (chain s) as [|head rest]; [intros H; inversion H; reflexivity|].
  cbv zeta.
  match goal with |- context [match ?c with Pass => _ | Fail _ => _ | Boom => _ end] => destruct c end;
    try (intros H; inversion H; reflexivity).
  destruct (process_txns_arb (utxo s) head (b_txns b)) as [kept|e|]; try (intros H; inversion H; reflexivity).
  match goal with |- context [match ?c with Pass => _ | Fail _ => _ | Boom => _ end] => destruct c end;
    try (intros H; inversion H; reflexivity).
  destruct (get_array (all_ins kept) (utxo s)); [|intros H; inversion H; reflexivity].
  match goal with |- context [if ?c then _ else _] => destruct c end;
    intros H; inversion H; subst; [congruence|reflexivity].
Qed.

Lemma run_arb_invariant (P : state -> Prop) (Q : block -> Prop) :
  (forall s b s', exec_block_arb s b = (s', Accepted) -> Q b -> P s -> P s') ->
  forall ops s, P s -> Forall (fun o => Q (op_block o)) ops -> P (run_arb s ops).
Proof.
  intros Hstep. induction ops as [|o r IH]; intros s Hs Hq; [exact Hs|].
  inversion Hq as [|? ? Hq1 Hq2]; subst. unfold run_arb. cbn [fold_left]. fold (run_arb (fst (step_arb s o)) r).
  apply IH; [|assumption]. destruct o as [b]. cbn [step_arb op_block] in *.
  destruct (exec_block_arb s b) as [s1 out] eqn:E. cbn [fst].
  destruct out.
  - exact (Hstep _ _ _ E Hq1 Hs).
  - rewrite (exec_arb_reject_noop _ _ _ _ E); [assumption|discriminate].
  - rewrite (exec_arb_reject_noop _ _ _ _ E); [assumption|discriminate].
Qed.

(* ---- C02 on an arbitrating node *)
Lemma reachable_utxo_arb g ops : genesis_wf g -> ids_consistent g (ops_txns ops) ->
  inv_utxo g (ops_txns ops) (run_arb (init_state g) ops).
Proof.
  intros Hg Hc.
  apply (run_arb_invariant (inv_utxo g (ops_txns ops)) (fun b => incl (b_txns b) (ops_txns ops))).
  - intros s b s' He Hq Hs.
    destruct (exec_arb_accept_inv _ _ _ He) as [head [rest [kept [spent [_ [_ [_ [_ [Hp [_ [_ [Hga [Hi Es]]]]]]]]]]]]].
    destruct (process_txns_arb_ok _ _ _ _ Hp) as [Hok Hinc]. subst s'.
    apply (apply_preserves_utxo_ok g (ops_txns ops) s (set_txns b kept) head spent); try assumption.
    cbn [set_txns b_txns]. intros t Ht. apply Hq. apply Hinc. assumption.
  - apply init_utxo. assumption.
  - apply Forall_forall. intros o Ho t Ht. unfold ops_txns. apply in_flat_map. exists o. auto.
Qed.
Lemma utxo_exact_arb g ops : genesis_wf g -> ids_consistent g (ops_txns ops) ->
  let s := run_arb (init_state g) ops in
  Permutation (ids (utxo s)) (list_minus (created_ids (chain s)) (spent_ids (chain s))).
Proof.
  intros Hg Hc s. destruct (reachable_utxo_arb g ops Hg Hc) as [I1 [I2 [I3 [I4 [I5 _]]]]]. fold s in I1, I2, I3, I4, I5.
  apply NoDup_Permutation; [assumption|unfold list_minus; apply NoDup_filter; assumption|].
  intros x. rewrite in_list_minus. apply I5.
Qed.
Lemma spent_once_arb g ops : genesis_wf g -> ids_consistent g (ops_txns ops) ->
  NoDup (spent_ids (chain (run_arb (init_state g) ops))).
Proof. intros Hg Hc. destruct (reachable_utxo_arb g ops Hg Hc) as [_ [_ [I3 _]]]. exact I3. Qed.
Lemma created_once_arb g ops : genesis_wf g -> ids_consistent g (ops_txns ops) ->
  NoDup (created_ids (chain (run_arb (init_state g) ops))).
Proof. intros Hg Hc. destruct (reachable_utxo_arb g ops Hg Hc) as [_ [I2 _]]. exact I2. Qed.

(* ---- C04 on an arbitrating node *)
Lemma append_sound_arb s b s' : step_arb s (ExecBlock b) = (s', Accepted) ->
  exists head rest stored,
    chain s = head :: rest /\
    b_sig_ok b = true /\
    h_seq (b_head b) = wrap 64 (h_seq (b_head head) + 1) /\
    h_time (b_head head) < h_time (b_head b) /\
    h_prev (b_head b) = b_hash head /\
    b_body_actual b = h_body (b_head b) /\
    h_uxhash (b_head b) = xorsum s /\
    (forall g, genesis_of (chain s) = Some g -> b_hash g <> b_hash b) /\
    ~ In (b_hash b) (map b_hash (chain s)) /\
    chain s' = stored :: chain s /\
    b_head stored = b_head b /\ b_hash stored = b_hash b /\ b_sig_ok stored = b_sig_ok b /\
    incl (b_txns stored) (b_txns b) /\ txns_ok (utxo s) head (b_txns stored).
Proof.
  cbn [step_arb]. intros He.
  destruct (exec_arb_accept_inv _ _ _ He) as [head [rest [kept [spent [Ec [Hs [Hgen [Hh [Hp [Hx [Hn [Hg [Hi Es]]]]]]]]]]]]].
  destruct (verify_header_inv _ _ Hh) as [V1 [V2 [V3 V4]]].
  destruct (process_txns_arb_ok _ _ _ _ Hp) as [[K1 [K2 [K3 K4]]] Hinc].
  exists head, rest, (set_txns b kept). subst s'. cbn [apply_block chain set_txns b_head b_hash b_sig_ok b_txns].
  unfold txns_ok. repeat split; try assumption. apply not_genesis_iff. assumption.
Qed.
Lemma reject_noop_arb s o s' out : step_arb s o = (s', out) -> out <> Accepted -> s' = s.
Proof. destruct o as [b]. cbn [step_arb]. apply exec_arb_reject_noop. Qed.
