(* Proofs/BipConsts.v — the model's BIP32 constants are the ones in bip32.go (regenerated),
   and a concrete well-formed sentence. *)
From Coq Require Import ZArith List String.
From Sky Require Import Model.Secp Model.Bip Model.BipWords Gen.Bip32Consts.
Import ListNotations.
Open Scope Z_scope.

Lemma bip_consts_match_go :
  hardened = go_bip32_FirstHardenedChild /\ hardened = 2 ^ 31 /\
  xprv_version = go_bip32_PrivateWalletVersion /\ xpub_version = go_bip32_PublicWalletVersion.
Proof. repeat split; vm_compute; reflexivity. Qed.

Lemma example_sentence :
  split_mnemonic english_words
    (join 32 (repeat (bytes_of_string "abandon") 11 ++ [bytes_of_string "about"]))
  = inr (repeat 0 11 ++ [3]).
Proof. vm_compute. reflexivity. Qed.
