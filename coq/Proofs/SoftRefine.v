(* Proofs/SoftRefine.v — the hand-written model of fee.TransactionFee in
   Model/Soft.v is EQUAL, for all inputs, to the Gallina regenerated from
   src/util/fee/fee.go on every run (Gen/FeeTxn.v), whose calls
   inUxs.CoinHours(headTime) and tx.OutputHours() are the regenerated
   Gen/CoinLoops.v functions. Arguments: the projections named in the
   translator's manifest (tx.Out -> Hours; inUxs -> (Head.Time, Body.Coins, Body.Hours)). *)
From Sky Require Import Base.Uint Model.ArithSpec Model.HoursSpec Model.Hours Model.SoftSpec Model.Soft
  Gen.Mathutil Gen.Fee Gen.CoinHours Gen.CoinLoops Gen.FeeTxn Proofs.HoursRefine.
Open Scope Z_scope.

Lemma TransactionFee_refines : forall T ins outs,
  Soft.TransactionFee T ins outs = FeeTxn.TransactionFee (outs_hours outs) T (ins_proj ins).
Proof.
  intros T ins outs. unfold Soft.TransactionFee, FeeTxn.TransactionFee.
  rewrite UxArray_CoinHours_refines, OutputHours_refines.
  destruct (CoinLoops.UxArray_CoinHours (ins_proj ins) T) as [|[inHours e]]; cbn [bind]; [reflexivity|].
  destruct (is_err e); [reflexivity|].
  destruct (CoinLoops.Transaction_OutputHours (outs_hours outs)) as [|[outHours e2]]; cbn [bind]; [reflexivity|].
  destruct (is_err e2); reflexivity.
Qed.

(* fee.VerifyTransactionFee *)
Lemma VerifyTransactionFee_refines : forall outs f burn,
  Soft.VerifyTransactionFee outs f burn = FeeTxn.VerifyTransactionFee (outs_hours outs) f burn.
Proof.
  intros outs f burn. unfold Soft.VerifyTransactionFee, FeeTxn.VerifyTransactionFee.
  rewrite OutputHours_refines.
  destruct (CoinLoops.Transaction_OutputHours (outs_hours outs)) as [|[hours e]]; cbn [bind]; [reflexivity|].
  destruct (is_err e); [reflexivity|].
  destruct (Fee.VerifyTransactionFeeForHours hours f burn); reflexivity.
Qed.
