(* Proofs for C19 (Model/WalletService.v). *)
From Coq Require Import List String Bool ZArith Lia.
From Sky Require Import Base.Uint Model.WalletService.
Import ListNotations.
Open Scope Z_scope.

(* ------------------------------------------------------------------ strings *)

Lemma seqb_refl : forall a, String.eqb a a = true.
Proof. apply String.eqb_refl. Qed.
Lemma seqb_true : forall a b, String.eqb a b = true -> a = b.
Proof. intros. now apply String.eqb_eq. Qed.
Lemma seqb_false : forall a b, String.eqb a b = false -> a <> b.
Proof. intros a b H E. subst. rewrite seqb_refl in H. discriminate. Qed.
Lemma seqb_neq : forall a b, a <> b -> String.eqb a b = false.
Proof. intros a b H. destruct (String.eqb a b) eqn:E; auto. apply seqb_true in E. contradiction. Qed.

(* ------------------------------------------------------------------ find / put / del *)

Lemma find_name : forall n l w, find n l = Some w -> w_name w = n.
Proof.
  induction l as [|x r IH]; cbn; intros w H; [discriminate|].
  destruct (String.eqb (w_name x) n) eqn:E.
  - inversion H. subst. now apply seqb_true.
  - auto.
Qed.

Lemma find_In : forall n l w, find n l = Some w -> In w l.
Proof.
  induction l as [|x r IH]; cbn; intros w H; [discriminate|].
  destruct (String.eqb (w_name x) n); [inversion H; auto | right; auto].
Qed.

Lemma find_put : forall n w l,
  find n (put w l) = if String.eqb (w_name w) n then Some w else find n l.
Proof.
  induction l as [|x r IH]; cbn.
  - reflexivity.
  - destruct (String.eqb (w_name x) (w_name w)) eqn:E; cbn.
    + apply seqb_true in E. rewrite E. destruct (String.eqb (w_name w) n); reflexivity.
    + rewrite IH. destruct (String.eqb (w_name x) n) eqn:E2; auto.
      apply seqb_true in E2. subst n.
      rewrite seqb_neq; auto. apply seqb_false in E. congruence.
Qed.

Lemma find_del : forall n m l,
  find n (del m l) = if String.eqb m n then None else find n l.
Proof.
  induction l as [|x r IH]; cbn.
  - destruct (String.eqb m n); reflexivity.
  - destruct (String.eqb (w_name x) m) eqn:E; cbn.
    + rewrite IH. apply seqb_true in E. subst m.
      destruct (String.eqb (w_name x) n); reflexivity.
    + rewrite IH. destruct (String.eqb (w_name x) n) eqn:E2; auto.
      apply seqb_true in E2. subst n. apply seqb_false in E.
      rewrite seqb_neq; auto.
Qed.

Definition uniq (l : list wallet) : Prop := NoDup (map w_name l).

Lemma In_find : forall l x, uniq l -> In x l -> find (w_name x) l = Some x.
Proof.
  induction l as [|y r IH]; cbn; intros x U H; [contradiction|].
  inversion U as [|? ? Hn U']. subst.
  destruct H as [H|H].
  - subst. now rewrite seqb_refl.
  - destruct (String.eqb (w_name y) (w_name x)) eqn:E.
    + apply seqb_true in E. exfalso. apply Hn. rewrite E. now apply in_map.
    + now apply IH.
Qed.

Lemma names_put : forall w l n, In n (map w_name (put w l)) <-> n = w_name w \/ In n (map w_name l).
Proof.
  induction l as [|x r IH]; cbn; intros n.
  - intuition.
  - destruct (String.eqb (w_name x) (w_name w)) eqn:E; cbn.
    + apply seqb_true in E. rewrite E. intuition.
    + rewrite IH. intuition.
Qed.

Lemma uniq_put : forall w l, uniq l -> uniq (put w l).
Proof.
  unfold uniq. induction l as [|x r IH]; cbn; intros U.
  - constructor; [intros []|constructor].
  - inversion U as [|? ? Hn U']. subst.
    destruct (String.eqb (w_name x) (w_name w)) eqn:E; cbn.
    + apply seqb_true in E. constructor; auto. now rewrite <- E.
    + constructor; auto. rewrite names_put. intros [H|H]; auto.
      apply seqb_false in E. congruence.
Qed.

Lemma names_del : forall m l n, In n (map w_name (del m l)) -> In n (map w_name l).
Proof.
  induction l as [|x r IH]; cbn; intros n H; auto.
  destruct (String.eqb (w_name x) m); cbn in H; intuition.
Qed.

Lemma uniq_del : forall m l, uniq l -> uniq (del m l).
Proof.
  unfold uniq. induction l as [|x r IH]; cbn; intros U; auto.
  inversion U as [|? ? Hn U']. subst.
  destruct (String.eqb (w_name x) m); cbn; auto.
  constructor; auto. intros H. apply Hn. eapply names_del; eauto.
Qed.

(* ------------------------------------------------------------------ small sets *)

Lemma mem_str_cons : forall n m u, mem_str n (m :: u) = String.eqb n m || mem_str n u.
Proof. reflexivity. Qed.

Lemma mem_str_del_same : forall n u, mem_str n (del_str n u) = false.
Proof.
  unfold mem_str, del_str. induction u as [|x r IH]; cbn; auto.
  destruct (String.eqb x n) eqn:E; cbn; auto.
  rewrite IH. apply seqb_false in E. rewrite seqb_neq; auto.
Qed.

Lemma mem_str_del_other : forall n m u, n <> m -> mem_str n (del_str m u) = mem_str n u.
Proof.
  unfold mem_str, del_str. induction u as [|x r IH]; cbn; intros H; auto.
  destruct (String.eqb x m) eqn:E; cbn.
  - apply seqb_true in E. subst x. rewrite (seqb_neq n m H). cbn. auto.
  - rewrite IH; auto.
Qed.

Lemma has_fp_cons : forall f g n l, has_fp f ((g, n) :: l) = (g =? f) || has_fp f l.
Proof. reflexivity. Qed.

Lemma has_fp_del : forall f g l, has_fp f (del_fp g l) = negb (f =? g) && has_fp f l.
Proof.
  unfold has_fp, del_fp. induction l as [|[h n] r IH]; cbn.
  - now rewrite andb_false_r.
  - destruct (h =? g) eqn:E; cbn.
    + rewrite IH. apply Z.eqb_eq in E. subst h. rewrite (Z.eqb_sym f g).
      destruct (g =? f); cbn; auto.
    + rewrite IH. destruct (h =? f) eqn:E2; cbn; auto.
      apply Z.eqb_eq in E2. subst h. rewrite E. reflexivity.
Qed.

(* ------------------------------------------------------------------ the invariant *)

Record inv (s : st) : Prop := mkInv {
  i_umem : uniq (mem s);
  i_udisk : uniq (disk s);
  (* a non-temporary wallet in memory is exactly its file *)
  i_md : forall n w, find n (mem s) = Some w -> w_temp w = false -> find n (disk s) = Some w;
  (* a file without a non-temporary wallet in memory was unloaded *)
  i_u1 : forall n x, find n (disk s) = Some x ->
           (forall m, find n (mem s) = Some m -> w_temp m = true) -> mem_str n (unloaded s) = true;
  i_u2 : forall n w, find n (mem s) = Some w -> w_temp w = false -> mem_str n (unloaded s) = false;
  (* serv.fingerprints = the fingerprints of the wallets in memory *)
  i_f : forall f, has_fp f (fps s) = true <-> (f <> 0 /\ exists n w, find n (mem s) = Some w /\ fp w = f);
  i_fm : forall n1 n2 a b, find n1 (mem s) = Some a -> find n2 (mem s) = Some b ->
           fp a = fp b -> fp a <> 0 -> n1 = n2;
  i_fd : forall n1 n2 a b, find n1 (disk s) = Some a -> find n2 (disk s) = Some b ->
           fp a = fp b -> fp a <> 0 -> n1 = n2;
  i_nm : forall n w, find n (mem s) = Some w -> w_type w <> TColl -> 1 <= w_n w;
  i_nd : forall n w, find n (disk s) = Some w -> w_type w <> TColl -> 1 <= w_n w;
  i_ok : forall n w, find n (disk s) = Some w -> name_ok n = true;
  i_et : forall n w, find n (mem s) = Some w -> w_enc w = true -> w_temp w = false }.

Lemma inv_init : inv init.
Proof.
  constructor; cbn; try (intros; discriminate); try constructor.
  - intros H. discriminate.
  - intros [_ (n & w & H & _)]. discriminate.
Qed.
